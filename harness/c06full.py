"""C06 (full) — create_job as ONE model function, fed only the raw documents and the caller's values.

The Coq function `CreateJobFull.create_job_docs` decodes the job template and the environment templates
(the acceptance model), reads the parameter definitions out of the decoded instances (`pdef_of_mval`),
merges them, preprocesses the values as create_job does (Path() for both directories, walk-up allowed),
builds the symbol table, instantiates and validates.  This module compares it with the real

    decode_job_template / decode_environment_template / create_job(job_template=, job_parameter_values=, environment_templates=)

on: the exception family (a Job | DecodeValidationError | anything else), the returned Job
(`model_to_object` vs `Export.export`), and the definitions as read by `pdef_of_mval` vs the attribute
reads of harness/jobparams_common.def_sx on the implementation's decoded objects.

Not registered in MANIFEST.json; run as
    cd <verif> && VERIF_JOBS=6 PYTHONHASHSEED=0 PYTHONPATH=/repo/src /venv/bin/python harness/c06full.py quick
(evidence goes to evidence/C06F.json; props/C06F.v only re-exports props/C06x.v).
"""
import random
import sys
from decimal import Decimal
from pathlib import Path

sys.path.insert(0, str(Path(__file__).resolve().parent))
import core  # noqa: E402
import gen_template as G  # noqa: E402
import mutate as M  # noqa: E402
import jobparams_common as jc  # noqa: E402
import c06 as C6  # noqa: E402

from openjd.model import (  # noqa: E402
    DecodeValidationError, ParameterValue, ParameterValueType, create_job,
    decode_environment_template, decode_job_template, model_to_object,
)

_jt, _et = C6._jt, C6._et
_SRC_CHARS = "".join(sorted({c for p in (__file__, jc.__file__) for c in Path(p).read_text() if ord(c) > 127} | {chr(c) for c in jc.DEC_SPACE if c > 127} | set(jc.UNI_DIGITS)))

PATH_POOL = ["", "a", "a/b", "a//b", "./a", "a/.", "a/", "a/./b", "/a//b", "//a", "///a", "/", "//", ".", "..", "a/../b", "../up", "./", "/.", "a/b/", "/abs/p", "rel/p",
             " ", "a b", "é/ü", "\x00", "a\nb", "~", "~/x", "C:\\x", "a\\b", "x" * 1024, "x" * 1025, "/" + "x" * 1023, "./" + "x" * 1023, "{{Param.X}}"]
NUM_POOL = ["0", "-0", "+0", "5", "-5", "007", "1_0", " 7 ", "+3", "1.5", "1.50", "1e2", "1E-3", ".5", "5.", "NaN", "sNaN", "Infinity", "-Infinity", "inf", "abc", "", " ", "True",
            "3.0", "2.50", "10", "9" * 40, "1" + "0" * 300, "9223372036854775807", "-9223372036854775808", "18446744073709551616", "1e-400", "0e5", "\t4\n", "1 2", "1__0", "_1"]

# targeted fixed inputs, run first (after the corpus of c06.py)
CORPUS = [
    # PATH values: relative ones are normalised by str(Path() / v), absolute and empty ones are kept verbatim
    {"doc": dict(_jt([{"name": "P", "type": "PATH"}]), name="{{RawParam.P}}"), "envs": [], "vals": {"P": v}} for v in PATH_POOL[:24]
] + [
    # constraints are checked on the JOINED value: "a//b" has length 4, its stored form "a/b" length 3
    {"doc": _jt([{"name": "P", "type": "PATH", "maxLength": 3}]), "envs": [], "vals": {"P": "a//b"}},
    {"doc": _jt([{"name": "P", "type": "PATH", "minLength": 4}]), "envs": [], "vals": {"P": "a//b"}},
    {"doc": _jt([{"name": "P", "type": "PATH", "allowedValues": ["a/b"]}]), "envs": [], "vals": {"P": "a//b"}},
    {"doc": _jt([{"name": "P", "type": "PATH", "allowedValues": ["a//b"]}]), "envs": [], "vals": {"P": "a//b"}},
    {"doc": _jt([{"name": "P", "type": "PATH", "allowedValues": ["a//b"], "default": "a//b"}]), "envs": [], "vals": {}},       # a default is NOT joined in server mode
    {"doc": _jt([{"name": "P", "type": "PATH", "default": "/abs//x"}]), "envs": [], "vals": {}},
    {"doc": _jt([{"name": "P", "type": "PATH", "default": "../../up"}]), "envs": [], "vals": {}},
    {"doc": _jt([{"name": "P", "type": "PATH", "default": ""}]), "envs": [], "vals": {}},
    {"doc": _jt([{"name": "P", "type": "PATH", "minLength": 1}]), "envs": [], "vals": {"P": ""}},
    # an environment template re-constrains / adds / conflicts
    {"doc": _jt([{"name": "I", "type": "INT", "minValue": 1, "default": 7}]), "envs": [_et([{"name": "I", "type": "INT", "maxValue": 10}])], "vals": {}},
    {"doc": _jt([{"name": "I", "type": "INT", "minValue": 1, "default": 7}]), "envs": [_et([{"name": "I", "type": "INT", "maxValue": 10}])], "vals": {"I": "11"}},
    {"doc": _jt([{"name": "I", "type": "INT", "minValue": 1}]), "envs": [_et([{"name": "I", "type": "INT", "default": 3}])], "vals": {}},            # env default used
    {"doc": _jt([{"name": "I", "type": "INT", "default": 2}]), "envs": [_et([{"name": "I", "type": "INT", "default": 3}])], "vals": {}},             # last default wins
    {"doc": _jt([{"name": "I", "type": "INT", "default": 2}]), "envs": [_et([{"name": "I", "type": "INT", "default": 3, "minValue": 3}])], "vals": {}},   # merged default violates merged bound
    {"doc": _jt([{"name": "S", "type": "STRING"}]), "envs": [_et([{"name": "E", "type": "STRING", "default": "e"}])], "vals": {"S": "s"}},          # env-only parameter: bound, not a Job parameter
    {"doc": _jt([{"name": "S", "type": "STRING"}]), "envs": [_et([{"name": "E", "type": "STRING"}])], "vals": {"S": "s"}},                           # env-only parameter without value
    {"doc": _jt([{"name": "S", "type": "STRING"}]), "envs": [_et([{"name": "E", "type": "STRING"}])], "vals": {"S": "s", "E": "x"}},
    {"doc": _jt([{"name": "S", "type": "STRING"}]), "envs": [_et([{"name": "S", "type": "PATH"}])], "vals": {"S": "s"}},                             # type clash
    {"doc": _jt([{"name": "A", "type": "STRING"}, {"name": "B", "type": "INT"}]), "envs": [_et([{"name": "B", "type": "FLOAT"}]), _et([{"name": "A", "type": "PATH"}])], "vals": {"A": "s", "B": "1"}},
    {"doc": _jt([{"name": "P", "type": "PATH", "objectType": "FILE"}]), "envs": [_et([{"name": "P", "type": "PATH"}])], "vals": {"P": "x"}},        # FILE vs default DIRECTORY
    {"doc": _jt([{"name": "P", "type": "PATH", "dataFlow": "IN"}]), "envs": [_et([{"name": "P", "type": "PATH", "dataFlow": "OUT"}])], "vals": {"P": "x"}},
    {"doc": _jt([{"name": "P", "type": "PATH", "dataFlow": "IN"}]), "envs": [_et([{"name": "P", "type": "PATH"}])], "vals": {"P": "x"}},
    {"doc": _jt([{"name": "F", "type": "FLOAT", "allowedValues": [1, "2.0", 2.5]}]), "envs": [_et([{"name": "F", "type": "FLOAT", "allowedValues": ["1.00", 2]}])], "vals": {"F": "2"}},
    {"doc": _jt([{"name": "F", "type": "FLOAT", "allowedValues": [1, "2.0", 2.5]}]), "envs": [_et([{"name": "F", "type": "FLOAT", "allowedValues": ["1.00", 2]}])], "vals": {"F": "2.5"}},
    {"doc": _jt([{"name": "F", "type": "FLOAT", "default": "1.50"}]), "envs": [], "vals": {}},                                                      # str(Decimal("1.50")) = "1.50"
    {"doc": _jt([{"name": "F", "type": "FLOAT", "default": "1E+3"}]), "envs": [], "vals": {}},
    {"doc": _jt([{"name": "F", "type": "FLOAT", "default": "0.0000001"}]), "envs": [], "vals": {}},                                                 # scientific notation of str(Decimal)
    {"doc": _jt([{"name": "F", "type": "FLOAT", "default": 1e-7}]), "envs": [], "vals": {}},
    {"doc": _jt([{"name": "I", "type": "INT", "default": "  12 "}]), "envs": [], "vals": {}},
    {"doc": _jt([{"name": "I", "type": "INT", "default": True}]), "envs": [], "vals": {}},
    {"doc": _jt([{"name": "I", "type": "INT"}]), "envs": [], "vals": {"I": "1", "J": "2"}},                                                         # extra name
    {"doc": _jt([]), "envs": [], "vals": {"J": "2"}},                                                                                                # extra name, no definitions at all
    {"doc": _jt([]), "envs": [_et([{"name": "E", "type": "INT"}])], "vals": {"E": "2"}},
    {"doc": dict(_jt([{"name": "S", "type": "STRING"}, {"name": "P", "type": "PATH"}]), name="{{Param.S}}{{RawParam.P}}"), "envs": [], "vals": {"S": "{{Param.P}}", "P": "./p"}},
]


def _neg_zero(x):
    return isinstance(x, Decimal) and x.is_zero() and x.is_signed()


def _big(a):
    return jc.unbig(a)


def _canon_def_model(d):
    """driver reply for one pdef -> the python shape of jobparams_common.def_sx"""
    def o(x, f):
        return "none" if x == "none" else ["some", f(x[1])]

    def num(n):
        return [_big(n[0]), _big(n[1])]

    def strs(x):
        return list(x) if isinstance(x, list) else x
    return [list(d[0]), d[1], o(d[2], num), o(d[3], num), o(d[4], lambda l: [num(n) for n in l]), o(d[5], lambda l: [list(s) for s in l]),
            o(d[6], _big), o(d[7], _big), o(d[8], list), o(d[9], lambda a: a), o(d[10], lambda a: a)]


def _from_wire(j):
    """reply json (integers of any size) -> python value as model_to_object prints it"""
    if j == "null":
        return None
    if j == "true":
        return True
    if j == "false":
        return False
    t = j[0]
    if t == "i":
        return _big(j[1])
    if t == "d":
        return ["DEC", _big(j[1]), _big(j[2])]
    if t == "s":
        return core.uncps(j[1:])
    if t == "a":
        return [_from_wire(x) for x in j[1:]]
    if t == "o":
        return {core.uncps(k): _from_wire(v) for k, v in j[1:]}
    raise ValueError(j)


class C06Full(core.PropBase):
    id = "C06"
    component = "c06full"
    extract_file = "ExtractC06Full.v"
    chars = C6.C06.chars + _SRC_CHARS
    uses_table = True
    chunk_size = 25
    theorem_for_mismatch = "C06_full_exn / C06_full_pdef_total; create_job_docs (decode + pdef_of_mval + merge + preprocess + symbol table + instantiate + validate) = implementation correspondence"
    assumptions = [
        "values supplied for INT / FLOAT parameters stay in the numeral domain of Numerals.v (every Unicode decimal digit is read as Python reads it; exponent text <= 3 digits); others are judged by the implementation alone",
        "a negative-zero Decimal default is outside NumPrint.v's domain (such templates are skipped)",
        "a template the DECODE model declares outside its domain (RuntimeError of the structural pydantic model) is judged by the implementation alone and counted; "
        "for create_job itself no such escape exists (C06_full_exn): any other reply of the model than a Job / DecodeValidationError is reported as a disagreement",
    ]

    def corpus_cases(self):
        return [G.deep(c) for c in C6.CORPUS] + [G.deep(c) for c in CORPUS]

    # ---------------------------------------------------------------- generators
    def small_case(self, rng):
        """a small template: 1-4 parameters, 0-3 environment templates that re-define some of them, values from the pools"""
        names = set()
        params = G.gen_job_params(rng, n=rng.choice([1, 1, 2, 3, 4]), names=names)
        for p in params:
            if p["type"] == "PATH" and rng.random() < 0.5:
                p.pop("userInterface", None)
                if rng.random() < 0.5:
                    p["default"] = rng.choice(PATH_POOL[:24])
                    p.pop("allowedValues", None)
                    p.pop("minLength", None)
                    p.pop("maxLength", None)
        syms = [("Param." if p["type"] != "PATH" else "RawParam.") + p["name"] for p in params]
        name = "J" + "".join("{{%s}}" % s for s in syms if rng.random() < 0.6)
        doc = dict(_jt(params), name=name or "J")
        envs = []
        for _ in range(rng.choice([0, 0, 1, 1, 2, 3])):
            k = rng.random()
            if k < 0.6:
                envs.append(C6.clashing_env(rng, doc))
            elif k < 0.8 and params:
                e = G.gen_env_template(rng)
                e["parameterDefinitions"] = [C6.conflicting_env(rng, rng.choice(params))]
                envs.append(e)
            else:
                envs.append(G.gen_env_template(rng))
        vals = {}
        allp = params + [p for e in envs for p in e.get("parameterDefinitions") or []]
        for p in allp:
            r = rng.random()
            if r < 0.12:
                continue
            if r < 0.55:
                try:
                    vals[p["name"]] = G.value_for(rng, p)
                    continue
                except Exception:  # noqa: BLE001
                    pass
            if p["type"] == "PATH":
                vals[p["name"]] = rng.choice(PATH_POOL)
            elif p["type"] in ("INT", "FLOAT"):
                vals[p["name"]] = rng.choice(NUM_POOL) if rng.random() < 0.8 else jc.rand_numeral(rng)
            else:
                vals[p["name"]] = rng.choice(C6.ADVERSARIAL + PATH_POOL)
        if rng.random() < 0.08:
            vals["NoSuchParameter"] = rng.choice(C6.ADVERSARIAL)
        return {"doc": doc, "envs": envs, "vals": vals}

    def cases(self, tier, seed):
        rng = random.Random(seed * 7919 + 606)
        n_small = 12000 if tier == "thorough" else 3000
        for _ in range(n_small):
            yield self.small_case(rng)
        # the full-size generator of c06.py (every step feature, mutated creation-time fields), own seed stream
        n_full = 5000 if tier == "thorough" else 1000
        k = 0
        for c in C6.PROP.cases("quick", seed * 31 + 17):
            yield c
            k += 1
            if k >= n_full:
                break
        if tier == "thorough":
            k = 0
            for c in C6.PROP.cases("thorough", seed * 31 + 18):
                yield c
                k += 1
                if k >= n_full:
                    break

    def rule(self, tier):
        return ("raw job template documents x 0-3 raw environment template documents (plain, re-defining the job's parameters compatibly / incompatibly, adding parameters) x value maps "
                "(accepted values, omissions, unknown names, adversarial numerals, PATH strings that pathlib normalises). The model side receives ONLY the documents and the values. "
                "Observables: create_job's exception family, the returned Job (model_to_object), and the parameter definitions as read from the decoded templates. "
                "distinct = by (document, envs, values)")

    def samples(self, tier, seed):
        rng = random.Random(seed)
        c = self.small_case(rng)
        return [{"parameters": [p["name"] + ":" + p["type"] for p in c["doc"].get("parameterDefinitions") or []], "envs": len(c["envs"]),
                 "values": {k: v[:40] for k, v in c["vals"].items()}}]

    # ---------------------------------------------------------------- implementation
    def impl(self, case):
        if "_io" in case:
            return case["_io"]
        try:
            jt = decode_job_template(template=G.deep(case["doc"]))
            ets = [decode_environment_template(template=G.deep(e)) for e in case["envs"]]
        except DecodeValidationError:
            case["_io"] = ["skip", "template-rejected"]
            return case["_io"]
        out = {}
        dom = None
        types = {}
        all_defs = []
        for t in ets + [jt]:
            for p in t.parameterDefinitions or []:
                all_defs.append(p)
                types.setdefault(p.name, p.type.value)
        for p in all_defs:
            if _neg_zero(p.default):
                dom = "negative-zero-default"
        for p in all_defs:
            if p.type.value in ("INT", "FLOAT") and p.name in case["vals"] and not jc.small_exponent(case["vals"][p.name]):
                dom = "numeral-domain"
        try:
            out["defs"] = [[jc.def_sx(p) for p in (t.parameterDefinitions or [])] for t in [jt] + ets]
        except Exception as e:  # noqa: BLE001
            out["defs"] = "unreadable:" + type(e).__name__
        pv = {k: ParameterValue(type=ParameterValueType(types.get(k, "STRING")), value=v) for k, v in case["vals"].items()}
        try:
            job = create_job(job_template=jt, job_parameter_values=pv, environment_templates=ets or None)
            out["create"] = "ok"
            out["job"] = model_to_object(model=job)
        except DecodeValidationError:
            out["create"] = "DecodeValidationError"
            out["job"] = None
        except BaseException as e:  # noqa: BLE001
            out["create"] = "other:" + type(e).__name__
            out["job"] = None
        case["_dom"] = dom
        case["_io"] = ["ok", out]
        return case["_io"]

    def requests(self, case):
        io = self.impl(case)
        if io[0] != "ok" or case.get("_dom"):
            return []                                      # outside the documented domain: no request (10^exponent would be computed)
        missing = core.doc_chars(case["doc"]) | core.doc_chars(case["vals"])
        for e in case["envs"]:
            missing |= core.doc_chars(e)
        if missing - set(self.chars):
            case["_dom"] = "chars-outside-table"
            return []
        try:
            doc = core.json_sx(case["doc"])
            envs = [core.json_sx(e) for e in case["envs"]]
        except ValueError:
            case["_dom"] = "document-outside-json-type"
            return []
        vals = [[core.cps(k), core.cps(v)] for k, v in case["vals"].items()]
        return [["create_full", doc, envs, vals], ["defs", "job", doc]] + [["defs", "env", e] for e in envs]

    def run_chunk(self, chunk):
        res = super().run_chunk(chunk)
        for c in chunk:
            c.pop("_io", None)
            c.pop("_dom", None)
        for m in res.get("mismatches", []):
            m["case"].pop("_io", None)
            m["case"].pop("_dom", None)
        return res

    def model_obs(self, case, replies):
        io = self.impl(case)
        if io[0] != "ok":
            return io
        o = io[1]
        if not replies:
            return io                                      # outside the wire / table domain: implementation alone
        r = replies[0]
        exp = {}
        # definitions as read by pdef_of_mval
        defs = []
        for d in replies[1:]:
            if d[0] == "ok":
                defs.append([_canon_def_model(x) for x in d[1]])
            else:
                defs.append("model-raise:" + str(d[1]))
        if case.get("_dom") == "negative-zero-default" or (r[0] == "rejected" and r[1] == "RuntimeError"):
            exp["defs"] = o["defs"]
        else:
            exp["defs"] = defs
        if r[0] == "rejected":
            if r[1] == "RuntimeError":
                case["_dom"] = case.get("_dom") or "decode-model-outside-domain"
                exp["create"], exp["job"] = o["create"], o["job"]
            else:
                exp["create"], exp["job"] = "model-rejects-an-accepted-template:" + r[1], None
        elif case.get("_dom"):
            exp["create"], exp["job"] = o["create"], o["job"]
        elif r[0] == "ok":
            exp["create"], exp["job"] = "ok", _from_wire(r[1])
        elif r[0] == "raise" and r[1] == "DecodeValidationError":
            exp["create"], exp["job"] = "DecodeValidationError", None
        else:
            exp["create"], exp["job"] = "model-says-escape:" + str(r[1:]), None
        return ["ok", exp]

    def classify_case(self, case, obs):
        if obs[0] != "ok":
            return ["skip:" + obs[1]]
        o = obs[1]
        out = ["create:" + o["create"], "envs=%d" % len(case["envs"])]
        if case.get("_dom"):
            out.append("domain:" + case["_dom"])
        else:
            out.append("judged-by-model")
        return out

    def still_fails(self, case):
        case = {k: v for k, v in case.items() if not k.startswith("_")}
        drv = core.Driver(self.component)
        replies, _ = drv.ask(self.requests(case), self.prelude())
        return self.impl(case) != self.model_obs(case, replies)

    def shrink_candidates(self, case):
        case = {k: v for k, v in case.items() if not k.startswith("_")}
        for k in list(case["vals"]):
            v = dict(case["vals"])
            del v[k]
            yield dict(case, vals=v)
        for i in range(len(case["envs"])):
            yield dict(case, envs=case["envs"][:i] + case["envs"][i + 1:])
        for i, e in enumerate(case["envs"]):
            ps = e.get("parameterDefinitions") or []
            for j in range(len(ps)):
                if len(ps) > 1:
                    e2 = G.deep(e)
                    del e2["parameterDefinitions"][j]
                    yield dict(case, envs=case["envs"][:i] + [e2] + case["envs"][i + 1:])
            for j, p in enumerate(ps):
                for key in list(p):
                    if key not in ("name", "type"):
                        e2 = G.deep(e)
                        del e2["parameterDefinitions"][j][key]
                        yield dict(case, envs=case["envs"][:i] + [e2] + case["envs"][i + 1:])
        ps = case["doc"].get("parameterDefinitions") or []
        for j, p in enumerate(ps):
            for key in list(p):
                if key not in ("name", "type"):
                    d = G.deep(case["doc"])
                    del d["parameterDefinitions"][j][key]
                    yield dict(case, doc=d)
        import c05
        for c in c05.PROP.shrink_candidates(dict(case)):
            yield c


PROP = C06Full()

if __name__ == "__main__":
    sys.exit(core.main(PROP, sys.argv[1:]))
