(* conv.ml — conversions between the wire format and the extracted Coq datatypes.
   Compiled once per component against that component's extracted [Model] module.
   Only constructors are used (no extracted arithmetic), so this file needs nothing beyond
   BinNums' positive / N / Z and Datatypes' nat, which every extraction contains. *)
open Sx
open Model

let rec pos_of_int (i : int) : positive =
  if i <= 1 then XH
  else if i land 1 = 1 then XI (pos_of_int (i lsr 1))
  else XO (pos_of_int (i lsr 1))

(* None on overflow of OCaml's 63-bit int *)
let rec int_of_pos (p : positive) : int option =
  match p with
  | XH -> Some 1
  | XO q -> (match int_of_pos q with Some v when v < (max_int / 2) -> Some (2 * v) | _ -> None)
  | XI q -> (match int_of_pos q with Some v when v < (max_int / 2) -> Some (2 * v + 1) | _ -> None)

let z_of_int (i : int) : z = if i = 0 then Z0 else if i > 0 then Zpos (pos_of_int i) else Zneg (pos_of_int (- i))
let n_of_int (i : int) : n = if i <= 0 then N0 else Npos (pos_of_int i)
let rec nat_of_int (i : int) : nat = if i <= 0 then O else S (nat_of_int (i - 1))
let rec int_of_nat (x : nat) : int = match x with O -> 0 | S y -> 1 + int_of_nat y

(* arbitrary precision on the wire: b<binary digits> / b-<binary digits> (constructors only, no arithmetic) *)
let rec bits_of_pos_buf (b : Buffer.t) (p : positive) : unit =
  match p with
  | XH -> Buffer.add_char b '1'
  | XO q -> bits_of_pos_buf b q; Buffer.add_char b '0'
  | XI q -> bits_of_pos_buf b q; Buffer.add_char b '1'
let big_atom (neg : bool) (p : positive) : Sx.t =
  let b = Buffer.create 80 in
  Buffer.add_string b (if neg then "b-" else "b"); bits_of_pos_buf b p; A (Buffer.contents b)
let z_of_bits (s : Stdlib.String.t) : z =
  let neg = Stdlib.String.length s >= 2 && Stdlib.String.get s 1 = '-' in
  let start = if neg then 2 else 1 in
  let acc = ref None in
  Stdlib.String.iteri (fun i c ->
    if i >= start then
      match !acc, c with
      | None, '0' -> ()
      | None, '1' -> acc := Some XH
      | Some p, '0' -> acc := Some (XO p)
      | Some p, '1' -> acc := Some (XI p)
      | _ -> failwith "z_of_bits") s;
  (match !acc with None -> Z0 | Some p -> if neg then Zneg p else Zpos p)
let is_bits (s : Stdlib.String.t) = Stdlib.String.length s >= 2 && Stdlib.String.get s 0 = 'b' && (let c = Stdlib.String.get s 1 in c = '0' || c = '1' || c = '-')
let z_of_sx = function
  | A s when is_bits s -> z_of_bits s
  | A s -> z_of_int (int_of_string s)
  | _ -> failwith "z_of_sx"
let n_of_sx = function A s -> n_of_int (int_of_string s) | _ -> failwith "n_of_sx"
let nat_of_sx = function A s -> nat_of_int (int_of_string s) | _ -> failwith "nat_of_sx"
let int_of_sx = function A s -> int_of_string s | _ -> failwith "int_of_sx"
let bool_of_sx = function A "true" -> true | A "false" -> false | _ -> failwith "bool_of_sx"
let list_of_sx f = function L l -> List.map f l | _ -> failwith "list_of_sx"
let str_of_sx x = list_of_sx n_of_sx x
let opt_of_sx f = function A "none" -> None | L [A "some"; x] -> Some (f x) | _ -> failwith "opt_of_sx"

let sx_of_int i = A (string_of_int i)
let sx_of_pos p = match int_of_pos p with Some v -> A (string_of_int v) | None -> big_atom false p
let sx_of_z = function
  | Z0 -> A "0"
  | Zpos p -> sx_of_pos p
  | Zneg p -> (match int_of_pos p with Some v -> A (string_of_int (- v)) | None -> big_atom true p)
let sx_of_n = function N0 -> A "0" | Npos p -> sx_of_pos p
let sx_of_nat x = A (string_of_int (int_of_nat x))
let sx_of_bool b = A (if b then "true" else "false")
let sx_of_list f l = L (List.map f l)
let sx_of_str s = sx_of_list sx_of_n s
let sx_of_opt f = function None -> A "none" | Some x -> L [A "some"; f x]

let exn_name (e : exn) =
  match e with
  | ExpressionError -> "ExpressionError" | TokenError -> "TokenError" | ValueError -> "ValueError"
  | IndexError -> "IndexError" | KeyError -> "KeyError" | TypeError -> "TypeError"
  | DecodeValidationError -> "DecodeValidationError" | FormatStringError -> "FormatStringError"
  | InvalidOperation -> "InvalidOperation" | StopIteration -> "StopIteration"
  | CompatibilityError -> "CompatibilityError" | UnboundLocalError -> "UnboundLocalError"
  | AttributeError -> "AttributeError" | RuntimeError -> "RuntimeError"

let sx_of_outcome f = function
  | Ok v -> L [A "ok"; f v]
  | Raise e -> L [A "raise"; A (exn_name e)]
