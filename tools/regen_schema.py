"""regen_schema.py — schema half of the translator (T): introspects the live pydantic classes of
openjd.model.v2023_09._model and emits `Generated.schema` plus the constants the validators use.
Fail-closed: any shape / kind / metadata it does not recognise calls die()."""
import inspect
import re
from decimal import Decimal
from enum import Enum

import pydantic
import pydantic.fields as pf
from pydantic.typing import is_literal_type

# ---------------------------------------------------------------- charset fingerprints
# Reference predicates (Python mirrors of the Coq predicates in Charsets.v).  A live pattern is
# mapped to the charset whose predicate agrees with it on every probe string.
_CC = set(range(0, 0x20)) | set(range(0x7F, 0xA0))


def _is_ident(s):
    return len(s) > 0 and (s[0].isascii() and (s[0].isalpha() or s[0] == "_")) and all(c.isascii() and (c.isalnum() or c == "_") for c in s)


_FF_BAD = set('\\/*?[]#%&{}<>$!\'":@`|=')


def _is_filefilter(s):
    if s in ("*", "*.*"):
        return True
    if s.startswith("*.") and len(s) > 2:
        return all(ord(c) not in _CC and c not in _FF_BAD for c in s[2:])
    return False


CHARSETS = {
    "CS_identifier": _is_ident,
    "CS_standard": lambda s: len(s) > 0 and all(ord(c) not in _CC for c in s),
    "CS_nocc_star": lambda s: all(ord(c) not in _CC for c in s),
    "CS_description": lambda s: len(s) > 0 and all(ord(c) not in _CC or c in "\r\n\t" for c in s),
    "CS_filefilter": _is_filefilter,
    "CS_combination": lambda s: len(s) > 0 and all(c.isascii() and (c.isalnum() or c in "_*(), ") for c in s),
}

_PROBE_CHARS = ["\x00", "\x1f", " ", "~", "\x7f", "\x80", "\x9f", "\xa0", "@", "A", "Z", "[", "`", "a", "z", "{", "/", "0", "9", ":",
                "_", "-", "\t", "\n", "\r", "*", ".", "(", ")", ",", "\\", "?", "]", "#", "%", "&", "}", "<", ">", "$", "!", "'", '"', "|", "=",
                "é", "٣", "　", " ", "+"]


def _probes():
    yield ""
    for a in _PROBE_CHARS:
        yield a
    for a in _PROBE_CHARS:
        for b in _PROBE_CHARS:
            yield a + b
    for a in _PROBE_CHARS:
        yield "*." + a
        yield "*.x" + a
        yield "a" + a + "b"
        yield "ab" + a
    yield from ["*.*", "*", "*.", "*.*.*", "**", "*.a.b", "A_1 * (B, C)", "abc\n", "\nabc", "a\n"]


PROBES = list(dict.fromkeys(_probes()))


def fingerprint_charset(pattern, how, die, what):
    """how: 'match' (pydantic constr / DynamicConstrainedStr use re.match) """
    rx = re.compile(pattern) if isinstance(pattern, str) else pattern
    got = [rx.match(p) is not None for p in PROBES]
    for name, pred in CHARSETS.items():
        exp = [bool(pred(p)) for p in PROBES]
        if exp == got:
            return name
    # report the closest candidate and the first differing probe
    best = None
    for name, pred in CHARSETS.items():
        diffs = [p for p, g in zip(PROBES, got) if bool(pred(p)) != g]
        if best is None or len(diffs) < len(best[1]):
            best = (name, diffs)
    die(f"{what}: regex {getattr(rx, 'pattern', rx)!r} matches no known charset; closest {best[0]}, first differing probe {best[1][0]!r}")


# ---------------------------------------------------------------- emit helpers
def q(s):
    if not isinstance(s, str) or not all(32 <= ord(c) < 127 for c in s):
        raise ValueError(f"non-ASCII/odd string constant {s!r}")
    return '"' + s.replace('"', '""') + '"'


def lst(items):
    return "[" + "; ".join(items) + "]"


def optN(v):
    return "None" if v is None else f"(Some {int(v)}%N)"


def optZ(v):
    if v is None:
        return "None"
    if isinstance(v, float):
        if v != int(v):
            raise ValueError(f"non-integer float limit {v}")
        v = int(v)
    return f"(Some ({int(v)})%Z)"


def b(x):
    return "true" if x else "false"


class Tr:
    def __init__(self, die):
        self.die = die
        from openjd.model.v2023_09 import _model as m
        from openjd.model._types import OpenJDModel
        from openjd.model._format_strings import FormatString
        self.m = m
        self.OpenJDModel = OpenJDModel
        self.FormatString = FormatString
        self.classes = [c for n, c in vars(m).items()
                        if inspect.isclass(c) and issubclass(c, OpenJDModel) and c.__module__ == m.__name__
                        and c is not m.OpenJDModel_v2023_09]
        self.by_name = {c.__name__: c for c in self.classes}

    # ---- kinds
    def str_kind(self, t, what):
        """pydantic ConstrainedStr subclass or plain str"""
        if t is str:
            return "KStr false None None CS_any"
        strict = bool(getattr(t, "strict", False))
        cs = "CS_any"
        rx = getattr(t, "regex", None)
        if rx is not None:
            cs = fingerprint_charset(rx, "match", self.die, what)
        for attr in ("strip_whitespace", "to_lower", "to_upper", "curtail_length"):
            if getattr(t, attr, None):
                self.die(f"{what}: constr option {attr} not supported")
        return f"KStr {b(strict)} {optN(t.min_length)} {optN(t.max_length)} {cs}"

    def format_kind(self, t, what):
        mx = t._max_length
        if callable(mx):
            self.die(f"{what}: dynamic _max_length")
        cs = "CS_any"
        if t._regex is not None:
            cs = fingerprint_charset(t._regex, "match", self.die, what)
        return f"KFormat {q(t.__name__)} {optN(t._min_length)} {optN(mx)} {cs}"

    def scalar_kind(self, f, what):
        """kind of a SHAPE_SINGLETON ModelField"""
        t = f.type_
        if f.discriminator_key:
            mapping = []
            for key, sf in (f.sub_fields_mapping or {}).items():
                if not (inspect.isclass(sf.type_) and issubclass(sf.type_, self.OpenJDModel)):
                    self.die(f"{what}: discriminated union over non-model")
                mapping.append(f"({q(key)}, {q(sf.type_.__name__)})")
            return f"KDisc {q(f.discriminator_key)} {lst(mapping)}"
        if f.sub_fields and len(f.sub_fields) > 1:
            alts = []
            for sf in f.sub_fields:
                if sf.shape == pf.SHAPE_SINGLETON:
                    alts.append(f"UScalar ({self.scalar_kind(sf, what + '|' + sf.name)})")
                elif sf.shape == pf.SHAPE_LIST:
                    mn, mx = self.list_limits(sf, what)
                    alts.append(f"UList {optN(mn)} {optN(mx)} ({self.scalar_kind(sf.sub_fields[0], what + '|' + sf.name)})")
                else:
                    self.die(f"{what}: union alternative of shape {sf.shape}")
            return f"KUnion {lst(alts)}"
        if f.sub_fields and len(f.sub_fields) == 1:
            self.die(f"{what}: singleton with one sub_field")
        if is_literal_type(t):
            vals = pydantic.typing.all_literal_values(t)
            if len(vals) != 1 or not isinstance(vals[0], Enum) or not isinstance(vals[0].value, str):
                self.die(f"{what}: Literal {vals!r} not a single str-enum member")
            return f"KLiteral {q(vals[0].value)}"
        if not inspect.isclass(t):
            self.die(f"{what}: type_ {t!r} is not a class")
        if issubclass(t, self.FormatString):
            return self.format_kind(t, what)
        if issubclass(t, self.OpenJDModel):
            if t.__name__ not in self.by_name:
                self.die(f"{what}: model class {t.__name__} not in the module")
            return f"KModel {q(t.__name__)}"
        if issubclass(t, Enum):
            if not issubclass(t, str):
                self.die(f"{what}: non-str enum")
            return f"KEnum {lst([q(mem.value) for mem in t])}"
        if issubclass(t, pydantic.ConstrainedStr) or t is str:
            return self.str_kind(t, what)
        if t is pydantic.StrictBool:
            return "KBool true"
        if t is bool:
            return "KBool false"
        if t is pydantic.StrictInt:
            return "KInt true None None None"
        if issubclass(t, pydantic.ConstrainedInt):
            if t.multiple_of is not None or t.lt is not None:
                self.die(f"{what}: conint option not supported")
            return f"KInt {b(t.strict)} {optZ(t.ge)} {optZ(t.le)} {optZ(t.gt)}"
        if t is int:
            return "KInt false None None None"
        if issubclass(t, pydantic.ConstrainedFloat):
            if t.multiple_of is not None or t.lt is not None or t.ge is not None or t.le is not None or t.strict:
                self.die(f"{what}: confloat option not supported")
            return f"KFloat {optZ(t.gt)}"
        if t is Decimal:
            return "KDec"
        self.die(f"{what}: unsupported type {t!r}")

    def list_limits(self, f, what):
        ot = f.outer_type_
        mn = getattr(ot, "min_items", None)
        mx = getattr(ot, "max_items", None)
        if getattr(ot, "unique_items", None):
            self.die(f"{what}: unique_items")
        return mn, mx

    def field(self, cls, f):
        what = f"{cls.__name__}.{f.name}"
        if f.required is True and f.allow_none:
            self.die(f"{what}: required and nullable")
        if f.required is False and not f.allow_none:
            self.die(f"{what}: optional but not nullable")
        if f.required is False and f.default is not None:
            self.die(f"{what}: non-None default {f.default!r}")
        if f.required not in (True, False):
            self.die(f"{what}: required={f.required!r}")
        if f.pre_validators:
            pass
        if f.shape == pf.SHAPE_SINGLETON:
            shape = "Single"
            kind = self.scalar_kind(f, what)
        elif f.shape == pf.SHAPE_LIST:
            mn, mx = self.list_limits(f, what)
            shape = f"ListOf {optN(mn)} {optN(mx)}"
            if not f.sub_fields or len(f.sub_fields) != 1:
                self.die(f"{what}: list sub_fields")
            kind = self.scalar_kind(f.sub_fields[0], what + "[]")
        elif f.shape == pf.SHAPE_DICT:
            if f.key_field is None or not f.sub_fields or len(f.sub_fields) != 1:
                self.die(f"{what}: dict structure")
            shape = f"DictOf ({self.scalar_kind(f.key_field, what + '{key}')})"
            kind = self.scalar_kind(f.sub_fields[0], what + "{}")
        else:
            self.die(f"{what}: shape {f.shape}")
        # the model's json type has no bytes: binary data (YAML '!!binary') must not be decoded into text or a number
        for probe in (b"1", [b"1"]):
            try:
                cls.parse_obj({f.alias: probe})
                bad = True
            except pydantic.ValidationError as e:
                locs = [tuple(x["loc"])[:1] for x in e.errors()]
                bad = (f.alias,) not in locs and ("__root__",) not in locs
            if bad:
                self.die(f"{what}: {probe!r} is accepted (binary data is decoded; the model knows no such value)")
        if f.shape == pf.SHAPE_LIST or "UList" in kind:
            # Parse.v: a list-valued field takes an array (JArr).  A set (YAML '!!set') has no order: pydantic alone
            # would turn it into a list in arbitrary order.  The repair sits in a pre root validator, so probe the class.
            try:
                cls.parse_obj({f.alias: {"a"}})
                bad = True
            except pydantic.ValidationError as e:
                locs = [tuple(x["loc"]) for x in e.errors()]
                bad = (f.alias,) not in locs and ("__root__",) not in locs
            if bad:
                self.die(f"{what}: a set is accepted for a list-valued field (the model accepts arrays only)")
        if f.shape == pf.SHAPE_DICT:
            # Parse.v: a dict-valued field takes an object and nothing else (pydantic alone would run dict()
            # over the value and turn a list of pairs, or of two-character strings, into an object)
            for probe in ([["A", "b"]], ["Ab", "Cd"], [], "", (("A", "b"),)):
                try:
                    val, err = f.validate(probe, {}, loc=f.alias, cls=cls)
                except Exception as e:  # noqa: BLE001
                    self.die(f"{what}: probing with {probe!r} raised {type(e).__name__}: {e}")
                if not err:
                    self.die(f"{what}: {probe!r} is accepted for a dict-valued field and becomes {val!r} (the model accepts objects only)")
        if "KFloat" in kind:
            # Parse.v: a float field holds a finite number (JDec/JInt): an infinity is no value of the model
            for probe in (float("inf"), "inf", "1e999", float("nan")):
                v = [probe] if f.shape == pf.SHAPE_LIST else probe
                try:
                    val, err = f.validate(v, {}, loc=f.alias, cls=cls)
                except Exception as e:  # noqa: BLE001
                    self.die(f"{what}: probing with {v!r} raised {type(e).__name__}: {e}")
                if not err:
                    self.die(f"{what}: {v!r} is accepted for a float field and becomes {val!r} (the model holds finite numbers only)")
        if "KInt false" in kind:
            # Parse.v: a non-strict int takes a whole number in any spelling and rejects one with a fractional
            # part (pydantic alone would truncate it).  Probed on the live field, pre-validators included.
            for probe in (1.5, -0.25, Decimal("2.5")):
                v = [probe] if (f.shape == pf.SHAPE_LIST or "UList" in kind) else probe
                try:
                    val, err = f.validate(v, {}, loc=f.alias, cls=cls)
                except Exception as e:  # noqa: BLE001
                    self.die(f"{what}: probing with {v!r} raised {type(e).__name__}: {e}")
                if not err:
                    self.die(f"{what}: the number {v!r} is accepted for an integer field and becomes {val!r} (the model rejects a fractional number)")
        return f"mkField {q(f.name)} {q(f.alias)} {b(f.required)} ({shape}) ({kind})"

    # ---- metadata
    def scope(self, s):
        if s is None:
            return "None"
        n = s.name
        if n not in ("TEMPLATE", "SESSION", "TASK"):
            self.die(f"unknown ResolutionScope {n}")
        return f"(Some {n})"

    def defs(self, cls):
        d = cls._template_variable_definitions
        known = {"symbol_prefix", "defines", "field", "inject"}
        if set(vars(d).keys()) != known:
            self.die(f"{cls.__name__}: DefinesTemplateVariables attributes {sorted(vars(d))}")
        if d.field == "__key__":
            self.die(f"{cls.__name__}: __key__ variable definitions are not modelled")
        if d.field and d.field not in cls.__fields__:
            self.die(f"{cls.__name__}: definitions field {d.field} unknown")
        defines = sorted((v.prefix, v.resolves.name) for v in d.defines)
        for p, r in defines:
            if r not in ("TEMPLATE", "SESSION", "TASK"):
                self.die(f"{cls.__name__}: resolves {r}")
        return (f"mkDefs {q(d.symbol_prefix)} {lst([f'({q(p)}, {r})' for p, r in defines])} {q(d.field)} "
                f"{lst([q(s) for s in sorted(d.inject)])}")

    def sources(self, cls):
        src = cls._template_variable_sources
        out = []
        for dest in sorted(src):
            if dest != "__export__" and dest not in cls.__fields__:
                self.die(f"{cls.__name__}: sources destination {dest} unknown")
            for s in src[dest]:
                if s != "__self__" and s not in cls.__fields__:
                    self.die(f"{cls.__name__}: sources source {s} unknown")
            out.append(f"({q(dest)}, {lst([q(s) for s in sorted(src[dest])])})")
        return lst(out)

    def jcm(self, cls):
        j = cls._job_creation_metadata
        import dataclasses
        names = {f.name for f in dataclasses.fields(j)}
        if names != {"resolve_fields", "create_as", "exclude_fields", "adds_fields", "reshape_field_to_dict", "rename_fields"}:
            self.die(f"JobCreationMetadata fields changed: {sorted(names)}")
        for fn in list(j.resolve_fields) + list(j.exclude_fields) + list(j.reshape_field_to_dict) + list(j.rename_fields):
            if fn not in cls.__fields__:
                self.die(f"{cls.__name__}: creation metadata names unknown field {fn}")
        ca = "CreateSelf"
        if j.create_as is not None:
            if j.create_as.model is not None and j.create_as.callable is not None:
                self.die(f"{cls.__name__}: create_as has both model and callable")
            if j.create_as.model is not None:
                ca = f"(CreateModel {q(j.create_as.model.__name__)})"
            elif j.create_as.callable is not None:
                ca = self.probe_callable(cls, j.create_as.callable)
        adds = False
        if j.adds_fields is not None:
            adds = True
            self.probe_adds(cls, j.adds_fields)
        return (f"mkJcm {lst([q(s) for s in sorted(j.resolve_fields)])} {lst([q(s) for s in sorted(j.exclude_fields)])} "
                f"{lst([f'({q(k)}, {q(v)})' for k, v in sorted(j.rename_fields.items())])} "
                f"{lst([f'({q(k)}, {q(v)})' for k, v in sorted(j.reshape_field_to_dict.items())])} {ca} {b(adds)}")

    def probe_callable(self, cls, fn):
        """The only callable in the model selects the job-side class of an INT task parameter from the
        dynamic type of `range`; establish that behaviourally."""
        m = self.m

        class _Probe:
            pass

        p1 = _Probe()
        p1.range = m.RangeString("1-2")
        p2 = _Probe()
        p2.range = [1, 2]
        p3 = _Probe()
        p3.range = [m.TaskParameterStringValue("{{Param.X}}")]
        try:
            c1, c2, c3 = fn(p1), fn(p2), fn(p3)
        except Exception as e:  # noqa: BLE001
            self.die(f"{cls.__name__}: create_as callable not understood ({e!r})")
        if c2 is not c3 or c1 is c2:
            self.die(f"{cls.__name__}: create_as callable does not select on RangeString vs list")
        return f"(CreateIntRange {q(c1.__name__)} {q(c2.__name__)})"

    def probe_adds(self, cls, fn):
        """adds_fields must be {'value': symtab['RawParam.<name>']} — checked on a probe."""
        from openjd.model._symbol_table import SymbolTable

        class _P:
            name = "Zz9"

        st = SymbolTable()
        st["RawParam.Zz9"] = "raw-probe"
        st["Param.Zz9"] = "cooked-probe"
        try:
            r = fn("whatever", _P(), st)
        except Exception as e:  # noqa: BLE001
            self.die(f"{cls.__name__}: adds_fields not understood ({e!r})")
        if r != {"value": "raw-probe"}:
            self.die(f"{cls.__name__}: adds_fields returned {r!r}, expected the RawParam value under 'value'")

    def validators(self, cls):
        names = []
        for fname, vs in (cls.__validators__ or {}).items():
            for v in vs:
                names.append(f"{fname}:{v.func.__name__}{':pre' if v.pre else ''}{':each' if v.each_item else ''}")
        for v in cls.__pre_root_validators__:
            names.append(f"__root__:{v.__name__}:pre")
        for skip, v in cls.__post_root_validators__:
            names.append(f"__root__:{v.__name__}")
        if hasattr(cls, "_root_template_prevalidator"):
            names.append("__root__:_root_template_prevalidator:prevalidator")
        return sorted(names)

    def cls(self, c):
        cfg = c.__config__
        extra_forbid = cfg.extra == pydantic.Extra.forbid
        # Parse.v (parse_cls): a model is built from an object and from nothing else (pydantic alone would run
        # dict() over the value: a list of [key, value] pairs would pass for the object)
        for probe in ([["name", "x"]], [], "ab", (("name", "x"),)):
            try:
                got = c.validate(probe)
            except (pydantic.ValidationError, pydantic.errors.PydanticTypeError, pydantic.errors.PydanticValueError, TypeError, ValueError):
                continue
            self.die(f"{c.__name__}: {probe!r} is accepted where an object is expected and becomes {got!r} (the model accepts objects only)")
        fields = [self.field(c, f) for f in c.__fields__.values()]
        vals = self.validators(c)
        return (f" ({q(c.__name__)},\n  mkCls {b(extra_forbid)} {b(bool(cfg.frozen))} {self.scope(c._template_variable_scope)}\n"
                f"   ({self.defs(c)})\n   {self.sources(c)}\n   ({self.jcm(c)})\n   {lst([q(v) for v in vals])}\n   [\n     "
                + ";\n     ".join(fields) + " ])")


def emit(out, die):
    tr = Tr(die)
    m = tr.m
    try:
        body = [tr.cls(c) for c in tr.classes]
    except ValueError as e:
        die(str(e))
    out.append("")
    out.append("Definition schema : schema_t := [")
    out.append(";\n".join(body))
    out.append("].")
    out.append("")
    # ---- constants used by validators
    from openjd.model import _capabilities as caps
    out.append(f"Definition reserved_scopes : list string := {lst([q(s) for s in caps._reserved_scopes])}.")
    out.append(f"Definition std_amount_caps : list string := {lst([q(s) for s in m._STANDARD_AMOUNT_CAPABILITIES_NAMES])}.")
    attrs = []
    for k, v in m.STANDARD_ATTRIBUTE_CAPABILITIES.items():
        if set(v.keys()) != {"values", "multivalued"}:
            die(f"STANDARD_ATTRIBUTE_CAPABILITIES[{k}] keys {sorted(v)}")
        attrs.append(f"({q(k)}, ({lst([q(x) for x in sorted(v['values'])])}, {b(v['multivalued'])}))")
    if list(m.STANDARD_ATTRIBUTE_CAPABILITIES.keys()) != m._STANDARD_ATTRIBUTE_CAPABILITIES_NAMES:
        die("attribute capability name list out of sync")
    out.append(f"Definition std_attr_caps : list (string * (list string * bool)) := {lst(attrs)}.")
    out.append(f"Definition checkbox_sets : list (list string) := {lst([lst([q(x) for x in sorted(s)]) for s in m.ALLOWED_VALUES_FOR_CHECK_BOX])}.")
    out.append(f"Definition max_requirements : N := {int(m.HostRequirementsTemplate._max_allowed_requirements)}%N.")
    out.append(f"Definition attr_value_max_len : N := {int(m.AttributeRequirementTemplate._attribute_capability_value_max_length)}%N.")
    vr = {e.name: e.value for e in m.ValueReferenceConstants}
    want = ["JOB_PARAMETER_PREFIX", "JOB_PARAMETER_RAWPREFIX", "ENV_FILE_PREFIX", "TASK_FILE_PREFIX", "TASK_PARAMETER_PREFIX",
            "TASK_PARAMETER_RAWPREFIX", "WORKING_DIRECTORY", "HAS_PATH_MAPPING_RULES", "PATH_MAPPING_RULES_FILE"]
    if sorted(vr) != sorted(want):
        die(f"ValueReferenceConstants members {sorted(vr)}")
    out.append(f"Definition value_refs : list (string * string) := {lst([f'({q(k)}, {q(vr[k])})' for k in want])}.")
    from openjd.model._types import TemplateSpecificationVersion as TSV
    out.append(f"Definition job_template_versions : list string := {lst([q(v.value) for v in TSV.job_template_versions()])}.")
    out.append(f"Definition env_template_versions : list string := {lst([q(v.value) for v in TSV.environment_template_versions()])}.")
    # capability-name regex: behavioural fingerprint against the reference grammar
    _cap_fingerprint(caps._name_regex, die)
    # attribute capability value regex
    cs = fingerprint_value_regex(m.AttributeRequirementTemplate._attribute_capability_value_regex, die)
    out.append(f"Definition attr_value_charset_ok : bool := {b(cs)}.")


def _cap_ref(s):
    import re as _re
    # reference grammar:  [vendor:] (amount|attr) ('.' seg)+ ; vendor = [a-z_][a-z0-9_]+ ; seg = [a-z_][a-z0-9_]*
    vendor, sep, rest = s.partition(":")
    if sep:
        if len(vendor) < 2 or not (vendor[0] in "abcdefghijklmnopqrstuvwxyz_") or not all(c in "abcdefghijklmnopqrstuvwxyz0123456789_" for c in vendor):
            return False
    else:
        rest = s
    parts = rest.split(".")
    if parts[0] not in ("amount", "attr") or len(parts) < 2:
        return False
    for seg in parts[1:]:
        if not seg or seg[0] not in "abcdefghijklmnopqrstuvwxyz_" or not all(c in "abcdefghijklmnopqrstuvwxyz0123456789_" for c in seg):
            return False
    return True


_CAP_PROBES = ["", "amount", "amount.", "amount.a", "attr.a", "attr.a.b", "attr..b", "amount.a.", "amount.1", "amount.a1", "amount._", "amount.A",
               "x:amount.a", "xy:amount.a", "x1:attr.a", "1x:attr.a", "_y:attr.a", "xy:zz:attr.a", ":amount.a", "xy:amount", "xy:other.a", "other.a",
               "amount.a\n", "\namount.a", "amount.a b", "amount.a-b", "attr.é", "amount.worker.vcpu", "xy:amount.worker.vcpu", "amountx.a", "amount.a:b"]


def _cap_fingerprint(rx, die):
    for p in _CAP_PROBES:
        if (rx.fullmatch(p) is not None) != _cap_ref(p):
            die(f"capability name regex {rx.pattern!r} differs from the reference grammar on {p!r}")


def fingerprint_value_regex(rx, die):
    probes = ["", "a", "_", "1", "-", "a1", "a-", "a_", "-a", "1a", "A", "Z9", "a b", "a\n", "é", "a.b", "a:b"]

    def ref(s):
        return len(s) > 0 and (s[0].isascii() and (s[0].isalpha() or s[0] == "_")) and all(c.isascii() and (c.isalnum() or c in "_-") for c in s)

    for p in probes:
        if (rx.match(p) is not None) != ref(p):
            die(f"attribute value regex {rx.pattern!r} differs from [A-Za-z_][A-Za-z0-9_-]* on {p!r}")
    return True
