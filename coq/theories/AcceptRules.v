(* AcceptRules.v — C01/C02 part B: each validator of Validators.v, as coded, is equivalent to its
   declarative rule of WF.v.  (Capability names are in AcceptCap.v, the assembly in
   AcceptProofs.v.) *)
From Coq Require Import List NArith ZArith Bool String Lia Permutation.
Import ListNotations.
Require Import OJD.Base OJD.Lexer OJD.Json OJD.Schema OJD.Generated OJD.Charsets OJD.Numerals OJD.FormatStr
               OJD.FsRefs OJD.CreateJob OJD.RangeExpr OJD.Comb OJD.CombSpec OJD.CombProofs OJD.ScopeWalk
               OJD.DepGraph OJD.DepGraphSpec OJD.DepGraphProofs OJD.Parse OJD.Validators OJD.WF.
Local Open Scope string_scope.
Local Open Scope list_scope.

(* ------------------------------------------------------------------ *)
(* generic reflection helpers                                            *)
(* ------------------------------------------------------------------ *)
Lemma negb_mem_str x l : negb (mem_str x l) = true <-> ~ In x l.
Proof.
  rewrite negb_true_iff. split.
  - intros H Hin. apply mem_str_In in Hin. rewrite Hin in H. discriminate.
  - intros H. destruct (mem_str x l) eqn:E; [|reflexivity]. exfalso. apply H. apply mem_str_In. exact E.
Qed.

Lemma mint_match_iff (v : mval) (p : Z -> bool) (P : Z -> Prop) :
  (forall a, p a = true <-> P a) ->
  ((match v with MInt a => p a | _ => true end) = true <-> forall a, v = MInt a -> P a).
Proof.
  intros Hp. destruct v; split; intros H; try reflexivity; try (intros a E; discriminate E).
  - intros a E. inversion E. subst a. apply Hp. exact H.
  - apply Hp. apply H. reflexivity.
Qed.

Lemma not_none_match_iff (v : mval) (b : bool) :
  (match v with MNone => true | _ => b end) = true <-> (v <> MNone -> b = true).
Proof.
  destruct v; split; intros H; try reflexivity; try (intros _; exact H); try (apply H; discriminate).
  intros C. exfalso. apply C. reflexivity.
Qed.

Lemma is_none_iff v : is_none v = true <-> v = MNone.
Proof. destruct v; split; intros H; try reflexivity; try discriminate. Qed.

Lemma is_null_iff j : negb (is_null j) = true <-> NonNull j.
Proof. unfold NonNull. destruct j; cbn; split; intros H; try reflexivity; try discriminate; try congruence. Qed.

(* ------------------------------------------------------------------ *)
(* uniqueness                                                            *)
(* ------------------------------------------------------------------ *)
Theorem nodupb_iff : forall l, nodupb l = true <-> NoDup l.
Proof.
  induction l as [|x r IH]; cbn [nodupb].
  - split; [constructor|reflexivity].
  - rewrite andb_true_iff, negb_mem_str, IH. split.
    + intros [H1 H2]. constructor; assumption.
    + intros H. inversion H. split; assumption.
Qed.

Theorem unique_names_iff : forall v, unique_names v = true <-> UniqueNames v.
Proof.
  intros v. unfold unique_names, UniqueNames. destruct v; try apply nodupb_iff.
  split; [intros _; constructor|reflexivity].
Qed.

Theorem embedded_files_rule_iff : forall fs,
  unique_names (fget "embeddedFiles" fs) = true <-> EmbeddedFilesRule fs.
Proof. intros fs. apply unique_names_iff. Qed.

(* ------------------------------------------------------------------ *)
(* references                                                            *)
(* ------------------------------------------------------------------ *)
Lemma has_refs_iff classify s : has_refs classify s = true <-> HasRefs classify s.
Proof.
  unfold has_refs, refs_of, HasRefs. destruct (fs_refs classify s) as [[|r rs]|]; split; intros H;
    try discriminate; try reflexivity.
  - destruct H as (r & rs & E). discriminate E.
  - exists r, rs. reflexivity.
  - destruct H as (r & rs & E). discriminate E.
Qed.

(* ------------------------------------------------------------------ *)
(* numbers                                                               *)
(* ------------------------------------------------------------------ *)
Lemma num_leb_Z a b : num_leb (num_of_Z a) (num_of_Z b) = (a <=? b)%Z.
Proof.
  unfold num_leb, num_cmp, num_of_Z. cbn [mant expo].
  rewrite Z.min_id, Z.sub_diag, Z.pow_0_r, !Z.mul_1_r. reflexivity.
Qed.

Lemma opt_le_iff a b : opt_le a b = true <-> OptLe a b.
Proof.
  unfold opt_le, OptLe. destruct (num_of a) as [x|], (num_of b) as [y|]; split; intros H;
    try reflexivity; try (intros x' y' E1 E2; discriminate).
  - intros x' y' E1 E2. inversion E1. inversion E2. subst. exact H.
  - apply H; reflexivity.
Qed.

(* on two integers the order is the integers' *)
Lemma OptLe_ints a b : OptLe (MInt a) (MInt b) <-> (a <= b)%Z.
Proof.
  rewrite <- opt_le_iff. unfold opt_le. cbn [num_of]. rewrite num_leb_Z. apply Z.leb_le.
Qed.

Lemma num_within_iff mn mx v : num_within mn mx v = true <-> NumWithin mn mx v.
Proof. unfold num_within, NumWithin. rewrite andb_true_iff, !opt_le_iff. reflexivity. Qed.

(* ------------------------------------------------------------------ *)
(* STRING / PATH parameter constraints                                   *)
(* ------------------------------------------------------------------ *)
Section WithClassify.
Variable classify : N -> cclass.

Lemma len_within_iff minl maxl s : len_within minl maxl s = true <-> LenWithin minl maxl s.
Proof.
  unfold len_within, LenWithin. rewrite andb_true_iff.
  rewrite (mint_match_iff minl (fun a => (a <=? Z.of_nat (List.length s))%Z)
                          (fun a => (a <= Z.of_nat (List.length s))%Z)) by (intros a; apply Z.leb_le).
  rewrite (mint_match_iff maxl (fun b => (Z.of_nat (List.length s) <=? b)%Z)
                          (fun b => (Z.of_nat (List.length s) <= b)%Z)) by (intros b; apply Z.leb_le).
  reflexivity.
Qed.

Theorem string_param_rule_iff : forall fs, string_param_ok fs = true <-> StringParamRule fs.
Proof.
  intros fs. unfold string_param_ok, StringParamRule.
  set (minl := fget "minLength" fs). set (maxl := fget "maxLength" fs).
  set (allowed := fget "allowedValues" fs). set (dflt := fget "default" fs).
  rewrite !andb_true_iff.
  rewrite (mint_match_iff minl (fun a => (0 <? a)%Z) (fun a => (0 < a)%Z)) by (intros a; apply Z.ltb_lt).
  rewrite (mint_match_iff maxl (fun a => (0 <? a)%Z) (fun a => (0 < a)%Z)) by (intros a; apply Z.ltb_lt).
  rewrite opt_le_iff. rewrite forallb_forall.
  assert (Hd : (match dflt with
                | MStr d => len_within minl maxl d
                            && (match allowed with MNone => true | _ => existsb (fun it => str_eqb d (mstr it)) (mitems allowed) end)
                | _ => true
                end) = true <->
               (forall d, dflt = MStr d ->
                  LenWithin minl maxl d /\
                  (allowed <> MNone -> exists it, In it (mitems allowed) /\ mstr it = d))).
  { assert (Hex : forall d, existsb (fun it => str_eqb d (mstr it)) (mitems allowed) = true <->
                            exists it, In it (mitems allowed) /\ mstr it = d).
    { intros d. rewrite existsb_exists. split; intros (it & Hin & E); exists it; (split; [exact Hin|]).
      - apply str_eqb_eq in E. symmetry. exact E.
      - apply str_eqb_eq. symmetry. exact E. }
    destruct dflt; try (split; [intros _ d E; discriminate E|reflexivity]).
    rewrite andb_true_iff, len_within_iff, not_none_match_iff, Hex. split.
    - intros H d E. inversion E. subst d. exact H.
    - intros H. apply H. reflexivity. }
  rewrite Hd.
  assert (Hall : (forall x, In x (mitems allowed) -> len_within minl maxl (mstr x) = true) <->
                 (forall it, In it (mitems allowed) -> LenWithin minl maxl (mstr it))).
  { split; intros H it Hin; apply len_within_iff; apply H; exact Hin. }
  rewrite Hall. tauto.
Qed.

(* ------------------------------------------------------------------ *)
(* INT / FLOAT parameter constraints                                     *)
(* ------------------------------------------------------------------ *)
Theorem num_param_rule_iff : forall fs, num_param_ok fs = true <-> NumParamRule fs.
Proof.
  intros fs. unfold num_param_ok, NumParamRule.
  set (mn := fget "minValue" fs). set (mx := fget "maxValue" fs).
  set (allowed := fget "allowedValues" fs). set (dflt := fget "default" fs).
  rewrite !andb_true_iff, opt_le_iff, forallb_forall.
  assert (Hall : (forall x, In x (mitems allowed) -> num_within mn mx x = true) <->
                 (forall it, In it (mitems allowed) -> NumWithin mn mx it)).
  { split; intros H it Hin; apply num_within_iff; apply H; exact Hin. }
  rewrite Hall.
  assert (Hd : (match num_of dflt with
                | Some d => num_within mn mx dflt
                            && (match allowed with
                                | MNone => true
                                | _ => existsb (fun it => match num_of it with Some x => num_eqb x d | None => false end) (mitems allowed)
                                end)
                | None => true
                end) = true <->
               (forall d, num_of dflt = Some d ->
                  NumWithin mn mx dflt /\
                  (allowed <> MNone ->
                   exists it x, In it (mitems allowed) /\ num_of it = Some x /\ num_eqb x d = true))).
  { assert (Hex : forall d,
               existsb (fun it => match num_of it with Some x => num_eqb x d | None => false end) (mitems allowed) = true <->
               exists it x, In it (mitems allowed) /\ num_of it = Some x /\ num_eqb x d = true).
    { intros d. rewrite existsb_exists. split.
      - intros (it & Hin & E). destruct (num_of it) as [x|] eqn:En; [|discriminate].
        exists it, x. repeat split; assumption.
      - intros (it & x & Hin & En & E). exists it. split; [exact Hin|]. rewrite En. exact E. }
    destruct (num_of dflt) as [d|]; [|split; [intros _ d E; discriminate E|reflexivity]].
    rewrite andb_true_iff, num_within_iff, not_none_match_iff, Hex. split.
    - intros H d' E. inversion E. subst d'. exact H.
    - intros H. apply H. reflexivity. }
  rewrite Hd. tauto.
Qed.

(* ------------------------------------------------------------------ *)
(* user-interface compatibility                                          *)
(* ------------------------------------------------------------------ *)
Lemma has_allowed_iff fs : has_allowed fs = true <-> HasAllowed fs.
Proof.
  unfold has_allowed, HasAllowed. destruct (fget "allowedValues" fs) as [ | | | | | | |[|x l]| | ];
    split; intros H; try discriminate; try reflexivity;
    try (destruct H as (x' & l' & E); discriminate E).
  exists x, l. reflexivity.
Qed.

Lemma set_eq_str_iff a b : set_eq_str a b = true <-> SameSet a b.
Proof.
  unfold set_eq_str, SameSet. rewrite andb_true_iff, !forallb_forall. split.
  - intros [H1 H2] x. split; intros Hin; apply mem_str_In; [apply H1|apply H2]; exact Hin.
  - intros H. split; intros x Hin; apply mem_str_In; apply H; exact Hin.
Qed.

Ltac reflect_str ctl lit name :=
  pose proof (str_eqb_eq ctl lit) as name; destruct (str_eqb ctl lit).

Theorem string_ui_rule_iff : forall fs, string_ui_ok fs = true <-> StringUiRule fs.
Proof.
  intros fs. unfold string_ui_ok, StringUiRule, control_of, Control.
  destruct (fget "userInterface" fs) as [ | | | | | | | | |c ui] eqn:Eui;
    try (split; [intros _ ctl (c' & ui' & E & _); discriminate E|reflexivity]).
  set (ctl0 := mstr (fget "control" ui)).
  assert (Hcb : (match fget "allowedValues" fs with
                 | MNone => false
                 | av => existsb (fun st => set_eq_str (map (fun it => upper_s (mstr it)) (mitems av)) (map str_of_string st))
                                 Generated.checkbox_sets
                 end) = true <->
                (fget "allowedValues" fs <> MNone /\
                 exists st, In st Generated.checkbox_sets /\
                   SameSet (map (fun it => upper_s (mstr it)) (mitems (fget "allowedValues" fs))) (map str_of_string st))).
  { assert (Hex : existsb (fun st => set_eq_str (map (fun it => upper_s (mstr it)) (mitems (fget "allowedValues" fs))) (map str_of_string st))
                          Generated.checkbox_sets = true <->
                  exists st, In st Generated.checkbox_sets /\
                    SameSet (map (fun it => upper_s (mstr it)) (mitems (fget "allowedValues" fs))) (map str_of_string st)).
    { rewrite existsb_exists. split; intros (st & Hin & E); exists st; (split; [exact Hin|]); apply set_eq_str_iff; exact E. }
    destruct (fget "allowedValues" fs) eqn:Eav;
      try (rewrite Hex; split; [intros H; split; [discriminate|exact H]|intros [_ H]; exact H]).
    split; [discriminate|intros [C _]; exfalso; apply C; reflexivity]. }
  pose proof (has_allowed_iff fs) as Hha.
  split.
  - intros H ctl (c' & ui' & E & Ectl). inversion E. subst c' ui'. fold ctl0 in Ectl. subst ctl.
    rewrite !andb_true_iff in H. destruct H as [[H1 H2] H3].
    rewrite negb_true_iff in H1, H2.
    reflect_str ctl0 $"LINE_EDIT" L1; reflect_str ctl0 $"MULTILINE_EDIT" L2;
      reflect_str ctl0 $"DROPDOWN_LIST" L3; reflect_str ctl0 $"CHECK_BOX" L4;
      destruct (has_allowed fs); cbn in H1, H2;
      try discriminate H1; try discriminate H2;
      (split; [|split]);
      try (intros [X|X]; [apply L1 in X|apply L2 in X]; discriminate X);
      try (intros X; apply L3 in X; discriminate X);
      try (intros X; apply L4 in X; discriminate X);
      try (intros _; apply Hha; reflexivity);
      try (intros _ X; apply Hha in X; discriminate X);
      try (intros _; apply Hcb; exact H3).
  - intros H. specialize (H ctl0 (ex_intro _ c (ex_intro _ ui (conj eq_refl eq_refl)))).
    destruct H as (R1 & R2 & R3).
    rewrite !andb_true_iff, !negb_true_iff.
    reflect_str ctl0 $"LINE_EDIT" L1; reflect_str ctl0 $"MULTILINE_EDIT" L2;
      reflect_str ctl0 $"DROPDOWN_LIST" L3; reflect_str ctl0 $"CHECK_BOX" L4;
      destruct (has_allowed fs) eqn:Eha; cbn;
      repeat split;
      try reflexivity;
      try (apply Hcb; apply R3; apply L4; reflexivity);
      try (exfalso; apply R1; [first [left; apply L1; reflexivity|right; apply L2; reflexivity]|apply Hha; reflexivity]);
      try (assert (X : HasAllowed fs) by (apply R2; apply L3; reflexivity); apply Hha in X; discriminate X).
Qed.

Lemma ui_match_iff (v : mval) (B : list (string * mval) -> bool) (P : list (string * mval) -> Prop) :
  (forall ui, B ui = true <-> P ui) ->
  ((match v with MModel _ ui => B ui | _ => true end) = true <-> forall c ui, v = MModel c ui -> P ui).
Proof.
  intros HB. destruct v; split; intros H; try reflexivity; try (intros c' ui' E; discriminate E).
  - intros c' ui' E. inversion E. subst. apply HB. exact H.
  - apply HB. apply (H cls). reflexivity.
Qed.

Lemma has_filters_iff ui :
  (match fget "fileFilters" ui with MList (_ :: _) => true | _ => false end)
  || negb (is_none (fget "fileFilterDefault" ui)) = true <-> HasFilters ui.
Proof.
  unfold HasFilters. rewrite orb_true_iff, negb_true_iff.
  assert (H1 : (match fget "fileFilters" ui with MList (_ :: _) => true | _ => false end) = true <->
               exists x l, fget "fileFilters" ui = MList (x :: l)).
  { destruct (fget "fileFilters" ui) as [ | | | | | | |[|x l]| | ]; split; intros H;
      try discriminate; try (destruct H as (x' & l' & E); discriminate E).
    - exists x, l. reflexivity.
    - reflexivity. }
  assert (H2 : is_none (fget "fileFilterDefault" ui) = false <-> fget "fileFilterDefault" ui <> MNone).
  { destruct (fget "fileFilterDefault" ui); cbn; split; intros H; try reflexivity; try discriminate; try congruence. }
  rewrite H1, H2. reflexivity.
Qed.

Theorem path_ui_rule_iff : forall fs, path_ui_ok fs = true <-> PathUiRule fs.
Proof.
  intros fs. unfold path_ui_ok, PathUiRule. apply ui_match_iff. intros ui. cbv zeta.
  set (ctl := mstr (fget "control" ui)). set (ot := mstr (fget "objectType" fs)).
  pose proof (has_filters_iff ui) as RF.
  set (hf := (match fget "fileFilters" ui with MList (_ :: _) => true | _ => false end)
             || negb (is_none (fget "fileFilterDefault" ui))) in *.
  pose proof (has_allowed_iff fs) as RA. set (ha := has_allowed fs) in *.
  pose proof (str_eqb_eq ctl $"CHOOSE_INPUT_FILE") as RI. set (bi := str_eqb ctl $"CHOOSE_INPUT_FILE") in *.
  pose proof (str_eqb_eq ctl $"CHOOSE_OUTPUT_FILE") as RO. set (bo := str_eqb ctl $"CHOOSE_OUTPUT_FILE") in *.
  pose proof (str_eqb_eq ctl $"CHOOSE_DIRECTORY") as RD. set (bd := str_eqb ctl $"CHOOSE_DIRECTORY") in *.
  pose proof (str_eqb_eq ctl $"DROPDOWN_LIST") as RL. set (bl := str_eqb ctl $"DROPDOWN_LIST") in *.
  pose proof (str_eqb_eq ot $"FILE") as RTF. set (tf := str_eqb ot $"FILE") in *.
  pose proof (str_eqb_eq ot $"DIRECTORY") as RTD. set (td := str_eqb ot $"DIRECTORY") in *.
  rewrite <- RF, <- RA, <- RI, <- RO, <- RD, <- RL, <- RTF, <- RTD.
  clear RF RA RI RO RD RL RTF RTD. clearbody hf ha bi bo bd bl tf td.
  destruct hf, ha, bi, bo, bd, bl, tf, td; cbn; intuition discriminate.
Qed.

Lemma has_delta_iff ui :
  (match num_of (fget "singleStepDelta" ui) with Some d => num_truthy d | None => false end) = true <-> HasDelta ui.
Proof.
  unfold HasDelta. destruct (num_of (fget "singleStepDelta" ui)) as [d|]; split; intros H.
  - exists d. split; [reflexivity|]. unfold num_truthy in H. rewrite negb_true_iff in H.
    apply Z.eqb_neq. exact H.
  - destruct H as (d' & E & Hn). inversion E. subst d'. unfold num_truthy. rewrite negb_true_iff.
    apply Z.eqb_neq. exact Hn.
  - discriminate.
  - destruct H as (d' & E & _). discriminate E.
Qed.

Theorem num_ui_rule_iff : forall fs, num_ui_ok fs = true <-> NumUiRule fs.
Proof.
  intros fs. unfold num_ui_ok, NumUiRule. apply ui_match_iff. intros ui. cbv zeta.
  set (ctl := mstr (fget "control" ui)).
  pose proof (has_delta_iff ui) as RDl.
  set (dl := match num_of (fget "singleStepDelta" ui) with Some d => num_truthy d | None => false end) in *.
  pose proof (has_allowed_iff fs) as RA. set (ha := has_allowed fs) in *.
  pose proof (str_eqb_eq ctl $"SPIN_BOX") as RS. set (bs := str_eqb ctl $"SPIN_BOX") in *.
  pose proof (str_eqb_eq ctl $"DROPDOWN_LIST") as RL. set (bl := str_eqb ctl $"DROPDOWN_LIST") in *.
  rewrite <- RDl, <- RA, <- RS, <- RL.
  clear RDl RA RS RL. clearbody dl ha bs bl.
  destruct dl, ha, bs, bl; cbn; intuition discriminate.
Qed.

(* ------------------------------------------------------------------ *)
(* combination expression                                                *)
(* ------------------------------------------------------------------ *)
Theorem combination_rule_iff : forall fs,
  (nodupb (names_of (fget "taskParameterDefinitions" fs))
   && match fget "combination" fs with
      | MStr s => match Comb.parse_str classify s with
                  | Ok t => Comb.accounting false (names_of (fget "taskParameterDefinitions" fs)) (Comb.collect_ids t)
                  | Raise _ => false
                  end
      | _ => true
      end) = true <-> CombinationRule classify fs.
Proof.
  intros fs. unfold CombinationRule. cbv zeta. rewrite andb_true_iff, nodupb_iff.
  set (names := names_of (fget "taskParameterDefinitions" fs)).
  split.
  - intros [ND H]. split; [exact ND|]. intros s E. rewrite E in H.
    destruct (parse_str classify s) as [t|e]; [|discriminate].
    exists t. split; [reflexivity|]. apply (accounting_permutation names _ ND). exact H.
  - intros [ND H]. split; [exact ND|].
    destruct (fget "combination" fs) as [ | | | | |s| | | | ]; try reflexivity.
    destruct (H s eq_refl) as (t & E & P). rewrite E. apply (accounting_permutation names _ ND). exact P.
Qed.

(* ------------------------------------------------------------------ *)
(* task parameter ranges                                                 *)
(* ------------------------------------------------------------------ *)
Lemma fmt_items_iff items :
  forallb (fun it => match it with MFmt s => has_refs classify s | _ => true end) items = true <->
  (forall s, In (MFmt s) items -> HasRefs classify s).
Proof.
  rewrite forallb_forall. split.
  - intros H s Hin. apply has_refs_iff. exact (H (MFmt s) Hin).
  - intros H it Hin. destruct it; try reflexivity. apply has_refs_iff. apply H. exact Hin.
Qed.

Lemma range_expr_ok_iff s : range_expr_ok classify s = true <-> RangeExprOk classify s.
Proof.
  unfold range_expr_ok, RangeExprOk. destruct (from_str false false classify s) as [e|x].
  - rewrite Z.ltb_lt. split.
    + intros H. exists e. split; [reflexivity|exact H].
    + intros (e' & E & H). injection E as E. subst e'. exact H.
  - split; [discriminate|]. intros (e & E & _). discriminate E.
Qed.

Theorem int_range_rule_iff : forall fs,
  (match fget "range" fs with
   | MList items => forallb (fun it => match it with MFmt s => has_refs classify s | _ => true end) items
   | MFmt s => if has_refs classify s then true else range_expr_ok classify s
   | _ => true
   end) = true <-> IntRangeRule classify fs.
Proof.
  intros fs. unfold IntRangeRule. destruct (fget "range" fs) as [ | | | | | |s|items| | ];
    try (split; [intros _; exact I|reflexivity]).
  - pose proof (has_refs_iff classify s) as HR. pose proof (range_expr_ok_iff s) as RO.
    destruct (has_refs classify s).
    + split; [intros _; left; apply HR; reflexivity|reflexivity].
    + split.
      * intros H. right. apply RO. exact H.
      * intros [H|H]; [apply HR in H; discriminate H|apply RO; exact H].
  - apply fmt_items_iff.
Qed.

Theorem float_range_rule_iff : forall fs,
  forallb (fun it => match it with MFmt s => has_refs classify s | _ => true end) (mitems (fget "range" fs)) = true
  <-> FloatRangeRule classify fs.
Proof. intros fs. apply fmt_items_iff. Qed.

(* ------------------------------------------------------------------ *)
(* environments                                                          *)
(* ------------------------------------------------------------------ *)
Theorem env_rule_iff : forall fs,
  (match fget "variables" fs with MDict [] => false | _ => true end) = true <-> EnvRule fs.
Proof.
  intros fs. unfold EnvRule. destruct (fget "variables" fs) as [ | | | | | | | |[|x l]| ];
    split; intros H; try reflexivity; try discriminate. exfalso. apply H. reflexivity.
Qed.

(* ------------------------------------------------------------------ *)
(* steps: dependencies                                                   *)
(* ------------------------------------------------------------------ *)
Theorem step_rule_iff : forall c fs,
  (nodupb (dep_names (MModel c fs)) && unique_names (fget "stepEnvironments" fs)
   && negb (mem_str (mstr (fget "name" fs)) (dep_names (MModel c fs)))) = true <-> StepRule fs.
Proof.
  intros c fs. unfold StepRule. cbv zeta.
  change (dep_names (MModel c fs)) with (dep_names (MModel "StepTemplate" fs)).
  rewrite !andb_true_iff, nodupb_iff, unique_names_iff, negb_mem_str. tauto.
Qed.

Lemma index_of_In x l : forall i, In x l ->
  exists k, index_of x l i = Some k /\ (i <= k)%N /\ (k < i + N.of_nat (List.length l))%N.
Proof.
  induction l as [|y r IH]; intros i Hin; [contradiction|]. cbn [index_of List.length].
  destruct (str_eqb x y) eqn:E.
  - exists i. split; [reflexivity|]. lia.
  - destruct Hin as [Hy|Hr]; [subst y; rewrite (proj2 (str_eqb_eq x x) eq_refl) in E; discriminate|].
    destruct (IH (i + 1)%N Hr) as (k & Hk & H1 & H2). exists k. split; [exact Hk|]. lia.
Qed.

Lemma map_fst_combine' {A B} (l1 : list A) : forall (l2 : list B),
  List.length l1 = List.length l2 -> map fst (combine l1 l2) = l1.
Proof.
  induction l1 as [|a r IH]; intros [|b s] H; cbn in *; try discriminate; [reflexivity|].
  f_equal. apply IH. lia.
Qed.

Lemma names_of_length v : List.length (names_of v) = List.length (mitems v).
Proof. unfold names_of. apply map_length. Qed.

Lemma dep_job_names steps :
  DepGraphSpec.names (dep_job steps) = map N.of_nat (seq 0 (List.length (mitems steps))).
Proof.
  unfold DepGraphSpec.names, dep_job. rewrite map_map. cbn [fst].
  rewrite names_of_length.
  rewrite <- (map_map fst N.of_nat). rewrite map_fst_combine'; [reflexivity|]. apply seq_length.
Qed.

Lemma dep_job_nodup steps : NoDup (DepGraphSpec.names (dep_job steps)).
Proof.
  rewrite dep_job_names. apply FinFun.Injective_map_NoDup; [|apply seq_NoDup].
  intros a b E. apply Nat2N.inj. exact E.
Qed.

Lemma dep_job_closed steps :
  (forall st d, In st (mitems steps) -> In d (dep_names st) -> In d (names_of steps)) ->
  closed (dep_job steps).
Proof.
  intros Hc n ds d Hin Hd. rewrite dep_job_names.
  unfold dep_job in Hin. apply in_map_iff in Hin. destruct Hin as ([i st] & E & Hcomb).
  cbn [fst snd] in E. inversion E. subst n ds. clear E.
  apply in_map_iff in Hd. destruct Hd as (d0 & Ed & Hd0).
  apply in_combine_r in Hcomb.
  destruct (index_of_In d0 (names_of steps) 0%N (Hc st d0 Hcomb Hd0)) as (k & Hk & _ & Hlt).
  rewrite Hk in Ed. subst d. rewrite names_of_length in Hlt.
  apply in_map_iff. exists (N.to_nat k). split; [apply N2Nat.id|]. apply in_seq. lia.
Qed.

Theorem deps_rule_iff : forall steps,
  (nodupb (names_of steps)
   && negb (DepGraph.has_cycle (dep_job steps))
   && forallb (fun st => forallb (fun d => mem_str d (names_of steps)) (dep_names st)) (mitems steps)) = true
  <-> DepsRule steps.
Proof.
  intros steps. unfold DepsRule. rewrite !andb_true_iff, nodupb_iff, negb_true_iff.
  assert (Hcl : forallb (fun st => forallb (fun d => mem_str d (names_of steps)) (dep_names st)) (mitems steps) = true
                <-> (forall st d, In st (mitems steps) -> In d (dep_names st) -> In d (names_of steps))).
  { rewrite forallb_forall. split.
    - intros H st d Hst Hd. specialize (H st Hst). rewrite forallb_forall in H. apply mem_str_In. apply H. exact Hd.
    - intros H st Hst. apply forallb_forall. intros d Hd. apply mem_str_In. exact (H st d Hst Hd). }
  rewrite Hcl. split.
  - intros [[ND Hcy] Hc]. split; [exact ND|]. split; [exact Hc|].
    assert (Hw : well_named (dep_job steps)) by (split; [apply dep_job_nodup|apply dep_job_closed; exact Hc]).
    pose proof (has_cycle_iff (dep_job steps) Hw) as HI.
    intros n Hp. assert (NN : ~ ~ acyclic (dep_job steps)).
    { intros Hna. apply HI in Hna. rewrite Hna in Hcy. discriminate. }
    apply NN. intros Ha. exact (Ha n Hp).
  - intros (ND & Hc & Ha). split; [split; [exact ND|]|exact Hc].
    assert (Hw : well_named (dep_job steps)) by (split; [apply dep_job_nodup|apply dep_job_closed; exact Hc]).
    pose proof (has_cycle_iff (dep_job steps) Hw) as HI.
    destruct (has_cycle (dep_job steps)); [|reflexivity].
    exfalso. apply (proj1 HI eq_refl). exact Ha.
Qed.

Theorem env_disjoint_rule_iff : forall fs,
  (let jenv := env_names (fget "jobEnvironments" fs) in
   forallb (fun st => forallb (fun e => negb (mem_str e jenv)) (env_names (fget "stepEnvironments" (model_fields st))))
           (mitems (fget "steps" fs))) = true <-> EnvDisjointRule fs.
Proof.
  intros fs. unfold EnvDisjointRule, env_names. cbv zeta. rewrite forallb_forall. split.
  - intros H st e Hst He. specialize (H st Hst). rewrite forallb_forall in H. apply negb_mem_str. apply H. exact He.
  - intros H st Hst. apply forallb_forall. intros e He. apply negb_mem_str. exact (H st e Hst He).
Qed.

Theorem job_template_rule_iff : forall raw fs,
  job_template_ok classify raw fs = true <-> JobTemplateRule classify raw fs.
Proof.
  intros raw fs. unfold job_template_ok, JobTemplateRule, RefsInScope. cbv zeta.
  pose proof (deps_rule_iff (fget "steps" fs)) as HD.
  pose proof (env_disjoint_rule_iff fs) as HE. cbv zeta in HE.
  rewrite !andb_true_iff in *. rewrite !unique_names_iff.
  assert (HP : (match prevalidate Generated.schema (fs_refs classify) "JobTemplate" raw with [] => true | _ => false end) = true
               <-> prevalidate Generated.schema (fs_refs classify) "JobTemplate" raw = []).
  { destruct (prevalidate Generated.schema (fs_refs classify) "JobTemplate" raw); split; intros H; try reflexivity; discriminate. }
  rewrite HP. rewrite HE. tauto.
Qed.

Theorem env_template_rule_iff : forall raw fs,
  (unique_names (fget "parameterDefinitions" fs)
   && (match prevalidate Generated.schema (fs_refs classify) "EnvironmentTemplate" raw with [] => true | _ => false end)) = true
  <-> EnvTemplateRule classify raw fs.
Proof.
  intros raw fs. unfold EnvTemplateRule, RefsInScope. rewrite andb_true_iff, unique_names_iff.
  destruct (prevalidate Generated.schema (fs_refs classify) "EnvironmentTemplate" raw); split; intros [H1 H2];
    (split; [exact H1|]); try reflexivity; discriminate.
Qed.

(* ------------------------------------------------------------------ *)
(* host requirements (capability names: AcceptCap.v)                     *)
(* ------------------------------------------------------------------ *)
Lemma opt_num_match_iff (o : option num) (p : num -> bool) :
  (match o with Some v => p v | None => true end) = true <-> forall v, o = Some v -> p v = true.
Proof.
  destruct o as [x|]; split; intros H; try reflexivity.
  - intros v E. inversion E. subst. exact H.
  - apply H. reflexivity.
  - intros v E. discriminate E.
Qed.

Theorem host_req_rule_iff : forall fs,
  ((match fget "amounts" fs with MList [] => false | _ => true end)
   && (match fget "attributes" fs with MList [] => false | _ => true end)
   && negb (is_none (fget "amounts" fs) && is_none (fget "attributes" fs))
   && N.leb (N.of_nat (List.length (mitems (fget "amounts" fs)) + List.length (mitems (fget "attributes" fs))))
            Generated.max_requirements) = true <-> HostReqRule fs.
Proof.
  intros fs. unfold HostReqRule. cbv zeta.
  set (am := fget "amounts" fs). set (at_ := fget "attributes" fs).
  assert (HE : forall v, (match v with MList [] => false | _ => true end) = true <-> v <> MList []).
  { intros v. destruct v as [ | | | | | | |[|x l]| | ]; split; intros H; try reflexivity; try discriminate.
    exfalso. apply H. reflexivity. }
  rewrite !andb_true_iff, !HE, negb_true_iff, andb_false_iff, N.leb_le.
  assert (HN : forall v, is_none v = false <-> v <> MNone).
  { intros v. destruct v; cbn; split; intros H; try reflexivity; try discriminate; congruence. }
  rewrite !HN.
  assert (Dam : am = MNone \/ am <> MNone) by (destruct am; (left; reflexivity) || (right; discriminate)).
  tauto.
Qed.

Lemma existsb_sos_In s l :
  existsb (fun x => str_eqb s (str_of_string x)) l = true <-> In s (map str_of_string l).
Proof.
  rewrite existsb_exists, in_map_iff. split; intros (x & H1 & H2); exists x.
  - apply str_eqb_eq in H2. split; [symmetry; exact H2|exact H1].
  - split; [exact H2|]. apply str_eqb_eq. symmetry. exact H1.
Qed.

Lemma attr_value_ok_iff s : attr_value_ok s = true <-> AttrValue s.
Proof.
  unfold attr_value_ok, AttrValue. destruct s as [|c r].
  - split; [discriminate|intros (c & r & E & _); discriminate E].
  - rewrite andb_true_iff, forallb_forall. split.
    + intros [H1 H2]. exists c, r. split; [reflexivity|]. split; [exact H1|].
      apply Forall_forall. intros x Hx. specialize (H2 x Hx). apply orb_true_iff in H2.
      destruct H2 as [H2|H2]; [left; exact H2|right; apply N.eqb_eq; exact H2].
    + intros (c' & r' & E & H1 & H2). inversion E. subst c' r'. split; [exact H1|].
      intros x Hx. rewrite Forall_forall in H2. apply orb_true_iff.
      destruct (H2 x Hx) as [H|H]; [left; exact H|right; apply N.eqb_eq; exact H].
Qed.

Lemma none_or_iff (v : mval) (X : bool) :
  (match v with MNone => true | _ => X end) = true <-> (v = MNone \/ X = true).
Proof.
  destruct v; split; intros H; try reflexivity; try (right; exact H);
    try (destruct H as [E|E]; [discriminate E|exact E]).
  left. reflexivity.
Qed.

Lemma mfmt_match_iff (v : mval) (Y : str -> bool) :
  (match v with MFmt nm => Y nm | _ => true end) = true <-> forall nm, v = MFmt nm -> Y nm = true.
Proof.
  destruct v; split; intros H; try reflexivity; try (intros nm E; discriminate E).
  - intros nm E. inversion E. subst. exact H.
  - apply H. reflexivity.
Qed.

Theorem attribute_list_rule_iff : forall name v is_allof,
  attribute_list_ok classify name v is_allof = true <-> AttrListRule classify name v is_allof.
Proof.
  intros name v is_allof. unfold attribute_list_ok, AttrListRule.
  rewrite none_or_iff.
  apply or_iff_compat_l.
  rewrite mfmt_match_iff.
  assert (HX : forall nm,
    (match List.find (fun e => str_eqb (lower_s nm) (str_of_string (fst e))) Generated.std_attr_caps with
     | Some (_, (values, multivalued)) =>
       negb (is_allof && negb multivalued && Nat.ltb 1 (List.length (mitems v)))
       && forallb (fun it => has_refs classify (mstr it) || existsb (fun x => str_eqb (mstr it) (str_of_string x)) values) (mitems v)
     | None =>
       forallb (fun it => has_refs classify (mstr it)
                          || (attr_value_ok (mstr it) && N.leb (N.of_nat (List.length (mstr it))) Generated.attr_value_max_len))
               (mitems v)
     end) = true <->
    match std_attr (lower_s nm) with
    | Some (values, multivalued) =>
      (is_allof = true -> multivalued = false -> List.length (mitems v) <= 1) /\
      (forall it, In it (mitems v) -> HasRefs classify (mstr it) \/ In (mstr it) (map str_of_string values))
    | None =>
      forall it, In it (mitems v) ->
        HasRefs classify (mstr it) \/
        (AttrValue (mstr it) /\ (N.of_nat (List.length (mstr it)) <= Generated.attr_value_max_len)%N)
    end).
  { intros nm. unfold std_attr.
    destruct (List.find (fun e => str_eqb (lower_s nm) (str_of_string (fst e))) Generated.std_attr_caps)
      as [[n0 [values multivalued]]|].
    - rewrite andb_true_iff, forallb_forall.
      assert (H1 : negb (is_allof && negb multivalued && Nat.ltb 1 (List.length (mitems v))) = true <->
                   (is_allof = true -> multivalued = false -> List.length (mitems v) <= 1)).
      { pose proof (Nat.ltb_ge 1 (List.length (mitems v))) as HL.
        set (lt := Nat.ltb 1 (List.length (mitems v))) in *. clearbody lt.
        destruct is_allof, multivalued; cbn; split; intros H; try reflexivity; try (intros; discriminate).
        - intros _ _. rewrite negb_true_iff in H. apply HL. exact H.
        - rewrite negb_true_iff. apply HL. apply H; reflexivity. }
      rewrite H1. apply and_iff_compat_l. split.
      + intros H it Hin. specialize (H it Hin). apply orb_true_iff in H.
        destruct H as [H|H]; [left; apply has_refs_iff; exact H|right; apply existsb_sos_In; exact H].
      + intros H it Hin. apply orb_true_iff.
        destruct (H it Hin) as [Hr|Hr]; [left; apply has_refs_iff; exact Hr|right; apply existsb_sos_In; exact Hr].
    - rewrite forallb_forall. split.
      + intros H it Hin. specialize (H it Hin). apply orb_true_iff in H.
        destruct H as [H|H]; [left; apply has_refs_iff; exact H|right].
        apply andb_true_iff in H. destruct H as [Ha Hl]. split; [apply attr_value_ok_iff; exact Ha|apply N.leb_le; exact Hl].
      + intros H it Hin. apply orb_true_iff.
        destruct (H it Hin) as [Hr|[Ha Hl]]; [left; apply has_refs_iff; exact Hr|right].
        apply andb_true_iff. split; [apply attr_value_ok_iff; exact Ha|apply N.leb_le; exact Hl]. }
  split; intros H nm E; apply HX; apply H; exact E.
Qed.

(* ------------------------------------------------------------------ *)
(* pre validators (raw data)                                             *)
(* ------------------------------------------------------------------ *)
Lemma raw_int_or_str_iff j : raw_int_or_str j = true <-> RawIntOrStr j.
Proof.
  unfold RawIntOrStr. destruct j; cbn; split; intros H; try reflexivity; try discriminate;
    try (destruct H as [(z0 & E)|(s0 & E)]; discriminate E).
  - left. exists z. reflexivity.
  - right. exists s. reflexivity.
Qed.

Lemma raw_num_or_str_iff j : raw_num_or_str j = true <-> RawNumOrStr j.
Proof.
  unfold RawNumOrStr. destruct j; cbn; split; intros H; try reflexivity; try discriminate;
    try (destruct H as [(z0 & E)|[(m0 & e0 & E)|(s0 & E)]]; discriminate E).
  - left. exists z. reflexivity.
  - right. left. exists m, e. reflexivity.
  - right. right. exists s. reflexivity.
Qed.

Lemma raw_null_or_iff j : raw_null_or raw_int_or_str j = true <-> (NonNull j -> RawIntOrStr j).
Proof.
  unfold raw_null_or, NonNull. destruct j; try (rewrite raw_int_or_str_iff; split; [intros H _; exact H|intros H; apply H; discriminate]).
  split; [intros _ C; exfalso; apply C; reflexivity|reflexivity].
Qed.

Lemma arr_match_iff (j : json) (p : json -> bool) (P : json -> Prop) :
  (forall x, p x = true <-> P x) ->
  ((match j with JArr items => forallb p items | _ => true end) = true <->
   forall items, j = JArr items -> Forall P items).
Proof.
  intros Hp. destruct j; split; intros H; try reflexivity; try (intros items E; discriminate E).
  - intros items E. inversion E. subst. apply Forall_forall. intros x Hx. apply Hp.
    rewrite forallb_forall in H. apply H. exact Hx.
  - apply forallb_forall. intros x Hx. apply Hp. specialize (H l eq_refl). rewrite Forall_forall in H. apply H. exact Hx.
Qed.

End WithClassify.
