(* AcceptComplete.v — the C02 direction: the frozen 2023-09 table accepts no more than the schema read
   from the live classes, hence every well-formed document is accepted. *)
From Coq Require Import List NArith ZArith Bool String Lia Permutation.
Import ListNotations.
Require Import OJD.Base OJD.Lexer OJD.Json OJD.Schema OJD.Generated OJD.SchemaSpec OJD.SchemaOrder
               OJD.Charsets OJD.Numerals OJD.FormatStr OJD.FsRefs OJD.CreateJob OJD.RangeExpr OJD.Comb
               OJD.CombProofs OJD.ScopeWalk OJD.DepGraph OJD.Parse OJD.Validators OJD.Accept
               OJD.WF OJD.AcceptMono OJD.AcceptRules OJD.AcceptCap OJD.AcceptProofs.
Local Open Scope string_scope.
Local Open Scope list_scope.


Theorem table_le_spec_code : schema_le spec_schema Generated.schema = true.
Proof. vm_compute. reflexivity. Qed.

Theorem structural_spec_code : forall classify j v,
  decode_job_on spec_schema classify j = Ok v -> decode_job classify j = Ok v.
Proof.
  (* the hypothesis is introduced first: the goal then mentions only [decode_job], and [rewrite] never has to
     compare the two tables by conversion (slow when they differ) *)
  intros classify j v H. rewrite (decode_job_on_code classify j).
  exact (decode_job_on_mono _ _ classify j v table_le_spec_code H).
Qed.

Theorem structural_env_spec_code : forall classify j v,
  decode_env_on spec_schema classify j = Ok v -> decode_env classify j = Ok v.
Proof.
  intros classify j v H. rewrite (decode_env_on_code classify j).
  exact (decode_env_on_mono _ _ classify j v table_le_spec_code H).
Qed.

Section Docs.
Variable classify : N -> cclass.

(* C02: whatever is well-formed, decode_job_template accepts *)
Theorem job_complete : forall j, WFdoc classify "JobTemplate" j -> exists v, decode_job classify j = Ok v.
Proof.
  intros j H. apply WFdoc_iff_spec_parse in H. destruct H as (v & H). exists v.
  apply structural_spec_code. unfold decode_job_on.
  pose proof H as H'. unfold parse_template_on, parse_root in H'.
  destruct (parse_cls_ok_obj _ _ _ _ _ _ _ _ H') as (ms & E). subst j.
  rewrite (spec_job_version _ _ _ _ _ _ H'). exact H.
Qed.

Theorem env_complete : forall j, WFdoc classify "EnvironmentTemplate" j -> exists v, decode_env classify j = Ok v.
Proof.
  intros j H. apply WFdoc_iff_spec_parse in H. destruct H as (v & H). exists v.
  apply structural_env_spec_code. unfold decode_env_on.
  pose proof H as H'. unfold parse_template_on, parse_root in H'.
  destruct (parse_cls_ok_obj _ _ _ _ _ _ _ _ H') as (ms & E). subst j.
  rewrite (spec_env_version _ _ _ _ _ _ H'). exact H.
Qed.
End Docs.
