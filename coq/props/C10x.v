(* props/C10x.v — C10 / C11 / C12 for preprocess_job_parameters AS A WHOLE, on raw documents: one Coq function.

   Model (theories/PreprocessFull.v):
     [preprocess_docs classify mode template_dir cwd walk_up env_docs doc vals]
         : outcome (outcome (list (name * (type * value))))
       decode_job / decode_env (Accept.v) on the raw documents          outer Raise = a template is not accepted
       defs_of_template + merge_definitions (CreateJobFull.v, Merge.v)  read the definitions, group by name, merge
       JobParams.preprocess with the PATH rules of the call              extra / defaults / checks / missing
         dir_ok       := negb (Paths.dir_check dir walkup)               "template dir must be absolute"
         path_in      := Paths.path_supplied cwd                         relative supplied PATH value -> cwd / v
         path_default := Paths.default_body dir walkup                   PATH default: joined, contained unless walk-up
       mode Client: (dir, cwd, walkup) are the caller's;  mode Server: ("", "", true), what create_job passes.
     [docs_sources classify env_docs doc]  every definition that takes part, in merge order;
     [docs_merged classify env_docs doc]   the merged definitions the call works on.
   Vocabulary (theories/PreprocessFullSpec.v): accepted, group_of, merged_from, dir_rule_ok, path_in_of,
   path_default_of; sat / final / no_extra / no_missing / path_defaults_ok / all_sat are C10's (JobParamsSpec.v),
   contained / spec_supplied C11's (PathsSpec.v), last_given_default C12's (MergeSpec.v).
   Proofs: theories/PreprocessFullProofs.v, theories/PreprocessFullLib.v.
   Correspondence with the implementation: harness/c10full.py (the model is fed ONLY the raw documents, the value
   map, the two directories, the flag and the mode). *)
From Coq Require Import List NArith ZArith Bool String.
Import ListNotations.
Require Import OJD.Base OJD.Lexer OJD.Json OJD.Numerals OJD.NumeralsSpec OJD.CreateJob OJD.Accept
               OJD.JobParams OJD.JobParamsSpec OJD.Merge OJD.MergeSpec OJD.Paths OJD.PathsSpec OJD.PathsProofs
               OJD.CreateJobFull OJD.PreprocessFull OJD.PreprocessFullSpec OJD.PreprocessFullLib OJD.PreprocessFullProofs.
Local Open Scope string_scope.
Local Open Scope list_scope.

(* ------------------------------------------------------------------ reading the documents *)

(* on accepted documents reading the definitions cannot fail, and every definition read is what C10 / C12 assume
   of a definition (allowedValues non-empty, maxLength <> 0; numeric defaults are numerals of their type):
   [wf_def] is PROVED of the decoder here, it is no longer a premise about the harness' conversion *)
Theorem C10_full_sources_total : forall classify env_docs doc, accepted classify env_docs doc ->
  exists srcs, docs_sources classify env_docs doc = Ok srcs /\ Forall wf_def srcs /\ Forall wf_default srcs.
Proof. exact docs_sources_total. Qed.
Print Assumptions C10_full_sources_total.

(* ------------------------------------------------------------------ C10 *)

(* success <-> the definitions merge, and for the MERGED definitions: the template-directory rule holds, no
   undefined name is supplied, every parameter without default is supplied, every PATH default that is used can be
   joined, and every final value satisfies its definition *)
Theorem C10_full_iff : forall classify mode template_dir cwd walk_up env_docs doc vals,
  accepted classify env_docs doc ->
  ((exists r, preprocess_docs classify mode template_dir cwd walk_up env_docs doc vals = Ok (Ok r)) <->
   exists defs, docs_merged classify env_docs doc = Ok defs /\
     dir_rule_ok (eff_dir mode template_dir) (eff_walk mode walk_up) defs /\
     no_extra defs vals /\ no_missing defs vals /\
     path_defaults_ok (path_default_of mode template_dir walk_up) defs vals /\
     all_sat (path_in_of mode cwd) (path_default_of mode template_dir walk_up) defs vals).
Proof. exact preprocess_docs_iff. Qed.
Print Assumptions C10_full_iff.

(* ... and in terms of the SOURCE definitions (C12_sound + C12_complete through the composition): every final value
   is accepted by EVERY individual definition of its parameter, in every template that defines it *)
Theorem C10_full_iff_sources : forall classify mode template_dir cwd walk_up env_docs doc vals srcs,
  docs_sources classify env_docs doc = Ok srcs ->
  ((exists r, preprocess_docs classify mode template_dir cwd walk_up env_docs doc vals = Ok (Ok r)) <->
   exists defs, docs_merged classify env_docs doc = Ok defs /\
     dir_rule_ok (eff_dir mode template_dir) (eff_walk mode walk_up) defs /\
     no_extra defs vals /\ no_missing defs vals /\
     path_defaults_ok (path_default_of mode template_dir walk_up) defs vals /\
     (forall d v, In d defs -> final (path_in_of mode cwd) (path_default_of mode template_dir walk_up) vals d v ->
                  Forall (fun s => sat s v) (group_of (pname d) srcs))).
Proof. exact preprocess_docs_iff_sources. Qed.
Print Assumptions C10_full_iff_sources.

(* on success: exactly one entry per merged definition, in definition order, typed as declared, carrying the final
   value; supplied values win and are returned as given, defaults otherwise (PATH joining aside) *)
Theorem C10_full_result : forall classify mode template_dir cwd walk_up env_docs doc vals r,
  preprocess_docs classify mode template_dir cwd walk_up env_docs doc vals = Ok (Ok r) ->
  exists defs, docs_merged classify env_docs doc = Ok defs /\
    Forall2 (fun d (e : str * (ptype * str)) =>
               fst e = pname d /\ fst (snd e) = ptyp d /\
               final (path_in_of mode cwd) (path_default_of mode template_dir walk_up) vals d (snd (snd e))) defs r /\
    (forall d v, In d defs -> is_path d = false -> lookup (pname d) vals = Some v ->
                 lookup (pname d) r = Some (ptyp d, v)) /\
    (forall d t, In d defs -> is_path d = false -> lookup (pname d) vals = None -> pdefault d = Some t ->
                 lookup (pname d) r = Some (ptyp d, t)).
Proof. exact preprocess_docs_result. Qed.
Print Assumptions C10_full_result.

(* whatever leaves preprocess_job_parameters is a ValueError: never CompatibilityError (translated by the code),
   never the model's RuntimeError marker (reading the definitions of accepted templates is total) *)
Theorem C10_full_error : forall classify mode template_dir cwd walk_up env_docs doc vals e,
  preprocess_docs classify mode template_dir cwd walk_up env_docs doc vals = Ok (Raise e) -> e = ValueError.
Proof. exact preprocess_docs_error. Qed.
Print Assumptions C10_full_error.

(* ------------------------------------------------------------------ C12 *)

(* the merged definitions: one per distinct name, each the merge (Merge.merge, props/C12.v) of ALL the source
   definitions of its name in merge order, no name lost; they are well formed *)
Theorem C12_full_merged : forall classify env_docs doc srcs defs,
  docs_sources classify env_docs doc = Ok srcs -> docs_merged classify env_docs doc = Ok defs ->
  merged_from srcs defs /\ Forall wf_def defs.
Proof. exact docs_merged_spec. Qed.
Print Assumptions C12_full_merged.

(* the merge succeeds exactly when the definitions of EVERY name can be merged; otherwise CompatibilityError *)
Theorem C12_full_merge_iff : forall classify env_docs doc srcs,
  docs_sources classify env_docs doc = Ok srcs ->
  ((exists defs, docs_merged classify env_docs doc = Ok defs) <->
   (forall k, In k (map pname srcs) -> exists m, merge false (group_of k srcs) = Ok m)).
Proof. exact docs_merged_ok_iff. Qed.
Print Assumptions C12_full_merge_iff.

Theorem C12_full_merge_error : forall classify env_docs doc e, accepted classify env_docs doc ->
  docs_merged classify env_docs doc = Raise e -> e = CompatibilityError.
Proof. exact docs_merged_error. Qed.
Print Assumptions C12_full_merge_error.

(* a merged definition accepts exactly what every source of its name accepts; its default is the last one given *)
Theorem C12_full_sat : forall srcs defs m v, Forall wf_def srcs -> merged_from srcs defs -> In m defs ->
  (sat m v <-> Forall (fun d => sat d v) (group_of (pname m) srcs)) /\
  pdefault m = last_given_default (group_of (pname m) srcs).
Proof. exact merged_sat. Qed.
Print Assumptions C12_full_sat.

(* ONE parameter whose definitions cannot be merged (types / objectType / dataFlow differ, or no value satisfies
   all constraints: the C12_refuse theorems) makes the whole call a ValueError, in either mode, whatever the values *)
Theorem C12_full_refused : forall classify mode template_dir cwd walk_up env_docs doc vals srcs k,
  docs_sources classify env_docs doc = Ok srcs -> In k (map pname srcs) ->
  merge false (group_of k srcs) = Raise CompatibilityError ->
  preprocess_docs classify mode template_dir cwd walk_up env_docs doc vals = Ok (Raise ValueError).
Proof. exact preprocess_docs_refused_name. Qed.
Print Assumptions C12_full_refused.

(* ------------------------------------------------------------------ C11 *)

(* client mode, walk-up disallowed: every PATH default of the result is "" (an empty default) or an absolute path
   lexically inside the template directory without ".." (C11_contained, transported) *)
Theorem C11_full_contained : forall classify template_dir cwd env_docs doc vals r,
  preprocess_docs classify Client template_dir cwd false env_docs doc vals = Ok (Ok r) ->
  exists defs, docs_merged classify env_docs doc = Ok defs /\
    forall d t, In d defs -> ptyp d = PATH -> lookup (pname d) vals = None -> pdefault d = Some t ->
      exists v, lookup (pname d) r = Some (PATH, v) /\
                ((t = [] /\ v = []) \/ (t <> [] /\ contained template_dir v)).
Proof. exact preprocess_docs_contained. Qed.
Print Assumptions C11_full_contained.

(* a relative template directory never yields a result once ANY template defines a parameter *)
Theorem C11_full_reldir : forall classify template_dir cwd env_docs doc vals defs,
  docs_merged classify env_docs doc = Ok defs -> defs <> [] -> is_absolute template_dir = false ->
  preprocess_docs classify Client template_dir cwd false env_docs doc vals = Ok (Raise ValueError).
Proof. exact preprocess_docs_reldir. Qed.
Print Assumptions C11_full_reldir.

(* supplied PATH values: joined to the working directory of the call when relative and non-empty (client), to ""
   in server mode; PathsSpec.spec_supplied *)
Theorem C11_full_supplied : forall classify mode template_dir cwd walk_up env_docs doc vals r,
  preprocess_docs classify mode template_dir cwd walk_up env_docs doc vals = Ok (Ok r) ->
  exists defs, docs_merged classify env_docs doc = Ok defs /\
    forall d v, In d defs -> ptyp d = PATH -> lookup (pname d) vals = Some v ->
      lookup (pname d) r = Some (PATH, spec_supplied (eff_cwd mode cwd) v).
Proof. exact preprocess_docs_supplied_path. Qed.
Print Assumptions C11_full_supplied.

(* server mode: every default (PATH included) is returned verbatim *)
Theorem C11_full_server_default : forall classify template_dir cwd walk_up env_docs doc vals r,
  preprocess_docs classify Server template_dir cwd walk_up env_docs doc vals = Ok (Ok r) ->
  exists defs, docs_merged classify env_docs doc = Ok defs /\
    forall d t, In d defs -> lookup (pname d) vals = None -> pdefault d = Some t ->
      lookup (pname d) r = Some (ptyp d, t).
Proof. exact preprocess_docs_server_default. Qed.
Print Assumptions C11_full_server_default.

(* the Server mode IS the preprocessing step of the create_job model of props/C06x.v *)
Theorem C10_full_server_is_create_job : forall classify template_dir cwd walk_up env_docs doc vals t envs,
  decode_job classify doc = Ok t -> mapM (decode_env classify) env_docs = Ok envs ->
  match preprocess_docs classify Server template_dir cwd walk_up env_docs doc vals with
  | Ok (Ok r) => prep_full envs t vals = Ok (pvals_of r)
  | Ok (Raise _) => prep_full envs t vals = Raise DecodeValidationError
  | Raise _ => False
  end.
Proof. exact preprocess_docs_server_is_prep_full. Qed.
Print Assumptions C10_full_server_is_create_job.

(* ------------------------------------------------------------------ non-vacuity *)
Definition js (x : string) : json := JStr (str_of_string x).
Definition jo (l : list (string * json)) : json := JObj (map (fun kv => (str_of_string (fst kv), snd kv)) l).
Definition vs (l : list (string * string)) : list (str * str) := map (fun kv => ($(fst kv), $(snd kv))) l.
Definition xstep : json := jo [("name", js "A"); ("script", jo [("actions", jo [("onRun", jo [("command", js "c")])])])].

(* a job template with an INT parameter (minValue 1, default 7), a PATH parameter with a relative default and a
   required PATH parameter *)
Definition xdoc (out_default : string) : json :=
  jo [("specificationVersion", js "jobtemplate-2023-09"); ("name", js "J");
      ("parameterDefinitions",
       JArr [jo [("name", js "Frames"); ("type", js "INT"); ("minValue", JInt 1); ("default", js "7")];
             jo [("name", js "Out"); ("type", js "PATH"); ("default", js out_default)];
             jo [("name", js "In"); ("type", js "PATH"); ("maxLength", JInt 12)]]);
      ("steps", JArr [xstep])].

(* an environment template that re-constrains Frames (maxValue) and adds a parameter of its own *)
Definition xenv (frames_max : Z) : json :=
  jo [("specificationVersion", js "environment-2023-09");
      ("parameterDefinitions",
       JArr [jo [("name", js "Frames"); ("type", js "INT"); ("maxValue", JInt frames_max)];
             jo [("name", js "Extra"); ("type", js "STRING"); ("default", js "e")]]);
      ("environment", jo [("name", js "E"); ("variables", jo [("A", js "b")])])].

(* the hypotheses are met: both documents are accepted, five source definitions are read (environment template
   first), four merged definitions result, Frames carrying both bounds and the job template's default *)
Example C10_full_hypotheses_nonvacuous :
  accepted ascii_class [xenv 10] (xdoc "out/./x") /\
  (exists srcs, docs_sources ascii_class [xenv 10] (xdoc "out/./x") = Ok srcs /\
     map pname srcs = [$"Frames"; $"Extra"; $"Frames"; $"Out"; $"In"] /\
     map pname (group_of $"Frames" srcs) = [$"Frames"; $"Frames"]) /\
  (exists defs, docs_merged ascii_class [xenv 10] (xdoc "out/./x") = Ok defs /\
     map pname defs = [$"Frames"; $"Extra"; $"Out"; $"In"] /\ map ptyp defs = [INT; STRING; PATH; PATH] /\
     map pminv defs = [Some (num_of_Z 1); None; None; None] /\ map pmaxv defs = [Some (num_of_Z 10); None; None; None] /\
     map pdefault defs = [Some $"7"; Some $"e"; Some $"out/./x"; None]).
Proof.
  split; [eexists; eexists; split; vm_compute; reflexivity|].
  split; eexists; (split; [vm_compute; reflexivity|]); repeat split; vm_compute; reflexivity.
Qed.

(* accepted value lists: client mode (the default is joined to /t/dir and tidied, the supplied value joined to
   /cwd), server mode (default verbatim, supplied value tidied), and walk-up allowed with a relative directory *)
Example C10_full_accepted_nonvacuous :
  preprocess_docs ascii_class Client $"/t/dir" $"/cwd" false [xenv 10] (xdoc "out/./x") (vs [("In", "a//b")])
  = Ok (Ok [($"Frames", (INT, $"7")); ($"Extra", (STRING, $"e")); ($"Out", (PATH, $"/t/dir/out/x")); ($"In", (PATH, $"/cwd/a/b"))]) /\
  contained $"/t/dir" $"/t/dir/out/x" /\
  preprocess_docs ascii_class Client $"/t/dir" $"/cwd" false [xenv 10] (xdoc "out/./x") (vs [("In", "/abs"); ("Frames", "10"); ("Extra", "")])
  = Ok (Ok [($"Frames", (INT, $"10")); ($"Extra", (STRING, $"")); ($"Out", (PATH, $"/t/dir/out/x")); ($"In", (PATH, $"/abs"))]) /\
  preprocess_docs ascii_class Server $"/t/dir" $"/cwd" false [xenv 10] (xdoc "out/./x") (vs [("In", "a//b")])
  = Ok (Ok [($"Frames", (INT, $"7")); ($"Extra", (STRING, $"e")); ($"Out", (PATH, $"out/./x")); ($"In", (PATH, $"a/b"))]) /\
  preprocess_docs ascii_class Client $"t/dir" $"/cwd" true [xenv 10] (xdoc "../x") (vs [("In", "a")])
  = Ok (Ok [($"Frames", (INT, $"7")); ($"Extra", (STRING, $"e")); ($"Out", (PATH, $"../x")); ($"In", (PATH, $"/cwd/a"))]).
Proof.
  split; [vm_compute; reflexivity|]. split; [apply containedb_contained; vm_compute; reflexivity|].
  repeat split; vm_compute; reflexivity.
Qed.

(* refused value lists, one per way into ValueError:
     the environment template's maxValue 10 refuses Frames = 11;   the job template's minValue 1 refuses 0;
     a required parameter is missing;   an unknown name is supplied;
     the stored PATH value "/cwd/a/b/c/d/e" is longer than maxLength 12 although the supplied text is not;
     the PATH default climbs out of the template directory;   the PATH default is absolute;
     the template directory is relative;
     the definitions cannot be merged (environment maxValue 0 < job minValue 1) — in server mode too *)
Example C10_full_refused_nonvacuous :
  let run := fun d env doc v => preprocess_docs ascii_class Client d $"/cwd" false [env] doc (vs v) in
  run $"/t/dir" (xenv 10) (xdoc "out/./x") [("In", "a"); ("Frames", "11")] = Ok (Raise ValueError) /\
  run $"/t/dir" (xenv 10) (xdoc "out/./x") [("In", "a"); ("Frames", "0")] = Ok (Raise ValueError) /\
  run $"/t/dir" (xenv 10) (xdoc "out/./x") [] = Ok (Raise ValueError) /\
  run $"/t/dir" (xenv 10) (xdoc "out/./x") [("In", "a"); ("Nope", "1")] = Ok (Raise ValueError) /\
  run $"/t/dir" (xenv 10) (xdoc "out/./x") [("In", "a/b/c/d/e")] = Ok (Raise ValueError) /\
  run $"/t/dir" (xenv 10) (xdoc "out/../../x") [("In", "a")] = Ok (Raise ValueError) /\
  run $"/t/dir" (xenv 10) (xdoc "/t/dir/x") [("In", "a")] = Ok (Raise ValueError) /\
  run $"t/dir" (xenv 10) (xdoc "out/./x") [("In", "a")] = Ok (Raise ValueError) /\
  run $"/t/dir" (xenv 0) (xdoc "out/./x") [("In", "a")] = Ok (Raise ValueError) /\
  preprocess_docs ascii_class Server [] [] true [xenv 0] (xdoc "out/./x") (vs [("In", "a")]) = Ok (Raise ValueError).
Proof. vm_compute. repeat split. Qed.

(* the premise of C12_full_refused is met by the last two cases: the group of Frames is refused *)
Example C12_full_refused_nonvacuous :
  exists srcs, docs_sources ascii_class [xenv 0] (xdoc "out/./x") = Ok srcs /\ In $"Frames" (map pname srcs) /\
               merge false (group_of $"Frames" srcs) = Raise CompatibilityError.
Proof. eexists. split; [vm_compute; reflexivity|]. split; [vm_compute; tauto|vm_compute; reflexivity]. Qed.

(* a document that is not accepted never reaches the function (outer Raise) *)
Example C10_full_not_accepted :
  is_ok (preprocess_docs ascii_class Client $"/t" $"/c" false [] (jo [("specificationVersion", js "jobtemplate-2023-09")]) []) = false.
Proof. vm_compute. reflexivity. Qed.
