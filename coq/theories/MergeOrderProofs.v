(* MergeOrderProofs.v — for definitions WITHOUT defaults, whether the merge is refused depends
   only on the SET of definitions taking part: not on their order, not on repetitions. *)
From Coq Require Import List NArith ZArith Bool Lia Permutation.
Import ListNotations.
Require Import OJD.Base OJD.Numerals OJD.NumeralsSpec OJD.NumeralsProofs OJD.JobParams OJD.JobParamsSpec
        OJD.JobParamsProofs OJD.Merge OJD.MergeSpec OJD.MergeProofs.
Local Open Scope Z_scope.

Definition same_members {A} (l l' : list A) : Prop := forall x, In x l <-> In x l'.

Lemma same_members_map : forall {A B} (g : A -> B) l l', same_members l l' -> same_members (map g l) (map g l').
Proof.
  intros A B g l l' H y. rewrite !in_map_iff. split; intros [x [E Hx]]; exists x; split; auto; apply H; exact Hx.
Qed.

Lemma same_members_somes : forall {A} (l l' : list (option A)), same_members l l' -> same_members (somes l) (somes l').
Proof. intros A l l' H x. rewrite !in_somes. apply H. Qed.

Lemma same_members_sym : forall {A} (l l' : list A), same_members l l' -> same_members l' l.
Proof. intros A l l' H x. symmetry. apply H. Qed.

(* ---------- folds ---------- *)

Section FoldExt.
  Context {A : Type} (le : A -> A -> Prop) (f : A -> A -> A).
  Hypothesis f_lub : forall a b c, le (f a b) c <-> le a c /\ le b c.

  Lemma fold_opt_bound_ext : forall l l' c, same_members l l' ->
    (opt_all (fold_opt f None l) (fun b => le b c) <-> opt_all (fold_opt f None l') (fun b => le b c)).
  Proof.
    intros l l' c H. rewrite !(fold_opt_bound le f f_lub). cbn [opt_all].
    split; intros [_ K]; (split; [exact I|]); intros o Ho; apply K; apply H; exact Ho.
  Qed.
End FoldExt.

Lemma fold_opt_none_ext : forall {A} (f : A -> A -> A) l l', same_members l l' ->
  (fold_opt f None l = None <-> fold_opt f None l' = None).
Proof.
  intros A f l l' H. rewrite !fold_opt_none.
  split; intros [_ K]; (split; [reflexivity|]); intros o Ho; apply K; apply H; exact Ho.
Qed.

(* "merged minimum <= merged maximum" only depends on the members *)
Section MinMax.
  Context {A : Type} (le : A -> A -> Prop) (fmax fmin : A -> A -> A).
  Hypothesis max_lub : forall a b c, le (fmax a b) c <-> le a c /\ le b c.
  Hypothesis min_glb : forall a b c, le c (fmin a b) <-> le c a /\ le c b.

  Definition compat (lo hi : option A) : Prop := opt_all lo (fun a => opt_all hi (fun b => le a b)).

  Lemma compat_ext : forall mins mins' maxs maxs',
    same_members mins mins' -> same_members maxs maxs' ->
    compat (fold_opt fmax None mins) (fold_opt fmin None maxs) ->
    compat (fold_opt fmax None mins') (fold_opt fmin None maxs').
  Proof.
    intros mins mins' maxs maxs' Hm HM C. unfold compat in *.
    destruct (fold_opt fmax None mins') as [a'|] eqn:Ea'; cbn [opt_all]; [|exact I].
    destruct (fold_opt fmin None maxs') as [b'|] eqn:Eb'; cbn [opt_all]; [|exact I].
    (* a' <= b' : a' is below b' iff every min is; every min is below b' iff b' ... *)
    pose proof (fold_opt_bound_ext le fmax max_lub mins mins' b' Hm) as T1. rewrite Ea' in T1. cbn [opt_all] in T1.
    apply T1. clear T1.
    destruct (fold_opt fmax None mins) as [a|] eqn:Ea; cbn [opt_all] in *; [|exact I].
    pose proof (fold_opt_bound_ext (fun b c => le c b) fmin (fun x y z => min_glb x y z) maxs maxs' a HM) as T2.
    cbn beta in T2. rewrite Eb' in T2. cbn [opt_all] in T2. apply T2. exact C.
  Qed.
End MinMax.

(* ---------- allowed values ---------- *)

Section AllowedExt.
  Context {A : Type} (mem : A -> list A -> bool) (eqv : A -> A -> Prop).
  Hypothesis mem_spec : forall x l, mem x l = true <-> exists y, In y l /\ eqv x y.
  Hypothesis eqv_refl : forall a, eqv a a.
  Hypothesis eqv_sym : forall a b, eqv a b -> eqv b a.
  Hypothesis eqv_trans : forall a b c, eqv a b -> eqv b c -> eqv a c.

  (* x is (equivalent to) a member of every given list *)
  Definition common (ls : list (option (list A))) (x : A) : Prop :=
    forall o l, In o ls -> truthy_list o = Some l -> memP eqv x l.
  Definition some_list (ls : list (option (list A))) : Prop :=
    exists o, In o ls /\ truthy_list o <> None.

  Lemma common_ext : forall ls ls' x, same_members ls ls' -> common ls x -> common ls' x.
  Proof. intros ls ls' x H C o l Ho T. apply (C o l); [apply H; exact Ho|exact T]. Qed.
  Lemma some_list_ext : forall ls ls', same_members ls ls' -> some_list ls -> some_list ls'.
  Proof. intros ls ls' H [o [Ho T]]. exists o. split; [apply H; exact Ho|exact T]. Qed.

  Lemma classic_some : forall ls, some_list ls \/ ~ some_list ls.
  Proof.
    induction ls as [|o r [IH|IH]].
    - right. intros [o [[] _]].
    - left. destruct IH as [o' [Ho T]]. exists o'. split; [right; exact Ho|exact T].
    - destruct (truthy_list o) as [l|] eqn:T.
      + left. exists o. split; [left; reflexivity|congruence].
      + right. intros [o' [[<-|Ho] T']]; [congruence|]. apply IH. exists o'. auto.
  Qed.

  Lemma merge_allowed_char : forall ls,
    match merge_allowed false mem ls with
    | (None, false) => ~ some_list ls
    | (None, true) => some_list ls /\ forall x, ~ common ls x
    | (Some L, e) => e = false /\ L <> [] /\ some_list ls /\ forall x, memP eqv x L <-> common ls x
    end.
  Proof.
    intro ls. unfold merge_allowed.
    destruct (merge_allowed_loop false mem None ls) as [L|] eqn:E.
    - assert (SL : some_list ls).
      { destruct (classic_some ls) as [S|S]; [exact S|]. exfalso.
        assert (N : merge_allowed_loop false mem None ls = None).
        { apply (loop_none mem). split; [reflexivity|]. intros o Ho.
          destruct (truthy_list o) eqn:T; [|reflexivity]. exfalso. apply S. exists o. split; [exact Ho|congruence]. }
        congruence. }
      pose proof (loop_some mem eqv mem_spec eqv_sym eqv_trans ls None L E) as LS.
      assert (LC : forall x, memP eqv x L <-> common ls x).
      { intro x. rewrite (LS x). cbn [opt_all]. unfold common. tauto. }
      destruct L as [|y L'].
      + split; [exact SL|]. intros x C. apply LC in C. destruct C as [z [[] _]].
      + split; [reflexivity|]. split; [discriminate|]. split; [exact SL|exact LC].
    - apply (loop_none mem) in E. destruct E as [_ E]. intros [o [Ho T]]. apply T. apply E. exact Ho.
  Qed.

  (* what is needed to carry a successful merge from one list of allowedValues to another
     with the same members *)
  Lemma merge_allowed_ext : forall ls ls',
    same_members ls ls' -> snd (merge_allowed false mem ls) = false ->
    snd (merge_allowed false mem ls') = false /\
    fst (merge_allowed false mem ls') <> Some [] /\
    forall Q : A -> Prop, (forall a b, eqv a b -> Q a -> Q b) ->
      opt_all (fst (merge_allowed false mem ls)) (Forall Q) ->
      opt_all (fst (merge_allowed false mem ls')) (Forall Q).
  Proof.
    intros ls ls' H E.
    pose proof (merge_allowed_char ls) as C. pose proof (merge_allowed_char ls') as C'.
    destruct (merge_allowed false mem ls) as [[L|] e]; cbn [fst snd] in *; subst e.
    - destruct C as [_ [NE [SL LC]]].
      destruct (merge_allowed false mem ls') as [[L'|] e']; cbn [fst snd] in *.
      + destruct C' as [-> [NE' [_ LC']]]. split; [reflexivity|]. split; [congruence|].
        intros Q QE FQ. cbn [opt_all] in *. rewrite Forall_forall in FQ. apply Forall_forall. intros x Hx.
        assert (M : memP eqv x L) by (apply LC; apply (common_ext ls' ls x (same_members_sym _ _ H)); apply LC'; exists x; auto).
        destruct M as [y [Hy Exy]]. apply (QE y x); [apply eqv_sym; exact Exy|apply FQ; exact Hy].
      + exfalso. destruct e'.
        * destruct C' as [_ NC]. destruct L as [|y L]; [contradiction|].
          apply (NC y). apply (common_ext ls ls' y H). apply LC. exists y. split; [left; reflexivity|apply eqv_refl].
        * apply C'. apply (some_list_ext ls ls' H). exact SL.
    - destruct (merge_allowed false mem ls') as [[L'|] e']; cbn [fst snd] in *.
      + exfalso. destruct C' as [_ [_ [SL' _]]]. apply C. apply (some_list_ext ls' ls (same_members_sym _ _ H)). exact SL'.
      + destruct e'.
        * exfalso. destruct C' as [SL' _]. apply C. apply (some_list_ext ls' ls (same_members_sym _ _ H)). exact SL'.
        * split; [reflexivity|]. split; [discriminate|]. intros Q _ _. exact I.
  Qed.
End AllowedExt.

(* ---------- the merge ---------- *)

Lemma somes_all_none : forall {A} (l : list (option A)), (forall o, In o l -> o = None) -> somes l = [].
Proof.
  intros A l. induction l as [|o r IH]; intro H; [reflexivity|].
  rewrite somes_cons, (H o (or_introl eq_refl)). cbn [app]. apply IH. intros o' Ho. apply H. right. exact Ho.
Qed.

Lemma within_num_eqv : forall lo hi a b, num_eq a b -> within_num lo hi a = true -> within_num lo hi b = true.
Proof.
  intros lo hi a b E H. apply within_num_spec in H. apply within_num_spec. destruct H as [H1 H2]. split.
  - destruct lo; cbn [opt_all] in *; [|exact I]. eapply num_le_eq_r; eauto.
  - destruct hi; cbn [opt_all] in *; [|exact I]. eapply num_le_eq_l; eauto.
Qed.

Lemma num_eq_refl : forall a, num_eq a a.
Proof. intro a. unfold num_eq. reflexivity. Qed.

Lemma cfail_false : forall b, b = false -> cfail b = Ok tt.
Proof. intros b ->. reflexivity. Qed.

Section Transfer.
  Variables ds ds' : list pdef.
  Hypothesis SM : same_members ds ds'.
  Hypothesis ND : forall d, In d ds -> pdefault d = None.

  Let ND' : forall d, In d ds' -> pdefault d = None.
  Proof. intros d Hd. apply ND. apply SM. exact Hd. Qed.

  Lemma no_default : forall l, (forall d, In d l -> pdefault d = None) -> last_opt (somes (map pdefault l)) = None.
  Proof.
    intros l H. rewrite somes_all_none; [reflexivity|].
    intros o Ho. apply in_map_iff in Ho. destruct Ho as [d [<- Hd]]. apply H. exact Hd.
  Qed.

  (* numeric types *)
  Lemma transfer_number : forall dl dl',
    is_numeric (ptyp dl) = true -> ptyp dl' = ptyp dl ->
    merge_errors false ds dl = false -> revalidate (candidate false ds dl) = Ok tt ->
    merge_errors false ds' dl' = false /\ revalidate (candidate false ds' dl') = Ok tt.
  Proof.
    intros dl dl' N T E R.
    destruct (merge_errors_false ds dl E) as [E1 [_ [_ [_ [_ E6]]]]].
    assert (NP : ptype_eqb (ptyp dl) PATH = false) by (destruct (ptyp dl); try discriminate; reflexivity).
    unfold revalidate in R. change (ptyp (candidate false ds dl)) with (ptyp dl) in R. rewrite N in R.
    unfold revalidate_number in R.
    apply andthen_ok3 in R. destruct R as [R _]. apply andthen_ok3 in R. destruct R as [_ R2]. apply cfail_ok in R2.
    cbn [candidate pminv pmaxv pallowed_n] in R2.
    unfold merged_allowed_n, merged_minv, merged_maxv in *. rewrite N in *.
    set (mins := map pminv ds) in *. set (maxs := map pmaxv ds) in *. set (ls := map pallowed_n ds) in *.
    set (mins' := map pminv ds'). set (maxs' := map pmaxv ds'). set (ls' := map pallowed_n ds').
    assert (Hmin : same_members mins mins') by (apply same_members_map; exact SM).
    assert (Hmax : same_members maxs maxs') by (apply same_members_map; exact SM).
    assert (Hls : same_members ls ls') by (apply same_members_map; exact SM).
    destruct (merge_allowed_ext mem_num num_eq mem_num_spec num_eq_refl num_eq_sym num_eq_trans ls ls' Hls E1) as [A1 [A2 A3]].
    (* min <= max *)
    assert (C : compat num_le (fold_opt num_max None mins) (fold_opt num_min None maxs)).
    { unfold compat. destruct (fold_opt num_max None mins) as [a|]; cbn [opt_all]; [|exact I].
      destruct (fold_opt num_min None maxs) as [b|]; cbn [opt_all]; [|exact I]. apply num_ltb_false. exact E6. }
    pose proof (compat_ext num_le num_max num_min num_max_spec num_min_spec mins mins' maxs maxs' Hmin Hmax C) as C'.
    assert (E6' : match fold_opt num_max None mins', fold_opt num_min None maxs' with Some a, Some b => num_ltb b a | _, _ => false end = false).
    { unfold compat in C'. destruct (fold_opt num_max None mins') as [a|]; [|reflexivity].
      destruct (fold_opt num_min None maxs') as [b|]; [|reflexivity]. cbn [opt_all] in C'. apply num_ltb_false. exact C'. }
    (* within the merged bounds: same predicate for both lists *)
    assert (WB : forall x, within_num (fold_opt num_max None mins) (fold_opt num_min None maxs) x = true ->
                           within_num (fold_opt num_max None mins') (fold_opt num_min None maxs') x = true).
    { intros x H. apply within_num_spec in H. apply within_num_spec. destruct H as [H1 H2]. split.
      - apply (fold_opt_bound_ext num_le num_max num_max_spec mins mins' x Hmin). exact H1.
      - pose proof (fold_opt_bound_ext (fun b c => num_le c b) num_min (fun a b c => num_min_spec a b c) maxs maxs' x Hmax) as K.
        cbn beta in K. apply K. exact H2. }
    split.
    - unfold merge_errors. rewrite T. unfold merged_allowed_n, merged_allowed_s, merged_minlen, merged_maxlen, merged_minv, merged_maxv.
      rewrite N, NP. fold mins' maxs' ls'. rewrite A1, E6'. reflexivity.
    - unfold revalidate. change (ptyp (candidate false ds' dl')) with (ptyp dl'). rewrite T, N.
      unfold revalidate_number. cbn [candidate pminv pmaxv pallowed_n pdefault].
      rewrite T. unfold merged_allowed_n, merged_minv, merged_maxv. rewrite N. fold mins' maxs' ls'.
      rewrite (no_default ds' ND'). rewrite E6'. cbn [cfail andthen].
      assert (R2' : match fst (merge_allowed false mem_num ls') with
                    | Some [] => true
                    | Some l => negb (forallb (within_num (fold_opt num_max None mins') (fold_opt num_min None maxs')) l)
                    | None => false end = false).
      { specialize (A3 (fun x => within_num (fold_opt num_max None mins) (fold_opt num_min None maxs) x = true)
                       (within_num_eqv _ _)).
        destruct (fst (merge_allowed false mem_num ls')) as [[|y l']|]; [congruence| |reflexivity].
        apply negb_false_iff. apply forallb_forall.
        assert (F : opt_all (fst (merge_allowed false mem_num ls)) (Forall (fun x => within_num (fold_opt num_max None mins) (fold_opt num_min None maxs) x = true))).
        { destruct (fst (merge_allowed false mem_num ls)) as [[|z l]|]; cbn [opt_all]; [constructor| |exact I].
          apply negb_false_iff in R2. apply Forall_forall. apply forallb_forall. exact R2. }
        specialize (A3 F). cbn [opt_all] in A3. rewrite Forall_forall in A3.
        intros x Hx. apply WB. apply A3. exact Hx. }
      rewrite R2'. reflexivity.
  Qed.

  Lemma all_equal_ext : forall {A} (eqb : A -> A -> bool) (l l' : list A),
    (forall a b, eqb a b = true <-> a = b) -> same_members l l' ->
    all_equal eqb l = true -> all_equal eqb l' = true.
  Proof.
    intros A eqb l l' EQ H AE. apply (all_equal_spec eqb l' EQ). intros x y Hx Hy.
    apply (proj1 (all_equal_spec eqb l EQ) AE); apply H; assumption.
  Qed.

  (* string-kind types *)
  Lemma transfer_string : forall dl dl',
    is_numeric (ptyp dl) = false -> ptyp dl' = ptyp dl ->
    merge_errors false ds dl = false -> revalidate (candidate false ds dl) = Ok tt ->
    merge_errors false ds' dl' = false /\ revalidate (candidate false ds' dl') = Ok tt.
  Proof.
    intros dl dl' N T E R.
    destruct (merge_errors_false ds dl E) as [_ [E2 [E3 [E4 [E5 _]]]]].
    unfold revalidate in R. change (ptyp (candidate false ds dl)) with (ptyp dl) in R. rewrite N in R.
    unfold revalidate_string in R.
    apply andthen_ok3 in R. destruct R as [R _]. apply andthen_ok3 in R. destruct R as [R R3].
    apply andthen_ok3 in R. destruct R as [R1 R2].
    apply cfail_ok in R1. apply cfail_ok in R2. apply cfail_ok in R3.
    cbn [candidate pminlen pmaxlen pallowed_s] in R1, R2, R3.
    unfold merged_allowed_s, merged_minlen, merged_maxlen in *. rewrite N in *.
    set (mins := map pminlen ds) in *. set (maxs := map pmaxlen ds) in *. set (ls := map pallowed_s ds) in *.
    set (mins' := map pminlen ds'). set (maxs' := map pmaxlen ds'). set (ls' := map pallowed_s ds').
    assert (Hmin : same_members mins mins') by (apply same_members_map; exact SM).
    assert (Hmax : same_members maxs maxs') by (apply same_members_map; exact SM).
    assert (Hls : same_members ls ls') by (apply same_members_map; exact SM).
    assert (ET : forall a b c : str, a = b -> b = c -> a = c) by (intros; congruence).
    destruct (merge_allowed_ext mem_str eq mem_str_spec (@eq_refl str) (@eq_sym str) ET ls ls' Hls E2) as [A1 [A2 A3]].
    (* minLength <= maxLength *)
    assert (C : compat Z.le (fold_opt Z.max None mins) (fold_opt Z.min None maxs)).
    { unfold compat. destruct (fold_opt Z.max None mins) as [a|]; cbn [opt_all]; [|exact I].
      destruct (fold_opt Z.min None maxs) as [b|]; cbn [opt_all]; [|exact I]. apply Z.ltb_ge. exact E5. }
    pose proof (compat_ext Z.le Z.max Z.min Z.max_lub_iff Z.min_glb_iff mins mins' maxs maxs' Hmin Hmax C) as C'.
    assert (E5' : match fold_opt Z.max None mins', fold_opt Z.min None maxs' with Some a, Some b => b <? a | _, _ => false end = false).
    { unfold compat in C'. destruct (fold_opt Z.max None mins') as [a|]; [|reflexivity].
      destruct (fold_opt Z.min None maxs') as [b|]; [|reflexivity]. cbn [opt_all] in C'. apply Z.ltb_ge. exact C'. }
    (* 0 < merged minLength *)
    assert (R1' : match fold_opt Z.max None mins' with Some n => n <=? 0 | None => false end = false).
    { destruct (fold_opt Z.max None mins') as [n'|] eqn:F'; [|reflexivity].
      apply Z.leb_gt. destruct (Z_lt_le_dec 0 n') as [P|P]; [exact P|exfalso].
      pose proof (fold_opt_bound_ext Z.le Z.max Z.max_lub_iff mins mins' 0 Hmin) as K. rewrite F' in K. cbn [opt_all] in K.
      apply K in P. destruct (fold_opt Z.max None mins) as [n|] eqn:F; cbn [opt_all] in P.
      - apply Z.leb_gt in R1. lia.
      - apply (fold_opt_none_ext Z.max mins mins' Hmin) in F. congruence. }
    (* 0 < merged maxLength *)
    assert (P2 : opt_all (fold_opt Z.min None maxs') (fun n => 0 < n)).
    { pose proof (fold_opt_bound_ext (fun b c => c < b) Z.min (fun a b c => Z.min_glb_lt_iff a b c) maxs maxs' 0 Hmax) as K.
      cbn beta in K. apply K. destruct (fold_opt Z.min None maxs) as [n|]; cbn [opt_all]; [|exact I].
      apply orb_false_iff in R2. destruct R2 as [R2 _]. apply Z.leb_gt in R2. exact R2. }
    assert (R2' : match fold_opt Z.min None maxs' with
                  | Some n => (n <=? 0) || match fold_opt Z.max None mins' with Some k => n <? k | None => false end
                  | None => false end = false).
    { destruct (fold_opt Z.min None maxs') as [n'|]; [|reflexivity]. cbn [opt_all] in P2.
      apply orb_false_iff. split; [apply Z.leb_gt; exact P2|].
      destruct (fold_opt Z.max None mins') as [k'|]; [exact E5'|reflexivity]. }
    (* within the merged lengths: same predicate for both lists *)
    assert (WB : forall x, within_len (fold_opt Z.max None mins) (fold_opt Z.min None maxs) x = true ->
                           within_len (fold_opt Z.max None mins') (fold_opt Z.min None maxs') x = true).
    { intros x H. apply within_len_spec in H. apply within_len_spec. destruct H as [H1 H2]. split.
      - apply (fold_opt_bound_ext Z.le Z.max Z.max_lub_iff mins mins' (slen x) Hmin). exact H1.
      - pose proof (fold_opt_bound_ext (fun b c => c <= b) Z.min (fun a b c => Z.min_glb_iff a b c) maxs maxs' (slen x) Hmax) as K.
        cbn beta in K. apply K. exact H2. }
    assert (R3' : match fst (merge_allowed false mem_str ls') with
                  | Some [] => true
                  | Some l => negb (forallb (within_len (fold_opt Z.max None mins') (fold_opt Z.min None maxs')) l)
                  | None => false end = false).
    { specialize (A3 (fun x => within_len (fold_opt Z.max None mins) (fold_opt Z.min None maxs) x = true)).
      destruct (fst (merge_allowed false mem_str ls')) as [[|y l']|]; [congruence| |reflexivity].
      apply negb_false_iff. apply forallb_forall.
      assert (F : opt_all (fst (merge_allowed false mem_str ls)) (Forall (fun x => within_len (fold_opt Z.max None mins) (fold_opt Z.min None maxs) x = true))).
      { destruct (fst (merge_allowed false mem_str ls)) as [[|z l]|]; cbn [opt_all]; [constructor| |exact I].
        apply negb_false_iff in R3. apply Forall_forall. apply forallb_forall. exact R3. }
      specialize (A3 ltac:(intros a b -> K; exact K) F). cbn [opt_all] in A3. rewrite Forall_forall in A3.
      intros x Hx. apply WB. apply A3. exact Hx. }
    (* objectType / dataFlow *)
    assert (E3' : ptype_eqb (ptyp dl) PATH && negb (all_equal objtype_eqb (map eff_objtype ds')) = false).
    { destruct (ptype_eqb (ptyp dl) PATH); [|reflexivity]. cbn [andb] in *. apply negb_false_iff in E3. apply negb_false_iff.
      apply (all_equal_ext objtype_eqb _ _ objtype_eqb_eq (same_members_map eff_objtype _ _ SM) E3). }
    assert (E4' : ptype_eqb (ptyp dl) PATH && negb (all_equal dataflow_eqb (somes (map pdataflow ds'))) = false).
    { destruct (ptype_eqb (ptyp dl) PATH); [|reflexivity]. cbn [andb] in *. apply negb_false_iff in E4. apply negb_false_iff.
      apply (all_equal_ext dataflow_eqb _ _ dataflow_eqb_eq (same_members_somes _ _ (same_members_map pdataflow _ _ SM)) E4). }
    split.
    - unfold merge_errors. rewrite T. unfold merged_allowed_n, merged_allowed_s, merged_minlen, merged_maxlen, merged_minv, merged_maxv.
      rewrite N. fold mins' maxs' ls'. rewrite A1, E3', E4', E5'. reflexivity.
    - unfold revalidate. change (ptyp (candidate false ds' dl')) with (ptyp dl'). rewrite T, N.
      unfold revalidate_string. cbn [candidate pminlen pmaxlen pallowed_s pdefault].
      rewrite T. unfold merged_allowed_s, merged_minlen, merged_maxlen. rewrite N. fold mins' maxs' ls'.
      rewrite (no_default ds' ND'). rewrite R1', R2', R3'. reflexivity.
  Qed.
End Transfer.

(* whether a set of default-free definitions merges depends only on its members *)
Theorem merge_ok_members : forall ds ds' m,
  same_members ds ds' -> (forall d, In d ds -> pdefault d = None) ->
  merge false ds = Ok m -> exists m', merge false ds' = Ok m'.
Proof.
  intros ds ds' m SM ND H.
  destruct (merge_ok_inv ds m H) as [dl [L [Nm [Ty [E [_ R0]]]]]].
  assert (R : revalidate (candidate false ds dl) = Ok tt).
  { destruct (merge_ok_inv ds m H) as [dl2 [L2 [_ [_ [_ [Em R2]]]]]]. rewrite L in L2. injection L2 as <-. rewrite Em in R2. exact R2. }
  pose proof (last_opt_in _ _ L) as Hdl.
  destruct (last_opt ds') as [dl'|] eqn:L'; [|apply last_opt_none in L'; subst ds'; apply SM in Hdl; destruct Hdl].
  pose proof (last_opt_in _ _ L') as Hdl'. apply SM in Hdl'.
  assert (T : ptyp dl' = ptyp dl) by (apply Ty; exact Hdl').
  assert (TR : merge_errors false ds' dl' = false /\ revalidate (candidate false ds' dl') = Ok tt).
  { destruct (is_numeric (ptyp dl)) eqn:N.
    - apply (transfer_number ds ds' SM ND dl dl' N T E R).
    - apply (transfer_string ds ds' SM ND dl dl' N T E R). }
  destruct TR as [E' R'].
  exists (candidate false ds' dl'). unfold merge. rewrite L'.
  assert (F1 : forallb (fun d => str_eqb (pname d) (pname dl')) ds' = true).
  { apply forallb_forall. intros d Hd. apply str_eqb_eq. apply SM in Hd. rewrite (Nm d Hd), (Nm dl' Hdl'). reflexivity. }
  assert (F2 : forallb (fun d => ptype_eqb (ptyp d) (ptyp dl')) ds' = true).
  { apply forallb_forall. intros d Hd. apply ptype_eqb_eq. apply SM in Hd. rewrite (Ty d Hd), T. reflexivity. }
  rewrite F1, F2, E', R'. reflexivity.
Qed.

(* order independence of refusal, default aside *)
Theorem merge_refusal_order : forall ds ds',
  Permutation ds ds' -> (forall d, In d ds -> pdefault d = None) ->
  is_ok (merge false ds) = is_ok (merge false ds').
Proof.
  intros ds ds' P ND.
  assert (SM : same_members ds ds').
  { intro x. split; intro Hx; [eapply Permutation_in; eauto|eapply Permutation_in; [apply Permutation_sym; exact P|exact Hx]]. }
  assert (ND' : forall d, In d ds' -> pdefault d = None) by (intros d Hd; apply ND; apply SM; exact Hd).
  destruct (merge false ds) as [m|e] eqn:H; destruct (merge false ds') as [m'|e'] eqn:H'; try reflexivity; exfalso.
  - destruct (merge_ok_members ds ds' m SM ND H) as [x K]. congruence.
  - destruct (merge_ok_members ds' ds m' (same_members_sym _ _ SM) ND' H') as [x K]. congruence.
Qed.
