(* Extraction of the job-parameter models (C10, C12).  ExtrOcamlBasic only. *)
From Coq Require Import Extraction ExtrOcamlBasic List NArith ZArith.
Require Import OJD.Base OJD.Numerals OJD.JobParams OJD.Merge.
Extraction Language OCaml.
Extraction "Model.ml"
  exn_eqb parse_int parse_dec num_cmp Z.add Z.mul
  check_constraints preprocess simple_path_in simple_path_default
  merge revalidate preprocess_merged default_num.
