(* Reblank.v — C19, blanks inside '{{ }}': the relation "s' is s with the blanks inside its
   '{{ }}' spans changed", written from the property text.  Definitions only.

   A format string is read left to right: a literal segment, the FIRST "{{" after it, the text up
   to the NEXT "}}", and so on.  [reblank classify s s'] holds when s and s' have the same literal
   segments (blanks OUTSIDE the braces are content) and, span by span, expression texts with the
   same token list ([lex classify e = lex classify e']): both are blank-separated spellings of the
   same tokens.  A blank INSIDE a name ("Pa ram.X") gives another token list and is not related.

   Nothing here presupposes that s or s' is an accepted format string: the relation also relates
   rejected strings (an expression text that is not a dotted name, unbalanced braces in the tail),
   and the theorem says that they are rejected together.

   The two side conditions of a span say WHERE the span is, not what it contains:
     [lit_seg l]    the "{{" that follows l is the first "{{" of  l ++ "{{" ...
     [span_text e]  the "}}" that follows e is the first "}}" of  e ++ "}}" ...
   [span_text] cannot be dropped: with e = "a}" (text of the span in "{{a}}}" is "a", not "a}")
   and e' = "@" both texts fail to lex, yet "{{a}}}" is accepted and "{{@}}" is not
   (props/C19xb.v, [C19_reblank_span_text_needed]). *)
From Coq Require Import List NArith Bool Arith.
Import ListNotations.
Require Import OJD.Base OJD.Lexer OJD.FormatStr OJD.FormatStrSpec.

Section Reblank.
  Variable classify : N -> cclass.

  (* the "{{" written after l is the first one *)
  Definition lit_seg (l : str) : Prop := NoSub open2 (l ++ [lbrace]).
  (* the "}}" written after e is the first one *)
  Definition span_text (e : str) : Prop := NoSub close2 (e ++ [rbrace]).

  Inductive reblank : str -> str -> Prop :=
  | RB_same : forall t, reblank t t                       (* nothing (more) is changed *)
  | RB_span : forall l e e' r r',
      lit_seg l -> span_text e -> span_text e' ->
      lex classify e = lex classify e' ->
      reblank r r' ->
      reblank (l ++ open2 ++ e ++ close2 ++ r) (l ++ open2 ++ e' ++ close2 ++ r').

  (* ---- the elementary changes of blanks in an expression text ---- *)

  (* one deletion / replacement (read right to left: one insertion) *)
  Inductive blank_step : str -> str -> Prop :=
  | BS_lead : forall b e, is_blank classify b = true -> blank_step (b :: e) e
  | BS_trail : forall b e, is_blank classify b = true -> blank_step (e ++ [b]) e
  | BS_before_dot : forall b d e1 e2, is_blank classify b = true -> is_dot classify d = true ->
      blank_step (e1 ++ b :: d :: e2) (e1 ++ d :: e2)
  | BS_after_dot : forall b d e1 e2, is_blank classify b = true -> is_dot classify d = true ->
      blank_step (e1 ++ d :: b :: e2) (e1 ++ d :: e2)
  | BS_run : forall b b' e1 e2, is_blank classify b = true -> is_blank classify b' = true ->
      blank_step (e1 ++ b :: b' :: e2) (e1 ++ b :: e2)
  | BS_kind : forall b b' e1 e2, is_blank classify b = true -> is_blank classify b' = true ->
      blank_step (e1 ++ b :: e2) (e1 ++ b' :: e2).

  (* any sequence of them, each taken in either direction *)
  Inductive blank_edits : str -> str -> Prop :=
  | BE_refl : forall e, blank_edits e e
  | BE_del : forall e1 e2 e3, blank_step e1 e2 -> blank_edits e2 e3 -> blank_edits e1 e3
  | BE_ins : forall e1 e2 e3, blank_step e2 e1 -> blank_edits e2 e3 -> blank_edits e1 e3.

  (* ---- what the change may do to the FormatString value ---- *)

  (* literal pieces identical; a reference keeps its name (its span and text may differ) *)
  Inductive item_sim : item -> item -> Prop :=
  | IS_lit : forall l, item_sim (ILit l) (ILit l)
  | IS_expr : forall a b t a' b' t' n, item_sim (IExpr a b t n) (IExpr a' b' t' n).

  (* segments of two decompositions: same literal, same normalised name *)
  Definition seg_sim (a b : str * str) : Prop :=
    fst a = fst b /\ norm classify (snd a) = norm classify (snd b).

  (* ---- a canonical spelling: every reference written "{{" name "}}" with no blank at all;
     a string that FormatString() rejects is left alone ---- *)
  Definition canon_piece (it : item) : str :=
    match it with
    | ILit l => l
    | IExpr _ _ _ n => open2 ++ n ++ close2
    end.

  Definition canon (s : str) : str :=
    match mk classify s with
    | Ok f => concat (map canon_piece (items f))
    | Raise _ => s
    end.

  (* the same, from a decomposition *)
  Fixpoint rebuild (segs : list (str * str)) (last : str) : str :=
    match segs with
    | [] => last
    | (l, e) :: r => l ++ open2 ++ norm classify e ++ close2 ++ rebuild r last
    end.
End Reblank.
