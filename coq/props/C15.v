(* props/C15.v — Dependency graph mirrors the Job; topological order is valid and stable.

   j : job  = the Job's steps in template order, each (step name, dependsOn names in declared
   order).  well_named j = step names pairwise distinct and every dependency names a step: the
   Jobs on which StepDependencyGraph(job=j) does not raise KeyError and no dict key is
   overwritten.  Self-dependencies, cycles and repeated dependency entries are inside the
   domain (hand-assembled Jobs can have them); the number of steps is unbounded. *)
From Coq Require Import List NArith Permutation.
Import ListNotations.
Require Import OJD.Base OJD.DepGraph OJD.DepGraphSpec OJD.DepGraphProofs.

(* The constructor succeeds; there is one node per step, in template order; the in-edges of
   step n are exactly (d, n) for its declared dependencies d, in declared order; its out-edges
   are exactly the declared edges whose origin is n, in the order steps appear in the template
   (and, within one dependent step, in that step's declared order); a name that is no step has
   no node (KeyError); max_indegree / max_outdegree are the maxima of the true degrees, and
   raise ValueError (Python's max() of nothing) on a Job without steps. *)
Theorem C15_edges : forall j, well_named j ->
  exists g, build j = Ok g /\
    map nname g = names j /\
    (forall n, In n (names j) ->
       in_edges g n = Ok (map (fun d => (d, n)) (deps_of j n)) /\
       out_edges g n = Ok (filter (fun e => N.eqb (fst e) n) (all_edges j))) /\
    (forall n, ~ In n (names j) -> in_edges g n = Raise KeyError /\ out_edges g n = Raise KeyError) /\
    (j = [] -> max_indegree g = Raise ValueError /\ max_outdegree g = Raise ValueError) /\
    (j <> [] -> exists mi mo,
       max_indegree g = Ok mi /\ max_outdegree g = Ok mo /\
       is_max mi (map (fun n => length (deps_of j n)) (names j)) /\
       is_max mo (map (fun n => length (filter (fun e => N.eqb (fst e) n) (all_edges j))) (names j))).
Proof. exact edges_exact. Qed.
Print Assumptions C15_edges.

(* all_edges / deps_of say what the property text says: (o, d) is a declared edge iff step d
   lists o among its dependencies *)
Theorem C15_edges_meaning : forall j o d, In (o, d) (all_edges j) <-> In o (deps_of j d).
Proof. exact in_all_edges. Qed.
Print Assumptions C15_edges_meaning.

Theorem C15_deps_of_meaning : forall j n ds, NoDup (names j) -> In (n, ds) j -> deps_of j n = ds.
Proof. exact deps_of_unique. Qed.
Print Assumptions C15_deps_of_meaning.

(* the while loop always terminates within fuel_bound g = 4*steps + edges + 1 iterations *)
Theorem C15_fuel : forall j g, well_named j -> build j = Ok g -> topo g <> Raise RuntimeError.
Proof. exact fuel_suffices. Qed.
Print Assumptions C15_fuel.

(* on an acyclic Job topo_sorted returns every step exactly once, each after all of its
   dependencies *)
Theorem C15_valid : forall j g, well_named j -> build j = Ok g -> acyclic j ->
  exists l, topo g = Ok l /\ Permutation l (names j) /\
    forall n d, In d (deps_of j n) -> before d n l.
Proof. exact topo_valid_order. Qed.
Print Assumptions C15_valid.

(* ... and that order is the documented one: steps in template order, each preceded by its
   not-yet-placed dependencies in template order *)
Theorem C15_stable : forall j g, well_named j -> build j = Ok g -> acyclic j ->
  topo g = Ok (stable_order j).
Proof. exact topo_stable_order. Qed.
Print Assumptions C15_stable.

(* on every cyclic Job (self-dependency included) topo_sorted raises ValueError: it neither
   loops nor returns a partial order *)
Theorem C15_cyclic : forall j g, well_named j -> build j = Ok g -> ~ acyclic j ->
  topo g = Raise ValueError.
Proof. exact topo_cyclic_raises. Qed.
Print Assumptions C15_cyclic.

(* conversely, a returned order certifies acyclicity *)
Theorem C15_ok_iff_acyclic : forall j g, well_named j -> build j = Ok g ->
  ((exists l, topo g = Ok l) <-> acyclic j).
Proof. exact topo_ok_iff_acyclic. Qed.
Print Assumptions C15_ok_iff_acyclic.

(* the specification's own recursion fuel is immaterial *)
Theorem C15_spec_fuel_irrelevant : forall j f, well_named j -> acyclic j -> length j <= f ->
  stable_order_fuel j f = stable_order j.
Proof. exact visit_fuel_irrelevant. Qed.
Print Assumptions C15_spec_fuel_irrelevant.

(* the cycle test the harness applies to decoded templates *)
Theorem C15_has_cycle : forall j, well_named j -> (has_cycle j = true <-> ~ acyclic j).
Proof. exact has_cycle_iff. Qed.
Print Assumptions C15_has_cycle.

(* ---------------------------------------------------------------- non-vacuity *)
(* Bar depends on Foo and Buz, Foo on Buz, a fourth step repeats a dependency, declared out of
   dependency order *)
Definition ex_dag : job := [(10, [30]); (20, [10; 30]); (30, []); (5, [20; 20; 10])]%N.

Example C15_edges_nonvacuous : well_named ex_dag /\ ex_dag <> [].
Proof. split; [apply well_named_b; vm_compute; reflexivity | discriminate]. Qed.

Example C15_valid_nonvacuous :
  well_named ex_dag /\ acyclic ex_dag /\ exists g, build ex_dag = Ok g /\ topo g = Ok [30; 10; 20; 5]%N.
Proof.
  assert (Hw : well_named ex_dag) by (apply well_named_b; vm_compute; reflexivity).
  split; [exact Hw|]. split.
  - apply (proj1 (topo_ok_iff_acyclic ex_dag _ Hw (build_eq ex_dag Hw))).
    eexists. vm_compute. reflexivity.
  - eexists. split; [apply build_eq; exact Hw | vm_compute; reflexivity].
Qed.

Example C15_stable_nonvacuous : stable_order ex_dag = [30; 10; 20; 5]%N.
Proof. vm_compute. reflexivity. Qed.

Definition ex_cyc : job := [(1, [2]); (2, [3; 2]); (3, [1]); (4, [])]%N.

Example C15_cyclic_nonvacuous :
  well_named ex_cyc /\ ~ acyclic ex_cyc /\ exists g, build ex_cyc = Ok g /\ topo g = Raise ValueError.
Proof.
  assert (Hw : well_named ex_cyc) by (apply well_named_b; vm_compute; reflexivity).
  split; [exact Hw|]. split.
  - intro Ha. apply (Ha 2%N). apply dpath_one. unfold depends. vm_compute. auto.
  - eexists. split; [apply build_eq; exact Hw | vm_compute; reflexivity].
Qed.

Example C15_fuel_nonvacuous :
  exists g, build ex_cyc = Ok g /\ fuel_bound g = 21.
Proof. eexists. split; [apply build_eq; apply well_named_b; vm_compute; reflexivity | vm_compute; reflexivity]. Qed.
