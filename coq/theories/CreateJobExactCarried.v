(* CreateJobExactCarried.v — C05_exact, the "carried over unchanged" half at document level.

   For the classes below scripts, environments and dependencies ([carried_classes] of CreateJobProofs.v)
   the export of the decoded instance is the DOCUMENT it was decoded from, up to [json_equiv]
   (member order, explicit nulls), provided
     * the objects of the document have pairwise distinct keys ([keys_distinct]; true of every value a
       JSON / YAML parser returns: a Python dict cannot hold a key twice), and
     * the two lax integer fields of these classes, "timeout" and "notifyPeriodInSeconds", are given
       as integers ([lax_ints_native]; pydantic coerces "5", true, 5.0 to an int there, so the Job
       would hold 5 where the document has "5").
   The condition on the schema is a boolean check on Generated.schema. *)
From Coq Require Import List NArith ZArith Bool String Lia.
Import ListNotations.
Require Import OJD.Base OJD.Lexer OJD.Json OJD.Schema OJD.Generated OJD.Charsets OJD.Numerals OJD.NumPrint
               OJD.FormatStr OJD.CreateJob OJD.CreateJobProofs OJD.Parse OJD.Validators OJD.Accept
               OJD.ExportProofs OJD.AcceptMono OJD.JsonEquiv OJD.CreateJobExactLib.
Local Open Scope string_scope.
Local Open Scope list_scope.

(* ------------------------------------------------------------------ the two document conditions *)
Definition lax_int_keys : list string := ["timeout"; "notifyPeriodInSeconds"].

Definition is_lax_key (k : str) : bool := existsb (fun a => str_eqb k (str_of_string a)) lax_int_keys.

Fixpoint lax_ints_native (j : json) : bool :=
  match j with
  | JArr l => forallb lax_ints_native l
  | JObj ms =>
    forallb (fun kv => if is_lax_key (fst kv)
                       then match snd kv with JInt _ | JNull => true | _ => false end
                       else if str_eqb (fst kv) $"variables" then true
                       else lax_ints_native (snd kv)) ms
  | _ => true
  end.

(* [JsonEquiv.distinct_keys]: every object has pairwise distinct keys *)
Notation keys_distinct := distinct_keys (only parsing).

Lemma nodupb_NoDup : forall l, nodupb l = true -> NoDup l.
Proof.
  induction l as [|x r IH]; intros H; [constructor|].
  cbn [nodupb] in H. apply andb_true_iff in H. destruct H as [H1 H2]. constructor; [|exact (IH H2)].
  intros Hin. clear - H1 Hin. induction r as [|y r IH]; [destruct Hin|].
  cbn [mem_str] in H1. apply negb_true_iff in H1. apply orb_false_iff in H1. destruct H1 as [E1 E2].
  destruct Hin as [->|Hin]; [rewrite je_str_eqb_refl in E1; discriminate E1|].
  apply IH; [apply negb_true_iff; exact E2|exact Hin].
Qed.

(* ------------------------------------------------------------------ generic inversion of the parser *)
Section Inv.
  Variable SC : schema_t.
  Variable classify : N -> cclass.
  Variable pre : string -> json -> bool.
  Variable post : string -> json -> list (string * mval) -> bool.
  Notation pk := (parse_kind SC classify pre post).
  Notation pc := (parse_cls SC classify pre post).

  Lemma pc_inv : forall f c v x, pc f c v = Ok x ->
    exists f' c0 ms fields,
      f = S f' /\ lookup_cls SC c = Some c0 /\ v = JObj ms /\ x = MModel c fields /\
      pre c v = true /\ extra_bad c0 ms = false /\
      mapM (parse_field (pk f') ms) (c_fields c0) = Ok fields /\ post c v fields = true.
  Proof.
    intros f c v x H. destruct f as [|f]; [discriminate H|]. rewrite parse_cls_S in H.
    destruct (lookup_cls SC c) as [c0|] eqn:El; [|discriminate H].
    destruct v as [| | | | | |ms]; try discriminate H.
    destruct (pre c (JObj ms)) eqn:Ep; cbn [negb] in H; [|discriminate H].
    destruct (extra_bad c0 ms) eqn:Ee; [discriminate H|].
    destruct (mapM (parse_field (pk f) ms) (c_fields c0)) as [fields|e] eqn:Em; cbn [bind] in H; [|discriminate H].
    destruct (post c (JObj ms) fields) eqn:Eo; [|discriminate H]. injection H as <-.
    exists f, c0, ms, fields. repeat split; assumption.
  Qed.

  (* one field: its name, and how its value was read *)
  Lemma parse_field_inv : forall f ms fl y, parse_field (pk f) ms fl = Ok y ->
    exists x, y = (f_name fl, x) /\ parse_value (pk f) fl (field_raw ms fl) = Ok x.
  Proof.
    intros f ms fl y H. unfold parse_field in H.
    destruct (parse_value (pk f) fl (field_raw ms fl)) as [x|e]; cbn [bind] in H; [|discriminate H].
    injection H as <-. exists x. split; reflexivity.
  Qed.

  Lemma parse_value_null : forall f fl x, parse_value (pk f) fl JNull = Ok x -> x = MNone.
  Proof. intros f fl x H. cbn [parse_value] in H. destruct (f_required fl); [discriminate H|]. injection H as <-. reflexivity. Qed.

  Lemma parse_value_single : forall f fl raw x, f_shape fl = Single -> raw <> JNull ->
    parse_value (pk f) fl raw = Ok x -> pk f (f_kind fl) raw = Ok x.
  Proof. intros f fl raw x Hs Hn H. unfold parse_value in H. rewrite Hs in H. destruct raw; try exact H. contradiction. Qed.

  Lemma parse_value_list : forall f fl lo hi raw x, f_shape fl = ListOf lo hi -> raw <> JNull ->
    parse_value (pk f) fl raw = Ok x ->
    exists items l, raw = JArr items /\ x = MList l /\ Forall2 (fun it m => pk f (f_kind fl) it = Ok m) items l.
  Proof.
    intros f fl lo hi raw x Hs Hn H. unfold parse_value in H. rewrite Hs in H.
    assert (K : list_items (pk f) lo hi (f_kind fl) raw = Ok x) by (destruct raw; try exact H; contradiction).
    unfold list_items in K. destruct raw as [| | | | |items|]; try discriminate K.
    destruct (len_ok_n lo hi (List.length items)); [|discriminate K].
    destruct (mapM (pk f (f_kind fl)) items) as [l|e] eqn:Em; cbn [bind] in K; [|discriminate K].
    injection K as <-. exists items, l. repeat split. apply mapM_Forall2. exact Em.
  Qed.

  (* the value a kind that accepts only the exported form yields *)
  Lemma scalar_exact : forall k v x, exact_kind k = true -> parse_scalar classify k v = Ok x ->
    leaf x = true /\ tobj SC x = v.
  Proof.
    intros k v x Hk H.
    destruct k as [lit|members|strict lo hi cs|c lo hi cs|strict|strict ge le gt|gt| |c|key mp|alts];
      try discriminate Hk; cbn [parse_scalar] in H.
    - destruct v as [| | | |s| |]; try discriminate H. destruct (str_eqb s (str_of_string lit)); [|discriminate H].
      injection H as <-. split; reflexivity.
    - destruct v as [| | | |s| |]; try discriminate H. destruct (existsb _ members); [|discriminate H].
      injection H as <-. split; reflexivity.
    - cbn [exact_kind] in Hk. subst strict. destruct v as [| | | |s| |]; try discriminate H.
      unfold check_str in H. destruct (len_ok lo hi s && cs_ok cs s); [|discriminate H]. injection H as <-. split; reflexivity.
    - destruct v as [| | | |s| |]; try discriminate H.
      destruct (len_ok lo hi s && cs_ok cs s && fs_ok classify s); [|discriminate H]. injection H as <-. split; reflexivity.
    - destruct v as [|b| | | | |]; try (destruct strict; discriminate H). injection H as <-. split; reflexivity.
  Qed.

  Lemma pk_exact_tobj : forall f k v x, exact_kind k = true -> pk f k v = Ok x -> leaf x = true /\ tobj SC x = v.
  Proof.
    intros f k v x Hk H. destruct f as [|f]; [discriminate H|]. rewrite parse_kind_S in H.
    destruct k; try discriminate Hk; exact (scalar_exact _ _ _ Hk H).
  Qed.
End Inv.

Lemma leaf_jobj : forall SC x, leaf x = true -> jobj SC x = tobj SC x.
Proof. intros SC x H. destruct x; try discriminate H; reflexivity. Qed.

(* ------------------------------------------------------------------ objects read field by field *)
Section Fields.
  Variable SC : schema_t.
  Variable c : string.

  (* the value exported for a field *)
  Definition jval (n : string) (x : mval) : json :=
    if String.eqb n "range"
    then match x with MList items => JArr (map (range_item SC) items) | _ => tobj SC x end
    else jobj SC x.

  Definition jfields (fs : list (string * mval)) : list (str * json) :=
    map (fun fv => (str_of_string (alias_of SC c (fst fv)), jval (fst fv) (snd fv))) fs.

  Lemma jval_none : forall n, jval n MNone = JNull.
  Proof. intros n. unfold jval. destruct (String.eqb n "range"); reflexivity. Qed.

  Lemma jval_null : forall n x, jval n x = JNull -> x = MNone.
  Proof.
    intros n x H. unfold jval in H. destruct (String.eqb n "range").
    - destruct x; try discriminate H. reflexivity.
    - apply jobj_null in H. exact H.
  Qed.

  Lemma jobj_model : forall fs,
    jobj SC (MModel c fs) = JObj (flat_map (fun fv => match snd fv with
                                                      | MNone => []
                                                      | _ => [(str_of_string (alias_of SC c (fst fv)), jval (fst fv) (snd fv))]
                                                      end) fs).
  Proof. reflexivity. Qed.

  (* the bindings of the exported object are those of the full member list *)
  Lemma jfind_jobj_model : forall k fs,
    match jobj SC (MModel c fs) with JObj ms => jfind k ms | _ => None end = jfind k (jfields fs).
  Proof.
    intros k fs. rewrite jobj_model. unfold jfields. induction fs as [|[n x] r IH]; [reflexivity|].
    cbn [flat_map map snd fst]. rewrite jfind_app. rewrite IH. clear IH.
    destruct x; cbn [jfind]; try rewrite jval_none; cbn [onn];
      try (destruct (str_eqb k _); [|reflexivity];
           match goal with |- context [onn ?v] => destruct (onn v); reflexivity end).
    destruct (str_eqb k _); reflexivity.
  Qed.

  Lemma json_equiv_model : forall fs s, json_equiv (JObj (jfields fs)) s -> json_equiv (jobj SC (MModel c fs)) s.
  Proof.
    intros fs s H. inversion H as [| | | | | |ms ms' HF]; subst.
    pose proof (fun k => jfind_jobj_model k fs) as E. rewrite jobj_model in *.
    constructor. intros k. rewrite (E k). exact (HF k).
  Qed.
End Fields.

(* ------------------------------------------------------------------ the carried classes *)
Section Carried.
  Variable classify : N -> cclass.
  Notation G := Generated.schema.
  Notation pk := (parse_kind G classify pre_hook (post_hook classify)).
  Notation pc := (parse_cls G classify pre_hook (post_hook classify)).
  Notation CL := carried_classes.

  Definition ckind_ok (k : kind) : bool :=
    match k with
    | KModel c => mem_s c CL
    | KDisc _ mp => forallb (fun kc => mem_s (snd kc) CL) mp
    | _ => exact_kind k
    end.

  Definition plain_alias (a : string) : bool := negb (mem_s a lax_int_keys) && negb (String.eqb a "variables").

  Definition cfield_ok (cname : string) (fl : field) : bool :=
    negb (String.eqb (f_name fl) "range") &&
    match f_shape fl with
    | Single =>
      match f_kind fl with
      | KInt false _ _ _ => mem_s (f_alias fl) lax_int_keys
      | k => ckind_ok k && plain_alias (f_alias fl)
      end
    | ListOf _ _ => ckind_ok (f_kind fl) && plain_alias (f_alias fl)
    | DictOf kk =>
      String.eqb cname "Environment" && String.eqb (f_name fl) "variables" && String.eqb (f_alias fl) "variables"
      && exact_kind (f_kind fl) && match kk with KStr _ _ _ _ => true | _ => false end
    end.

  Definition ccls_ok (cname : string) : bool :=
    match lookup_cls G cname with
    | Some c0 => c_extra_forbid c0 && nodup_sb (map f_name (c_fields c0)) && nodup_sb (map f_alias (c_fields c0))
                 && forallb (cfield_ok cname) (c_fields c0)
    | None => false
    end.

  Lemma carried_schema_ok : forallb ccls_ok CL = true.
  Proof. vm_compute. reflexivity. Qed.

  Lemma ccls_ok_of : forall c c0, In c CL -> lookup_cls G c = Some c0 ->
    c_extra_forbid c0 = true /\ NoDup (map f_name (c_fields c0)) /\ NoDup (map f_alias (c_fields c0)) /\
    forall fl, In fl (c_fields c0) -> cfield_ok c fl = true.
  Proof.
    intros c c0 Hc Hl. pose proof carried_schema_ok as H. rewrite forallb_forall in H. specialize (H c Hc).
    unfold ccls_ok in H. rewrite Hl in H. apply andb_true_iff in H. destruct H as [H H4].
    apply andb_true_iff in H. destruct H as [H H3]. apply andb_true_iff in H. destruct H as [H1 H2].
    repeat split; try assumption; try (apply nodup_sb_NoDup; assumption).
    intros fl Hfl. rewrite forallb_forall in H4. exact (H4 fl Hfl).
  Qed.
End Carried.

(* ------------------------------------------------------------------ bindings of a parsed object *)
Lemma sos_eqb : forall a b, str_eqb (str_of_string a) (str_of_string b) = String.eqb a b.
Proof.
  intros a b. destruct (String.eqb a b) eqn:E.
  - apply String.eqb_eq in E. subst. apply je_str_eqb_refl.
  - apply je_str_eqb_neq. intros H. apply str_of_string_inj in H. subst. rewrite String.eqb_refl in E. discriminate E.
Qed.

Lemma alias_known_false : forall fls a, ~ In a (map f_alias fls) -> alias_known fls (str_of_string a) = false.
Proof.
  induction fls as [|fl r IH]; intros a H; [reflexivity|].
  unfold alias_known. cbn [existsb]. rewrite sos_eqb.
  destruct (String.eqb a (f_alias fl)) eqn:E.
  - apply String.eqb_eq in E. exfalso. apply H. left. symmetry. exact E.
  - apply IH. intros Hc. apply H. right. exact Hc.
Qed.

Section Bindings.
  Variable SC : schema_t.
  Variable c : string.
  Variable ms : list (str * json).

  Definition field_rel (fl : field) (fv : string * mval) : Prop :=
    fst fv = f_name fl /\ opt_rel json_equiv (onn (jval SC (fst fv) (snd fv))) (onn (field_raw ms fl)).

  Lemma jfields_bindings : forall fls fields,
    Forall2 field_rel fls fields ->
    NoDup (map f_alias fls) ->
    (forall fl, In fl fls -> alias_of SC c (f_name fl) = f_alias fl) ->
    forall k,
      (alias_known fls k = false -> jfind k (jfields SC c fields) = None) /\
      (forall fl, In fl fls -> k = str_of_string (f_alias fl) ->
                  opt_rel json_equiv (jfind k (jfields SC c fields)) (onn (field_raw ms fl))).
  Proof.
    intros fls fields HF. induction HF as [|fl0 fv0 r r' [Hn0 Hr0] _ IH]; intros Hnd Hal k.
    - split; [reflexivity|intros fl []].
    - cbn [map] in Hnd. inversion Hnd as [|a l Hnotin Hnd']. subst a l.
      assert (Hal' : forall fl, In fl r -> alias_of SC c (f_name fl) = f_alias fl) by (intros fl Hfl; apply Hal; right; exact Hfl).
      destruct (IH Hnd' Hal' k) as [IH1 IH2].
      unfold jfields. cbn [map]. fold (jfields SC c r'). rewrite Hn0. rewrite (Hal fl0 (or_introl eq_refl)). split.
      + intros Hk. unfold alias_known in Hk. cbn [existsb] in Hk. apply orb_false_iff in Hk. destruct Hk as [Hk1 Hk2].
        rewrite jfind_miss by exact Hk1. apply IH1. exact Hk2.
      + intros fl [<-|Hfl] Ek.
        * subst k. rewrite jfind_hit; [rewrite <- Hn0; exact Hr0|apply je_str_eqb_refl|].
          apply (proj1 (IH Hnd' Hal' _)). apply alias_known_false. exact Hnotin.
        * subst k. rewrite jfind_miss.
          -- apply IH2; [exact Hfl|reflexivity].
          -- rewrite sos_eqb. destruct (String.eqb (f_alias fl) (f_alias fl0)) eqn:E; [|reflexivity].
             apply String.eqb_eq in E. exfalso. apply Hnotin. rewrite <- E. apply in_map. exact Hfl.
  Qed.

  Theorem parsed_object_equiv : forall fls fields,
    Forall2 field_rel fls fields ->
    NoDup (map f_alias fls) ->
    (forall fl, In fl fls -> alias_of SC c (f_name fl) = f_alias fl) ->
    NoDup (map fst ms) ->
    (forall kv, In kv ms -> alias_known fls (fst kv) = true) ->
    json_equiv (jobj SC (MModel c fields)) (JObj ms).
  Proof.
    intros fls fields HF Hnd Hal Hms Hkeys. apply json_equiv_model. constructor. intros k.
    destruct (jfields_bindings fls fields HF Hnd Hal k) as [B1 B2].
    destruct (alias_known fls k) eqn:Ek.
    - unfold alias_known in Ek. apply existsb_exists in Ek. destruct Ek as [fl [Hfl Ek]].
      apply je_str_eqb_eq in Ek. rewrite (jfind_assoc k ms Hms).
      specialize (B2 fl Hfl Ek). unfold field_raw in B2. rewrite <- Ek in B2.
      destruct (assoc k ms); exact B2.
    - rewrite (B1 eq_refl). rewrite jfind_notin; [constructor|].
      intros Hin. apply in_map_iff in Hin. destruct Hin as [kv [E Hkv]]. specialize (Hkeys kv Hkv).
      rewrite E in Hkeys. rewrite Hkeys in Ek. discriminate Ek.
  Qed.
End Bindings.

Lemma extra_bad_keys : forall c0 ms, c_extra_forbid c0 = true -> extra_bad c0 ms = false ->
  forall kv, In kv ms -> alias_known (c_fields c0) (fst kv) = true.
Proof.
  intros c0 ms Hf He kv Hkv. unfold extra_bad in He. rewrite Hf in He. cbn [andb] in He.
  apply negb_false_iff in He. rewrite forallb_forall in He. exact (He kv Hkv).
Qed.

(* ------------------------------------------------------------------ small facts *)
Lemma Forall2_impl_in2 : forall (A B : Type) (R R' : A -> B -> Prop) l l',
  (forall a b, In a l -> In b l' -> R a b -> R' a b) -> Forall2 R l l' -> Forall2 R' l l'.
Proof.
  intros A B R R' l l' H HF. induction HF as [|a b r r' Hab _ IH]; constructor.
  - apply H; [left; reflexivity|left; reflexivity|exact Hab].
  - apply IH. intros x y Hx Hy. apply H; right; assumption.
Qed.

Lemma is_lax_key_sos : forall a, is_lax_key (str_of_string a) = mem_s a lax_int_keys.
Proof.
  intros a. unfold is_lax_key, mem_s. induction lax_int_keys as [|x r IH]; [reflexivity|].
  cbn [existsb]. rewrite sos_eqb. rewrite IH. reflexivity.
Qed.

Lemma plain_alias_keys : forall a, plain_alias a = true ->
  is_lax_key (str_of_string a) = false /\ str_eqb (str_of_string a) $"variables" = false.
Proof.
  intros a H. unfold plain_alias in H. apply andb_true_iff in H. destruct H as [H1 H2].
  apply negb_true_iff in H1. apply negb_true_iff in H2. split.
  - rewrite is_lax_key_sos. exact H1.
  - change ($"variables") with (str_of_string "variables"). rewrite sos_eqb. exact H2.
Qed.

Lemma lax_member_int : forall ms k v, lax_ints_native (JObj ms) = true -> In (k, v) ms -> is_lax_key k = true ->
  v = JNull \/ exists z, v = JInt z.
Proof.
  intros ms k v H Hin Hk. cbn [lax_ints_native] in H. rewrite forallb_forall in H. specialize (H (k, v) Hin).
  cbn [fst snd] in H. rewrite Hk in H. destruct v; try discriminate H; [left; reflexivity|right; eexists; reflexivity].
Qed.

Lemma lax_member_sub : forall ms k v, lax_ints_native (JObj ms) = true -> In (k, v) ms ->
  is_lax_key k = false -> str_eqb k $"variables" = false -> lax_ints_native v = true.
Proof.
  intros ms k v H Hin Hk Hv. cbn [lax_ints_native] in H. rewrite forallb_forall in H. specialize (H (k, v) Hin).
  cbn [fst snd] in H. rewrite Hk, Hv in H. exact H.
Qed.

Lemma kd_members : forall ms, keys_distinct (JObj ms) = true ->
  NoDup (map fst ms) /\ forall k v, In (k, v) ms -> keys_distinct v = true.
Proof.
  intros ms H. cbn [keys_distinct] in H. apply andb_true_iff in H. destruct H as [H1 H2]. split.
  - apply str_nodupb_NoDup. exact H1.
  - intros k v Hin. rewrite forallb_forall in H2. exact (H2 (k, v) Hin).
Qed.

Lemma field_raw_in : forall ms fl, field_raw ms fl <> JNull -> In (str_of_string (f_alias fl), field_raw ms fl) ms.
Proof.
  intros ms fl H. unfold field_raw in *. destruct (assoc (str_of_string (f_alias fl)) ms) as [v|] eqn:E; [|contradiction].
  apply assoc_some_in. exact E.
Qed.

Lemma mfield_in : forall n x (fields : list (string * mval)), NoDup (map fst fields) -> In (n, x) fields -> mfield n fields = x.
Proof.
  intros n x fields. unfold mfield. induction fields as [|[n' x'] r IH]; intros Hnd Hin; [destruct Hin|].
  cbn [map fst] in Hnd. inversion Hnd as [|a l Hnotin Hnd']. subst a l.
  cbn [lookup_s]. destruct Hin as [Hin|Hin].
  - injection Hin as -> ->. rewrite String.eqb_refl. reflexivity.
  - destruct (String.eqb n' n) eqn:E; [|exact (IH Hnd' Hin)].
    apply String.eqb_eq in E. subst n'. exfalso. apply Hnotin. apply (in_map fst) in Hin. exact Hin.
Qed.

Lemma scalar_exact_nn : forall classify k v x, exact_kind k = true -> parse_scalar classify k v = Ok x -> x <> MNone.
Proof.
  intros classify k v x Hk H.
  destruct k as [lit|members|strict lo hi cs|c lo hi cs|strict|strict ge le gt|gt| |c|key mp|alts];
    try discriminate Hk; cbn [parse_scalar] in H.
  - destruct v as [| | | |s| |]; try discriminate H. destruct (str_eqb s (str_of_string lit)); [|discriminate H].
    injection H as <-. discriminate.
  - destruct v as [| | | |s| |]; try discriminate H. destruct (existsb _ members); [|discriminate H].
    injection H as <-. discriminate.
  - cbn [exact_kind] in Hk. subst strict. destruct v as [| | | |s| |]; try discriminate H.
    unfold check_str in H. destruct (len_ok lo hi s && cs_ok cs s); [|discriminate H]. injection H as <-. discriminate.
  - destruct v as [| | | |s| |]; try discriminate H.
    destruct (len_ok lo hi s && cs_ok cs s && fs_ok classify s); [|discriminate H]. injection H as <-. discriminate.
  - destruct v as [|b| | | | |]; try (destruct strict; discriminate H). injection H as <-. discriminate.
Qed.

(* ------------------------------------------------------------------ the theorem *)
Section CarriedMain.
  Variable classify : N -> cclass.
  Notation G := Generated.schema.
  Notation pk := (parse_kind G classify pre_hook (post_hook classify)).
  Notation pc := (parse_cls G classify pre_hook (post_hook classify)).
  Notation CL := carried_classes.

  Definition carried_k (f : nat) : Prop :=
    forall k v x, ckind_ok k = true -> pk f k v = Ok x -> lax_ints_native v = true -> keys_distinct v = true ->
                  json_equiv (jobj G x) v.
  Definition carried_c (f : nat) : Prop :=
    forall c v x, In c CL -> pc f c v = Ok x -> lax_ints_native v = true -> keys_distinct v = true ->
                  json_equiv (jobj G x) v.

  Lemma carried_items : forall f k items l, carried_k f -> ckind_ok k = true ->
    Forall2 (fun it m => pk f k it = Ok m) items l ->
    forallb lax_ints_native items = true -> forallb keys_distinct items = true ->
    Forall2 json_equiv (map (jobj G) l) items.
  Proof.
    intros f k items l IHk Hk HF. induction HF as [|it m r r' Hp _ IH]; intros Hl Hd; [constructor|].
    cbn [forallb] in Hl, Hd. apply andb_true_iff in Hl. apply andb_true_iff in Hd.
    destruct Hl as [Hl1 Hl2]. destruct Hd as [Hd1 Hd2]. cbn [map]. constructor.
    - exact (IHk k it m Hk Hp Hl1 Hd1).
    - exact (IH Hl2 Hd2).
  Qed.

  (* a dictionary of exact values is exported as the object it was read from *)
  Lemma carried_dict : forall f kk k members l, exact_kind k = true ->
    mapM (dict_entry (pk f) kk k) members = Ok l ->
    jobj G (MDict l) = JObj members.
  Proof.
    intros f kk k members l Hk. revert l. induction members as [|[k0 v0] r IH]; intros l H.
    - injection H as <-. reflexivity.
    - cbn [mapM] in H. destruct (dict_entry (pk f) kk k (k0, v0)) as [e0|e] eqn:E0; cbn [bind] in H; [|discriminate H].
      destruct (mapM _ r) as [l'|e] eqn:Em; cbn [bind] in H; [|discriminate H]. injection H as <-.
      specialize (IH l' eq_refl). cbn [jobj] in IH. injection IH as IH.
      unfold dict_entry in E0. cbn [fst snd] in E0.
      destruct (pk f kk (JStr k0)) as [y1|e1]; cbn [bind] in E0; [|discriminate E0].
      destruct (pk f k v0) as [y|e2] eqn:E2; cbn [bind] in E0; [|discriminate E0]. injection E0 as <-.
      destruct (pk_exact_tobj G classify _ _ f k v0 y Hk E2) as [Hleaf Ht].
      assert (Hnn : y <> MNone).
      { destruct f as [|f']; [discriminate E2|]. rewrite parse_kind_S in E2.
        destruct k; try discriminate Hk; exact (scalar_exact_nn _ _ _ _ Hk E2). }
      cbn [jobj flat_map snd fst]. rewrite IH. rewrite (leaf_jobj G y Hleaf), Ht.
      destruct y; try reflexivity. contradiction.
  Qed.

  Theorem carried_equiv : forall f, carried_k f /\ carried_c f.
  Proof.
    induction f as [|f [IHk IHc]].
    - split; intros a v x Ha H; discriminate H.
    - split.
      + intros k v x Hk H Hl Hd. rewrite parse_kind_S in H.
        destruct k as [lit|members|strict lo hi cs|c lo hi cs|strict|strict ge le gt|gt| |c|key mp|alts];
          try (cbn [ckind_ok] in Hk; destruct (scalar_exact G classify _ _ _ Hk H) as [Hleaf Ht];
               rewrite (leaf_jobj G x Hleaf), Ht; apply json_equiv_refl);
          try discriminate Hk.
        * apply (IHc c v x); try assumption. apply ExportProofs.mem_s_In. exact Hk.
        * unfold disc_res in H. destruct v as [| | | | | |ms]; try discriminate H.
          destruct (assoc (str_of_string key) ms) as [[| | | |s| |]|]; try discriminate H.
          destruct (List.find _ mp) as [[k' c']|] eqn:Ef; [|discriminate H].
          apply find_some in Ef. destruct Ef as [Ef _]. cbn [ckind_ok] in Hk. rewrite forallb_forall in Hk.
          specialize (Hk _ Ef). cbn [snd] in Hk. apply (IHc c' _ x); try assumption. apply ExportProofs.mem_s_In. exact Hk.
      + intros c v x Hc H Hl Hd.
        destruct (pc_inv _ _ _ _ _ _ _ _ H) as [f' [c0 [ms [fields [Ef [Hlk [-> [-> [Hpre [Hex [Hm Hpost]]]]]]]]]]].
        injection Ef as <-.
        destruct (ccls_ok_of c c0 Hc Hlk) as [Hforb [Hnn [Hna Hfl]]].
        destruct (kd_members ms Hd) as [Hkd1 Hkd2].
        assert (Hnames : map fst fields = map f_name (c_fields c0)).
        { clear - Hm. revert fields Hm. induction (c_fields c0) as [|fl r IH]; intros fields Hm.
          - injection Hm as <-. reflexivity.
          - cbn [mapM] in Hm. destruct (parse_field (pk f) ms fl) as [y|e] eqn:Ey; cbn [bind] in Hm; [|discriminate Hm].
            destruct (mapM _ r) as [ys|e] eqn:Er; cbn [bind] in Hm; [|discriminate Hm]. injection Hm as <-.
            cbn [map]. rewrite (IH ys eq_refl). apply parse_field_inv in Ey. destruct Ey as [x0 [-> _]]. reflexivity. }
        assert (Hndf : NoDup (map fst fields)) by (rewrite Hnames; exact Hnn).
        apply (parsed_object_equiv G c ms (c_fields c0) fields); try assumption.
        * apply mapM_Forall2 in Hm. revert Hm. apply Forall2_impl_in2. intros fl fv Hfin Hvin Hp.
          apply parse_field_inv in Hp. destruct Hp as [x [-> Hv]]. split; [reflexivity|]. cbn [fst snd].
          specialize (Hfl fl Hfin). unfold cfield_ok in Hfl. apply andb_true_iff in Hfl. destruct Hfl as [Hnr Hsh].
          apply negb_true_iff in Hnr. unfold jval. rewrite Hnr.
          destruct (field_raw ms fl) as [|rb|rz|rm re|rs|rl|rms] eqn:Eraw;
            try (apply parse_value_null in Hv; subst x; constructor).
          all: apply onn_equiv; rewrite <- Eraw in *;
            assert (Hnull : field_raw ms fl <> JNull) by (rewrite Eraw; discriminate);
            pose proof (field_raw_in ms fl Hnull) as Hin.
          all: destruct (f_shape fl) as [|lo hi|kk] eqn:Esh.
          all: try (
            (* ---- Single ---- *)
            apply (parse_value_single G classify pre_hook (post_hook classify) f fl _ x Esh Hnull) in Hv;
            destruct (f_kind fl) as [lit|members|strict lo hi cs|c' lo hi cs|strict|strict ge le gt|gt| |c'|key mp|alts] eqn:Ek;
            try (apply andb_true_iff in Hsh; destruct Hsh as [Hck Hpa];
                 destruct (plain_alias_keys _ Hpa) as [Hk1 Hk2];
                 apply (IHk _ _ x Hck Hv);
                 [exact (lax_member_sub ms _ _ Hl Hin Hk1 Hk2)|exact (Hkd2 _ _ Hin)]);
            destruct strict;
            try (apply andb_true_iff in Hsh; destruct Hsh as [Hck Hpa]; discriminate Hck);
            rewrite <- is_lax_key_sos in Hsh;
            destruct (lax_member_int ms _ _ Hl Hin Hsh) as [En|[z En]]; [contradiction|];
            rewrite En in *;
            destruct f as [|f1]; [discriminate Hv|]; rewrite parse_kind_S in Hv; cbn [parse_scalar] in Hv;
            destruct (zopt_ok ge le gt z); [|discriminate Hv]; injection Hv as <-; apply json_equiv_refl).
          all: try (
            (* ---- ListOf ---- *)
            apply andb_true_iff in Hsh; destruct Hsh as [Hck Hpa];
            destruct (plain_alias_keys _ Hpa) as [Hk1 Hk2];
            pose proof (lax_member_sub ms _ _ Hl Hin Hk1 Hk2) as Hlr;
            pose proof (Hkd2 _ _ Hin) as Hdr;
            destruct (parse_value_list G classify pre_hook (post_hook classify) f fl lo hi _ x Esh Hnull Hv) as [items [l [Er [-> HF]]]];
            rewrite Er in *; cbn [jobj]; constructor;
            exact (carried_items f (f_kind fl) items l IHk Hck HF Hlr Hdr)).
          (* ---- DictOf ---- *)
          all: repeat (apply andb_true_iff in Hsh; destruct Hsh as [Hsh ?]).
          all: match goal with HE : String.eqb ?cc "Environment" = true |- _ => apply String.eqb_eq in HE; subst cc end.
          all: match goal with HE : String.eqb (f_name _) "variables" = true |- _ => apply String.eqb_eq in HE end.
          all: match goal with HE : exact_kind (f_kind _) = true |- _ => rename HE into Hex2 end.
          all: unfold parse_value in Hv; rewrite Esh in Hv; rewrite Eraw in Hv.
          all: try discriminate Hv.
          all: try (
            (* dict("") / dict([]) : refused by the Environment validator *)
            match type of Hv with (match ?l0 with [] => _ | _ :: _ => _ end) = _ => destruct l0; [|discriminate Hv] end;
            injection Hv as <-; exfalso;
            match goal with HE : f_name _ = "variables" |- _ => rewrite HE in Hvin end;
            pose proof (mfield_in "variables" (MDict []) fields Hndf Hvin) as Emf;
            change (post_hook classify "Environment" (JObj ms) fields)
              with (match fget "variables" fields with MDict [] => false | _ => true end) in Hpost;
            unfold fget in Hpost; rewrite Emf in Hpost; discriminate Hpost).
          match type of Hv with (do l' <- mapM ?g ?mem; _) = _ => destruct (mapM g mem) as [l'|e] eqn:Em; cbn [bind] in Hv; [|discriminate Hv] end.
          injection Hv as <-. rewrite (carried_dict f kk (f_kind fl) _ l' Hex2 Em). rewrite Eraw. apply json_equiv_refl.
        * intros fl Hfin. exact (alias_of_field G c c0 fl Hlk Hnn Hfin).
        * exact (extra_bad_keys c0 ms Hforb Hex).
  Qed.

  Corollary carried_cls : forall f c v x, In c CL -> pc f c v = Ok x ->
    lax_ints_native v = true -> keys_distinct v = true -> json_equiv (jobj G x) v.
  Proof. intros f. exact (proj2 (carried_equiv f)). Qed.

  Corollary carried_kind : forall f k v x, ckind_ok k = true -> pk f k v = Ok x ->
    lax_ints_native v = true -> keys_distinct v = true -> json_equiv (jobj G x) v.
  Proof. intros f. exact (proj1 (carried_equiv f)). Qed.
End CarriedMain.
