(* UsableShape.v — tools about the Job instance tree, independent of how it was made:

     1. [coerce_all]: the fuel-free form of CreateJob.coerce_job, and what the glue's accessors read
        through it (names, dependencies and any field but "range" are untouched);
     2. the shape of a job-side parameter space ([space_shape]);
     3. Export.nodes_ok = Ok true says: EVERY model node of the tree is accepted by its own class
        ([node_accepted] for every [subnode]). *)
From Coq Require Import List NArith ZArith Bool String Lia.
Import ListNotations.
Require Import OJD.Base OJD.Lexer OJD.Json OJD.Schema OJD.Generated OJD.CreateJob OJD.CreateJobProofs
               OJD.Parse OJD.Validators OJD.Accept OJD.Export OJD.CreateJobExactLib OJD.Comb OJD.WF
               OJD.ParamSpace OJD.UsableGlue.
Local Open Scope string_scope.
Local Open Scope list_scope.

(* ------------------------------------------------------------------ 1. coerce_job without fuel *)
Definition coerce_range_value (x : mval) : mval :=
  match x with
  | MList items => MList (map coerce_range_item items)
  | _ => x
  end.

Fixpoint coerce_all (v : mval) : mval :=
  match v with
  | MModel c fs =>
    MModel c (map (fun fv => if String.eqb (fst fv) "range"
                             then (fst fv, coerce_range_value (snd fv))
                             else (fst fv, coerce_all (snd fv))) fs)
  | MList l => MList (map coerce_all l)
  | MDict l => MDict (map (fun kv => (fst kv, coerce_all (snd kv))) l)
  | _ => v
  end.

Lemma coerce_job_all : forall v f, mval_depth v <= f -> coerce_job f v = coerce_all v.
Proof.
  induction v as [ | | | | | | |l IH|l IH|c fs IH] using mval_ind3; intros f Hf;
    (destruct f as [|f]; [cbn [mval_depth] in Hf; lia|]); try reflexivity.
  - cbn [coerce_job coerce_all]. f_equal. apply map_ext_in. intros y Hy.
    rewrite Forall_forall in IH. apply (IH y Hy). pose proof (item_depth l y Hy). lia.
  - cbn [coerce_job coerce_all]. f_equal. apply map_ext_in. intros kv Hkv.
    rewrite Forall_forall in IH. f_equal. apply (IH kv Hkv). pose proof (member_depth l kv Hkv). lia.
  - cbn [coerce_job coerce_all]. f_equal. apply map_ext_in. intros kv Hkv.
    rewrite Forall_forall in IH. destruct (String.eqb (fst kv) "range").
    + unfold coerce_range_value. destruct (snd kv); reflexivity.
    + f_equal. apply (IH kv Hkv). pose proof (field_depth c fs kv Hkv). lia.
Qed.

(* the fields of a coerced model *)
Definition coerce_fields (fs : list (string * mval)) : list (string * mval) :=
  map (fun fv => if String.eqb (fst fv) "range"
                 then (fst fv, coerce_range_value (snd fv))
                 else (fst fv, coerce_all (snd fv))) fs.

Lemma coerce_all_model : forall c fs, coerce_all (MModel c fs) = MModel c (coerce_fields fs).
Proof. reflexivity. Qed.

Lemma mfield_coerce : forall k fs, String.eqb k "range" = false ->
  mfield k (coerce_fields fs) = coerce_all (mfield k fs).
Proof.
  intros k fs Hk. unfold mfield. induction fs as [|[n x] r IH]; [reflexivity|].
  cbn [coerce_fields map fst snd]. destruct (String.eqb n "range") eqn:En; cbn [lookup_s].
  - destruct (String.eqb n k) eqn:Enk.
    + apply String.eqb_eq in Enk. subst n. rewrite Hk in En. discriminate En.
    + exact IH.
  - destruct (String.eqb n k); [reflexivity|exact IH].
Qed.

Lemma mfield_coerce_range : forall fs,
  mfield "range" (coerce_fields fs) = coerce_range_value (mfield "range" fs).
Proof.
  intros fs. unfold mfield. induction fs as [|[n x] r IH]; [reflexivity|].
  cbn [coerce_fields map fst snd]. destruct (String.eqb n "range") eqn:En; cbn [lookup_s]; rewrite En.
  - reflexivity.
  - exact IH.
Qed.

Lemma model_fields_coerce : forall v, model_fields (coerce_all v) = coerce_fields (model_fields v).
Proof. intros v. destruct v; reflexivity. Qed.

Lemma mitems_coerce : forall v, mitems (coerce_all v) = map coerce_all (mitems v).
Proof. intros v. destruct v; reflexivity. Qed.

Lemma mstr_coerce : forall v, mstr (coerce_all v) = mstr v.
Proof. intros v. destruct v; reflexivity. Qed.

Lemma fget_coerce : forall k v, String.eqb k "range" = false ->
  fget k (model_fields (coerce_all v)) = coerce_all (fget k (model_fields v)).
Proof. intros k v Hk. rewrite model_fields_coerce. unfold fget. apply mfield_coerce. exact Hk. Qed.

Lemma step_name_coerce : forall st, step_name (coerce_all st) = step_name st.
Proof. intros st. unfold step_name. rewrite fget_coerce by reflexivity. apply mstr_coerce. Qed.

Lemma dep_names_coerce : forall st, dep_names (coerce_all st) = dep_names st.
Proof.
  intros st. unfold dep_names. rewrite fget_coerce by reflexivity. rewrite mitems_coerce, map_map.
  apply map_ext. intros d. rewrite fget_coerce by reflexivity. apply mstr_coerce.
Qed.

Lemma names_of_coerce : forall v, names_of (coerce_all v) = names_of v.
Proof.
  intros v. unfold names_of. rewrite mitems_coerce, map_map. apply map_ext. intros m.
  rewrite fget_coerce by reflexivity. apply mstr_coerce.
Qed.

Lemma step_space_coerce : forall st, step_space (coerce_all st) = coerce_all (step_space st).
Proof. intros st. unfold step_space. rewrite model_fields_coerce. apply mfield_coerce. reflexivity. Qed.

(* ------------------------------------------------------------------ 2. the shape of a job-side parameter space *)
Definition list_classes : list string :=
  ["IntRangeListTaskParameterDefinition"; "FloatRangeListTaskParameterDefinition"; "RangeListTaskParameterDefinition"].

Definition is_mstr (x : mval) : Prop := exists s, x = MStr s.
(* a range-list item as instantiate_model leaves it: a number of the template, or a resolved string *)
Definition raw_item (x : mval) : Prop := (exists z, x = MInt z) \/ (exists m e, x = MDec m e) \/ (exists s, x = MStr s).

Inductive def_shape (P : mval -> Prop) : mval -> Prop :=
| DS_expr ty rs :
    pty_of_str ty <> None ->
    def_shape P (MModel "RangeExpressionTaskParameterDefinition" [("type", MStr ty); ("range", MStr rs)])
| DS_list c ty items :
    In c list_classes -> pty_of_str ty <> None -> items <> [] -> Forall P items ->
    def_shape P (MModel c [("type", MStr ty); ("range", MList items)]).

Section SpaceShape.
  Variable classify : N -> cclass.

  (* the combination is absent, or a string that parses to a tree naming each key exactly once *)
  Definition comb_ok (names : list str) (cb : mval) : Prop :=
    cb = MNone \/
    exists s ct, cb = MStr s /\ Comb.parse_str classify s = Ok ct /\
                 Comb.accounting false names (Comb.collect_ids ct) = true.

  Definition space_shape (P : mval -> Prop) (psn : mval) : Prop :=
    exists kys cb,
      psn = MModel "StepParameterSpace" [("taskParameterDefinitions", MDict kys); ("combination", cb)] /\
      kys <> [] /\ NoDup (map fst kys) /\
      Forall (fun kv => def_shape P (snd kv)) kys /\
      comb_ok (map fst kys) cb.
End SpaceShape.

Lemma coerce_item_mstr : forall x, raw_item x -> is_mstr (coerce_range_item x).
Proof.
  intros x [[z ->]|[[m [e ->]]|[s ->]]]; cbn [coerce_range_item]; eexists; reflexivity.
Qed.

Lemma def_shape_coerce : forall d, def_shape raw_item d -> def_shape is_mstr (coerce_all d).
Proof.
  intros d H. destruct H as [ty rs Hty|c ty items Hc Hty Hne HF].
  - cbn [coerce_all map fst snd String.eqb Ascii.eqb Bool.eqb coerce_range_value]. apply DS_expr. exact Hty.
  - cbn [coerce_all map fst snd String.eqb Ascii.eqb Bool.eqb coerce_range_value]. apply DS_list; try assumption.
    + intros E. apply map_eq_nil in E. exact (Hne E).
    + apply Forall_map. eapply Forall_impl; [|exact HF]. intros x Hx. apply coerce_item_mstr. exact Hx.
Qed.

Lemma space_shape_coerce : forall classify psn,
  space_shape classify raw_item psn -> space_shape classify is_mstr (coerce_all psn).
Proof.
  intros classify psn [kys [cb [-> [Hne [Hnd [HF Hcb]]]]]].
  exists (map (fun kv => (fst kv, coerce_all (snd kv))) kys), cb. split.
  - cbn [coerce_all map fst snd String.eqb Ascii.eqb Bool.eqb]. f_equal. f_equal. f_equal. f_equal.
    destruct Hcb as [->|[s [ct [-> _]]]]; reflexivity.
  - split; [intros E; apply map_eq_nil in E; exact (Hne E)|].
    rewrite map_map. cbn [fst]. split; [exact Hnd|]. split; [|exact Hcb].
    apply Forall_map. eapply Forall_impl; [|exact HF]. intros kv Hkv. cbn [snd]. apply def_shape_coerce. exact Hkv.
Qed.

(* ------------------------------------------------------------------ 3. nodes_ok: every node is accepted *)
Inductive subnode : mval -> mval -> Prop :=
| Sub_refl v : subnode v v
| Sub_list l x w : In x l -> subnode x w -> subnode (MList l) w
| Sub_dict l kv w : In kv l -> subnode (snd kv) w -> subnode (MDict l) w
| Sub_model c fs fv w : In fv fs -> subnode (snd fv) w -> subnode (MModel c fs) w.

Definition node_accepted (classify : N -> cclass) (w : mval) : Prop :=
  match w with
  | MModel c fs => exists v', parse_any classify c (export w) = Ok v'
  | _ => True
  end.

Section NodesOk.
  Variable classify : N -> cclass.

  Lemma all_fold_false : forall f l,
    fold_left (fun (acc : outcome bool) x => do a <- acc; if a then nodes_ok classify f x else Ok false) l (Ok false) = Ok false.
  Proof. intros f. induction l as [|x l IH]; [reflexivity|]. cbn [fold_left bind]. exact IH. Qed.

  Lemma all_fold_raise' : forall f l e,
    fold_left (fun (acc : outcome bool) x => do a <- acc; if a then nodes_ok classify f x else Ok false) l (Raise e) = Raise e.
  Proof. intros f. induction l as [|x l IH]; intros e; [reflexivity|]. cbn [fold_left bind]. apply IH. Qed.

  Lemma all_fold_true : forall f l,
    fold_left (fun (acc : outcome bool) x => do a <- acc; if a then nodes_ok classify f x else Ok false) l (Ok true) = Ok true ->
    forall x, In x l -> nodes_ok classify f x = Ok true.
  Proof.
    intros f. induction l as [|y l IH]; intros H x Hx; [destruct Hx|].
    cbn [fold_left bind] in H. destruct (nodes_ok classify f y) as [[|]|e] eqn:Ey.
    - destruct Hx as [<-|Hx]; [exact Ey|exact (IH H x Hx)].
    - rewrite all_fold_false in H. discriminate H.
    - rewrite all_fold_raise' in H. discriminate H.
  Qed.

  Theorem nodes_ok_accepted : forall F v, nodes_ok classify F v = Ok true ->
    forall w, subnode v w -> node_accepted classify w.
  Proof.
    induction F as [|f IH]; intros v H w Hs; [discriminate H|].
    destruct Hs as [v|l x w Hx Hs|l kv w Hkv Hs|c fs fv w Hfv Hs].
    - destruct v as [ | | | | | | |l|l|c fs]; try exact I.
      cbn [nodes_ok] in H. cbn [node_accepted].
      match type of H with context [fold_left ?g ?l ?a] => destruct (fold_left g l a) as [[|]|e]; cbn [bind] in H; try discriminate H end.
      destruct (parse_any classify c (export (MModel c fs))) as [v'|e]; [exists v'; reflexivity|].
      destruct e; discriminate H.
    - cbn [nodes_ok] in H. apply (IH x); [|exact Hs]. exact (all_fold_true f l H x Hx).
    - cbn [nodes_ok] in H. apply (IH (snd kv)); [|exact Hs].
      apply (all_fold_true f (map snd l) H). apply in_map. exact Hkv.
    - cbn [nodes_ok] in H.
      match type of H with context [fold_left ?g ?l ?a] => destruct (fold_left g l a) as [[|]|e] eqn:Eb; cbn [bind] in H; try discriminate H end.
      apply (IH (snd fv)); [|exact Hs]. apply (all_fold_true f (map snd fs) Eb). apply in_map. exact Hfv.
  Qed.
End NodesOk.
