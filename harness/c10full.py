"""C10 (full) — preprocess_job_parameters as ONE model function, fed only RAW documents.

The Coq function `PreprocessFull.preprocess_docs classify mode template_dir cwd walk_up env_docs doc vals`
decodes the job template and the environment templates (the acceptance model), reads the parameter
definitions out of the decoded instances (`CreateJobFull.pdef_of_mval`), merges them
(`CreateJobFull.merge_definitions` = `Merge.merge` per name), and preprocesses the values with the PATH
rules of the mode (`JobParams.preprocess` + `Paths.path_supplied` / `Paths.default_body` /
`Paths.dir_check`).  Nothing computed by the implementation enters the model: the wire carries the raw
documents, the value map, the two directory strings, the flag and the mode.

Implementation side:
  client  decode_job_template / decode_environment_template, then
          preprocess_job_parameters(job_template=, job_parameter_values=, job_template_dir=Path(dir),
              current_working_dir=Path(cwd), allow_job_template_dir_walk_up=walk, environment_templates=[...])
  server  the call create_job ITSELF makes: create_job(job_template=, job_parameter_values=,
          environment_templates=) is run with a recording wrapper around
          openjd.model._create_job.preprocess_job_parameters; the observable is what that inner call returned
          or raised (so the model's `Server` mode — Path(), Path(), walk-up allowed — is tied to the code of
          create_job, not to a transcription of its arguments).
Observable per call: ("ok", sorted [(name, type, value)]) | ("raise", exception class name).

Stand-alone:
    cd <verif> && VERIF_JOBS=6 PYTHONHASHSEED=0 PYTHONPATH=/repo/src /venv/bin/python harness/c10full.py quick
(evidence goes to evidence/C10.json, as for ./check C10; props/C10.v + props/C10x.v are built and their
assumptions printed).  Attached to ./check C10 by adding, in harness/c10.py's __main__ block,
    import c10full; PROP.also = [c10full.PROP]
"""
import copy
import itertools
import json
import random
import sys
from decimal import Decimal
from pathlib import Path

sys.path.insert(0, str(Path(__file__).resolve().parent))
import core  # noqa: E402
import jobparams_common as jc  # noqa: E402
import c10 as C10M  # noqa: E402
import c11 as C11M  # noqa: E402
import c12 as C12M  # noqa: E402

import openjd.model._create_job as _CJ  # noqa: E402
from openjd.model import (  # noqa: E402
    DecodeValidationError, ParameterValue, ParameterValueType, create_job,
    decode_environment_template, decode_job_template, preprocess_job_parameters,
)



def _pool_chars():
    """every non-ASCII character of the source texts and of the module-level pools of the generators used here
    (the pools spell many of them as escapes)"""
    acc = {c for p in (__file__, jc.__file__, C10M.__file__, C11M.__file__, C12M.__file__) for c in Path(p).read_text() if ord(c) > 127}
    acc |= {chr(c) for c in jc.DEC_SPACE if c > 127}
    for mod in (jc, C10M, C11M, C12M):
        for val in list(vars(mod).values()):
            if isinstance(val, (str, list, tuple, dict)):
                try:
                    core.doc_chars(val, acc)
                except Exception:  # noqa: BLE001
                    pass
    return "".join(sorted(acc))


_SRC_CHARS = _pool_chars()


def deep(x):
    return copy.deepcopy(x)


def jt(params):
    d = {"specificationVersion": "jobtemplate-2023-09", "name": "J", "steps": [deep(jc.STEP)]}
    if params is not None:
        d["parameterDefinitions"] = params
    return d


def et(params, name="E"):
    d = {"specificationVersion": "environment-2023-09", "environment": {"name": name, "variables": {"A": "b"}}}
    if params is not None:
        d["parameterDefinitions"] = params
    return d


def call(mode, vals, dir_="/t", cwd="/c", walk=False):
    return {"mode": mode, "dir": dir_, "cwd": cwd, "walk": bool(walk), "vals": dict(vals)}


def case(doc, envs, calls):
    return {"doc": doc, "envs": envs, "calls": calls}


def both(vals, dir_="/t", cwd="/c", walk=False):
    return [call("client", vals, dir_, cwd, walk), call("server", vals)]


# ---------------------------------------------------------------- pools
PATH_POOL = ["", "a", "a/b", "a//b", "./a", "a/.", "a/", "a/./b", "/a//b", "//a", "///a", "/", "//", ".", "..", "a/../b", "../up", "./", "/.", "a/b/", "/abs/p", "rel/p",
             " ", "a b", "é/ü", "\x00", "a\nb", "~", "~/x", "C:\\x", "a\\b", "x" * 1024, "x" * 1025, "/" + "x" * 1023, "./" + "x" * 1023, "{{Param.X}}"]
BIG = 10 ** 40
DIRS = C11M.DIRS
CWDS = C11M.CWDS


def corpus():
    out = []
    # C10's corpus (historical truthiness defect first), in the caller's mode and in create_job's
    for c in C10M.CORPUS:
        vals = {k: v for k, v in c["vals"]}
        out.append(case(jt(deep(c["defs"])), [], [call("client", vals, c["dir"]), call("client", vals, c["dir"], walk=True), call("server", vals)]))
    # C12's corpus: one environment template per definition, then the job template; every probe
    for c in C12M.CORPUS:
        envs = [et([deep(e)] if e else None, "E%d" % i) for i, e in enumerate(c["envs"])]
        calls = []
        for v in [None] + c["probes"]:
            vals = {} if v is None else {C12M.NAME: v}
            calls += both(vals)
        out.append(case(jt([deep(c["job"])] if c["job"] else None), envs, calls))
    # C11's named spellings: as a default x 6 directories x both flags, as a supplied value x 6 working directories
    for p in C11M.CORPUS_PATHS:
        out.append(case(jt([{"name": "P", "type": "PATH", "default": p}]), [],
                        [call("client", {}, d, "/cwd", w) for d in DIRS for w in (False, True)] + [call("server", {})]))
    out.append(case(jt([{"name": "P", "type": "PATH"}]), [],
                    [call("client", {"P": p}, "/t/dir", c, False) for p in C11M.CORPUS_PATHS for c in CWDS] + [call("server", {"P": p}) for p in C11M.CORPUS_PATHS]))
    out.append(case(jt([{"name": "P", "type": "PATH"}]), [], [c for p in PATH_POOL for c in both({"P": p}, cwd="/c w")]))
    # constraints are checked on the STORED value: "a//b" (4 characters) is stored as /c/a/b (client) or a/b (server)
    for extra in ({"maxLength": 3}, {"maxLength": 6}, {"minLength": 4}, {"minLength": 7}, {"allowedValues": ["a/b"]}, {"allowedValues": ["a//b"]}, {"allowedValues": ["/c/a/b"]}):
        out.append(case(jt([dict({"name": "P", "type": "PATH"}, **extra)]), [], both({"P": "a//b"}) + both({"P": ""}) + both({"P": "/a//b"})))
    # ... and a default is joined to the template directory first (client) or kept verbatim (server)
    for extra in ({"maxLength": 4}, {"maxLength": 8}, {"allowedValues": ["a//b"]}, {"allowedValues": ["a//b", "/t/a/b"]}, {"minLength": 4, "maxLength": 5}):
        d = dict({"name": "P", "type": "PATH", "default": "a//b"}, **extra)
        out.append(case(jt([d]), [], both({}) + [call("client", {}, "/t", "/c", True), call("client", {}, "t", "/c", True), call("client", {}, "t", "/c", False)]))
    # the relative-template-directory rule looks at the MERGED definitions: none at all / only in an environment template
    out.append(case(jt(None), [], [call("client", {}, "rel"), call("client", {"X": "1"}, "rel"), call("client", {}, ""), call("server", {}), call("server", {"X": "1"})]))
    out.append(case(jt(None), [et([{"name": "I", "type": "INT", "default": 1}])], [call("client", {}, "rel"), call("client", {}, "/abs"), call("client", {}, "rel", walk=True), call("server", {})]))
    out.append(case(jt(None), [et(None), et(None, "F")], [call("client", {}, "rel"), call("client", {"X": "1"}, "/t")]))
    # an environment template re-constrains / adds / conflicts (the cases of harness/c06full.py, here in both modes)
    I = lambda **k: dict({"name": "I", "type": "INT"}, **k)  # noqa: E731
    for doc_defs, env_defs, valss in [
        ([I(minValue=1, default=7)], [[I(maxValue=10)]], [{}, {"I": "11"}, {"I": "10"}, {"I": "0"}]),
        ([I(minValue=1)], [[I(default=3)]], [{}, {"I": "1"}]),
        ([I(default=2)], [[I(default=3)]], [{}]),
        ([I(default=2)], [[I(default=3, minValue=3)]], [{}, {"I": "3"}]),
        ([I(maxValue=3)], [[I(minValue=5)]], [{}, {"I": "4"}]),
        ([I(allowedValues=[1])], [[I(allowedValues=[2])], [I(allowedValues=[3])]], [{"I": "3"}, {"I": "1"}]),
        ([{"name": "S", "type": "STRING"}], [[{"name": "E", "type": "STRING", "default": "e"}]], [{"S": "s"}, {"S": "s", "E": "x"}, {}]),
        ([{"name": "S", "type": "STRING"}], [[{"name": "E", "type": "STRING"}]], [{"S": "s"}, {"S": "s", "E": "x"}]),
        ([{"name": "S", "type": "STRING"}], [[{"name": "S", "type": "PATH"}]], [{"S": "s"}]),
        ([{"name": "A", "type": "STRING"}, {"name": "B", "type": "INT"}], [[{"name": "B", "type": "FLOAT"}], [{"name": "A", "type": "PATH"}]], [{"A": "s", "B": "1"}]),
        ([{"name": "P", "type": "PATH", "objectType": "FILE"}], [[{"name": "P", "type": "PATH"}]], [{"P": "x"}]),
        ([{"name": "P", "type": "PATH", "dataFlow": "IN"}], [[{"name": "P", "type": "PATH", "dataFlow": "OUT"}]], [{"P": "x"}]),
        ([{"name": "P", "type": "PATH", "dataFlow": "IN"}], [[{"name": "P", "type": "PATH"}]], [{"P": "x"}]),
        ([{"name": "P", "type": "PATH", "default": "job/d"}], [[{"name": "P", "type": "PATH", "default": "../env"}]], [{}, {"P": "v"}]),     # the job template's default wins
        ([{"name": "P", "type": "PATH"}], [[{"name": "P", "type": "PATH", "default": "../env"}]], [{}, {"P": "v"}]),                          # the environment's default escapes
        ([{"name": "P", "type": "PATH", "maxLength": 8}], [[{"name": "P", "type": "PATH", "default": "sub/x", "minLength": 2}]], [{}, {"P": "v"}, {"P": "/v"}]),
        ([{"name": "F", "type": "FLOAT", "allowedValues": [1, "2.0", 2.5]}], [[{"name": "F", "type": "FLOAT", "allowedValues": ["1.00", 2]}]], [{"F": "2"}, {"F": "2.5"}, {"F": "1e0"}]),
        ([{"name": "F", "type": "FLOAT", "default": "1.50"}], [], [{}]),
        ([{"name": "F", "type": "FLOAT", "default": "1E+3"}], [], [{}]),
        ([{"name": "F", "type": "FLOAT", "default": "0.0000001"}], [], [{}]),
        ([{"name": "F", "type": "FLOAT", "default": 1e-7}], [], [{}]),
        ([I(default="  12 ")], [], [{}]),
        ([I(default=True)], [], [{}]),
        # numbers beyond 64 bits travel exactly
        ([I(minValue=-BIG, maxValue=BIG, default=BIG - 1)], [[I(allowedValues=[BIG - 1, BIG, 5])]], [{}, {"I": str(BIG)}, {"I": str(BIG + 1)}, {"I": "5"}, {"I": "-" + "9" * 50}]),
        ([{"name": "F", "type": "FLOAT", "minValue": "1e40", "maxValue": str(BIG * 10)}], [[{"name": "F", "type": "FLOAT", "default": "1.5e40"}]], [{}, {"F": "1" + "0" * 40}, {"F": "9" * 40}, {"F": "1e41"}, {"F": "1.00000000000000000000000000000000000000001e41"}]),
        ([I(minValue=2 ** 61, default=2 ** 61)], [], [{}, {"I": str(2 ** 61 - 1)}, {"I": str(2 ** 64)}]),
        ([I(maxValue=-(2 ** 63) - 1)], [], [{"I": str(-(2 ** 63) - 1)}, {"I": str(-(2 ** 63))}]),
    ]:
        out.append(case(jt(deep(doc_defs)), [et(deep(e), "E%d" % i) for i, e in enumerate(env_defs)],
                        [c for v in valss for c in both(v) + [call("client", v, "/t/dir", "rel/c", True)]]))
    return out


# ---------------------------------------------------------------- generators
def rand_def_ok(rng, name):
    """C10's random definition, redrawn until the decoder accepts it on its own (a few rejected ones are kept)"""
    for _ in range(20):
        d = C10M.rand_def(rng, name)
        if d["type"] == "PATH" and "default" in d and rng.random() < 0.6:
            d["default"] = C11M.rand_path(rng, 4)
        if jc.decoded("job", [d]) is not None or rng.random() < 0.02:
            return d
    return {"name": name, "type": "STRING"}


def env_redef(rng, d):
    """an environment template's definition of the parameter the definition d defines: same type mostly"""
    for _ in range(20):
        q = env_redef1(rng, d)
        if jc.decoded("job", [q]) is not None or rng.random() < 0.02:
            return q
    return {"name": d["name"], "type": d["type"]}


def env_redef1(rng, d):
    k = rng.random()
    if k < 0.08:
        return rand_def_ok(rng, d["name"])                        # maybe another type
    ty = d["type"]
    bounds, allowed, defaults, _ = C10M.POOLS[ty]
    pick = lambda pool: rng.choice(pool) if rng.random() < 0.35 else None  # noqa: E731
    extra = {}
    if ty == "PATH":
        if rng.random() < 0.25:
            extra["objectType"] = d.get("objectType") if rng.random() < 0.7 and d.get("objectType") else rng.choice(["FILE", "DIRECTORY"])
        if rng.random() < 0.25:
            extra["dataFlow"] = d.get("dataFlow") if rng.random() < 0.7 and d.get("dataFlow") else rng.choice(["NONE", "IN", "OUT", "INOUT"])
    q = C10M.mkdef(d["name"], ty, pick(bounds), pick(bounds), pick(allowed), pick(defaults), extra)
    if ty == "PATH" and "default" in q and rng.random() < 0.5:
        q["default"] = C11M.rand_path(rng, 4)
    if rng.random() < 0.3 and "allowedValues" in d:
        q["allowedValues"] = list(d["allowedValues"])
    if rng.random() < 0.3:
        q["userInterface"] = C10M.rand_ui(rng, ty)       # fits q's own constraints or q is redrawn; another template's are none of its business
    if rng.random() < 0.15:
        q["description"] = "from the environment"
    return q


def rand_dirs(rng):
    r = rng.random()
    if r < 0.55:
        return "/t", "/c", False
    d = rng.choice(DIRS + C11M.EXTRA_DIRS) if rng.random() < 0.7 else C11M.rand_dir(rng)
    c = rng.choice(CWDS) if rng.random() < 0.7 else C11M.rand_dir(rng)
    return d, c, rng.random() < 0.4


def rand_value(rng, d):
    ty = d["type"]
    probes = C10M.POOLS[ty][3]
    r = rng.random()
    if r < 0.08:
        probes = C10M.POOLS[rng.choice(["INT", "FLOAT", "STRING"])][3]
    v = rng.choice(probes)
    if ty in ("INT", "FLOAT") and rng.random() < 0.25:
        v = jc.rand_numeral(rng)
        if not jc.small_exponent(v):
            v = "1"
    if ty == "PATH" and rng.random() < 0.6:
        v = C11M.rand_path(rng, 5) if rng.random() < 0.6 else rng.choice(PATH_POOL)
    if ty in ("STRING", "PATH") and rng.random() < 0.1 and d.get("allowedValues"):
        v = rng.choice(d["allowedValues"])
    return v


def rand_multi(rng):
    """1-4 parameters in the job template, 0-4 environment templates that re-define some of them (compatibly or
    not) and add their own, 1-3 calls in random modes / directories"""
    names = rng.sample(["A", "B", "C", "D", "P", "p", "A_1"], rng.randint(1, 4))
    defs = [rand_def_ok(rng, n) for n in names]
    envs = []
    env_only = []
    for i in range(rng.choice([0, 0, 0, 1, 1, 2, 3, 4])):
        ps = [env_redef(rng, d) for d in defs if rng.random() < 0.5]
        if rng.random() < 0.3:
            n = rng.choice(["E1", "E2", "P"])
            if n not in {p["name"] for p in ps}:
                q = rand_def_ok(rng, n)
                ps.append(q)
                env_only.append(q)
        envs.append(et(ps or None, "E%d" % i))
    doc = jt(defs if rng.random() < 0.97 else None)
    calls = []
    for _ in range(rng.choice([1, 1, 2, 3])):
        vals = {}
        for d in defs + env_only:
            if rng.random() < 0.7:
                vals[d["name"]] = rand_value(rng, d)
        if rng.random() < 0.1:
            vals[rng.choice(C10M.EXTRA_NAMES)] = rng.choice(["", "1", "x"])
        if rng.random() < 0.3:
            calls.append(call("server", vals))
        else:
            d_, c_, w_ = rand_dirs(rng)
            calls.append(call("client", vals, d_, c_, w_))
    return case(doc, envs, calls)


def c12_case(rng):
    c = C12M.rand_case(rng)
    envs = [et([deep(e)] if e else None, "E%d" % i) for i, e in enumerate(c["envs"])]
    probes = c["probes"]
    if len(probes) > 14:
        probes = rng.sample(probes, 14)
    mode_server = rng.random() < 0.3
    d_, c_, w_ = rand_dirs(rng)
    calls = []
    for v in [None] + probes:
        vals = {} if v is None else {C12M.NAME: v}
        calls.append(call("server", vals) if mode_server else call("client", vals, d_, c_, w_))
    return case(jt([deep(c["job"])] if c["job"] else None), envs, calls)


def path_placed(rng, pdefs, where):
    """the PATH parameter definitions in the job template ('job'), only in an environment template ('env'), split
    ('split'), or in BOTH (the environment's definition first, the job template's last: 'both')"""
    if where == "job":
        return jt(pdefs), []
    if where == "env":
        return jt(None), [et(pdefs)]
    if where == "split":
        return jt(pdefs[:1]), ([et(pdefs[1:])] if pdefs[1:] else [])
    e = [dict((k, v) for k, v in p.items() if k != "default" or rng.random() < 0.5) for p in pdefs]
    return jt(pdefs), [et(e)]


def malformed(rng):
    r = rng.random()
    P = {"name": "P", "type": rng.choice(["INT", "FLOAT", "STRING", "PATH"])}
    if r < 0.12:
        doc, envs = jt([]), []                                        # empty list: rejected by the decoder
    elif r < 0.24:
        doc, envs = jt([dict(P), dict(P)]), []                        # duplicate names in one template
    elif r < 0.36:
        doc, envs = jt([dict(P, default="x" * 2000)]), []
    elif r < 0.5:
        doc, envs = jt([dict(P)]), [et([dict(P, type=rng.choice(["INT", "FLOAT", "STRING", "PATH"]))], "E%d" % i) for i in range(rng.randint(1, 5))]
    elif r < 0.62:
        doc, envs = jt([{"name": "I", "type": "INT", "minValue": rng.choice([BIG, -BIG, 2 ** 63, 2 ** 64 + 1]), "default": BIG * 3}]), [et([{"name": "I", "type": "INT", "maxValue": BIG * 4}])]
        P = {"name": "I", "type": "INT"}
    elif r < 0.74:
        doc, envs = jt(None), [et(None, "E%d" % i) for i in range(rng.randint(0, 3))]
    elif r < 0.86:
        doc, envs = jt([dict(P), {"name": "Q", "type": "PATH", "default": rng.choice(["a/", "../", "./", "/"]) * rng.randint(300, 600)}]), []
    else:
        doc, envs = jt([dict(P, description="d")]), [et([dict(P)]), {"specificationVersion": "environment-2023-09"}]   # an environment template that is not one
    calls = []
    for _ in range(3):
        v = rng.choice(["", " ", "x", "1", "-1", "1e3", "NaN", "x" * 1025, "/" + "y" * 1030, str(BIG * 2), str(-BIG), "1" + "0" * 45, "٣", "1_0", "\x00", "a/../..", str(2 ** 64 + 1)])
        vals = {P["name"]: v} if rng.random() < 0.8 else {}
        if rng.random() < 0.3:
            vals[rng.choice(["", "Z", "é"])] = "1"
        d_, c_, w_ = rand_dirs(rng)
        calls.append(call("client", vals, d_, c_, w_) if rng.random() < 0.7 else call("server", vals))
    return case(doc, envs, calls)


# ---------------------------------------------------------------- implementation helpers
class _Spy:
    """records what create_job's own call of preprocess_job_parameters was given and did"""

    def __enter__(self):
        self.rec = None
        self.orig = _CJ.preprocess_job_parameters

        def wrapper(**kw):
            try:
                r = self.orig(**kw)
            except BaseException as e:  # noqa: BLE001
                self.rec = ["raise", type(e).__name__]
                raise
            self.rec = ["ok", sorted([n, pv.type.value, pv.value] for n, pv in r.items())]
            return r

        _CJ.preprocess_job_parameters = wrapper
        return self

    def __exit__(self, *a):
        _CJ.preprocess_job_parameters = self.orig
        return False


class _Missing(dict):
    def __missing__(self, key):
        return "7"


def value_map(cl):
    """the caller's value map: a dict — one call in three a dict of another kind (a defaultdict that invents values for keys it
    does not have, a subclass with __missing__, an OrderedDict).  'Supplied' means: is a key of the map."""
    import collections
    import zlib
    h = zlib.crc32(json.dumps(cl, sort_keys=True, default=str).encode()) % 12
    v = dict(cl["vals"])
    if h == 0:
        return collections.defaultdict(str, v)
    if h == 1:
        return collections.defaultdict(lambda: "1", v)
    if h == 2:
        return _Missing(v)
    if h == 3:
        return collections.OrderedDict(v)
    return v


_dec_cache: dict = {}


def decode_all(doc, envs):
    key = json.dumps([doc, envs], sort_keys=True, default=str)
    if key in _dec_cache:
        return _dec_cache[key]
    try:
        r = (decode_job_template(template=deep(doc)), [decode_environment_template(template=deep(e)) for e in envs])
    except DecodeValidationError:
        r = None
    if len(_dec_cache) > 3000:
        _dec_cache.clear()
    _dec_cache[key] = r
    return r


def _neg_zero(x):
    return isinstance(x, Decimal) and x.is_zero() and x.is_signed()


class C10Full(core.PropBase):
    id = "C10"
    component = "preprocfull"
    extract_file = "ExtractPreprocessFull.v"
    chars = _SRC_CHARS
    uses_table = True
    chunk_size = 40
    theorem_for_mismatch = ("C10_full_iff / C10_full_result / C10_full_error / C11_full_contained; preprocess_docs (decode + pdef_of_mval + merge + "
                            "preprocess with the PATH rules of the mode) = implementation correspondence")
    assumptions = [
        "the model receives ONLY the raw documents, the value map, the two directory strings, the walk-up flag and the mode",
        "values supplied for INT / FLOAT parameters stay in the numeral domain of Numerals.v (every Unicode decimal digit is read as Python reads it; exponent text <= 3 digits); calls with other values are judged by the implementation alone and counted (domain:numeral-domain)",
        "a negative-zero Decimal default is outside NumPrint.v's domain (such templates are judged by the implementation alone and counted)",
        "a template the DECODE model declares outside its domain (RuntimeError of the structural pydantic model) is judged by the implementation alone and counted; a template the decoder rejects is skipped and counted",
        "POSIX flavour only; a pathlib Path argument is one raw string (Path(s)); Path() == Path('')",
        "the server-mode observable is the inner preprocess_job_parameters call of create_job, recorded by a wrapper",
    ]

    def corpus_cases(self):
        return corpus()

    # ---------------------------------------------------------------- streams
    def cases(self, tier, seed):
        rng = random.Random(seed * 104729 + 1010)
        thorough = tier == "thorough"
        # 1. C10's single-definition sweep (every constraint subset of every type) x probes, missing, extra; both modes
        for ty in ("INT", "FLOAT", "STRING", "PATH"):
            probes = C10M.POOLS[ty][3]
            defs = list(C10M.sweep_defs(ty))
            if not thorough:
                defs = rng.sample(defs, min(len(defs), 700 if ty == "FLOAT" else 260))
            for d in defs:
                ps = probes if thorough else rng.sample(probes, min(len(probes), 9))
                calls = [call("client", {}), call("client", {"Q": "1"}), call("server", {})]
                for v in ps:
                    calls.append(call("client", {"P": v}) if rng.random() < 0.75 else call("server", {"P": v}))
                calls.append(call("client", {"P": rng.choice(probes), rng.choice(C10M.EXTRA_NAMES): "x"}))
                calls.append(call("client", {"P": rng.choice(probes)}, "t"))
                yield case(jt([d]), [], calls)
        # 2. C11's path spellings: as a default x 6 directories x both flags (+ server), as a supplied value x working
        #    directories; the parameter defined in the job template, only in an environment template, split, or in both;
        #    sometimes with a length bound or allowedValues on the STORED value
        sp = C11M.spellings(4 if thorough else 3)
        for i, p in enumerate(sp if thorough else rng.sample(sp, 2500)):
            pd = {"name": "P0", "type": "PATH", "default": p}
            k = rng.random()
            if k < 0.1:
                pd["maxLength"] = rng.choice([3, 8, 12])
            elif k < 0.15:
                pd["minLength"] = rng.choice([2, 7])
            where = rng.choice(["job", "job", "env", "split", "both"])
            pdefs = [pd] if where != "split" else [{"name": "P1", "type": "PATH"}, pd]
            vals = {"P1": "x"} if where == "split" else {}
            doc, envs = path_placed(rng, pdefs, where)
            extra = [rng.choice(C11M.EXTRA_DIRS)] if i % 3 == 0 else []
            yield case(doc, envs, [call("client", vals, d, CWDS[i % len(CWDS)], w) for d in DIRS + extra for w in (False, True)] + [call("server", vals)])
        sup = sp if thorough else rng.sample(sp, 4000)
        for chunk in core.chunks(sup, 25):
            where = rng.choice(["job", "job", "env"])
            pd = {"name": "P0", "type": "PATH"}
            if rng.random() < 0.15:
                pd["maxLength"] = rng.choice([5, 9])
            doc, envs = path_placed(rng, [pd], where)
            calls = []
            for j, p in enumerate(chunk):
                calls.append(call("client", {"P0": p}, "/t/dir" if j % 7 else "rel/dir", CWDS[j % len(CWDS)], j % 3 == 0))
                if j % 4 == 0:
                    calls.append(call("server", {"P0": p}))
            yield case(doc, envs, calls)
        # 3. random multi-parameter templates with 0-4 environment templates
        for _ in range(60000 if thorough else 5000):
            yield rand_multi(rng)
        # 4. C12's lists: 0-4 environment templates + job template all defining P, probes around every bound
        for _ in range(40000 if thorough else 2500):
            yield c12_case(rng)
        # 5. malformed stream
        for _ in range(6000 if thorough else 600):
            yield malformed(rng)
        # 6. many parameters in total: every template within its own limit of 50 definitions, the templates together far
        #    beyond it (the parameters of the Job are the union; nothing bounds that)
        for nj, nes in [(50, [1]), (30, [30]), (0, [30, 30]), (50, [50, 50]), (25, [25]), (49, [1, 1]), (10, [50]), (50, [])] + ([(rng.randint(0, 50), [rng.randint(1, 50) for _ in range(rng.randint(1, 3))]) for _ in range(20)] if thorough else []):
            def mk(prefix, n):
                out = []
                for k in range(n):
                    ty = rng.choice(["STRING", "INT", "FLOAT", "PATH"])
                    d = {"name": f"{prefix}{k}", "type": ty}
                    if rng.random() < 0.8:
                        d["default"] = {"STRING": "v", "INT": 1, "FLOAT": 1.5, "PATH": "/abs/p"}[ty]
                    out.append(d)
                return out
            defs = mk("J", nj)
            envs_ = [et(mk(f"E{i}x", n), name=f"Env{i}") for i, n in enumerate(nes)]
            allp = defs + [d for e in envs_ for d in e["parameterDefinitions"]]
            need = {d["name"]: {"STRING": "w", "INT": "2", "FLOAT": "2.5", "PATH": "/q"}[d["type"]] for d in allp if "default" not in d}
            some = dict(need)
            for d in rng.sample(allp, min(len(allp), 5)):
                some[d["name"]] = {"STRING": "z", "INT": "3", "FLOAT": "0.5", "PATH": "/r"}[d["type"]]
            yield case(jt(defs or None), envs_, [call("client", need), call("server", some), call("client", dict(list(need.items())[1:])), call("server", dict(some, Zq="1"))])

    def rule(self, tier):
        return ("RAW job template documents x 0-5 RAW environment template documents x calls (mode client|server, job_template_dir, current_working_dir, walk-up flag, value map): "
                "corpus (C10's, C12's and C11's corpora composed, constraints on stored PATH values, the relative-directory rule on merged definitions, numbers beyond 64 bits); "
                "C10's single-definition sweep (type x min x max x allowedValues x default" + ("" if tier == "thorough" else ", sampled") + ") x probes / missing / extra in both modes; "
                "C11's path spellings as defaults x 6+ directories x both flags and as supplied values x working directories, the parameter placed in the job template, in an environment template, split or in both; "
                "random 1-4 parameter templates with 0-4 environment templates re-defining (compatibly or not) and adding parameters; C12's 0-4 environment templates + job template on one parameter with probes around every bound; "
                "malformed stream (rejected templates, type clashes over 1-5 environment templates, 10^40-sized numbers, over-long values). The model side receives ONLY the documents, the values, the directories, the flag and the mode. "
                "Observable per call: exception family, or the sorted (name, type, value) list. distinct = by (documents, calls)")

    def samples(self, tier, seed):
        rng = random.Random(seed)
        out = []
        for _ in range(3):
            c = rand_multi(rng)
            out.append({"parameters": [p["name"] + ":" + p["type"] for p in c["doc"].get("parameterDefinitions") or []], "envs": len(c["envs"]),
                        "calls": [{k: (v if k != "vals" else {a: b[:30] for a, b in v.items()}) for k, v in cl.items()} for cl in c["calls"]]})
        return out

    def nontrivial(self, case):
        return decode_all(case["doc"], case["envs"]) is not None

    # ---------------------------------------------------------------- implementation
    def _domain(self, case, dec):
        """(case-level reason or None, [per-call reason or None])"""
        jt_, ets = dec
        all_defs = [p for t in ets + [jt_] for p in (t.parameterDefinitions or [])]
        whole = None
        if any(_neg_zero(p.default) for p in all_defs):
            whole = "negative-zero-default"
        missing = core.doc_chars(case["doc"])
        for e in case["envs"]:
            missing |= core.doc_chars(e)
        for cl in case["calls"]:
            missing |= core.doc_chars([cl["vals"], cl["dir"], cl["cwd"]])
        if missing - set(self.chars):
            whole = "chars-outside-table"
        numeric = {p.name for p in all_defs if p.type.value in ("INT", "FLOAT")}
        per = []
        for cl in case["calls"]:
            bad = any(k in numeric and not jc.small_exponent(v) for k, v in cl["vals"].items())
            per.append("numeral-domain" if bad else None)
        return whole, per

    def impl(self, case):
        if "_io" in case:
            return case["_io"]
        dec = decode_all(case["doc"], case["envs"])
        if dec is None:
            case["_io"] = ["skip", "template-rejected"]
            return case["_io"]
        jt_, ets = dec
        types = {}
        for t in ets + [jt_]:
            for p in t.parameterDefinitions or []:
                types.setdefault(p.name, p.type.value)
        outs = []
        for cl in case["calls"]:
            if cl["mode"] == "client":
                given = value_map(cl)
                try:
                    r = preprocess_job_parameters(job_template=jt_, job_parameter_values=given, job_template_dir=Path(cl["dir"]),
                                                  current_working_dir=Path(cl["cwd"]), allow_job_template_dir_walk_up=cl["walk"], environment_templates=list(ets))
                    outs.append(["ok", sorted([n, pv.type.value, pv.value] for n, pv in r.items())])
                except BaseException as e:  # noqa: BLE001
                    outs.append(["raise", type(e).__name__])
                if dict.items(given) != dict(cl["vals"]).items() or list(dict.keys(given)) != list(cl["vals"]):
                    outs[-1] = ["raise", "VALUE-MAP-MODIFIED"]
            else:
                pv = {k: ParameterValue(type=ParameterValueType(types.get(k, "STRING")), value=v) for k, v in cl["vals"].items()}
                with _Spy() as spy:
                    try:
                        create_job(job_template=jt_, job_parameter_values=pv, environment_templates=list(ets) or None)
                    except BaseException:  # noqa: BLE001
                        pass
                outs.append(spy.rec if spy.rec is not None else ["not-called"])
        case["_dom"] = self._domain(case, dec)
        case["_io"] = ["ok", outs]
        return case["_io"]

    # ---------------------------------------------------------------- model
    def requests(self, case):
        io = self.impl(case)
        if io[0] != "ok" or case["_dom"][0]:
            return []
        try:
            doc = core.json_sx(case["doc"])
            envs = [core.json_sx(e) for e in case["envs"]]
        except ValueError:
            case["_dom"] = ("document-outside-json-type", case["_dom"][1])
            return []
        calls = [[cl["mode"], core.cps(cl["dir"]), core.cps(cl["cwd"]), cl["walk"], [[core.cps(k), core.cps(v)] for k, v in cl["vals"].items()]]
                 for cl, dom in zip(case["calls"], case["_dom"][1]) if dom is None]
        return [["prefull_many", envs, doc, calls]] if calls else []

    def model_obs(self, case, replies):
        io = self.impl(case)
        if io[0] != "ok" or not replies:
            return io                                              # skipped / outside the wire or table domain: implementation alone
        rs = iter(replies[0])
        outs = []
        for o, dom in zip(io[1], case["_dom"][1]):
            if dom is not None:
                outs.append(o)
                continue
            r = next(rs)
            if not isinstance(r, list):
                outs.append(["driver", r])
            elif r[0] == "rejected":
                if r[1] == "RuntimeError":
                    case["_dom"] = ("decode-model-outside-domain", case["_dom"][1])
                    outs.append(o)
                else:
                    outs.append(["model-rejects-an-accepted-template", r[1]])
            elif r[0] == "ok":
                outs.append(["ok", sorted([core.uncps(n), t, core.uncps(v)] for n, t, v in r[1])])
            elif r[0] == "raise":
                outs.append(["raise", r[1]])
            else:
                outs.append(["driver", r])
        return ["ok", outs]

    def run_chunk(self, chunk):
        res = super().run_chunk(chunk)
        for c in chunk:
            c.pop("_io", None)
            c.pop("_dom", None)
        for m in res.get("mismatches", []):
            m["case"].pop("_io", None)
            m["case"].pop("_dom", None)
        return res

    def classify_case(self, case, obs):
        if obs[0] != "ok":
            return ["skip:" + obs[1]]
        ks = ["envs=%d" % len(case["envs"])]
        whole, per = case.get("_dom", (None, []))
        if whole:
            ks.append("domain:" + whole)
        for cl, o, dom in zip(case["calls"], obs[1], per):
            ks.append("call:" + cl["mode"] + ":" + (o[0] if o[0] != "raise" else "raise:" + o[1]))
            if dom:
                ks.append("domain:" + dom)
            if cl["mode"] == "client":
                ks.append("client:" + ("walkup" if cl["walk"] else "nowalk") + (":absdir" if cl["dir"].startswith("/") else ":reldir"))
        return ks

    def still_fails(self, case):
        case = {k: v for k, v in case.items() if not k.startswith("_")}
        drv = core.Driver(self.component)
        replies, _ = drv.ask(self.requests(case), self.prelude())
        return self.impl(case) != self.model_obs(case, replies)

    def spec_obs(self, case):
        """what the model reads out of the documents (source and merged definitions), for the replay file"""
        case = {k: v for k, v in case.items() if not k.startswith("_")}
        try:
            doc = core.json_sx(case["doc"])
            envs = [core.json_sx(e) for e in case["envs"]]
        except ValueError:
            return None
        drv = core.Driver(self.component)
        replies, _ = drv.ask([["defs", "sources", envs, doc], ["defs", "merged", envs, doc]], self.prelude())
        return {"source definitions (docs_sources)": repr(replies[0])[:3000], "merged definitions (docs_merged)": repr(replies[1])[:3000]}

    def shrink_candidates(self, case):
        case = {k: v for k, v in case.items() if not k.startswith("_")}
        calls = case["calls"]
        if len(calls) > 1:
            for i in range(len(calls)):
                yield dict(case, calls=[calls[i]])
        for i, cl in enumerate(calls):
            for k in list(cl["vals"]):
                v = dict(cl["vals"])
                del v[k]
                yield dict(case, calls=calls[:i] + [dict(cl, vals=v)] + calls[i + 1:])
        for i in range(len(case["envs"])):
            yield dict(case, envs=case["envs"][:i] + case["envs"][i + 1:])
        for i, e in enumerate(case["envs"]):
            ps = e.get("parameterDefinitions") or []
            for j, p in enumerate(ps):
                if len(ps) > 1:
                    e2 = deep(e)
                    del e2["parameterDefinitions"][j]
                    yield dict(case, envs=case["envs"][:i] + [e2] + case["envs"][i + 1:])
                for key in list(p):
                    if key not in ("name", "type"):
                        e2 = deep(e)
                        del e2["parameterDefinitions"][j][key]
                        yield dict(case, envs=case["envs"][:i] + [e2] + case["envs"][i + 1:])
        ps = case["doc"].get("parameterDefinitions") or []
        for j, p in enumerate(ps):
            if len(ps) > 1:
                d = deep(case["doc"])
                del d["parameterDefinitions"][j]
                yield dict(case, doc=d)
            for key in list(p):
                if key not in ("name", "type"):
                    d = deep(case["doc"])
                    del d["parameterDefinitions"][j][key]
                    yield dict(case, doc=d)


PROP = C10Full()

if __name__ == "__main__":
    sys.exit(core.main(PROP, sys.argv[1:]))
