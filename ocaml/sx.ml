(* sx.ml — minimal s-expression wire format shared by every component driver.
   One request per line, one reply per line.  Atoms are integers or bare symbols. *)
type t = A of string | L of t list

exception Parse_error of string

let parse (s : string) : t =
  let n = String.length s in
  let pos = ref 0 in
  let rec skip () = if !pos < n && (s.[!pos] = ' ' || s.[!pos] = '\t' || s.[!pos] = '\r' || s.[!pos] = '\n') then (incr pos; skip ()) in
  let rec item () =
    skip ();
    if !pos >= n then raise (Parse_error "eof")
    else if s.[!pos] = '(' then begin
      incr pos;
      let acc = ref [] in
      let rec loop () =
        skip ();
        if !pos >= n then raise (Parse_error "unclosed")
        else if s.[!pos] = ')' then incr pos
        else (acc := item () :: !acc; loop ()) in
      loop ();
      L (List.rev !acc)
    end else begin
      let st = !pos in
      while !pos < n && not (s.[!pos] = ' ' || s.[!pos] = '(' || s.[!pos] = ')' || s.[!pos] = '\t' || s.[!pos] = '\n' || s.[!pos] = '\r') do incr pos done;
      if !pos = st then raise (Parse_error "unexpected )");
      A (String.sub s st (!pos - st))
    end in
  let r = item () in
  skip ();
  if !pos < n then raise (Parse_error "trailing") else r

let rec print (b : Buffer.t) (x : t) : unit =
  match x with
  | A s -> Buffer.add_string b s
  | L l ->
    Buffer.add_char b '(';
    List.iteri (fun i y -> if i > 0 then Buffer.add_char b ' '; print b y) l;
    Buffer.add_char b ')'

let to_string x = let b = Buffer.create 256 in print b x; Buffer.contents b

(* read requests from stdin until EOF; [handle] maps a request to a reply *)
let serve (handle : t -> t) : unit =
  let out = Buffer.create 65536 in
  (try
    while true do
      let line = input_line stdin in
      if String.length line > 0 then begin
        let reply =
          try handle (parse line)
          with
          | Parse_error m -> L [A "driver-error"; A "parse"; A m]
          | Stack_overflow -> L [A "driver-error"; A "stack-overflow"]
          | Not_found -> L [A "driver-error"; A "not-found"]
          | Failure m -> L [A "driver-error"; A (String.map (fun c -> if c = ' ' || c = '(' || c = ')' then '_' else c) m)]
          | Match_failure _ -> L [A "driver-error"; A "bad-request"]
        in
        print out reply;
        Buffer.add_char out '\n';
        if Buffer.length out > 60000 then (print_string (Buffer.contents out); Buffer.clear out)
      end
    done
  with End_of_file -> ());
  print_string (Buffer.contents out);
  flush stdout
