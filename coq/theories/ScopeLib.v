(* ScopeLib.v — schema-independent lemmas about the walker model ScopeWalk.v:
   one-step unfolding equations, fuel sufficiency of [collect], lookup of collected symbols,
   field-level characterisations of [walk].  Used by ScopeProofs.v. *)
From Coq Require Import List NArith ZArith Bool String Lia.
Import ListNotations.
Require Import OJD.Base OJD.Json OJD.Schema OJD.ScopeWalk OJD.ScopeSpec.
Local Open Scope string_scope.
Local Open Scope list_scope.

(* ------------------------------------------------------------------ strings *)
Lemma str_eqb_refl : forall a, str_eqb a a = true.
Proof. induction a as [|x a IH]; cbn; [reflexivity|]. rewrite N.eqb_refl, IH. reflexivity. Qed.

Lemma str_eqb_eq : forall a b, str_eqb a b = true -> a = b.
Proof.
  induction a as [|x a IH]; intros [|y b] H; cbn in H; try discriminate; [reflexivity|].
  apply andb_true_iff in H. destruct H as [H1 H2]. apply N.eqb_eq in H1. apply IH in H2. congruence.
Qed.

Lemma str_eqb_sym : forall a b, str_eqb a b = str_eqb b a.
Proof.
  induction a as [|x a IH]; intros [|y b]; cbn; try reflexivity.
  rewrite N.eqb_sym, IH. reflexivity.
Qed.

Lemma str_eqb_neq : forall a b, a <> b -> str_eqb a b = false.
Proof. intros a b H. destruct (str_eqb a b) eqn:E; [|reflexivity]. apply str_eqb_eq in E. contradiction. Qed.

Lemma str_of_string_app : forall a b : string,
  str_of_string (a ++ b)%string = str_of_string a ++ str_of_string b.
Proof. induction a as [|c a IH]; intros b; cbn; [reflexivity|]. rewrite IH. reflexivity. Qed.

Lemma mem_str_app : forall n a b, mem_str n (a ++ b) = mem_str n a || mem_str n b.
Proof. induction a as [|x a IH]; intros b; cbn; [reflexivity|]. rewrite IH, orb_assoc. reflexivity. Qed.

(* ------------------------------------------------------------------ lists *)
Lemma existsb_flat_map : forall {A B} (f : B -> bool) (g : A -> list B) l,
  existsb f (flat_map g l) = existsb (fun x => existsb f (g x)) l.
Proof. induction l as [|x l IH]; cbn; [reflexivity|]. rewrite existsb_app, IH. reflexivity. Qed.

Lemma existsb_orb : forall {A} (f g : A -> bool) l,
  existsb f l || existsb g l = existsb (fun x => f x || g x) l.
Proof.
  induction l as [|x l IH]; cbn; [reflexivity|]. rewrite <- IH.
  destruct (f x), (g x), (existsb f l), (existsb g l); reflexivity.
Qed.

Lemma existsb_ext_in : forall {A} (f g : A -> bool) l,
  (forall x, In x l -> f x = g x) -> existsb f l = existsb g l.
Proof.
  induction l as [|x l IH]; intros H; cbn; [reflexivity|].
  rewrite (H x (or_introl eq_refl)), IH; [reflexivity|]. intros y Hy. apply H. right. exact Hy.
Qed.

Lemma existsb_false : forall {A} (l : list A), existsb (fun _ => false) l = false.
Proof. induction l as [|x l IH]; cbn; auto. Qed.

Lemma concat_map_nil : forall {A B} (l : list A), List.concat (map (fun _ => @nil B) l) = [].
Proof. induction l as [|x l IH]; cbn; auto. Qed.

Lemma flat_map_nil : forall {A B} (l : list A), flat_map (fun _ => @nil B) l = [].
Proof. induction l as [|x l IH]; cbn; auto. Qed.

Lemma combine_seq_in : forall {A} (l : list A) s i x, In (i, x) (combine (seq s (List.length l)) l) -> In x l.
Proof.
  induction l as [|y l IH]; intros s i x H; cbn in H; [contradiction|].
  destruct H as [H|H]; [inversion H; left; reflexivity | right; eapply IH; exact H].
Qed.

Lemma concat_map_indexed_ext : forall {A B} (F G : nat * A -> list B) (l : list A),
  (forall i x, In x l -> F (i, x) = G (i, x)) ->
  List.concat (map F (indexed l)) = List.concat (map G (indexed l)).
Proof.
  intros A B F G l H. f_equal. apply map_ext_in. intros [i x] Hin.
  apply H. unfold indexed in Hin. eapply combine_seq_in. exact Hin.
Qed.

Lemma flat_map_ext_in : forall {A B} (F G : A -> list B) (l : list A),
  (forall x, In x l -> F x = G x) -> flat_map F l = flat_map G l.
Proof.
  induction l as [|x l IH]; intros H; cbn; [reflexivity|].
  rewrite (H x (or_introl eq_refl)), IH; [reflexivity|]. intros y Hy. apply H. right. exact Hy.
Qed.

Lemma concat_map_ext_in : forall {A B} (F G : A -> list B) (l : list A),
  (forall x, In x l -> F x = G x) -> List.concat (map F l) = List.concat (map G l).
Proof. intros. f_equal. apply map_ext_in. assumption. Qed.

(* ------------------------------------------------------------------ json depth *)
Lemma json_depth_pos : forall v, 1 <= json_depth v.
Proof. destruct v; cbn; lia. Qed.

Lemma assoc_depth : forall k (ms : list (str * json)) v,
  assoc k ms = Some v ->
  json_depth v <= fold_right (fun kv acc => Nat.max (json_depth (snd kv)) acc) O ms.
Proof.
  induction ms as [|[k' v'] ms IH]; intros v H; cbn in H; [discriminate|].
  cbn [fold_right snd]. destruct (str_eqb k k').
  - inversion H; subst. lia.
  - apply IH in H. lia.
Qed.

Lemma jget_depth : forall n v, is_null (jget n v) = false -> S (json_depth (jget n v)) <= json_depth v.
Proof.
  intros n v H. destruct v; cbn in H; try discriminate.
  unfold jget in *. destruct (assoc (str_of_string n) members) as [w|] eqn:E; [|discriminate].
  apply assoc_depth in E. cbn [json_depth]. lia.
Qed.

Lemma arr_depth : forall items x, In x items -> S (json_depth x) <= json_depth (JArr items).
Proof.
  intros items x H. cbn [json_depth]. apply le_n_S.
  induction items as [|y items IH]; [contradiction|]. cbn [fold_right].
  destruct H as [H|H]; [subst; lia | apply IH in H; lia].
Qed.

Lemma obj_not_null : forall v, is_obj v = true -> is_null v = false.
Proof. destruct v; cbn; congruence. Qed.

(* ------------------------------------------------------------------ symbol tables, by membership *)
Definition mem_of (t : symtabs) (sc : scope) (n : str) : bool := mem_str n (st_get sc t).

Definition scope_le (a b : scope) : bool :=   (* a symbol resolving at [a] is visible at [b] *)
  match a, b with
  | TEMPLATE, _ => true
  | SESSION, TEMPLATE => false
  | SESSION, _ => true
  | TASK, TASK => true
  | TASK, _ => false
  end.

Lemma mem_of_empty : forall sc n, mem_of st_empty sc n = false.
Proof. destruct sc; reflexivity. Qed.

Lemma mem_of_union : forall a b sc n, mem_of (st_union a b) sc n = mem_of a sc n || mem_of b sc n.
Proof. intros a b sc n. unfold mem_of. destruct sc; cbn; apply mem_str_app. Qed.

Lemma mem_of_add : forall t s nm sc n,
  mem_of (add_symbol t s nm) sc n = (scope_le s sc && str_eqb n nm) || mem_of t sc n.
Proof. intros t s nm sc n. unfold mem_of. destruct s, sc; cbn; reflexivity. Qed.

Lemma gather_fold_mem : forall m srcs acc sc n,
  mem_of (fold_left (fun acc s => match lookup_s s m with Some t => st_union acc t | None => acc end) srcs acc) sc n
  = mem_of acc sc n || existsb (fun s => match lookup_s s m with Some t => mem_of t sc n | None => false end) srcs.
Proof.
  induction srcs as [|s srcs IH]; intros acc sc n; cbn [fold_left existsb].
  - rewrite orb_false_r. reflexivity.
  - rewrite IH. destruct (lookup_s s m) as [t|].
    + rewrite mem_of_union, orb_assoc. reflexivity.
    + reflexivity.
Qed.

Lemma gather_mem : forall m srcs sc n,
  mem_of (gather m srcs) sc n
  = existsb (fun s => match lookup_s s m with Some t => mem_of t sc n | None => false end) srcs.
Proof. intros. unfold gather. rewrite gather_fold_mem, mem_of_empty. reflexivity. Qed.

Lemma gather_nil : forall m, gather m [] = st_empty.
Proof. reflexivity. Qed.

(* ------------------------------------------------------------------ spec-side helpers *)
Lemma named_declared : forall pre ok v n,
  named pre (declared ok v) n
  = existsb (fun o => ok o && match decl_name o with Some nm => str_eqb n (str_of_string pre ++ nm) | None => false end)
            (obj_list v).
Proof.
  intros pre ok v n. unfold named, declared. rewrite existsb_flat_map.
  apply existsb_ext_in. intros o _. destruct (ok o); [|reflexivity].
  destruct (decl_name o); cbn; [rewrite orb_false_r|]; reflexivity.
Qed.

Lemma lookup_s_app : forall {A} k (a b : list (string * A)),
  lookup_s k (a ++ b) = match lookup_s k a with Some t => Some t | None => lookup_s k b end.
Proof.
  induction a as [|[n v] a IH]; intros b; cbn; [reflexivity|].
  destruct (String.eqb n k); [reflexivity | apply IH].
Qed.

(* ------------------------------------------------------------------ discriminated unions *)
Fixpoint dfind (m : list (string * string)) (s : str) : option string :=
  match m with
  | [] => None
  | (kv, c) :: r => if str_eqb (str_of_string kv) s then Some c else dfind r s
  end.

Lemma resolve_disc_eq : forall key mapping v,
  resolve_disc key mapping v =
  match jget key v with
  | JStr s => match s with [] => None | _ => dfind mapping s end
  | _ => None
  end.
Proof.
  intros key mapping v. unfold resolve_disc. destruct (jget key v); try reflexivity.
  destruct s as [|ch s]; [reflexivity|].
  induction mapping as [|[kv c] mapping IH]; [reflexivity|].
  cbn [dfind]. destruct (str_eqb (str_of_string kv) (ch :: s)); [reflexivity | exact IH].
Qed.

(* the four-way "type" dispatch used by job parameters and task parameters *)
Lemma disc4_cases : forall cI cF cS cP x,
  let r := resolve_disc "type" [("INT", cI); ("FLOAT", cF); ("STRING", cS); ("PATH", cP)] x in
  (type_is x "INT" = true /\ type_is x "FLOAT" = false /\ type_is x "STRING" = false /\ type_is x "PATH" = false /\ r = Some cI) \/
  (type_is x "INT" = false /\ type_is x "FLOAT" = true /\ type_is x "STRING" = false /\ type_is x "PATH" = false /\ r = Some cF) \/
  (type_is x "INT" = false /\ type_is x "FLOAT" = false /\ type_is x "STRING" = true /\ type_is x "PATH" = false /\ r = Some cS) \/
  (type_is x "INT" = false /\ type_is x "FLOAT" = false /\ type_is x "STRING" = false /\ type_is x "PATH" = true /\ r = Some cP) \/
  (type_is x "INT" = false /\ type_is x "FLOAT" = false /\ type_is x "STRING" = false /\ type_is x "PATH" = false /\ r = None).
Proof.
  intros cI cF cS cP x r. subst r. rewrite resolve_disc_eq. unfold type_is.
  destruct (jget "type" x) as [| | | |s| |]; try (do 4 right; repeat split; reflexivity).
  destruct (str_eqb s (str_of_string "INT")) eqn:EI.
  { apply str_eqb_eq in EI. subst s. left. repeat split; reflexivity. }
  destruct (str_eqb s (str_of_string "FLOAT")) eqn:EF.
  { apply str_eqb_eq in EF. subst s. right; left. repeat split; reflexivity. }
  destruct (str_eqb s (str_of_string "STRING")) eqn:ES.
  { apply str_eqb_eq in ES. subst s. do 2 right; left. repeat split; reflexivity. }
  destruct (str_eqb s (str_of_string "PATH")) eqn:EP.
  { apply str_eqb_eq in EP. subst s. do 3 right; left. repeat split; reflexivity. }
  do 4 right. repeat split; try reflexivity.
  destruct s as [|ch s]; [reflexivity|]. cbn [dfind].
  rewrite (str_eqb_sym (str_of_string "INT")), EI, (str_eqb_sym (str_of_string "FLOAT")), EF,
          (str_eqb_sym (str_of_string "STRING")), ES, (str_eqb_sym (str_of_string "PATH")), EP.
  reflexivity.
Qed.

Section Lib.
  Variable SC : schema_t.
  Variable refs : str -> option (list str).

  (* ================================================================ collect *)
  Definition cself (c : cls) (values : json) (sc : scope) (prefix : str) : symtabs :=
    let d := c_defs c in
    let self0 :=
      if String.eqb (d_field d) "" then st_empty
      else match jget (d_field d) values with
           | JStr ((_ :: _) as name) =>
             fold_left (fun acc pr => add_symbol acc (snd pr) (sym_name prefix (fst pr) name))
                       (d_defines d) st_empty
           | _ => st_empty
           end in
    fold_left (fun acc inj => add_symbol acc sc (sym_name prefix inj [])) (d_inject d) self0.

  Definition ctarget (k : kind) (v : json) : option string :=
    match k with
    | KModel cn => Some cn
    | KDisc key mapping => resolve_disc key mapping v
    | _ => None
    end.

  Definition csingle (f : nat) (sc : scope) (prefix : str) (k : kind) (v : json) : option symtabs :=
    match v with
    | JObj _ =>
      match ctarget k v with
      | None => Some st_empty
      | Some cn =>
        match lookup_cls SC cn with
        | None => Some st_empty
        | Some c' =>
          match lookup_s "__export__" (c_sources c') with
          | None => Some st_empty
          | Some _ =>
            match collect SC f cn v sc prefix with
            | None => None
            | Some m => Some (match lookup_s "__export__" m with Some t => t | None => st_empty end)
            end
          end
        end
      end
    | _ => Some st_empty
    end.

  Definition clist (f : nat) (sc : scope) (prefix : str) (k : kind) (items : list json) : option symtabs :=
    fold_left (fun (a : option symtabs) item =>
                 match a with
                 | None => None
                 | Some t => match csingle f sc prefix k item with
                             | None => None
                             | Some t' => Some (st_union t t')
                             end
                 end) items (Some st_empty).

  Definition cfield (f : nat) (values : json) (sc : scope) (prefix : str)
             (acc : option (list (string * symtabs))) (fl : field) : option (list (string * symtabs)) :=
    match acc with
    | None => None
    | Some m =>
      let v := jget (f_name fl) values in
      if is_null v then Some m
      else if kind_is_literal (f_kind fl) then Some m
      else match f_shape fl with
           | Single =>
             match csingle f sc prefix (f_kind fl) v with
             | None => None
             | Some t => Some (m ++ [(f_name fl, t)])
             end
           | ListOf _ _ =>
             match v with
             | JArr items =>
               match clist f sc prefix (f_kind fl) items with
               | None => None
               | Some t => Some (m ++ [(f_name fl, t)])
               end
             | _ => Some m
             end
           | DictOf _ => Some m
           end
    end.

  Lemma collect_S : forall f cname values sc prefix,
    collect SC (S f) cname values sc prefix =
    match lookup_cls SC cname with
    | None => Some []
    | Some c =>
      match fold_left (cfield f values sc prefix) (c_fields c) (Some [("__self__", cself c values sc prefix)]) with
      | None => None
      | Some m => Some (m ++ [("__export__", gather m (srcs_of c "__export__"))])
      end
    end.
  Proof. reflexivity. Qed.

  (* entries one field appends *)
  Definition centry (f : nat) (values : json) (sc : scope) (prefix : str) (fl : field)
    : option (list (string * symtabs)) :=
    let v := jget (f_name fl) values in
    if is_null v then Some []
    else if kind_is_literal (f_kind fl) then Some []
    else match f_shape fl with
         | Single => match csingle f sc prefix (f_kind fl) v with
                     | None => None
                     | Some t => Some [(f_name fl, t)]
                     end
         | ListOf _ _ =>
           match v with
           | JArr items => match clist f sc prefix (f_kind fl) items with
                           | None => None
                           | Some t => Some [(f_name fl, t)]
                           end
           | _ => Some []
           end
         | DictOf _ => Some []
         end.

  Lemma cfield_centry : forall f values sc prefix m fl,
    cfield f values sc prefix (Some m) fl =
    match centry f values sc prefix fl with None => None | Some e => Some (m ++ e) end.
  Proof.
    intros. unfold cfield, centry. cbv zeta.
    destruct (is_null (jget (f_name fl) values)); [rewrite app_nil_r; reflexivity|].
    destruct (kind_is_literal (f_kind fl)); [rewrite app_nil_r; reflexivity|].
    destruct (f_shape fl).
    - destruct (csingle f sc prefix (f_kind fl) (jget (f_name fl) values)); reflexivity.
    - destruct (jget (f_name fl) values); try (rewrite app_nil_r; reflexivity).
      destruct (clist f sc prefix (f_kind fl) l); reflexivity.
    - rewrite app_nil_r; reflexivity.
  Qed.

  Fixpoint centries (f : nat) (values : json) (sc : scope) (prefix : str) (flds : list field)
    : option (list (string * symtabs)) :=
    match flds with
    | [] => Some []
    | fl :: r => match centry f values sc prefix fl with
                 | None => None
                 | Some e => match centries f values sc prefix r with
                             | None => None
                             | Some es => Some (e ++ es)
                             end
                 end
    end.

  Lemma cfield_none : forall f values sc prefix flds,
    fold_left (cfield f values sc prefix) flds None = None.
  Proof. induction flds as [|fl flds IH]; cbn; auto. Qed.

  Lemma fold_cfield : forall f values sc prefix flds m,
    fold_left (cfield f values sc prefix) flds (Some m) =
    match centries f values sc prefix flds with None => None | Some es => Some (m ++ es) end.
  Proof.
    induction flds as [|fl flds IH]; intros m; cbn [fold_left centries].
    - rewrite app_nil_r. reflexivity.
    - rewrite cfield_centry. destruct (centry f values sc prefix fl) as [e|].
      + rewrite IH. destruct (centries f values sc prefix flds) as [es|]; [|reflexivity].
        rewrite app_assoc. reflexivity.
      + apply cfield_none.
  Qed.

  (* the whole result of collect, explicitly *)
  Definition cresult (c : cls) (values : json) (sc : scope) (prefix : str) (es : list (string * symtabs))
    : list (string * symtabs) :=
    let m := ("__self__", cself c values sc prefix) :: es in
    m ++ [("__export__", gather m (srcs_of c "__export__"))].

  Lemma collect_inv : forall f cname c values sc prefix m,
    lookup_cls SC cname = Some c ->
    collect SC (S f) cname values sc prefix = Some m ->
    exists es, centries f values sc prefix (c_fields c) = Some es /\ m = cresult c values sc prefix es.
  Proof.
    intros f cname c values sc prefix m Hc H. rewrite collect_S, Hc, fold_cfield in H.
    destruct (centries f values sc prefix (c_fields c)) as [es|]; [|discriminate].
    exists es. split; [reflexivity|]. inversion H. reflexivity.
  Qed.

  (* lookup of a field's entry, computed from the field list *)
  Fixpoint lk_entries (f : nat) (values : json) (sc : scope) (prefix : str) (k : string) (flds : list field)
    : option symtabs :=
    match flds with
    | [] => None
    | fl :: r =>
      if String.eqb (f_name fl) k
      then match centry f values sc prefix fl with
           | Some ((_, t) :: _) => Some t
           | _ => lk_entries f values sc prefix k r
           end
      else lk_entries f values sc prefix k r
    end.

  Lemma centry_keys : forall f values sc prefix fl e,
    centry f values sc prefix fl = Some e -> e = [] \/ exists t, e = [(f_name fl, t)].
  Proof.
    intros f values sc prefix fl e H. unfold centry in H. cbv zeta in H.
    destruct (is_null (jget (f_name fl) values)); [inversion H; auto|].
    destruct (kind_is_literal (f_kind fl)); [inversion H; auto|].
    destruct (f_shape fl).
    - destruct (csingle f sc prefix (f_kind fl) (jget (f_name fl) values)); inversion H; eauto.
    - destruct (jget (f_name fl) values); try (inversion H; auto; fail).
      destruct (clist f sc prefix (f_kind fl) l); inversion H; eauto.
    - inversion H; auto.
  Qed.

  Lemma lookup_centries : forall f values sc prefix k flds es,
    centries f values sc prefix flds = Some es ->
    lookup_s k es = lk_entries f values sc prefix k flds.
  Proof.
    induction flds as [|fl flds IH]; intros es H; cbn [centries lk_entries] in *.
    - inversion H. reflexivity.
    - destruct (centry f values sc prefix fl) as [e|] eqn:E; [|discriminate].
      destruct (centries f values sc prefix flds) as [es'|]; [|discriminate].
      inversion H; subst es. specialize (IH es' eq_refl).
      destruct (centry_keys _ _ _ _ _ _ E) as [He|[t He]]; subst e.
      + cbn [app]. rewrite IH. destruct (String.eqb (f_name fl) k); reflexivity.
      + cbn [app lookup_s]. destruct (String.eqb (f_name fl) k); [reflexivity | exact IH].
  Qed.

  Lemma lookup_cresult_self : forall c values sc prefix es,
    lookup_s "__self__" (cresult c values sc prefix es) = Some (cself c values sc prefix).
  Proof. reflexivity. Qed.

  Lemma lookup_cresult_field : forall f c values sc prefix es k,
    centries f values sc prefix (c_fields c) = Some es ->
    String.eqb "__self__" k = false -> String.eqb "__export__" k = false ->
    lookup_s k (cresult c values sc prefix es) = lk_entries f values sc prefix k (c_fields c).
  Proof.
    intros f c values sc prefix es k H H1 H2. unfold cresult. cbv zeta.
    cbn [app lookup_s]. rewrite H1, lookup_s_app, (lookup_centries _ _ _ _ k _ _ H).
    destruct (lk_entries f values sc prefix k (c_fields c)); [reflexivity|].
    cbn [lookup_s]. rewrite H2. reflexivity.
  Qed.

  Lemma lookup_cresult_export : forall f c values sc prefix es,
    centries f values sc prefix (c_fields c) = Some es ->
    lk_entries f values sc prefix "__export__" (c_fields c) = None ->
    lookup_s "__export__" (cresult c values sc prefix es)
    = Some (gather (("__self__", cself c values sc prefix) :: es) (srcs_of c "__export__")).
  Proof.
    intros f c values sc prefix es H Hn. unfold cresult. cbv zeta.
    cbn [app lookup_s]. change (String.eqb "__self__" "__export__") with false. cbv iota.
    rewrite lookup_s_app, (lookup_centries _ _ _ _ "__export__" _ _ H), Hn.
    reflexivity.
  Qed.

  (* ---------------- fuel: collect never runs out when fuel >= depth ---------------- *)
  Lemma clist_some : forall f sc prefix k items,
    (forall x, In x items -> exists t, csingle f sc prefix k x = Some t) ->
    exists t, clist f sc prefix k items = Some t.
  Proof.
    intros f sc prefix k items. unfold clist. generalize st_empty.
    induction items as [|x items IH]; intros t0 H; cbn [fold_left]; [eauto|].
    destruct (H x (or_introl eq_refl)) as [t Ht]. rewrite Ht. apply IH.
    intros y Hy. apply H. right. exact Hy.
  Qed.

  Lemma collect_some : forall f cname values sc prefix,
    json_depth values <= f -> exists m, collect SC f cname values sc prefix = Some m.
  Proof.
    induction f as [|f IH]; intros cname values sc prefix Hd.
    - pose proof (json_depth_pos values). lia.
    - rewrite collect_S. destruct (lookup_cls SC cname) as [c|]; [|eauto].
      rewrite fold_cfield.
      assert (Hsingle : forall k w, json_depth w <= f -> exists t, csingle f sc prefix k w = Some t).
      { intros k w Hw. unfold csingle. destruct w; eauto.
        destruct (ctarget k (JObj members)) as [cn|]; eauto.
        destruct (lookup_cls SC cn) as [c'|]; eauto.
        destruct (lookup_s "__export__" (c_sources c')); eauto.
        destruct (IH cn (JObj members) sc prefix Hw) as [m Hm]. rewrite Hm. eauto. }
      assert (Hent : forall fl, exists e, centry f values sc prefix fl = Some e).
      { intros fl. unfold centry. cbv zeta.
        destruct (is_null (jget (f_name fl) values)) eqn:En; eauto.
        apply jget_depth in En.
        destruct (kind_is_literal (f_kind fl)); eauto.
        destruct (f_shape fl); eauto.
        - destruct (Hsingle (f_kind fl) (jget (f_name fl) values)) as [t Ht]; [lia|]. rewrite Ht. eauto.
        - destruct (jget (f_name fl) values) eqn:Ev; eauto.
          destruct (clist_some f sc prefix (f_kind fl) l) as [t Ht].
          + intros x Hx. apply Hsingle. apply arr_depth in Hx. lia.
          + rewrite Ht. eauto. }
      assert (Hall : forall flds, exists es, centries f values sc prefix flds = Some es).
      { induction flds as [|fl flds IHf]; cbn [centries]; eauto.
        destruct (Hent fl) as [e He]. destruct IHf as [es Hes]. rewrite He, Hes. eauto. }
      destruct (Hall (c_fields c)) as [es Hes]. rewrite Hes. eauto.
  Qed.

  (* symbols exported through [clist], by membership *)
  Lemma clist_mem : forall f sc prefix k items (g : json -> symtabs),
    (forall x, In x items -> csingle f sc prefix k x = Some (g x)) ->
    exists T, clist f sc prefix k items = Some T /\
              forall sc' n, mem_of T sc' n = existsb (fun x => mem_of (g x) sc' n) items.
  Proof.
    intros f sc prefix k items g. unfold clist.
    assert (G : forall t0, (forall x, In x items -> csingle f sc prefix k x = Some (g x)) ->
      exists T, fold_left (fun (a : option symtabs) item =>
                 match a with
                 | None => None
                 | Some t => match csingle f sc prefix k item with
                             | None => None
                             | Some t' => Some (st_union t t')
                             end
                 end) items (Some t0) = Some T /\
              forall sc' n, mem_of T sc' n = mem_of t0 sc' n || existsb (fun x => mem_of (g x) sc' n) items).
    { induction items as [|x items IH]; intros t0 H; cbn [fold_left existsb].
      - exists t0. split; [reflexivity|]. intros. rewrite orb_false_r. reflexivity.
      - rewrite (H x (or_introl eq_refl)).
        destruct (IH (st_union t0 (g x))) as [T [HT HM]]; [intros y Hy; apply H; right; exact Hy|].
        exists T. split; [exact HT|]. intros sc' n. rewrite HM, mem_of_union, orb_assoc. reflexivity. }
    intros H. destruct (G st_empty H) as [T [HT HM]]. exists T. split; [exact HT|].
    intros sc' n. rewrite HM, mem_of_empty. reflexivity.
  Qed.

  (* ================================================================ walk *)
  Definition wsc (c : cls) (sc0 : scope) : scope := match c_scope c with Some s => s | None => sc0 end.
  Definition wprefix (c : cls) (prefix0 : str) : str :=
    let dp := d_prefix (c_defs c) in
    if starts_with_bar dp then str_of_string (drop1 dp) else prefix0 ++ str_of_string dp.

  Definition wfield (f : nat) (c : cls) (values : json) (sc : scope) (prefix : str)
             (value_symbols : list (string * symtabs)) (syms : symtabs) (l : loc) (fl : field) : list werr :=
    let v := jget (f_name fl) values in
    if is_null v then []
    else if kind_is_literal (f_kind fl) then []
    else
      let vs := st_union (gather value_symbols (srcs_of c (f_name fl))) syms in
      match f_shape fl with
      | Single => vsingle SC refs f (f_kind fl) v sc prefix vs (l ++ [LKey (str_of_string (f_name fl))])
      | ListOf _ _ =>
        match v with
        | JArr items =>
          List.concat (List.map (fun iv => vsingle SC refs f (f_kind fl) (snd iv) sc prefix vs
                                         (l ++ [LKey (str_of_string (f_name fl)); LIdx (fst iv)]))
                      (combine (seq 0 (List.length items)) items))
        | _ => []
        end
      | DictOf _ =>
        match v with
        | JObj members =>
          List.concat (List.map (fun kv => vsingle SC refs f (f_kind fl) (snd kv) sc prefix vs
                                         (l ++ [LKey (str_of_string (f_name fl)); LKey (fst kv)]))
                      members)
        | _ => []
        end
      end.

  Lemma walk_S : forall f cname values sc0 prefix0 syms l,
    walk SC refs (S f) cname values sc0 prefix0 syms l =
    match lookup_cls SC cname with
    | None => []
    | Some c =>
      match collect SC f cname values (wsc c sc0) (wprefix c prefix0) with
      | None => [EFuel]
      | Some vsy => flat_map (wfield f c values (wsc c sc0) (wprefix c prefix0) vsy syms l) (c_fields c)
      end
    end.
  Proof. reflexivity. Qed.

  (* walk guarded by "the value is an object" (how vsingle reaches a model class) *)
  Definition wobj (f : nat) (cn : string) (v : json) (sc : scope) (prefix : str) (syms : symtabs) (l : loc)
    : list werr :=
    match v with JObj _ => walk SC refs f cn v sc prefix syms l | _ => [] end.

  Definition wdisc (f : nat) (key : string) (mapping : list (string * string)) (v : json) (sc : scope)
             (prefix : str) (syms : symtabs) (l : loc) : list werr :=
    match v with
    | JObj _ => match resolve_disc key mapping v with
                | Some cn => walk SC refs f cn v sc prefix syms l
                | None => []
                end
    | _ => []
    end.

  Lemma vsingle_model : forall f cn v sc p syms l,
    vsingle SC refs (S f) (KModel cn) v sc p syms l = wobj f cn v sc p syms l.
  Proof. reflexivity. Qed.

  Lemma vsingle_disc : forall f key mapping v sc p syms l,
    vsingle SC refs (S f) (KDisc key mapping) v sc p syms l = wdisc f key mapping v sc p syms l.
  Proof. reflexivity. Qed.

  Lemma vsingle_format : forall f a b c d v sc p syms l,
    vsingle SC refs (S f) (KFormat a b c d) v sc p syms l =
    match v with JStr s => check_fs refs s sc syms l | _ => [] end.
  Proof. reflexivity. Qed.

  Lemma vsingle_union : forall f alts v sc p syms l,
    vsingle SC refs (S f) (KUnion alts) v sc p syms l =
    flat_map (fun a =>
                match a with
                | UScalar k' => vsingle SC refs f k' v sc p syms l
                | UList _ _ k' =>
                  match v with
                  | JArr items => flat_map (fun item => vsingle SC refs f k' item sc p syms l) items
                  | _ => []
                  end
                end) alts.
  Proof. reflexivity. Qed.

  Definition kind_inert (k : kind) : bool :=
    match k with KFormat _ _ _ _ | KModel _ | KDisc _ _ | KUnion _ => false | _ => true end.

  Lemma vsingle_inert : forall f k v sc p syms l,
    kind_inert k = true -> vsingle SC refs (S f) k v sc p syms l = [].
  Proof. intros f k v sc p syms l H. destruct k; cbn in H; try discriminate; reflexivity. Qed.

  Lemma check_fs_chk : forall vis s sc syms l,
    (forall n, mem_of syms sc n = vis n) ->
    check_fs refs s sc syms l = chk refs vis l (JStr s).
  Proof.
    intros vis s sc syms l H. unfold check_fs, chk. destruct (refs s) as [names|]; [|reflexivity].
    apply flat_map_ext. intros n. unfold mem_of in H. rewrite H. reflexivity.
  Qed.

  Lemma vsingle_format_chk : forall vis f a b c d v sc p syms l,
    (forall n, mem_of syms sc n = vis n) ->
    vsingle SC refs (S f) (KFormat a b c d) v sc p syms l = chk refs vis l v.
  Proof.
    intros. rewrite vsingle_format. destruct v; try reflexivity. apply check_fs_chk. assumption.
  Qed.

  (* ---- field-level lemmas ---- *)
  Lemma wfield_inert : forall f c values sc p vsy syms l fl,
    kind_inert (f_kind fl) = true -> wfield (S f) c values sc p vsy syms l fl = [].
  Proof.
    intros f c values sc p vsy syms l fl H. unfold wfield. cbv zeta.
    destruct (is_null (jget (f_name fl) values)); [reflexivity|].
    destruct (kind_is_literal (f_kind fl)); [reflexivity|].
    destruct (f_shape fl).
    - apply vsingle_inert. exact H.
    - destruct (jget (f_name fl) values); try reflexivity.
      erewrite map_ext; [apply concat_map_nil|]. intros. apply vsingle_inert. exact H.
    - destruct (jget (f_name fl) values); try reflexivity.
      erewrite map_ext; [apply concat_map_nil|]. intros. apply vsingle_inert. exact H.
  Qed.

  Lemma wfield_literal : forall f c values sc p vsy syms l fl,
    kind_is_literal (f_kind fl) = true -> wfield f c values sc p vsy syms l fl = [].
  Proof.
    intros. unfold wfield. cbv zeta. destruct (is_null (jget (f_name fl) values)); [reflexivity|].
    rewrite H. reflexivity.
  Qed.

  Definition fsyms (c : cls) (vsy : list (string * symtabs)) (syms : symtabs) (name : string) : symtabs :=
    st_union (gather vsy (srcs_of c name)) syms.

  Lemma wfield_fmt_single : forall vis f c values sc p vsy syms l fl a b cc d,
    f_shape fl = Single -> f_kind fl = KFormat a b cc d ->
    (forall n, mem_of (fsyms c vsy syms (f_name fl)) sc n = vis n) ->
    wfield (S f) c values sc p vsy syms l fl
    = chk refs vis (l ++ [key (f_name fl)]) (jget (f_name fl) values).
  Proof.
    intros vis f c values sc p vsy syms l fl a b cc d Hs Hk Hv. unfold wfield. cbv zeta.
    rewrite Hs, Hk. cbn [kind_is_literal].
    destruct (is_null (jget (f_name fl) values)) eqn:En.
    - destruct (jget (f_name fl) values); try discriminate. reflexivity.
    - apply vsingle_format_chk. exact Hv.
  Qed.

  Lemma wfield_fmt_list : forall vis f c values sc p vsy syms l fl mn mx a b cc d,
    f_shape fl = ListOf mn mx -> f_kind fl = KFormat a b cc d ->
    (forall n, mem_of (fsyms c vsy syms (f_name fl)) sc n = vis n) ->
    wfield (S f) c values sc p vsy syms l fl
    = chk_list refs vis (l ++ [key (f_name fl)]) (jget (f_name fl) values).
  Proof.
    intros vis f c values sc p vsy syms l fl mn mx a b cc d Hs Hk Hv. unfold wfield. cbv zeta.
    rewrite Hs, Hk. cbn [kind_is_literal].
    destruct (is_null (jget (f_name fl) values)) eqn:En.
    - destruct (jget (f_name fl) values); try discriminate. reflexivity.
    - unfold chk_list. destruct (jget (f_name fl) values); try reflexivity.
      unfold indexed. f_equal. apply map_ext. intros iv.
      rewrite (vsingle_format_chk vis); [|exact Hv]. rewrite <- app_assoc. reflexivity.
  Qed.

  Lemma wfield_fmt_dict : forall vis f c values sc p vsy syms l fl kk a b cc d,
    f_shape fl = DictOf kk -> f_kind fl = KFormat a b cc d ->
    (forall n, mem_of (fsyms c vsy syms (f_name fl)) sc n = vis n) ->
    wfield (S f) c values sc p vsy syms l fl
    = match jget (f_name fl) values with
      | JObj members =>
        List.concat (map (fun kv => chk refs vis (l ++ [key (f_name fl); LKey (fst kv)]) (snd kv)) members)
      | _ => []
      end.
  Proof.
    intros vis f c values sc p vsy syms l fl kk a b cc d Hs Hk Hv. unfold wfield. cbv zeta.
    rewrite Hs, Hk. cbn [kind_is_literal].
    destruct (is_null (jget (f_name fl) values)) eqn:En.
    - destruct (jget (f_name fl) values); try discriminate. reflexivity.
    - destruct (jget (f_name fl) values); try reflexivity.
      f_equal. apply map_ext. intros kv. apply vsingle_format_chk. exact Hv.
  Qed.

  Lemma wfield_model_single : forall f c values sc p vsy syms l fl cn,
    f_shape fl = Single -> f_kind fl = KModel cn ->
    wfield (S f) c values sc p vsy syms l fl
    = wobj f cn (jget (f_name fl) values) sc p (fsyms c vsy syms (f_name fl)) (l ++ [key (f_name fl)]).
  Proof.
    intros f c values sc p vsy syms l fl cn Hs Hk. unfold wfield. cbv zeta.
    rewrite Hs, Hk. cbn [kind_is_literal].
    destruct (is_null (jget (f_name fl) values)) eqn:En.
    - destruct (jget (f_name fl) values); try discriminate. reflexivity.
    - reflexivity.
  Qed.

  Lemma wfield_model_list : forall f c values sc p vsy syms l fl mn mx cn,
    f_shape fl = ListOf mn mx -> f_kind fl = KModel cn ->
    wfield (S f) c values sc p vsy syms l fl
    = match jget (f_name fl) values with
      | JArr items =>
        List.concat (map (fun iv => wobj f cn (snd iv) sc p (fsyms c vsy syms (f_name fl))
                                    ((l ++ [key (f_name fl)]) ++ [LIdx (fst iv)])) (indexed items))
      | _ => []
      end.
  Proof.
    intros f c values sc p vsy syms l fl mn mx cn Hs Hk. unfold wfield. cbv zeta.
    rewrite Hs, Hk. cbn [kind_is_literal].
    destruct (is_null (jget (f_name fl) values)) eqn:En.
    - destruct (jget (f_name fl) values); try discriminate. reflexivity.
    - destruct (jget (f_name fl) values); try reflexivity.
      unfold indexed. f_equal. apply map_ext. intros iv. rewrite <- app_assoc. reflexivity.
  Qed.

  Lemma wfield_disc_list : forall f c values sc p vsy syms l fl mn mx dk mapping,
    f_shape fl = ListOf mn mx -> f_kind fl = KDisc dk mapping ->
    wfield (S f) c values sc p vsy syms l fl
    = match jget (f_name fl) values with
      | JArr items =>
        List.concat (map (fun iv => wdisc f dk mapping (snd iv) sc p (fsyms c vsy syms (f_name fl))
                                     ((l ++ [key (f_name fl)]) ++ [LIdx (fst iv)])) (indexed items))
      | _ => []
      end.
  Proof.
    intros f c values sc p vsy syms l fl mn mx dk mapping Hs Hk. unfold wfield. cbv zeta.
    rewrite Hs, Hk. cbn [kind_is_literal].
    destruct (is_null (jget (f_name fl) values)) eqn:En.
    - destruct (jget (f_name fl) values); try discriminate. reflexivity.
    - destruct (jget (f_name fl) values); try reflexivity.
      unfold indexed. f_equal. apply map_ext. intros iv. rewrite <- app_assoc. reflexivity.
  Qed.

  Lemma wfield_disc_single : forall f c values sc p vsy syms l fl dk mapping,
    f_shape fl = Single -> f_kind fl = KDisc dk mapping ->
    wfield (S f) c values sc p vsy syms l fl
    = wdisc f dk mapping (jget (f_name fl) values) sc p (fsyms c vsy syms (f_name fl)) (l ++ [key (f_name fl)]).
  Proof.
    intros f c values sc p vsy syms l fl dk mapping Hs Hk. unfold wfield. cbv zeta.
    rewrite Hs, Hk. cbn [kind_is_literal].
    destruct (is_null (jget (f_name fl) values)) eqn:En.
    - destruct (jget (f_name fl) values); try discriminate. reflexivity.
    - reflexivity.
  Qed.

  (* general shape-only unfolding, for union-kinded fields *)
  Lemma wfield_single : forall f c values sc p vsy syms l fl,
    f_shape fl = Single -> kind_is_literal (f_kind fl) = false ->
    wfield f c values sc p vsy syms l fl
    = if is_null (jget (f_name fl) values) then []
      else vsingle SC refs f (f_kind fl) (jget (f_name fl) values) sc p (fsyms c vsy syms (f_name fl))
                   (l ++ [key (f_name fl)]).
  Proof. intros. unfold wfield. cbv zeta. rewrite H, H0. reflexivity. Qed.

  Lemma wfield_list : forall f c values sc p vsy syms l fl mn mx,
    f_shape fl = ListOf mn mx -> kind_is_literal (f_kind fl) = false ->
    wfield f c values sc p vsy syms l fl
    = match jget (f_name fl) values with
      | JArr items =>
        List.concat (map (fun iv => vsingle SC refs f (f_kind fl) (snd iv) sc p (fsyms c vsy syms (f_name fl))
                                       ((l ++ [key (f_name fl)]) ++ [LIdx (fst iv)])) (indexed items))
      | _ => []
      end.
  Proof.
    intros. unfold wfield. cbv zeta. rewrite H, H0.
    destruct (jget (f_name fl) values); try reflexivity.
    cbn [is_null]. unfold indexed. f_equal. apply map_ext. intros iv. rewrite <- app_assoc. reflexivity.
  Qed.


  (* ---- classes that contain no reference site at all ---- *)
  Fixpoint silent (n : nat) (cn : string) : bool :=
    match n with
    | O => false
    | S n' =>
      match lookup_cls SC cn with
      | None => true
      | Some c =>
        forallb (fun fl => kind_is_literal (f_kind fl) || kind_inert (f_kind fl) ||
                           match f_kind fl, f_shape fl with
                           | KModel cn', Single => silent n' cn'
                           | KModel cn', ListOf _ _ => silent n' cn'
                           | _, _ => false
                           end) (c_fields c)
      end
    end.

  Lemma walk_silent : forall n cn, silent n cn = true ->
    forall f v sc p syms l, (is_obj v = true -> 2 * json_depth v + 2 <= f) ->
    wobj f cn v sc p syms l = [].
  Proof.
    induction n as [|n IH]; intros cn Hs f v sc p syms l Hf; [discriminate|].
    destruct v; try reflexivity. specialize (Hf eq_refl).
    pose proof (json_depth_pos (JObj members)) as Hpos.
    destruct f as [|[|f]]; [lia|lia|].
    unfold wobj. rewrite walk_S. cbn [silent] in Hs.
    destruct (lookup_cls SC cn) as [c|]; [|reflexivity].
    destruct (collect_some (S f) cn (JObj members) (wsc c sc) (wprefix c p)) as [m Hm]; [lia|].
    rewrite Hm. rewrite <- (flat_map_nil (c_fields c)) at 1. apply flat_map_ext_in.
    intros fl Hin. rewrite forallb_forall in Hs. specialize (Hs fl Hin).
    destruct (kind_is_literal (f_kind fl)) eqn:El; [apply wfield_literal; exact El|].
    destruct (kind_inert (f_kind fl)) eqn:Ei; [apply wfield_inert; exact Ei|].
    cbn [orb] in Hs. destruct (f_kind fl) eqn:Ek; try discriminate.
    destruct (f_shape fl) eqn:Esh; try discriminate.
    - rewrite (wfield_model_single _ _ _ _ _ _ _ _ _ cls Esh Ek). apply IH; [exact Hs|].
      intros Ho. apply obj_not_null in Ho. apply jget_depth in Ho. lia.
    - rewrite (wfield_model_list _ _ _ _ _ _ _ _ _ _ _ cls Esh Ek).
      destruct (jget (f_name fl) (JObj members)) eqn:Ev; try reflexivity.
      assert (Hd : S (json_depth (JArr l0)) <= json_depth (JObj members)).
      { rewrite <- Ev. apply jget_depth. rewrite Ev. reflexivity. }
      erewrite concat_map_indexed_ext; [apply concat_map_nil|].
      intros i x Hx. cbn [fst snd]. apply IH; [exact Hs|].
      intros _. apply arr_depth in Hx. lia.
  Qed.

  Lemma resolve_disc_in : forall key mapping v cn,
    resolve_disc key mapping v = Some cn -> In cn (map snd mapping).
  Proof.
    intros key mapping v cn. unfold resolve_disc.
    destruct (jget key v); try discriminate. destruct s; try discriminate.
    induction mapping as [|[kv c] mapping IH]; [discriminate|].
    cbn [map snd]. destruct (str_eqb (str_of_string kv) (n :: s)).
    - intros H; inversion H; left; reflexivity.
    - intros H. right. apply IH. exact H.
  Qed.

  Lemma wdisc_wobj : forall f key mapping v sc p syms l cn,
    resolve_disc key mapping v = Some cn ->
    wdisc f key mapping v sc p syms l = wobj f cn v sc p syms l.
  Proof. intros. unfold wdisc, wobj. rewrite H. reflexivity. Qed.

  Lemma wdisc_silent : forall n f key mapping v sc p syms l,
    (forall cn, In cn (map snd mapping) -> silent n cn = true) ->
    (is_obj v = true -> 2 * json_depth v + 2 <= f) ->
    wdisc f key mapping v sc p syms l = [].
  Proof.
    intros n f key mapping v sc p syms l Hs Hf.
    destruct (resolve_disc key mapping v) as [cn|] eqn:E.
    - rewrite (wdisc_wobj _ _ _ _ _ _ _ _ _ E). apply (walk_silent n); [|exact Hf].
      apply Hs. eapply resolve_disc_in. exact E.
    - unfold wdisc. rewrite E. destruct v; reflexivity.
  Qed.


  (* ---- exported symbols of children, by membership ---- *)
  Lemma fold_add_mem : forall {A} (sf : A -> scope) (nf : A -> str) defs acc0 sc' n,
    mem_of (fold_left (fun acc pr => add_symbol acc (sf pr) (nf pr)) defs acc0) sc' n
    = mem_of acc0 sc' n || existsb (fun pr => scope_le (sf pr) sc' && str_eqb n (nf pr)) defs.
  Proof.
    intros A sf nf. induction defs as [|d defs IH]; intros acc0 sc' n; cbn [fold_left existsb].
    - rewrite orb_false_r. reflexivity.
    - rewrite IH, mem_of_add.
      destruct (scope_le (sf d) sc' && str_eqb n (nf d)), (mem_of acc0 sc' n); reflexivity.
  Qed.

  Lemma cself_named : forall c x sc p sc' n,
    d_inject (c_defs c) = [] -> d_field (c_defs c) = "name" -> is_obj x = true ->
    mem_of (cself c x sc p) sc' n
    = match decl_name x with
      | Some nm => existsb (fun pr => scope_le (snd pr) sc' && str_eqb n (sym_name p (fst pr) nm))
                           (d_defines (c_defs c))
      | None => false
      end.
  Proof.
    intros c x sc p sc' n Hi Hf Ho. unfold cself. cbv zeta. rewrite Hi, Hf. cbn [fold_left].
    change (String.eqb "name" "") with false. cbv iota.
    destruct x; try discriminate. unfold decl_name.
    destruct (jget "name" (JObj members)); try apply mem_of_empty.
    destruct s; [apply mem_of_empty|].
    rewrite (fold_add_mem (fun pr => snd pr) (fun pr => sym_name p (fst pr) (n0 :: s))), mem_of_empty.
    reflexivity.
  Qed.

  Definition ktargets (k : kind) : list string :=
    match k with KModel cn => [cn] | KDisc _ mapping => map snd mapping | _ => [] end.

  Lemma ctarget_in : forall k v cn, ctarget k v = Some cn -> In cn (ktargets k).
  Proof.
    intros k v cn H. destruct k; cbn in *; try discriminate.
    - inversion H. left. reflexivity.
    - eapply resolve_disc_in. exact H.
  Qed.

  (* every class this kind can reach either exports nothing or exports exactly its own symbol *)
  Definition self_exporting (k : kind) : bool :=
    forallb (fun cn =>
               match lookup_cls SC cn with
               | None => true
               | Some c' =>
                 match lookup_s "__export__" (c_sources c') with
                 | None => true
                 | Some srcs =>
                   match srcs with [s] => String.eqb s "__self__" | _ => false end
                   && forallb (fun fl => negb (String.eqb (f_name fl) "__export__")) (c_fields c')
                 end
               end) (ktargets k).

  Definition cexport_self (k : kind) (x : json) (sc : scope) (p : str) : symtabs :=
    match x with
    | JObj _ =>
      match ctarget k x with
      | None => st_empty
      | Some cn =>
        match lookup_cls SC cn with
        | None => st_empty
        | Some c' =>
          match lookup_s "__export__" (c_sources c') with
          | None => st_empty
          | Some _ => st_union st_empty (cself c' x sc p)
          end
        end
      end
    | _ => st_empty
    end.

  Lemma lk_entries_none : forall f values sc p k flds,
    forallb (fun fl => negb (String.eqb (f_name fl) k)) flds = true ->
    lk_entries f values sc p k flds = None.
  Proof.
    induction flds as [|fl flds IH]; intros H; cbn [lk_entries]; [reflexivity|].
    cbn [forallb] in H. apply andb_true_iff in H. destruct H as [H1 H2].
    apply negb_true_iff in H1. rewrite H1. apply IH. exact H2.
  Qed.

  Lemma csingle_self : forall f sc p k x,
    self_exporting k = true -> json_depth x <= f ->
    csingle f sc p k x = Some (cexport_self k x sc p).
  Proof.
    intros f sc p k x Hse Hd. unfold csingle, cexport_self. destruct x; try reflexivity.
    destruct (ctarget k (JObj members)) as [cn|] eqn:Et; [|reflexivity].
    apply ctarget_in in Et. unfold self_exporting in Hse. rewrite forallb_forall in Hse.
    specialize (Hse cn Et).
    destruct (lookup_cls SC cn) as [c'|] eqn:Ec; [|reflexivity].
    destruct (lookup_s "__export__" (c_sources c')) as [srcs|] eqn:Es; [|reflexivity].
    apply andb_true_iff in Hse. destruct Hse as [Hs1 Hs2].
    destruct srcs as [|s0 [|? ?]]; try discriminate. apply String.eqb_eq in Hs1. subst s0.
    destruct f as [|f]; [pose proof (json_depth_pos (JObj members)); lia|].
    destruct (collect_some (S f) cn (JObj members) sc p Hd) as [m Hm]. rewrite Hm.
    destruct (collect_inv _ _ _ _ _ _ _ Ec Hm) as [es [Hes Hmm]]. subst m.
    rewrite (lookup_cresult_export _ _ _ _ _ _ Hes (lk_entries_none _ _ _ _ _ _ Hs2)).
    unfold srcs_of. rewrite Es. reflexivity.
  Qed.

  (* a list-valued field whose items export only their own symbol *)
  Lemma centry_list_self : forall f v sc p fl mn mx,
    f_shape fl = ListOf mn mx -> kind_is_literal (f_kind fl) = false ->
    self_exporting (f_kind fl) = true -> json_depth v <= S f ->
    exists e, centry f v sc p fl = Some e /\
      forall sc' n, match e with (_, t) :: _ => mem_of t sc' n | [] => false end
                    = existsb (fun x => mem_of (cexport_self (f_kind fl) x sc p) sc' n)
                              (obj_list (jget (f_name fl) v)).
  Proof.
    intros f v sc p fl mn mx Hs Hl Hse Hd. unfold centry. cbv zeta. rewrite Hs, Hl.
    destruct (is_null (jget (f_name fl) v)) eqn:En.
    - exists []. split; [reflexivity|]. intros. destruct (jget (f_name fl) v); try discriminate. reflexivity.
    - apply jget_depth in En.
      destruct (jget (f_name fl) v) eqn:Ev; try (exists []; split; [reflexivity|]; intros; reflexivity).
      destruct (clist_mem f sc p (f_kind fl) l (fun x => cexport_self (f_kind fl) x sc p)) as [T [HT HM]].
      + intros x Hx. apply csingle_self; [exact Hse|]. apply arr_depth in Hx. lia.
      + rewrite HT. eexists. split; [reflexivity|]. intros. cbn [obj_list]. apply HM.
  Qed.


  Lemma cexport_model_mem : forall cn c' srcs x sc p sc' n,
    lookup_cls SC cn = Some c' -> lookup_s "__export__" (c_sources c') = Some srcs ->
    d_inject (c_defs c') = [] -> d_field (c_defs c') = "name" ->
    mem_of (cexport_self (KModel cn) x sc p) sc' n
    = match decl_name x with
      | Some nm => existsb (fun pr => scope_le (snd pr) sc' && str_eqb n (sym_name p (fst pr) nm))
                           (d_defines (c_defs c'))
      | None => false
      end.
  Proof.
    intros cn c' srcs x sc p sc' n Hc Hs Hi Hf. unfold cexport_self. cbn [ctarget]. rewrite Hc, Hs.
    destruct x; try (rewrite mem_of_empty; reflexivity).
    rewrite mem_of_union, mem_of_empty. cbn [orb]. apply cself_named; auto.
  Qed.

  Lemma cexport_disc_mem : forall key mapping cn c' srcs x sc p sc' n,
    is_obj x = true -> resolve_disc key mapping x = Some cn ->
    lookup_cls SC cn = Some c' -> lookup_s "__export__" (c_sources c') = Some srcs ->
    d_inject (c_defs c') = [] -> d_field (c_defs c') = "name" ->
    mem_of (cexport_self (KDisc key mapping) x sc p) sc' n
    = match decl_name x with
      | Some nm => existsb (fun pr => scope_le (snd pr) sc' && str_eqb n (sym_name p (fst pr) nm))
                           (d_defines (c_defs c'))
      | None => false
      end.
  Proof.
    intros key mapping cn c' srcs x sc p sc' n Ho Hr Hc Hs Hi Hf. unfold cexport_self. cbn [ctarget].
    destruct x; try discriminate. rewrite Hr, Hc, Hs.
    rewrite mem_of_union, mem_of_empty. cbn [orb]. apply cself_named; auto.
  Qed.

  Lemma cexport_disc_none : forall key mapping x sc p sc' n,
    resolve_disc key mapping x = None ->
    mem_of (cexport_self (KDisc key mapping) x sc p) sc' n = false.
  Proof.
    intros. unfold cexport_self. cbn [ctarget]. rewrite H. destruct x; apply mem_of_empty.
  Qed.

  Lemma cexport_nonobj : forall k x sc p sc' n,
    is_obj x = false -> mem_of (cexport_self k x sc p) sc' n = false.
  Proof. intros. unfold cexport_self. destruct x; try discriminate; apply mem_of_empty. Qed.

End Lib.
