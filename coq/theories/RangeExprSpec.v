(* RangeExprSpec.v — declarative specification of range expressions (C08, C13), written from
   the property text, plus an executable spec oracle used when a correspondence fails.
   No sort-by-start, no merge, no bisect here. *)
From Coq Require Import List NArith ZArith Bool Permutation.
Import ListNotations.
Require Import OJD.Base OJD.Lexer.
Local Open Scope Z_scope.

(* what the user wrote *)
Inductive elem : Type :=
| One (a : Z)             (*  n      *)
| Span (a b : Z)          (*  a-b    *)
| Stepped (a b s : Z).    (*  a-b:s  *)

(* "s non-zero with the sign of the direction from a to b, default step +1" *)
Definition elem_ok (e : elem) : Prop :=
  match e with
  | One _ => True
  | Span a b => a <= b
  | Stepped a b s => s <> 0 /\ (a < b -> 0 < s) /\ (b < a -> s < 0)
  end.

Definition elem_okb (e : elem) : bool :=
  match e with
  | One _ => true
  | Span a b => a <=? b
  | Stepped a b s => negb (s =? 0) && (negb (a <? b) || (0 <? s)) && (negb (b <? a) || (s <? 0))
  end.

Definition span (e : elem) : Z * Z :=
  match e with
  | One a => (a, a)
  | Span a b | Stepped a b _ => (Z.min a b, Z.max a b)
  end.

Definition disjoint (x y : Z * Z) : Prop := snd x < fst y \/ snd y < fst x.
Definition disjointb (x y : Z * Z) : bool := (snd x <? fst y) || (snd y <? fst x).

Inductive Pairwise {A} (R : A -> A -> Prop) : list A -> Prop :=
| PW_nil : Pairwise R []
| PW_cons x l : Forall (R x) l -> Pairwise R l -> Pairwise R (x :: l).

Fixpoint pairwiseb {A} (r : A -> A -> bool) (l : list A) : bool :=
  match l with
  | [] => true
  | x :: xs => forallb (r x) xs && pairwiseb r xs
  end.

(* the inclusive arithmetic progression a, a+s, a+2s, ... that stays within [a..b] *)
Definition progression (a b s : Z) : list Z :=
  map (fun i => a + Z.of_nat i * s) (seq 0 (Z.to_nat (Z.abs (b - a) / Z.abs s + 1))).

Definition denote (e : elem) : list Z :=
  match e with
  | One a => [a]
  | Span a b => progression a b 1
  | Stepped a b s => progression a b s
  end.

(* token-level concrete syntax *)
Inductive IntToks : Z -> list tok -> Prop :=
| IT_pos n : IntToks (Z.of_N n) [TPosInt n]
| IT_neg n : IntToks (- Z.of_N n) [THyphen; TPosInt n].

Inductive ElemToks : elem -> list tok -> Prop :=
| ET_one a ta : IntToks a ta -> ElemToks (One a) ta
| ET_span a b ta tb : IntToks a ta -> IntToks b tb -> ElemToks (Span a b) (ta ++ THyphen :: tb)
| ET_step a b s ta tb tc : IntToks a ta -> IntToks b tb -> IntToks s tc ->
    ElemToks (Stepped a b s) (ta ++ THyphen :: tb ++ TColon :: tc).

Inductive Renders : list elem -> list tok -> Prop :=
| R_one e ts : ElemToks e ts -> Renders [e] ts
| R_cons e ts es ts' : ElemToks e ts -> Renders es ts' -> Renders (e :: es) (ts ++ TComma :: ts').

(* the full acceptance condition of the property *)
Definition Accepts (ts : list tok) (es : list elem) : Prop :=
  Renders es ts /\ Forall elem_ok es /\ Pairwise disjoint (map span es).

(* ---------- executable oracle ---------- *)

Definition take_int (ts : list tok) : option (Z * list tok) :=
  match ts with
  | TPosInt n :: r => Some (Z.of_N n, r)
  | THyphen :: TPosInt n :: r => Some (- Z.of_N n, r)
  | _ => None
  end.

Definition seg_elem (seg : list tok) : option elem :=
  match take_int seg with
  | Some (a, []) => Some (One a)
  | Some (a, THyphen :: r) =>
    match take_int r with
    | Some (b, []) => Some (Span a b)
    | Some (b, TColon :: r') =>
      match take_int r' with
      | Some (s, []) => Some (Stepped a b s)
      | _ => None
      end
    | _ => None
    end
  | _ => None
  end.

(* split at commas; the result always has at least one segment *)
Fixpoint split_commas (cur_rev : list tok) (ts : list tok) : list (list tok) :=
  match ts with
  | [] => [rev cur_rev]
  | TComma :: r => rev cur_rev :: split_commas [] r
  | t :: r => split_commas (t :: cur_rev) r
  end.

Fixpoint all_some {A} (l : list (option A)) : option (list A) :=
  match l with
  | [] => Some []
  | None :: _ => None
  | Some x :: r => match all_some r with Some xs => Some (x :: xs) | None => None end
  end.

Definition spec_elems (ts : list tok) : option (list elem) :=
  all_some (map seg_elem (split_commas [] ts)).

Fixpoint insert_sorted (x : Z) (l : list Z) : list Z :=
  match l with
  | [] => [x]
  | y :: ys => if x <=? y then x :: l else y :: insert_sorted x ys
  end.
Definition sortZ (l : list Z) : list Z := fold_right insert_sorted [] l.

(* None = rejected; Some l = accepted with exactly the values l (ascending) *)
Definition spec_from_tokens (ts : list tok) : option (list Z) :=
  match spec_elems ts with
  | None => None
  | Some es =>
    if forallb elem_okb es && pairwiseb disjointb (map span es)
    then Some (sortZ (concat (map denote es)))
    else None
  end.

(* C13: "sorted distinct integers" *)
Fixpoint strictly_increasing (l : list Z) : Prop :=
  match l with
  | a :: ((b :: _) as t) => a < b /\ strictly_increasing t
  | _ => True
  end.
