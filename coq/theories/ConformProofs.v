(* ConformProofs.v — C09 as ONE theorem about [CreateJobFull.create_job_full]:

     full_job_params  : every (name, type, value) of Job.parameters of a returned Job has
                        Glue.conforms_job type value = true;
     full_task_params : every value of every task parameter of every step of a returned Job has
                        Glue.conforms_task type value = true;
     full_job_wf      : the readers of Conform.v see every value (Conform.job_wf).

   Composition:
     decode_job = Ok t        -> t is a well-typed JobTemplate instance           (ConformTyped.decode_job_typed)
     inst ... t = Ok j0       -> j0 has the Job shape, each task parameter definition of the class that goes
                                 with its "type", each job parameter tied to a template definition of the
                                 same name and type and to RawParam.<name>           (ConformInst.inst_job)
     coerce_job               -> every range item is a str                          (ConformInst.coerce_job_shape)
     nodes_ok = Ok true       -> every node passed its own class                    (ConformNodes.nodes_ok_all),
                                 i.e. the validators of props/C09.v hold of the items (range_list_accepted /
                                 range_expr_accepted + GlueProofs.post_int_range_list, post_float_range_list,
                                 range_values_conform)
     prep_full = Ok pvals     -> RawParam.<name> conforms to the template's type    (ConformPrep) *)
From Coq Require Import List NArith ZArith Bool String Lia.
Import ListNotations.
Require Import OJD.Base OJD.Lexer OJD.Json OJD.Schema OJD.Generated OJD.Charsets OJD.Numerals OJD.NumPrint
               OJD.FormatStr OJD.CreateJob OJD.CreateJobProofs OJD.Parse OJD.Validators OJD.Accept OJD.Export
               OJD.RangeExpr OJD.Glue OJD.GlueProofs OJD.CreateJobExactLib OJD.WellKeyed
               OJD.CreateJobFull OJD.CreateJobFullProofs
               OJD.ConformLib OJD.ConformTyped OJD.ConformPrep OJD.ConformInst OJD.ConformNodes OJD.Conform.
Local Open Scope string_scope.
Local Open Scope list_scope.

(* ------------------------------------------------------------------ nodes of a tree, downwards *)
Lemma nodes_self : forall c fs, In (c, fs) (nodes (MModel c fs)).
Proof. intros c fs. cbn [nodes]. left. reflexivity. Qed.

Lemma nodes_field : forall c fs n x nd, In (n, x) fs -> In nd (nodes x) -> In nd (nodes (MModel c fs)).
Proof.
  intros c fs n x nd Hin Hn. cbn [nodes]. right. apply in_flat_map. exists (n, x). split; [exact Hin|exact Hn].
Qed.

Lemma nodes_item : forall l x nd, In x l -> In nd (nodes x) -> In nd (nodes (MList l)).
Proof. intros l x nd Hin Hn. cbn [nodes]. apply in_flat_map. exists x. split; assumption. Qed.

Lemma nodes_member : forall l (kv : str * mval) nd, In kv l -> In nd (nodes (snd kv)) -> In nd (nodes (MDict l)).
Proof. intros l kv nd Hin Hn. cbn [nodes]. apply in_flat_map. exists kv. split; assumption. Qed.

(* ------------------------------------------------------------------ the composition *)
Theorem full_job_shape : forall classify j t envs vals job,
  decode_job classify j = Ok t -> create_job_full classify envs t vals = Ok job ->
  exists pvals,
    prep_full envs t vals = Ok pvals /\
    job_of jdef (jpar t (symtab_of pvals)) job /\
    nodes_ok classify (S (S (S (mval_depth t)))) job = Ok true.
Proof.
  intros classify j t envs vals job Hd H. unfold create_job_full in H.
  destruct (prep_full envs t vals) as [pvals|e0] eqn:Ep; cbn [bind] in H; [|discriminate H].
  destruct (inst G (fs_resolve classify) (symtab_of pvals) (S (mval_depth t)) t) as [j0|e1] eqn:Ei;
    [|destruct e1; discriminate H].
  destruct (nodes_ok classify (S (S (S (mval_depth t)))) (coerce_job (S (mval_depth t)) j0)) as [[|]|e2] eqn:En;
    try discriminate H.
  injection H as <-. exists pvals. split; [reflexivity|]. split; [|exact En].
  change (job_of jdef (jpar t (symtab_of pvals)) (coerce_job (S (mval_depth t)) j0)).
  rewrite coerce_job_coerce.
  - apply coerce_job_shape. eapply inst_job; [eapply decode_job_typed; exact Hd|exact Ei].
  - pose proof (CreateJobExactLib.inst_depth _ _ _ _ _ _ Ei). lia.
Qed.

(* ------------------------------------------------------------------ job parameters *)
Theorem full_job_params : forall classify j t envs vals job,
  decode_job classify j = Ok t -> create_job_full classify envs t vals = Ok job ->
  forall name ty v, In (name, ty, v) (job_parameters_of job) -> conforms_job ty v = true.
Proof.
  intros classify j t envs vals job Hd H name ty v Hin.
  destruct (full_job_shape classify j t envs vals job Hd H) as [pvals [Ep [Hj _]]].
  destruct Hj as [n [steps [d [p [e [-> [_ Hp]]]]]]].
  unfold job_parameters_of in Hin.
  cbn [model_fields mfield lookup_s String.eqb Ascii.eqb Bool.eqb] in Hin.
  destruct Hp as [->|[pd [-> Hpd]]]; [destruct Hin|]. cbn [dict_entries] in Hin.
  apply in_map_iff in Hin. destruct Hin as [kv [E Hkv]].
  rewrite Forall_forall in Hpd. destruct (Hpd kv Hkv) as [T [dsc [v' [Ey [_ [Hv [c [fs [l [ic [ifs [-> [Hf [Hi [Hn Ht]]]]]]]]]]]]]]].
  rewrite Ey in E. cbn [model_fields mfield lookup_s String.eqb Ascii.eqb Bool.eqb mstr] in E.
  injection E as <- <- <-.
  eapply prep_full_conforms_fields; eassumption.
Qed.

(* ------------------------------------------------------------------ task parameters *)
Lemma in_map_mstr : forall v ss, In v (map mstr (map MStr ss)) -> In v ss.
Proof. intros v ss H. rewrite map_map in H. cbn [mstr] in H. rewrite map_id in H. exact H. Qed.

Lemma conforms_task_len : forall ty v, ty = $"STRING" \/ ty = $"PATH" ->
  (N.of_nat (List.length v) <= 1024)%N -> conforms_task ty v = true.
Proof.
  intros ty v Hty Hl. unfold conforms_task. apply N.leb_le in Hl.
  destruct Hty as [-> | ->].
  - change (str_eqb $"STRING" $"INT") with false. change (str_eqb $"STRING" $"FLOAT") with false. cbv iota. exact Hl.
  - change (str_eqb $"PATH" $"INT") with false. change (str_eqb $"PATH" $"FLOAT") with false. cbv iota. exact Hl.
Qed.

(* one definition of the Job that passed its own class: every value it enumerates conforms to its type *)
Lemma def_conforms : forall classify c fs y,
  jdef (MModel c fs) -> parse_any classify c (export (MModel c fs)) = Ok y ->
  forall v, In v (def_values classify (MModel c fs)) -> conforms_task (mstr (mfield "type" fs)) v = true.
Proof.
  intros classify c fs y Hj Hp v Hv. unfold def_values in Hv. cbn [model_fields] in Hv.
  inversion Hj as [ss Ec|r Ec|ss Ec|ty ss Hty Ec]; subst c fs;
    cbn [mfield lookup_s String.eqb Ascii.eqb Bool.eqb mstr] in *.
  - apply in_map_mstr in Hv.
    destruct (range_list_accepted classify _ _ _ _ (or_introl eq_refl) Hp) as [_ [raw [x1 Hpost]]].
    apply (post_int_range_list classify raw _ Hpost (MStr v)).
    unfold fget. cbn [mfield lookup_s String.eqb Ascii.eqb Bool.eqb mitems]. apply in_map. exact Hv.
  - apply range_expr_accepted in Hp. unfold range_expr_ok in Hp.
    destruct (from_str false false classify r) as [e|err]; [|discriminate Hp].
    exact (proj2 (range_values_conform e v Hv)).
  - apply in_map_mstr in Hv.
    destruct (range_list_accepted classify _ _ _ _ (or_intror (or_introl eq_refl)) Hp) as [_ [raw [x1 Hpost]]].
    apply (post_float_range_list classify raw _ Hpost (MStr v)).
    unfold fget. cbn [mfield lookup_s String.eqb Ascii.eqb Bool.eqb mitems]. apply in_map. exact Hv.
  - apply in_map_mstr in Hv.
    destruct (range_list_accepted classify _ _ _ _ (or_intror (or_intror (or_introl eq_refl))) Hp) as [Hlen _].
    rewrite Forall_forall in Hlen. apply conforms_task_len; [exact Hty|apply Hlen; exact Hv].
Qed.

Theorem full_task_params : forall classify j t envs vals job,
  decode_job classify j = Ok t -> create_job_full classify envs t vals = Ok job ->
  forall step p ty v, In (step, p, ty, v) (task_values_of classify job) -> conforms_task ty v = true.
Proof.
  intros classify j t envs vals job Hd H step p ty v Hin.
  destruct (full_job_shape classify j t envs vals job Hd H) as [pvals [_ [Hj Hn]]].
  destruct Hj as [n [steps [d [pp [e [-> [Hs _]]]]]]].
  unfold task_values_of in Hin. cbn [model_fields mfield lookup_s String.eqb Ascii.eqb Bool.eqb mitems] in Hin.
  apply in_flat_map in Hin. destruct Hin as [st [Hst Hin]].
  rewrite Forall_forall in Hs. destruct (Hs st Hst) as [sn [sd [sc [se [ps [hr [dp [Est Hps]]]]]]]].
  unfold step_task_values in Hin. rewrite Est in Hin.
  cbn [model_fields mfield lookup_s String.eqb Ascii.eqb Bool.eqb mstr] in Hin.
  destruct Hps as [->|[dd [cb [Eps Hdd]]]]; [destruct Hin|].
  rewrite Eps in Hin. cbn [model_fields mfield lookup_s String.eqb Ascii.eqb Bool.eqb dict_entries] in Hin.
  apply in_flat_map in Hin. destruct Hin as [kv [Hkv Hin]].
  apply in_map_iff in Hin. destruct Hin as [v' [E Hv]]. injection E as _ _ <- <-.
  rewrite Forall_forall in Hdd. pose proof (Hdd kv Hkv) as Hjd.
  assert (Hm : exists c fs, snd kv = MModel c fs) by (inversion Hjd; eexists; eexists; reflexivity).
  destruct Hm as [c [fs Ekv]]. rewrite Ekv in *. cbn [model_fields].
  (* the definition is a node of the Job, so it passed its class *)
  assert (Hnode : In (c, fs) (nodes (MModel "Job" [("name", MStr n); ("steps", MList steps); ("description", d);
                                                    ("parameters", pp); ("jobEnvironments", e)]))).
  { eapply (nodes_field _ _ "steps"); [cbn; tauto|].
    eapply nodes_item; [exact Hst|]. rewrite Est.
    eapply (nodes_field _ _ "parameterSpace"); [cbn; tauto|]. rewrite Eps.
    eapply (nodes_field _ _ "taskParameterDefinitions"); [cbn; tauto|].
    eapply nodes_member; [exact Hkv|]. rewrite Ekv. apply nodes_self. }
  destruct (nodes_ok_all classify _ _ Hn c fs Hnode) as [y Hy].
  eapply def_conforms; eassumption.
Qed.

(* ------------------------------------------------------------------ the readers see everything *)
Lemma forallb_is_mstr : forall ss, forallb is_mstr (map MStr ss) = true.
Proof. induction ss as [|s r IH]; [reflexivity|]. cbn [map forallb is_mstr andb]. exact IH. Qed.

Lemma def_wf_ok : forall classify c fs y,
  jdef (MModel c fs) -> parse_any classify c (export (MModel c fs)) = Ok y -> def_wf classify (MModel c fs) = true.
Proof.
  intros classify c fs y Hj Hp.
  inversion Hj as [ss Ec|r Ec|ss Ec|ty ss Hty Ec]; subst c fs;
    cbn [def_wf mfield lookup_s String.eqb Ascii.eqb Bool.eqb is_mstr andb range_list_class orb];
    try (apply forallb_is_mstr).
  apply range_expr_accepted in Hp. exact Hp.
Qed.

Theorem full_job_wf : forall classify j t envs vals job,
  decode_job classify j = Ok t -> create_job_full classify envs t vals = Ok job -> job_wf classify job = true.
Proof.
  intros classify j t envs vals job Hd H.
  destruct (full_job_shape classify j t envs vals job Hd H) as [pvals [_ [Hj Hn]]].
  destruct Hj as [n [steps [d [pp [e [-> [Hs Hp]]]]]]].
  cbn [job_wf mfield lookup_s String.eqb Ascii.eqb Bool.eqb andb].
  apply andb_true_iff. split.
  - apply forallb_forall. intros st Hst. rewrite Forall_forall in Hs.
    destruct (Hs st Hst) as [sn [sd [sc [se [ps [hr [dp [Est Hps]]]]]]]]. rewrite Est.
    cbn [step_wf mfield lookup_s String.eqb Ascii.eqb Bool.eqb andb is_mstr].
    destruct Hps as [->|[dd [cb [Eps Hdd]]]]; [reflexivity|]. rewrite Eps.
    cbn [space_wf mfield lookup_s String.eqb Ascii.eqb Bool.eqb andb].
    apply forallb_forall. intros kv Hkv. rewrite Forall_forall in Hdd. pose proof (Hdd kv Hkv) as Hjd.
    assert (Hm : exists c fs, snd kv = MModel c fs) by (inversion Hjd; eexists; eexists; reflexivity).
    destruct Hm as [c [fs Ekv]]. rewrite Ekv in *.
    assert (Hnode : In (c, fs) (nodes (MModel "Job" [("name", MStr n); ("steps", MList steps); ("description", d);
                                                      ("parameters", pp); ("jobEnvironments", e)]))).
    { eapply (nodes_field _ _ "steps"); [cbn; tauto|].
      eapply nodes_item; [exact Hst|]. rewrite Est.
      eapply (nodes_field _ _ "parameterSpace"); [cbn; tauto|]. rewrite Eps.
      eapply (nodes_field _ _ "taskParameterDefinitions"); [cbn; tauto|].
      eapply nodes_member; [exact Hkv|]. rewrite Ekv. apply nodes_self. }
    destruct (nodes_ok_all classify _ _ Hn c fs Hnode) as [y Hy].
    eapply def_wf_ok; eassumption.
  - destruct Hp as [->|[pd [-> Hpd]]]; [reflexivity|].
    apply forallb_forall. intros kv Hkv. rewrite Forall_forall in Hpd.
    destruct (Hpd kv Hkv) as [T [dsc [v' [Ey _]]]]. rewrite Ey. reflexivity.
Qed.
