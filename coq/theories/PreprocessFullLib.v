(* PreprocessFullLib.v — two facts the composition of props/C10x.v needs and nothing else provides:
     1. every job parameter definition of an ACCEPTED job / environment template, read by
        CreateJobFull.pdef_of_mval, is [wf_def] (allowedValues non-empty: the conlist(min_items=1) of the
        field; maxLength <> 0: the validator _validate_max_length) — the premise of C10_check_iff and of
        C12_sound / C12_complete, which until now was a hypothesis about the harness' conversion;
     2. the exact shape of CreateJobFull.collect_groups: one group per distinct name, keys distinct, each
        group = the definitions of that name in merge order. *)
From Coq Require Import List NArith ZArith Bool String Lia.
Import ListNotations.
Require Import OJD.Base OJD.Lexer OJD.Json OJD.Schema OJD.Generated OJD.Charsets OJD.Numerals
               OJD.CreateJob OJD.Parse OJD.Validators OJD.Accept OJD.AcceptMono OJD.GlueLib OJD.DecodeInv
               OJD.JobParams OJD.JobParamsSpec OJD.JobParamsProofs OJD.Merge OJD.MergeSpec OJD.MergeProofs
               OJD.CreateJobFull OJD.CreateJobFullProofs OJD.PreprocessFull OJD.PreprocessFullSpec.
Local Open Scope string_scope.
Local Open Scope list_scope.

(* ------------------------------------------------------------------ 1. decoded definitions are wf_def *)

Definition nonempty_list_or_none (x : mval) : Prop := x = MNone \/ exists a l, x = MList (a :: l).

Lemma opt_list_nil : forall (A : Type) (l : list (option A)), opt_list l = Some [] -> l = [].
Proof.
  intros A [|[a|] r] H; [reflexivity| |discriminate H].
  cbn [opt_list] in H. destruct (opt_list r); discriminate H.
Qed.

Lemma rd_list_nonempty : forall (A : Type) (f : mval -> option A) x al,
  nonempty_list_or_none x -> rd_opt (as_list f) x = Ok al -> al <> Some [].
Proof.
  intros A f x al [->|[a [l ->]]] H.
  - injection H as <-. discriminate.
  - unfold rd_opt, as_list in H. destruct (opt_list (map f (a :: l))) as [r|] eqn:E; [|discriminate H].
    injection H as <-. intro K. injection K as ->. apply opt_list_nil in E. discriminate E.
Qed.

(* what [wf_def] needs to know about the fields pdef_of_fields reads *)
Lemma pdef_fields_wf : forall fs d, pdef_of_fields fs = Ok d ->
  nonempty_list_or_none (mfield "allowedValues" fs) ->
  (forall z, mfield "maxLength" fs = MInt z -> z <> 0%Z) ->
  wf_def d.
Proof.
  intros fs d H NE ML. unfold pdef_of_fields in H.
  destruct (mfield "name" fs) as [ | | | | |n| | | | ]; try discriminate H.
  destruct (mfield "type" fs) as [ | | | | |ts| | | | ]; try discriminate H.
  destruct (ptype_of_str ts) as [t|]; [|discriminate H].
  destruct (rd_opt (as_text t) (mfield "default" fs)) as [df|e]; cbn [bind] in H; [|discriminate H].
  destruct (is_numeric t).
  - destruct (rd_opt (as_num t) (mfield "minValue" fs)) as [mn|e]; cbn [bind] in H; [|discriminate H].
    destruct (rd_opt (as_num t) (mfield "maxValue" fs)) as [mx|e]; cbn [bind] in H; [|discriminate H].
    destruct (rd_opt (as_list (as_num t)) (mfield "allowedValues" fs)) as [al|e] eqn:Ea; cbn [bind] in H; [|discriminate H].
    injection H as <-. unfold wf_def. cbn [pallowed_n pallowed_s pmaxlen].
    split; [eapply rd_list_nonempty; eassumption|]. split; discriminate.
  - destruct (rd_opt as_int (mfield "minLength" fs)) as [mn|e]; cbn [bind] in H; [|discriminate H].
    destruct (rd_opt as_int (mfield "maxLength" fs)) as [mx|e] eqn:Em; cbn [bind] in H; [|discriminate H].
    destruct (rd_opt (as_list as_str) (mfield "allowedValues" fs)) as [al|e] eqn:Ea; cbn [bind] in H; [|discriminate H].
    destruct (if ptype_eqb t PATH then rd_opt as_objtype (mfield "objectType" fs) else Ok None) as [ot|e]; cbn [bind] in H; [|discriminate H].
    destruct (if ptype_eqb t PATH then rd_opt as_dataflow (mfield "dataFlow" fs) else Ok None) as [fl|e]; cbn [bind] in H; [|discriminate H].
    injection H as <-. unfold wf_def. cbn [pallowed_n pallowed_s pmaxlen].
    split; [discriminate|]. split; [eapply rd_list_nonempty; eassumption|].
    intro K. subst mx. unfold rd_opt in Em.
    destruct (mfield "maxLength" fs) as [ | |z| | | | | | | ] eqn:Ef; try discriminate Em.
    cbn [as_int] in Em. injection Em as ->. exact (ML 0%Z eq_refl eq_refl).
Qed.

Section Decoded.
  Variable classify : N -> cclass.
  Notation pk := (parse_kind Generated.schema classify pre_hook (post_hook classify)).
  Notation pc := (parse_cls Generated.schema classify pre_hook (post_hook classify)).

  (* a field declared ListOf (Some 1) _ holds None or a non-empty list *)
  Lemma parse_field_nonempty : forall f ms fl y hi,
    f_shape fl = ListOf (Some 1%N) hi -> parse_field (pk f) ms fl = Ok y -> nonempty_list_or_none (snd y).
  Proof.
    intros f ms fl y hi Hs H. unfold parse_field in H.
    destruct (parse_value (pk f) fl (field_raw ms fl)) as [x|e] eqn:Ev; cbn [bind] in H; [|discriminate H].
    injection H as <-. cbn [snd]. unfold parse_value in Ev. rewrite Hs in Ev.
    destruct (field_raw ms fl) as [|b|z|a e|s|items|ms']; cbn [list_items] in Ev; try discriminate Ev.
    - destruct (f_required fl); [discriminate Ev|]. injection Ev as <-. left. reflexivity.
    - destruct (len_ok_n (Some 1%N) hi (List.length items)) eqn:El; [|discriminate Ev].
      destruct items as [|it r].
      + unfold len_ok_n in El. cbn in El. discriminate El.
      + destruct (mapM (pk f (f_kind fl)) (it :: r)) as [l'|e] eqn:Em; cbn [bind] in Ev; [|discriminate Ev].
        injection Ev as <-. apply mapM_cons_ok in Em. destruct Em as [y0 [ys [_ [_ ->]]]].
        right. eexists. eexists. reflexivity.
  Qed.

  Lemma post_string : forall raw fs,
    post_hook classify "JobStringParameterDefinition" raw fs = string_param_ok fs && string_ui_ok fs.
  Proof. reflexivity. Qed.
  Lemma post_path : forall raw fs,
    post_hook classify "JobPathParameterDefinition" raw fs = string_param_ok fs && path_ui_ok fs.
  Proof. reflexivity. Qed.

  Lemma string_param_ok_maxlen : forall fs, string_param_ok fs = true ->
    forall z, mfield "maxLength" fs = MInt z -> z <> 0%Z.
  Proof.
    intros fs H z E. unfold string_param_ok in H.
    apply andb_true_iff in H. destruct H as [H _]. apply andb_true_iff in H. destruct H as [H _].
    apply andb_true_iff in H. destruct H as [H _]. apply andb_true_iff in H. destruct H as [_ H].
    unfold fget in H. rewrite E in H. apply Z.ltb_lt in H. lia.
  Qed.

  Definition fields_wf (y : mval) : Prop :=
    exists c fs, y = MModel c fs /\ nonempty_list_or_none (mfield "allowedValues" fs) /\
                 (forall z, mfield "maxLength" fs = MInt z -> z <> 0%Z).

  (* common opening of the four cases: the concrete field list of the class, each field parsed *)
  Ltac open_cls H :=
    match type of H with context [lookup_cls Generated.schema ?c] =>
      let c0 := fresh "c0" in let El := fresh "El" in
      destruct (lookup_cls Generated.schema c) as [c0|] eqn:El; [|discriminate H];
      vm_compute in El; injection El as <-
    end;
    match type of H with context [negb ?b] => destruct (negb b); [discriminate H|] end;
    match type of H with context [extra_bad ?a ?b] => destruct (extra_bad a b); [discriminate H|] end;
    cbn [c_fields] in H;
    match type of H with context [mapM ?g ?l] =>
      let fields := fresh "fields" in let Em := fresh "Em" in
      destruct (mapM g l) as [fields|?] eqn:Em; cbn [bind] in H; [|discriminate H]
    end.

  Ltac split_field Em y Hy :=
    let r := fresh "r" in
    apply mapM_cons_ok in Em; destruct Em as [y [r [Hy [Em ->]]]].

  Ltac name_field Hy :=
    let N := fresh "N" in
    pose proof (parse_field_name classify _ _ _ _ Hy) as N; cbn [f_name] in N.

  Lemma param_def_fields_wf : forall c', In c' param_classes -> forall f ims y,
    pc f c' (JObj ims) = Ok y -> fields_wf y.
  Proof.
    intros c' Hin f ims y H. destruct f as [|f]; [discriminate H|]. rewrite parse_cls_S in H.
    unfold param_classes in Hin. destruct Hin as [<-|[<-|[<-|[<-|[]]]]]; open_cls H.
    - (* INT: name type userInterface description minValue maxValue allowedValues default *)
      match type of H with context [if ?b then _ else _] => destruct b; [|discriminate H] end. injection H as <-.
      split_field Em y1 H1. split_field Em y2 H2. split_field Em y3 H3. split_field Em y4 H4.
      split_field Em y5 H5. split_field Em y6 H6. split_field Em y7 H7. split_field Em y8 H8. injection Em as <-.
      match type of H7 with parse_field _ _ ?fl = _ => pose proof (parse_field_nonempty _ _ fl _ None eq_refl H7) as NE end.
      name_field H1. name_field H2. name_field H3. name_field H4. name_field H5. name_field H6. name_field H7. name_field H8.
      destruct y1 as [n1 x1], y2 as [n2 x2], y3 as [n3 x3], y4 as [n4 x4], y5 as [n5 x5], y6 as [n6 x6], y7 as [n7 x7], y8 as [n8 x8].
      cbn [fst snd] in *. subst.
      eexists. eexists. split; [reflexivity|]. split.
      + unfold mfield. cbn [lookup_s String.eqb Ascii.eqb Bool.eqb]. exact NE.
      + intros z E. unfold mfield in E. cbn [lookup_s String.eqb Ascii.eqb Bool.eqb] in E. discriminate E.
    - (* FLOAT *)
      match type of H with context [if ?b then _ else _] => destruct b; [|discriminate H] end. injection H as <-.
      split_field Em y1 H1. split_field Em y2 H2. split_field Em y3 H3. split_field Em y4 H4.
      split_field Em y5 H5. split_field Em y6 H6. split_field Em y7 H7. split_field Em y8 H8. injection Em as <-.
      match type of H7 with parse_field _ _ ?fl = _ => pose proof (parse_field_nonempty _ _ fl _ None eq_refl H7) as NE end.
      name_field H1. name_field H2. name_field H3. name_field H4. name_field H5. name_field H6. name_field H7. name_field H8.
      destruct y1 as [n1 x1], y2 as [n2 x2], y3 as [n3 x3], y4 as [n4 x4], y5 as [n5 x5], y6 as [n6 x6], y7 as [n7 x7], y8 as [n8 x8].
      cbn [fst snd] in *. subst.
      eexists. eexists. split; [reflexivity|]. split.
      + unfold mfield. cbn [lookup_s String.eqb Ascii.eqb Bool.eqb]. exact NE.
      + intros z E. unfold mfield in E. cbn [lookup_s String.eqb Ascii.eqb Bool.eqb] in E. discriminate E.
    - (* STRING: name type userInterface description minLength maxLength allowedValues default *)
      rewrite post_string in H.
      match type of H with context [if ?b then _ else _] => destruct b eqn:Ep; [|discriminate H] end. injection H as <-.
      apply andb_true_iff in Ep. destruct Ep as [Ep _].
      split_field Em y1 H1. split_field Em y2 H2. split_field Em y3 H3. split_field Em y4 H4.
      split_field Em y5 H5. split_field Em y6 H6. split_field Em y7 H7. split_field Em y8 H8. injection Em as <-.
      match type of H7 with parse_field _ _ ?fl = _ => pose proof (parse_field_nonempty _ _ fl _ None eq_refl H7) as NE end.
      name_field H1. name_field H2. name_field H3. name_field H4. name_field H5. name_field H6. name_field H7. name_field H8.
      destruct y1 as [n1 x1], y2 as [n2 x2], y3 as [n3 x3], y4 as [n4 x4], y5 as [n5 x5], y6 as [n6 x6], y7 as [n7 x7], y8 as [n8 x8].
      cbn [fst snd] in *. subst.
      eexists. eexists. split; [reflexivity|]. split.
      + unfold mfield. cbn [lookup_s String.eqb Ascii.eqb Bool.eqb]. exact NE.
      + exact (string_param_ok_maxlen _ Ep).
    - (* PATH: name type objectType dataFlow userInterface description minLength maxLength allowedValues default *)
      rewrite post_path in H.
      match type of H with context [if ?b then _ else _] => destruct b eqn:Ep; [|discriminate H] end. injection H as <-.
      apply andb_true_iff in Ep. destruct Ep as [Ep _].
      split_field Em y1 H1. split_field Em y2 H2. split_field Em y3 H3. split_field Em y4 H4. split_field Em y5 H5.
      split_field Em y6 H6. split_field Em y7 H7. split_field Em y8 H8. split_field Em y9 H9. split_field Em y10 H10. injection Em as <-.
      match type of H9 with parse_field _ _ ?fl = _ => pose proof (parse_field_nonempty _ _ fl _ None eq_refl H9) as NE end.
      name_field H1. name_field H2. name_field H3. name_field H4. name_field H5. name_field H6. name_field H7. name_field H8. name_field H9. name_field H10.
      destruct y1 as [n1 x1], y2 as [n2 x2], y3 as [n3 x3], y4 as [n4 x4], y5 as [n5 x5], y6 as [n6 x6], y7 as [n7 x7], y8 as [n8 x8], y9 as [n9 x9], y10 as [n10 x10].
      cbn [fst snd] in *. subst.
      eexists. eexists. split; [reflexivity|]. split.
      + unfold mfield. cbn [lookup_s String.eqb Ascii.eqb Bool.eqb]. exact NE.
      + exact (string_param_ok_maxlen _ Ep).
  Qed.

  Lemma fields_wf_pdef : forall y d, fields_wf y -> pdef_of_mval y = Ok d -> wf_def d.
  Proof.
    intros y d [c [fs [-> [NE ML]]]] H. cbn [pdef_of_mval] in H. eapply pdef_fields_wf; eassumption.
  Qed.

  Lemma disc_param_wf : forall f item y, pk f params_kind item = Ok y -> fields_wf y.
  Proof.
    intros f item y H. destruct f as [|f]; [discriminate H|]. unfold params_kind in H. rewrite parse_kind_S in H. unfold disc_res in H.
    destruct item as [| | | | | |ims]; try discriminate H.
    destruct (assoc (str_of_string "type") ims) as [[| | | |s| |]|] eqn:Ea; try discriminate H.
    destruct (List.find _ _) as [[k' c']|] eqn:Ef; [|discriminate H].
    apply find_some in Ef. destruct Ef as [Hin _].
    assert (Hc : In c' param_classes).
    { destruct Hin as [E|[E|[E|[E|[]]]]]; injection E as <- <-; vm_compute; tauto. }
    exact (param_def_fields_wf c' Hc f ims y H).
  Qed.

  Lemma params_items_wf : forall f items l' ds, mapM (pk f params_kind) items = Ok l' ->
    mapM pdef_of_mval l' = Ok ds -> Forall wf_def ds.
  Proof.
    intros f. induction items as [|item r IH]; intros l' ds H Hd.
    - injection H as <-. injection Hd as <-. constructor.
    - apply mapM_cons_ok in H. destruct H as [y [ys [Hy [Hr ->]]]].
      apply mapM_cons_ok in Hd. destruct Hd as [d [ds' [Hd1 [Hd2 ->]]]].
      constructor; [|eapply IH; eassumption].
      eapply fields_wf_pdef; [eapply disc_param_wf; exact Hy|exact Hd1].
  Qed.

  Lemma params_field_wf : forall f ms fl y ds,
    f_required fl = false -> (exists lo hi, f_shape fl = ListOf lo hi) -> f_kind fl = params_kind ->
    parse_field (pk f) ms fl = Ok y -> defs_of_value (snd y) = Ok ds -> Forall wf_def ds.
  Proof.
    intros f ms fl y ds Hq [lo [hi Hs]] Hk H Hd. unfold parse_field, parse_value in H. rewrite Hq, Hs, Hk in H.
    destruct (field_raw ms fl) as [|b|z|a e|s|items|ms'] eqn:Er; cbn [bind list_items] in H; try discriminate H.
    - injection H as <-. cbn [snd defs_of_value] in Hd. injection Hd as <-. constructor.
    - destruct (len_ok_n lo hi (List.length items)); [|discriminate H].
      destruct (mapM (pk f params_kind) items) as [l'|e] eqn:Em; cbn [bind] in H; [|discriminate H].
      injection H as <-. cbn [snd defs_of_value] in Hd. eapply params_items_wf; eassumption.
  Qed.

  Theorem decode_job_defs_wf : forall j t ds, decode_job classify j = Ok t ->
    defs_of_template t = Ok ds -> Forall wf_def ds.
  Proof.
    intros j t ds H Hd. unfold decode_job in H.
    destruct j as [| | | | | |ms]; try discriminate H.
    destruct (version_ok Generated.job_template_versions (JObj ms)); [|discriminate H].
    unfold parse_template, parse_root in H.
    destruct (parse_fuel (JObj ms)) as [|f]; [discriminate H|].
    rewrite parse_cls_S in H. open_cls H.
    match type of H with context [if ?b then _ else _] => destruct b; [|discriminate H] end. injection H as <-.
    split_field Em y1 H1. split_field Em y2 H2. split_field Em y3 H3. split_field Em y4 H4.
    split_field Em y5 H5. split_field Em y6 H6. split_field Em y7 H7. injection Em as <-.
    name_field H1. name_field H2. name_field H3. name_field H4. name_field H5.
    destruct y1 as [n1 x1], y2 as [n2 x2], y3 as [n3 x3], y4 as [n4 x4], y5 as [n5 x5]. cbn [fst snd] in *. subst.
    unfold defs_of_template, mfield in Hd. cbn [lookup_s String.eqb Ascii.eqb Bool.eqb] in Hd.
    match type of H5 with parse_field _ _ ?fl = _ =>
      exact (params_field_wf f ms fl _ ds eq_refl (ex_intro _ _ (ex_intro _ _ eq_refl)) eq_refl H5 Hd)
    end.
  Qed.

  Theorem decode_env_defs_wf : forall j t ds, decode_env classify j = Ok t ->
    defs_of_template t = Ok ds -> Forall wf_def ds.
  Proof.
    intros j t ds H Hd. unfold decode_env in H.
    destruct j as [| | | | | |ms]; try discriminate H.
    destruct (version_ok Generated.env_template_versions (JObj ms)); [|discriminate H].
    unfold parse_template, parse_root in H.
    destruct (parse_fuel (JObj ms)) as [|f]; [discriminate H|].
    rewrite parse_cls_S in H. open_cls H.
    match type of H with context [if ?b then _ else _] => destruct b; [|discriminate H] end. injection H as <-.
    split_field Em y1 H1. split_field Em y2 H2. split_field Em y3 H3. injection Em as <-.
    name_field H1. name_field H2.
    destruct y1 as [n1 x1], y2 as [n2 x2]. cbn [fst snd] in *. subst.
    unfold defs_of_template, mfield in Hd. cbn [lookup_s String.eqb Ascii.eqb Bool.eqb] in Hd.
    match type of H2 with parse_field _ _ ?fl = _ =>
      exact (params_field_wf f ms fl _ ds eq_refl (ex_intro _ _ (ex_intro _ _ eq_refl)) eq_refl H2 Hd)
    end.
  Qed.
End Decoded.

(* ------------------------------------------------------------------ 2. the groups of merge_job_parameter_definitions *)

(* the definitions named [k], in merge order *)
(* [group_of] is PreprocessFullSpec.group_of *)

Lemma group_of_app : forall k a b, group_of k (a ++ b) = group_of k a ++ group_of k b.
Proof. intros k a b. unfold group_of. apply filter_app. Qed.

Lemma group_add_keys : forall d gs,
  map fst (group_add d gs) = if mem_str (pname d) (map fst gs) then map fst gs else map fst gs ++ [pname d].
Proof.
  intros d. induction gs as [|[k g] r IH]; [reflexivity|].
  cbn [group_add map fst mem_str]. destruct (str_eqb (pname d) k) eqn:E; cbn [orb map fst]; [reflexivity|].
  rewrite IH. destruct (mem_str (pname d) (map fst r)); reflexivity.
Qed.

Lemma nodup_snoc : forall (l : list str) x, NoDup l -> ~ In x l -> NoDup (l ++ [x]).
Proof.
  induction l as [|a r IH]; intros x ND Hx; [constructor; [intros []|constructor]|].
  inversion ND as [|a' r' Ha ND']; subst. cbn [app]. constructor.
  - intro H. apply in_app_or in H. destruct H as [H|[H|[]]]; [exact (Ha H)|]. apply Hx. left. symmetry. exact H.
  - apply IH; [exact ND'|]. intro H. apply Hx. right. exact H.
Qed.

(* where an element of group_add d gs comes from (keys of gs distinct) *)
Lemma group_add_in : forall d gs k g, NoDup (map fst gs) -> In (k, g) (group_add d gs) ->
  (In (k, g) gs /\ str_eqb (pname d) k = false) \/
  (str_eqb (pname d) k = true /\ exists g0, In (k, g0) gs /\ g = g0 ++ [d]) \/
  (k = pname d /\ g = [d] /\ ~ In (pname d) (map fst gs)).
Proof.
  intros d. induction gs as [|[k0 g0] r IH]; intros k g ND H.
  - cbn [group_add] in H. destruct H as [E|[]]. injection E as <- <-. right. right. split; [reflexivity|]. split; [reflexivity|]. intros [].
  - cbn [map fst] in ND. inversion ND as [|a l Hk0 ND']; subst.
    cbn [group_add] in H. destruct (str_eqb (pname d) k0) eqn:E.
    + destruct H as [E'|H].
      * injection E' as <- <-. right. left. split; [exact E|]. exists g0. split; [left; reflexivity|reflexivity].
      * left. split; [right; exact H|].
        apply JobParamsProofs.str_eqb_neq. intro K. apply Hk0. apply JobParamsProofs.str_eqb_eq in E. rewrite <- E, K.
        change k with (fst (k, g)). apply in_map. exact H.
    + destruct H as [E'|H].
      * injection E' as <- <-. left. split; [left; reflexivity|exact E].
      * destruct (IH k g ND' H) as [[H1 H2]|[[H1 [g1 [H2 H3]]]|[H1 [H2 H3]]]].
        -- left. split; [right; exact H1|exact H2].
        -- right. left. split; [exact H1|]. exists g1. split; [right; exact H2|exact H3].
        -- right. right. split; [exact H1|]. split; [exact H2|]. cbn [map fst]. intros [K|K]; [|exact (H3 K)].
           apply JobParamsProofs.str_eqb_neq in E. apply E. symmetry. exact K.
Qed.

(* the invariant of the loop that fills collected_definitions, after the definitions [p] *)
Definition groups_inv (p : list pdef) (gs : list (str * list pdef)) : Prop :=
  NoDup (map fst gs) /\
  (forall k g, In (k, g) gs -> g = group_of k p /\ g <> []) /\
  (forall d, In d p -> In (pname d) (map fst gs)).

Lemma group_add_inv : forall p gs d, groups_inv p gs -> groups_inv (p ++ [d]) (group_add d gs).
Proof.
  intros p gs d [ND [EL CV]]. split; [|split].
  - rewrite group_add_keys. destruct (mem_str (pname d) (map fst gs)) eqn:M; [exact ND|].
    apply nodup_snoc; [exact ND|]. apply JobParamsProofs.mem_str_false. exact M.
  - intros k g H. rewrite group_of_app. unfold group_of at 2. cbn [filter].
    destruct (group_add_in d gs k g ND H) as [[H1 H2]|[[H1 [g1 [H2 H3]]]|[H1 [H2 H3]]]].
    + rewrite H2, app_nil_r. apply EL. exact H1.
    + rewrite H1. destruct (EL k g1 H2) as [-> _]. split; [exact H3|]. subst g. intro K. apply app_eq_nil in K. destruct K as [_ K]. discriminate K.
    + subst k g. rewrite JobParamsProofs.str_eqb_refl. split; [|discriminate].
      assert (Z : group_of (pname d) p = []).
      { unfold group_of. apply JobParamsProofs.filter_nil_iff. intros x Hx. apply JobParamsProofs.str_eqb_neq. intro K.
        apply H3. rewrite <- K. apply CV. exact Hx. }
      rewrite Z. reflexivity.
  - intros x Hx. rewrite group_add_keys. apply in_app_or in Hx.
    destruct (mem_str (pname d) (map fst gs)) eqn:M.
    + destruct Hx as [Hx|[<-|[]]]; [apply CV; exact Hx|]. apply JobParamsProofs.mem_str_In. exact M.
    + apply in_or_app. destruct Hx as [Hx|[<-|[]]]; [left; apply CV; exact Hx|right; left; reflexivity].
Qed.

Lemma collect_inv : forall r p gs, groups_inv p gs ->
  groups_inv (p ++ r) (fold_left (fun gs d => group_add d gs) r gs).
Proof.
  induction r as [|d r IH]; intros p gs H; [rewrite app_nil_r; exact H|].
  cbn [fold_left]. replace (p ++ d :: r) with ((p ++ [d]) ++ r) by (rewrite <- app_assoc; reflexivity).
  apply IH. apply group_add_inv. exact H.
Qed.

Theorem collect_groups_spec : forall ds, groups_inv ds (collect_groups ds).
Proof.
  intros ds. unfold collect_groups. apply (collect_inv ds [] []).
  split; [constructor|]. split; [intros k g []|intros d []].
Qed.
