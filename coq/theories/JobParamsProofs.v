(* JobParamsProofs.v — the model of JobParams.v meets the specification of JobParamsSpec.v. *)
From Coq Require Import List NArith ZArith Bool Lia.
Import ListNotations.
Require Import OJD.Base OJD.Numerals OJD.NumeralsSpec OJD.NumeralsProofs OJD.JobParams OJD.JobParamsSpec.
Local Open Scope Z_scope.

(* ---------- strings, lookup ---------- *)

Lemma str_eqb_eq : forall a b, str_eqb a b = true <-> a = b.
Proof.
  induction a as [|x a IH]; destruct b as [|y b]; cbn; split; intro H; try reflexivity; try discriminate.
  - apply andb_true_iff in H. destruct H as [H1 H2]. apply N.eqb_eq in H1. apply IH in H2. subst. reflexivity.
  - injection H as -> ->. rewrite N.eqb_refl. cbn. apply IH. reflexivity.
Qed.

Lemma str_eqb_refl : forall a, str_eqb a a = true.
Proof. intro a. apply str_eqb_eq. reflexivity. Qed.

Lemma str_eqb_neq : forall a b, str_eqb a b = false <-> a <> b.
Proof.
  intros a b. split.
  - intros H E. apply str_eqb_eq in E. congruence.
  - intro H. destruct (str_eqb a b) eqn:E; [|reflexivity]. apply str_eqb_eq in E. contradiction.
Qed.

Lemma mem_str_In : forall x l, mem_str x l = true <-> In x l.
Proof.
  intros x l. induction l as [|y ys IH]; cbn.
  - split; [discriminate|tauto].
  - rewrite orb_true_iff, IH, str_eqb_eq. split; intros [H|H]; auto.
Qed.

Lemma mem_str_false : forall x l, mem_str x l = false <-> ~ In x l.
Proof.
  intros x l. rewrite <- mem_str_In. destruct (mem_str x l); split; intro H; try reflexivity; try discriminate; try congruence.
Qed.

Lemma lookup_notin : forall {A} k (l : list (str * A)), ~ In k (map fst l) -> lookup k l = None.
Proof.
  intros A k l. induction l as [|[k' v] r IH]; cbn; intro H; [reflexivity|].
  destruct (str_eqb k k') eqn:E.
  - apply str_eqb_eq in E. subst. exfalso. apply H. left. reflexivity.
  - apply IH. intro Hin. apply H. right. exact Hin.
Qed.

Lemma lookup_some_in : forall {A} k (l : list (str * A)) v, lookup k l = Some v -> In k (map fst l).
Proof.
  intros A k l. induction l as [|[k' v'] r IH]; cbn; intros v H; [discriminate|].
  destruct (str_eqb k k') eqn:E.
  - apply str_eqb_eq in E. left. symmetry. exact E.
  - right. eapply IH. exact H.
Qed.

Lemma lookup_in_some : forall {A} k (l : list (str * A)), In k (map fst l) -> exists v, lookup k l = Some v.
Proof.
  intros A k l H. destruct (lookup k l) eqn:E; [eauto|].
  exfalso. revert H E. induction l as [|[k' v'] r IH]; cbn; [tauto|].
  intros [H|H]; destruct (str_eqb k k') eqn:E; try discriminate.
  - subst. rewrite str_eqb_refl in E. discriminate.
  - intro. apply IH; assumption.
Qed.

(* ---------- outcomes of the checks ---------- *)

Definition ve_only {A} (o : outcome A) : Prop := forall e, o = Raise e -> e = ValueError.

Lemma vfail_ok : forall b, vfail b = Ok tt <-> b = false.
Proof. intros []; cbn; split; intro H; try reflexivity; discriminate. Qed.

Lemma vfail_ve : forall b, ve_only (vfail b).
Proof. intros [] e; cbn; intro H; [injection H as <-; reflexivity|discriminate]. Qed.

Lemma ok_ve : forall {A} (a : A), ve_only (Ok a).
Proof. intros A a e H. discriminate. Qed.

Lemma andthen_ok : forall a b, (a ;;; b) = Ok tt <-> a = Ok tt /\ b = Ok tt.
Proof.
  intros [[]|e] b; cbn; split.
  - intro H. split; [reflexivity|exact H].
  - intros [_ H]. exact H.
  - discriminate.
  - intros [H _]. discriminate.
Qed.

Lemma andthen_ve : forall a b, ve_only a -> ve_only b -> ve_only (a ;;; b).
Proof.
  intros [[]|e] b Ha Hb e' H; cbn in H.
  - apply Hb. exact H.
  - apply Ha. exact H.
Qed.

Lemma opt_check_ve : forall {A} (o : option A) (f : A -> bool),
  ve_only (match o with Some x => vfail (f x) | None => Ok tt end).
Proof. intros A [x|] f; [apply vfail_ve|apply ok_ve]. Qed.

(* ---------- the per-type checks ---------- *)

Lemma check_string_iff : forall d v, wf_def d -> (check_string d v = Ok tt <-> string_ok d v).
Proof.
  intros d v [_ [Wa Wm]]. unfold check_string, string_ok.
  rewrite !andthen_ok.
  assert (A : match truthy_list (pallowed_s d) with Some l => vfail (negb (mem_str v l)) | None => Ok tt end = Ok tt
              <-> opt_all (pallowed_s d) (fun l => In v l)).
  { destruct (pallowed_s d) as [[|x l]|]; cbn [truthy_list opt_all].
    - congruence.
    - rewrite vfail_ok, negb_false_iff. apply mem_str_In.
    - tauto. }
  assert (B : match truthy_int (pminlen d) with Some n => vfail (slen v <? n) | None => Ok tt end = Ok tt
              <-> opt_all (pminlen d) (fun n => n <= slen v)).
  { destruct (pminlen d) as [n|]; cbn [truthy_int opt_all]; [|tauto].
    destruct (n =? 0) eqn:E.
    - apply Z.eqb_eq in E. subst. unfold slen. split; intro; [lia|reflexivity].
    - rewrite vfail_ok, Z.ltb_ge. tauto. }
  assert (C : match truthy_int (pmaxlen d) with Some n => vfail (n <? slen v) | None => Ok tt end = Ok tt
              <-> opt_all (pmaxlen d) (fun n => slen v <= n)).
  { destruct (pmaxlen d) as [n|]; cbn [truthy_int opt_all]; [|tauto].
    destruct (n =? 0) eqn:E.
    - apply Z.eqb_eq in E. subst. congruence.
    - rewrite vfail_ok, Z.ltb_ge. tauto. }
  tauto.
Qed.

Lemma check_string_ve : forall d v, ve_only (check_string d v).
Proof. intros d v. unfold check_string. repeat apply andthen_ve; apply opt_check_ve. Qed.

Lemma check_number_iff : forall d x, wf_def d -> (check_number false d x = Ok tt <-> number_ok d x).
Proof.
  intros d x [Wa _]. unfold check_number, number_ok, tested_bound. cbn [andb].
  rewrite !andthen_ok.
  assert (A : match truthy_list (pallowed_n d) with Some l => vfail (negb (mem_num x l)) | None => Ok tt end = Ok tt
              <-> opt_all (pallowed_n d) (fun l => exists y, In y l /\ num_eq x y)).
  { destruct (pallowed_n d) as [[|y l]|]; cbn [truthy_list opt_all].
    - congruence.
    - rewrite vfail_ok, negb_false_iff. apply mem_num_spec.
    - tauto. }
  assert (B : match match pminv d with Some b => Some b | None => None end with Some b => vfail (num_ltb x b) | None => Ok tt end = Ok tt
              <-> opt_all (pminv d) (fun b => num_le b x)).
  { destruct (pminv d) as [b|]; cbn [opt_all]; [|tauto]. rewrite vfail_ok. apply num_ltb_false. }
  assert (C : match match pmaxv d with Some b => Some b | None => None end with Some b => vfail (num_ltb b x) | None => Ok tt end = Ok tt
              <-> opt_all (pmaxv d) (fun b => num_le x b)).
  { destruct (pmaxv d) as [b|]; cbn [opt_all]; [|tauto]. rewrite vfail_ok. apply num_ltb_false. }
  tauto.
Qed.

Lemma check_number_ve : forall p d x, ve_only (check_number p d x).
Proof. intros p d x. unfold check_number. repeat apply andthen_ve; apply opt_check_ve. Qed.

Lemma raise_ve : forall {A}, ve_only (@Raise A ValueError).
Proof. intros A e H. injection H as <-. reflexivity. Qed.

Lemma check_constraints_ve : forall p d v, ve_only (check_constraints p d v).
Proof.
  intros p d v. unfold check_constraints, check_int, check_float.
  destruct (ptyp d); try apply check_string_ve.
  - destruct (parse_int v); [apply check_number_ve|apply raise_ve].
  - destruct (parse_dec v) as [[m e|neg|]|]; try apply raise_ve. apply check_number_ve.
Qed.

(* the per-value half of C10: a check passes exactly when the value satisfies the definition *)
Lemma check_constraints_iff : forall d v, wf_def d -> (check_constraints false d v = Ok tt <-> sat d v).
Proof.
  intros d v W. unfold check_constraints, sat, check_int, check_float.
  destruct (ptyp d).
  - apply check_string_iff. exact W.
  - apply check_string_iff. exact W.
  - destruct (parse_int v) as [z|].
    + rewrite check_number_iff by exact W. split.
      * intro H. exists z. auto.
      * intros [z' [E H]]. injection E as <-. exact H.
    + split; [discriminate|]. intros [z [E _]]. discriminate.
  - destruct (parse_dec v) as [[m e|neg|]|].
    + rewrite check_number_iff by exact W. split.
      * intro H. exists m, e. auto.
      * intros [m' [e' [E H]]]. injection E as <- <-. exact H.
    + split; [discriminate|]. intros [m [e [E _]]]. discriminate.
    + split; [discriminate|]. intros [m [e [E _]]]. discriminate.
    + split; [discriminate|]. intros [m [e [E _]]]. discriminate.
Qed.

Lemma check_constraints_cases : forall p d v,
  check_constraints p d v = Ok tt \/ check_constraints p d v = Raise ValueError.
Proof.
  intros p d v. pose proof (check_constraints_ve p d v) as H.
  destruct (check_constraints p d v) as [[]|e]; [left; reflexivity|right].
  rewrite (H e eq_refl). reflexivity.
Qed.

(* ---------- collecting, checking, preprocessing ---------- *)

Lemma filter_nil_iff : forall {A} (f : A -> bool) l, filter f l = [] <-> forall x, In x l -> f x = false.
Proof.
  intros A f l. induction l as [|a l IH]; cbn.
  - split; [intros _ x []|reflexivity].
  - destruct (f a) eqn:E.
    + split; [discriminate|]. intro H. specialize (H a (or_introl eq_refl)). congruence.
    + rewrite IH. split.
      * intros H x [<-|Hx]; auto.
      * intros H x Hx. apply H. right. exact Hx.
Qed.

Lemma count_if_zero : forall {A} (l : list A), count_if l = O <-> l = [].
Proof. intros A [|a l]; cbn; split; intro H; try reflexivity; discriminate. Qed.

Lemma finish_ok : forall n rv r, finish n rv = Ok r <-> n = O /\ r = rv.
Proof.
  intros [|n] rv r; cbn; split.
  - intro H. injection H as <-. auto.
  - intros [_ ->]. reflexivity.
  - discriminate.
  - intros [H _]. discriminate.
Qed.

Lemma finish_ve : forall n rv, ve_only (finish n rv).
Proof. intros [|n] rv e H; cbn in H; [discriminate|]. injection H as <-. reflexivity. Qed.

Section Pre.
  Variable path_in : str -> str.
  Variable path_default : str -> outcome str.

  (* functional form of the final value of a parameter: None = no value at all *)
  Definition fv (vals : list (str * str)) (d : pdef) : option (outcome str) :=
    match lookup (pname d) vals with
    | Some v => Some (Ok (supplied_value path_in d v))
    | None =>
      match pdefault d with
      | None => None
      | Some t => Some (default_value path_default d t)
      end
    end.

  Lemma final_fv : forall vals d v, final path_in path_default vals d v <-> fv vals d = Some (Ok v).
  Proof.
    intros vals d v. unfold fv, supplied_value, default_value. split.
    - intro H. destruct H as [v0 H0|t H0 H1 H2|t v0 H0 H1 H2 H3].
      + rewrite H0. reflexivity.
      + rewrite H0, H1, H2. reflexivity.
      + rewrite H0, H1, H2, H3. reflexivity.
    - destruct (lookup (pname d) vals) as [v0|] eqn:L.
      + intro H. injection H as <-. apply final_supplied. exact L.
      + destruct (pdefault d) as [t|] eqn:D; [|discriminate].
        destruct (is_path d && negb (is_nil t)) eqn:C; intro H.
        * injection H as H. eapply final_default_path; eauto.
        * injection H as <-. apply final_default_plain; assumption.
  Qed.

  Definition entry_of (vals : list (str * str)) (d : pdef) : list entry :=
    match fv vals d with
    | Some (Ok v) => [(pname d, (ptyp d, v))]
    | _ => []
    end.

  Definition entries (vals : list (str * str)) (defs : list pdef) : list entry :=
    flat_map (entry_of vals) defs.

  Lemma collect_loop_spec : forall defs vals,
    match collect_loop path_in path_default defs vals with
    | Ok rv => rv = entries vals defs /\ (forall d e, In d defs -> fv vals d <> Some (Raise e))
    | Raise e => exists d, In d defs /\ fv vals d = Some (Raise e)
    end.
  Proof.
    intros defs vals. induction defs as [|d ds IH]; cbn [collect_loop].
    - split; [reflexivity|]. intros d e [].
    - unfold entries. cbn [flat_map]. unfold entry_of at 1. unfold fv at 1.
      destruct (lookup (pname d) vals) as [v|] eqn:L.
      + destruct (collect_loop path_in path_default ds vals) as [r|e]; cbn [bind].
        * destruct IH as [-> IH]. split; [reflexivity|].
          intros d' e [<-|Hd]; [|apply IH; exact Hd]. unfold fv. rewrite L. discriminate.
        * destruct IH as [d' [Hd Hf]]. exists d'. split; [right; exact Hd|exact Hf].
      + destruct (pdefault d) as [t|] eqn:D.
        * destruct (default_value path_default d t) as [v|e] eqn:V; cbn [bind].
          -- destruct (collect_loop path_in path_default ds vals) as [r|e]; cbn [bind].
             ++ destruct IH as [-> IH]. split; [reflexivity|].
                intros d' e [<-|Hd]; [|apply IH; exact Hd]. unfold fv. rewrite L, D, V. discriminate.
             ++ destruct IH as [d' [Hd Hf]]. exists d'. split; [right; exact Hd|exact Hf].
          -- exists d. split; [left; reflexivity|]. unfold fv. rewrite L, D, V. reflexivity.
        * destruct (collect_loop path_in path_default ds vals) as [r|e].
          -- destruct IH as [-> IH]. split; [reflexivity|].
             intros d' e [<-|Hd]; [|apply IH; exact Hd]. unfold fv. rewrite L, D. discriminate.
          -- destruct IH as [d' [Hd Hf]]. exists d'. split; [right; exact Hd|exact Hf].
  Qed.

  Lemma entry_of_names : forall vals d e, In e (entry_of vals d) -> fst e = pname d.
  Proof.
    intros vals d e. unfold entry_of. destruct (fv vals d) as [[v|x]|]; cbn; try tauto.
    intros [<-|[]]. reflexivity.
  Qed.

  Lemma entries_names : forall vals defs n, In n (map fst (entries vals defs)) -> In n (map pname defs).
  Proof.
    intros vals defs n H. apply in_map_iff in H. destruct H as [e [<- He]].
    unfold entries in He. apply in_flat_map in He. destruct He as [d [Hd He]].
    apply entry_of_names in He. rewrite He. apply in_map. exact Hd.
  Qed.

  Lemma lookup_app : forall {A} k (l1 l2 : list (str * A)),
    lookup k (l1 ++ l2) = match lookup k l1 with Some v => Some v | None => lookup k l2 end.
  Proof.
    intros A k l1 l2. induction l1 as [|[k' v] r IH]; cbn; [reflexivity|].
    destruct (str_eqb k k'); [reflexivity|exact IH].
  Qed.

  Lemma lookup_entry_of_other : forall vals d n, n <> pname d -> lookup n (entry_of vals d) = None.
  Proof.
    intros vals d n H. unfold entry_of. destruct (fv vals d) as [[v|x]|]; cbn; try reflexivity.
    apply str_eqb_neq in H. rewrite H. reflexivity.
  Qed.

  Lemma lookup_entry_of_self : forall vals d,
    lookup (pname d) (entry_of vals d) = match fv vals d with Some (Ok v) => Some (ptyp d, v) | _ => None end.
  Proof.
    intros vals d. unfold entry_of. destruct (fv vals d) as [[v|x]|]; cbn; try reflexivity.
    rewrite str_eqb_refl. reflexivity.
  Qed.

  Lemma lookup_entries : forall vals defs d, NoDup (map pname defs) -> In d defs ->
    lookup (pname d) (entries vals defs) = match fv vals d with Some (Ok v) => Some (ptyp d, v) | _ => None end.
  Proof.
    intros vals defs d. induction defs as [|d0 ds IH]; cbn [map]; intros ND Hd; [destruct Hd|].
    inversion ND as [|x l Hnot ND' E]; subst.
    unfold entries. cbn [flat_map]. rewrite lookup_app. fold (entries vals ds).
    destruct Hd as [->|Hd].
    - rewrite lookup_entry_of_self.
      destruct (fv vals d) as [[v|x]|]; try reflexivity.
      all: apply lookup_notin; intro H; apply entries_names in H; contradiction.
    - rewrite lookup_entry_of_other.
      + apply IH; assumption.
      + intro E. apply Hnot. rewrite <- E. apply in_map. exact Hd.
  Qed.

  Lemma check_loop_total : forall p defs rv, exists n, check_loop p defs rv = Ok n.
  Proof.
    intros p defs rv. induction defs as [|d ds [n IH]]; cbn [check_loop]; [eauto|].
    destruct (lookup (pname d) rv) as [[t v]|]; [|eauto].
    destruct (check_constraints_cases p d v) as [-> | ->]; [eauto|].
    rewrite IH. cbn. eauto.
  Qed.

  Lemma check_loop_zero : forall p defs rv,
    check_loop p defs rv = Ok O <->
    (forall d t v, In d defs -> lookup (pname d) rv = Some (t, v) -> check_constraints p d v = Ok tt).
  Proof.
    intros p defs rv. induction defs as [|d ds IH]; cbn [check_loop].
    - split; [intros _ d t v []|reflexivity].
    - destruct (lookup (pname d) rv) as [[t v]|] eqn:L.
      + destruct (check_constraints_cases p d v) as [E|E]; rewrite E.
        * rewrite IH. split.
          -- intros H d' t' v' [<-|Hd] L'; [|eapply H; eauto]. rewrite L in L'. injection L' as <- <-. exact E.
          -- intros H d' t' v' Hd L'. eapply H; [right; exact Hd|exact L'].
        * split.
          -- destruct (check_loop p ds rv); cbn; discriminate.
          -- intro H. specialize (H d t v (or_introl eq_refl) L). congruence.
      + rewrite IH. split.
        * intros H d' t' v' [<-|Hd] L'; [congruence|eapply H; eauto].
        * intros H d' t' v' Hd L'. eapply H; [right; exact Hd|exact L'].
  Qed.

  Lemma check_all_cases : forall p defs rv,
    (check_all p defs rv = Ok tt /\ check_loop p defs rv = Ok O) \/
    (check_all p defs rv = Raise ValueError /\ exists n, check_loop p defs rv = Ok (S n)).
  Proof.
    intros p defs rv. unfold check_all. destruct (check_loop_total p defs rv) as [[|n] E]; rewrite E; cbn; [left|right]; eauto.
  Qed.

  Lemma fv_raise : forall vals d e, fv vals d = Some (Raise e) <->
    exists t, lookup (pname d) vals = None /\ pdefault d = Some t /\
              is_path d && negb (is_nil t) = true /\ path_default t = Raise e.
  Proof.
    intros vals d e. unfold fv, default_value. split.
    - destruct (lookup (pname d) vals); [discriminate|].
      destruct (pdefault d) as [t|]; [|discriminate].
      destruct (is_path d && negb (is_nil t)) eqn:C; [|discriminate].
      intro H. injection H as H. exists t. auto.
    - intros [t [-> [-> [-> ->]]]]. reflexivity.
  Qed.

  Lemma fv_none : forall vals d, fv vals d = None <-> lookup (pname d) vals = None /\ pdefault d = None.
  Proof.
    intros vals d. unfold fv. destruct (lookup (pname d) vals); [split; [discriminate|intros [H _]; discriminate]|].
    destruct (pdefault d); split; try discriminate; auto. intros [_ H]. discriminate.
  Qed.

  (* the acceptance condition of the specification, in terms of [fv] *)
  Lemma spec_fv : forall defs vals,
    (no_missing defs vals /\ path_defaults_ok path_default defs vals) <->
    (forall d, In d defs -> exists v, fv vals d = Some (Ok v)).
  Proof.
    intros defs vals. split.
    - intros [NM PD] d Hd. destruct (fv vals d) as [[v|e]|] eqn:F; [eauto| |].
      + exfalso. apply fv_raise in F. destruct F as [t [L [D [C P]]]].
        destruct (PD d t Hd L D C) as [v P']. congruence.
      + exfalso. apply fv_none in F. destruct F as [L D].
        destruct (NM d Hd D) as [v L']. congruence.
    - intro H. split.
      + intros d Hd D. destruct (H d Hd) as [v F]. unfold fv in F.
        destruct (lookup (pname d) vals) as [v'|]; [eauto|]. rewrite D in F. discriminate.
      + intros d t Hd L D C. destruct (H d Hd) as [v F]. unfold fv, default_value in F.
        rewrite L, D, C in F. injection F as F. eauto.
  Qed.

  Lemma extra_nil : forall defs vals, collect_extra defs vals = [] <-> no_extra defs vals.
  Proof.
    intros defs vals. unfold collect_extra, no_extra. rewrite filter_nil_iff. split.
    - intros H k Hk. specialize (H k Hk). apply negb_false_iff in H. apply mem_str_In. exact H.
    - intros H k Hk. apply negb_false_iff. apply mem_str_In. auto.
  Qed.

  Lemma missing_nil : forall defs vals, NoDup (map pname defs) ->
    (collect_missing defs (entries vals defs) = [] <-> forall d, In d defs -> exists v, fv vals d = Some (Ok v)).
  Proof.
    intros defs vals ND. unfold collect_missing. rewrite filter_nil_iff. split.
    - intros H d Hd. specialize (H (pname d) (in_map pname _ _ Hd)).
      apply negb_false_iff in H. apply mem_str_In in H.
      apply lookup_in_some in H. destruct H as [[t v] L].
      rewrite (lookup_entries vals defs d ND Hd) in L.
      destruct (fv vals d) as [[v'|e]|]; try discriminate. eauto.
    - intros H n Hn. apply in_map_iff in Hn. destruct Hn as [d [<- Hd]].
      apply negb_false_iff. apply mem_str_In.
      destruct (H d Hd) as [v F].
      apply lookup_some_in with (v := (ptyp d, v)).
      rewrite (lookup_entries vals defs d ND Hd), F. reflexivity.
  Qed.

  Lemma checks_sat : forall defs vals, Forall wf_def defs -> NoDup (map pname defs) ->
    (check_loop false defs (entries vals defs) = Ok O <-> all_sat path_in path_default defs vals).
  Proof.
    intros defs vals W ND. rewrite check_loop_zero. unfold all_sat. rewrite Forall_forall in W. split.
    - intros H d v Hd F. apply check_constraints_iff; [apply W; exact Hd|].
      apply final_fv in F. apply (H d (ptyp d) v Hd).
      rewrite (lookup_entries vals defs d ND Hd), F. reflexivity.
    - intros H d t v Hd L. rewrite (lookup_entries vals defs d ND Hd) in L.
      destruct (fv vals d) as [[v'|e]|] eqn:F; try discriminate. injection L as <- <-.
      apply check_constraints_iff; [apply W; exact Hd|]. apply H; [exact Hd|]. apply final_fv. exact F.
  Qed.

  (* C10: success exactly under the three conditions, and then the result is [entries] *)
  Theorem preprocess_ok_iff : forall defs vals r,
    Forall wf_def defs -> NoDup (map pname defs) ->
    (preprocess false true path_in path_default defs vals = Ok r <->
     r = entries vals defs /\
     no_extra defs vals /\ no_missing defs vals /\ path_defaults_ok path_default defs vals /\
     all_sat path_in path_default defs vals).
  Proof.
    intros defs vals r W ND. unfold preprocess.
    destruct defs as [|d0 ds] eqn:Edefs.
    - rewrite finish_ok, count_if_zero, extra_nil. cbn [entries flat_map]. split.
      + intros [H ->]. repeat split; try exact H.
        * intros d [].
        * intros d t [].
        * intros d v [].
      + intros [-> [H _]]. auto.
    - rewrite <- Edefs in *. unfold collect_defaults.
      pose proof (collect_loop_spec defs vals) as CL.
      destruct (collect_loop path_in path_default defs vals) as [rv|e].
      + destruct CL as [-> NR].
        destruct (check_all_cases false defs (entries vals defs)) as [[-> CZ]|[-> [n CS]]].
        * rewrite finish_ok. rewrite Nat.eq_add_0, !count_if_zero, extra_nil.
          rewrite (missing_nil defs vals ND). rewrite <- (checks_sat defs vals W ND).
          rewrite <- (spec_fv defs vals). split.
          -- intros [[H1 [H2 H3]] ->]. auto 10.
          -- intros [-> [H1 [H2 [H3 _]]]]. auto.
        * split.
          -- intro H. apply finish_ok in H. destruct H as [H _]. lia.
          -- intros [_ [_ [_ [_ H]]]]. apply (checks_sat defs vals W ND) in H. congruence.
      + destruct CL as [d [Hd F]]. split.
        * intro H. exfalso. destruct e; try discriminate H. apply finish_ok in H. destruct H as [H _]. lia.
        * intros [_ [_ [NM [PD _]]]]. exfalso.
          assert (S : forall d, In d defs -> exists v, fv vals d = Some (Ok v)) by (apply spec_fv; auto).
          destruct (S d Hd) as [v F']. congruence.
  Qed.

  Lemma entries_forall2 : forall vals defs,
    (forall d, In d defs -> exists v, fv vals d = Some (Ok v)) ->
    Forall2 (fun d (e : entry) => fst e = pname d /\ fst (snd e) = ptyp d /\
                                  final path_in path_default vals d (snd (snd e)))
            defs (entries vals defs).
  Proof.
    intros vals defs. induction defs as [|d ds IH]; intro H; [constructor|].
    unfold entries. cbn [flat_map]. fold (entries vals ds).
    destruct (H d (or_introl eq_refl)) as [v F]. unfold entry_of. rewrite F. cbn [app].
    constructor.
    - cbn. repeat split. apply final_fv. exact F.
    - apply IH. intros d' Hd'. apply H. right. exact Hd'.
  Qed.

  Theorem preprocess_result : forall defs vals r,
    Forall wf_def defs -> NoDup (map pname defs) ->
    preprocess false true path_in path_default defs vals = Ok r ->
    Forall2 (fun d (e : entry) => fst e = pname d /\ fst (snd e) = ptyp d /\
                                  final path_in path_default vals d (snd (snd e)))
            defs r.
  Proof.
    intros defs vals r W ND H. apply preprocess_ok_iff in H; try assumption.
    destruct H as [-> [_ [NM [PD _]]]]. apply entries_forall2. apply spec_fv. auto.
  Qed.

  (* every failure is a ValueError, whatever the definitions and for either setting of
     [dir_ok], provided the PATH join itself only fails with ValueError (C11) *)
  Theorem preprocess_error : forall dir_ok defs vals e,
    (forall t e', path_default t = Raise e' -> e' = ValueError) ->
    preprocess false dir_ok path_in path_default defs vals = Raise e -> e = ValueError.
  Proof.
    intros dir_ok defs vals e PV. unfold preprocess.
    destruct defs as [|d0 ds] eqn:Edefs.
    - apply finish_ve.
    - rewrite <- Edefs. clear Edefs.
      assert (CD : forall x, collect_defaults dir_ok path_in path_default defs vals = Raise x -> x = ValueError).
      { unfold collect_defaults. destruct dir_ok.
        - intros x Hx. pose proof (collect_loop_spec defs vals) as CL. rewrite Hx in CL.
          destruct CL as [d [_ F]]. apply fv_raise in F. destruct F as [t [_ [_ [_ P]]]]. eapply PV. exact P.
        - intros x Hx. injection Hx as <-. reflexivity. }
      destruct (collect_defaults dir_ok path_in path_default defs vals) as [rv|x].
      + destruct (check_all_cases false defs rv) as [[-> _]|[-> _]]; apply finish_ve.
      + rewrite (CD x eq_refl). apply finish_ve.
  Qed.
  Theorem preprocess_iff : forall defs vals,
    Forall wf_def defs -> NoDup (map pname defs) ->
    ((exists r, preprocess false true path_in path_default defs vals = Ok r) <->
     no_extra defs vals /\ no_missing defs vals /\ path_defaults_ok path_default defs vals /\
     all_sat path_in path_default defs vals).
  Proof.
    intros defs vals W ND. split.
    - intros [r H]. apply preprocess_ok_iff in H; try assumption. tauto.
    - intro H. exists (entries vals defs). apply preprocess_ok_iff; try assumption. tauto.
  Qed.

  Theorem preprocess_names : forall defs vals r,
    Forall wf_def defs -> NoDup (map pname defs) ->
    preprocess false true path_in path_default defs vals = Ok r ->
    map fst r = map pname defs.
  Proof.
    intros defs vals r W ND H. pose proof (preprocess_result defs vals r W ND H) as F.
    clear W ND H. induction F as [|d e ds es [E _] _ IH]; [reflexivity|]. cbn [map]. rewrite E, IH. reflexivity.
  Qed.

  Theorem preprocess_lookup : forall defs vals r d,
    Forall wf_def defs -> NoDup (map pname defs) ->
    preprocess false true path_in path_default defs vals = Ok r -> In d defs ->
    exists v, lookup (pname d) r = Some (ptyp d, v) /\ final path_in path_default vals d v.
  Proof.
    intros defs vals r d W ND H Hd. apply preprocess_ok_iff in H; try assumption.
    destruct H as [-> [_ [NM [PD _]]]].
    assert (S : forall d, In d defs -> exists v, fv vals d = Some (Ok v)) by (apply spec_fv; auto).
    destruct (S d Hd) as [v F]. exists v. split.
    - rewrite (lookup_entries vals defs d ND Hd), F. reflexivity.
    - apply final_fv. exact F.
  Qed.

  (* supplied values win and are returned as given; defaults otherwise (PATH joining aside) *)
  Theorem preprocess_supplied : forall defs vals r d v,
    Forall wf_def defs -> NoDup (map pname defs) ->
    preprocess false true path_in path_default defs vals = Ok r -> In d defs ->
    is_path d = false -> lookup (pname d) vals = Some v ->
    lookup (pname d) r = Some (ptyp d, v).
  Proof.
    intros defs vals r d v W ND H Hd NP L.
    destruct (preprocess_lookup defs vals r d W ND H Hd) as [v' [L' F]].
    rewrite L'. apply final_fv in F. unfold fv, supplied_value in F. rewrite L, NP in F. cbn in F.
    injection F as <-. reflexivity.
  Qed.

  Theorem preprocess_defaulted : forall defs vals r d t,
    Forall wf_def defs -> NoDup (map pname defs) ->
    preprocess false true path_in path_default defs vals = Ok r -> In d defs ->
    is_path d = false -> lookup (pname d) vals = None -> pdefault d = Some t ->
    lookup (pname d) r = Some (ptyp d, t).
  Proof.
    intros defs vals r d t W ND H Hd NP L D.
    destruct (preprocess_lookup defs vals r d W ND H Hd) as [v' [L' F]].
    rewrite L'. apply final_fv in F. unfold fv, default_value in F. rewrite L, D, NP in F. cbn in F.
    injection F as <-. reflexivity.
  Qed.
End Pre.
