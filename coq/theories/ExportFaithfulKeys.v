(* ExportFaithfulKeys.v — C17 "faithful": the export of a document with distinct member names has distinct member
   names ([keys_ok], DeepKeyOrder.v), so the decision procedure [jequivb] (ExportFaithfulDec.v) — the function
   the harness runs — returns true on (document, export of its decoded model):

     export_keys_ok       parse_kind / parse_cls f .. v = Ok x -> keys_ok v -> keys_ok (exp x)      (any schema with
                          distinct names and aliases)
     faithful_decided     keys_ok j -> parse_any classify root j = Ok v -> jequivb j (export v) = true
   Lemmas only. *)
From Coq Require Import List NArith ZArith Bool String Lia Arith.
Import ListNotations.
Require Import OJD.Base OJD.Lexer OJD.Json OJD.Schema OJD.Generated OJD.Charsets OJD.Numerals OJD.NumPrint
               OJD.CreateJob OJD.Parse OJD.Validators OJD.Accept OJD.Export OJD.DeepKeyOrder OJD.ExportProofs
               OJD.ExportFaithful OJD.ExportFaithfulNum OJD.ExportFaithfulProofs OJD.ExportFaithfulDec.
Local Open Scope string_scope.
Local Open Scope list_scope.

Lemma mem_str_true_In : forall x l, mem_str x l = true -> In x l.
Proof.
  induction l as [|y r IH]; intros H; [discriminate|].
  cbn [mem_str] in H. apply orb_true_iff in H. destruct H as [H|H].
  - apply str_eqb_eq' in H. subst y. left. reflexivity.
  - right. apply IH. exact H.
Qed.

Lemma emit_nodupb : forall (g : mval -> json) (l : list (field * mval)),
  NoDup (map (fun p => f_alias (fst p)) l) -> nodupb (map fst (emit g l)) = true.
Proof.
  induction l as [|[fl x] r IH]; intros Hnd; [reflexivity|].
  cbn [map fst] in Hnd. inversion Hnd as [|a l' Hnotin Hnd']. subst a l'.
  specialize (IH Hnd'). unfold emit. cbn [flat_map snd fst]. fold (emit g r).
  assert (Hhead : nodupb ($(f_alias fl) :: map fst (emit g r)) = true).
  { cbn [nodupb]. rewrite IH. rewrite andb_true_r. apply negb_true_iff.
    destruct (mem_str $(f_alias fl) (map fst (emit g r))) eqn:Em; [|reflexivity]. exfalso.
    apply mem_str_true_In in Em. apply in_map_iff in Em. destruct Em as [kv [Ek Hkv]].
    destruct (emit_keys _ _ _ Hkv) as [p [Hp Hk]]. rewrite Ek in Hk. apply str_of_string_inj in Hk.
    apply Hnotin. rewrite Hk. apply (in_map (fun p => f_alias (fst p)) r p). exact Hp. }
  destruct x; cbn [app map fst]; try exact Hhead. exact IH.
Qed.

Lemma emit_values : forall (g : mval -> json) (l : list (field * mval)) kv,
  In kv (emit g l) -> exists fl y, In (fl, y) l /\ mnone y = false /\ snd kv = g y.
Proof.
  intros g l kv H. unfold emit in H. apply in_flat_map in H. destruct H as [[fl y] [Hp Hin]].
  exists fl, y. split; [exact Hp|]. cbn [snd fst] in Hin.
  destruct y; cbn in Hin; try contradiction; destruct Hin as [Hin|[]]; subst kv; split; reflexivity.
Qed.

Section KStep.
  Variable SC : schema_t.
  Variable classify : N -> cclass.
  Variable pre : string -> json -> bool.
  Variable post : string -> json -> list (string * mval) -> bool.
  Hypothesis Hsc : faithful_schema_ok SC = true.

  Notation EXP := (exp SC).

  Variable pk : kind -> json -> outcome mval.
  Variable pc : string -> json -> outcome mval.
  Hypothesis NNk : forall k v x, pk k v = Ok x -> no_none_items x = true.
  Hypothesis IHk : forall k v x, pk k v = Ok x -> keys_ok v = true -> keys_ok (EXP x) = true.
  Hypothesis IHc : forall c v x, pc c v = Ok x -> keys_ok v = true -> keys_ok (EXP x) = true.

  Lemma sval_keys_ok : forall x, sval x = true -> keys_ok (EXP x) = true.
  Proof. intros x H. destruct x; try discriminate; reflexivity. Qed.

  Lemma list_value_k : forall minl maxl k v x,
    list_value pk minl maxl k v = Ok x -> keys_ok v = true -> keys_ok (EXP x) = true.
  Proof.
    intros minl maxl k v x H Hk. unfold list_value in H. destruct v as [| | | | |items|]; try discriminate.
    destruct (len_ok_n minl maxl (List.length items)); [|discriminate].
    destruct (mapM (pk k) items) as [l'|] eqn:E; [|discriminate]. cbn [bind] in H. inversion H. subst x.
    apply mapM_Forall2 in E. rewrite exp_list. cbn [keys_ok] in *.
    clear H. induction E as [|a b l l' Hab _ IH]; [reflexivity|].
    cbn [forallb] in Hk. apply andb_true_iff in Hk. destruct Hk as [Ha Hr].
    cbn [map forallb]. rewrite (IHk _ _ _ Hab Ha). cbn [andb]. apply IH. exact Hr.
  Qed.

  Lemma try_alts_k : forall alts v x,
    try_alts pk alts v = Ok x -> keys_ok v = true -> keys_ok (EXP x) = true.
  Proof.
    induction alts as [|a r IH]; intros v x H Hk; [discriminate|].
    cbn [try_alts] in H. destruct (alt_value pk a v) as [y|e] eqn:E.
    - inversion H. subst y. destruct a; cbn [alt_value] in E; [eapply IHk|eapply list_value_k]; eassumption.
    - destruct e; try discriminate; eapply IH; eassumption.
  Qed.

  Lemma kind_body_k : forall k v x,
    kind_body classify pk pc k v = Ok x -> keys_ok v = true -> keys_ok (EXP x) = true.
  Proof.
    intros k v x H Hk. destruct k; try (apply sval_keys_ok; eapply scalar_body_sval; exact H).
    - eapply IHc; eassumption.
    - cbn [kind_body] in H. unfold disc_value in H. destruct v; try discriminate.
      destruct (assoc $key members) as [[| | | |s| |]|]; try discriminate.
      destruct (List.find _ mapping) as [[t c]|]; [|discriminate]. eapply IHc; eassumption.
    - eapply try_alts_k; eassumption.
  Qed.

  Lemma dict_value_k : forall kk k v x,
    dict_value pk kk k v = Ok x -> keys_ok v = true -> keys_ok (EXP x) = true.
  Proof.
    intros kk k v x H Hk. unfold dict_value in H.
    destruct v as [| | | | | |members]; try discriminate.
    destruct (mapM (dict_member pk kk k) members) as [l'|] eqn:E; [|discriminate]. cbn [bind] in H.
    inversion H. subst x. clear H. apply mapM_Forall2 in E.
    cbn [keys_ok] in Hk. apply andb_true_iff in Hk. destruct Hk as [Hnd Hvals].
    assert (Hm : Forall2 (fun a b => fst a = fst b /\ mnone (snd b) = false
                                     /\ (keys_ok (snd a) = true -> keys_ok (EXP (snd b)) = true)) members l').
    { clear Hnd Hvals. induction E as [|a b l l' Hab _ IH]; [constructor|].
      constructor; [|exact IH].
      unfold dict_member in Hab. destruct (pk kk (JStr (fst a))) as [w|]; [|discriminate]. cbn [bind] in Hab.
      destruct (pk k (snd a)) as [y|] eqn:Ey; [|discriminate]. cbn [bind] in Hab. inversion Hab. subst b.
      cbn [fst snd]. split; [reflexivity|]. split; [apply nn_not_none; eapply NNk; exact Ey|].
      intros Ha. eapply IHk; eassumption. }
    rewrite exp_dict.
    2:{ intros kv Hkv. destruct (Forall2_in_r _ _ _ _ _ _ Hm Hkv) as [a [_ [_ [Hnn _]]]]. exact Hnn. }
    cbn [keys_ok]. rewrite map_map. cbn [fst].
    assert (Ekeys : map (fun x : str * mval => fst x) l' = map fst members).
    { clear - Hm. induction Hm as [|a b l l' [E1 _] _ IH]; [reflexivity|]. cbn [map]. rewrite IH, E1. reflexivity. }
    rewrite Ekeys. rewrite Hnd. cbn [andb].
    clear Ekeys Hnd E. induction Hm as [|a b l l' [_ [_ E3]] _ IH]; [reflexivity|].
    cbn [forallb] in Hvals. apply andb_true_iff in Hvals. destruct Hvals as [Ha Hr].
    cbn [map forallb snd]. rewrite (E3 Ha). cbn [andb]. apply IH. exact Hr.
  Qed.

  Lemma shape_value_k : forall fl raw x,
    shape_value pk fl raw = Ok x -> keys_ok raw = true -> keys_ok (EXP x) = true.
  Proof.
    intros fl raw x H Hk. unfold shape_value in H.
    destruct (f_shape fl); [eapply IHk|eapply list_value_k|eapply dict_value_k]; eassumption.
  Qed.

  Lemma cls_body_k : forall c v x,
    cls_body SC pre post pk c v = Ok x -> keys_ok v = true -> keys_ok (EXP x) = true.
  Proof.
    intros c v x H Hk.
    destruct (cls_body_inv _ _ _ _ c v x H) as [k [ms [vals [Hl [Ev [_ [_ [Hf [Ex _]]]]]]]]].
    destruct (cls_ok_f SC Hsc c k Hl) as [_ [Hn1 Hn2]].
    assert (Hlen : List.length vals = List.length (c_fields k)) by (symmetry; eapply Forall2_length'; exact Hf).
    subst v. subst x. rewrite (exp_model SC c k vals Hl Hn1 Hlen).
    assert (Hal : NoDup (map (fun p : field * mval => f_alias (fst p)) (combine (c_fields k) vals))).
    { rewrite <- (map_map fst f_alias). rewrite map_fst_combine by exact Hlen. exact Hn2. }
    cbn [keys_ok] in Hk |- *. apply andb_true_iff in Hk. destruct Hk as [_ Hvals].
    rewrite forallb_forall in Hvals.
    rewrite (emit_nodupb EXP _ Hal). cbn [andb]. rewrite forallb_forall. intros kv Hkv.
    destruct (emit_values _ _ _ Hkv) as [fl [y [Hy [Hnn Ev]]]]. rewrite Ev.
    pose proof (Forall2_combine_in _ _ _ _ _ _ _ Hf Hy) as Hfv. cbn beta in Hfv.
    apply field_value_some in Hfv; [|exact Hnn].
    eapply shape_value_k; [exact Hfv|].
    unfold raw_of. destruct (assoc $(f_alias fl) ms) as [raw|] eqn:Ea; [|reflexivity].
    apply assoc_in_key in Ea. apply (Hvals _ Ea).
  Qed.
End KStep.

Section KMain.
  Variable SC : schema_t.
  Variable classify : N -> cclass.
  Variable pre : string -> json -> bool.
  Variable post : string -> json -> list (string * mval) -> bool.
  Hypothesis Hsc : faithful_schema_ok SC = true.

  Theorem export_keys_ok : forall f,
    (forall k v x, parse_kind SC classify pre post f k v = Ok x -> keys_ok v = true -> keys_ok (exp SC x) = true)
    /\ (forall c v x, parse_cls SC classify pre post f c v = Ok x -> keys_ok v = true -> keys_ok (exp SC x) = true).
  Proof.
    induction f as [|f [IHk IHc]]; [split; intros; discriminate|].
    destruct (parse_nn SC classify pre post f) as [NNk _].
    split.
    - intros k v x H Hk. rewrite parse_kind_S in H. eapply kind_body_k; eassumption.
    - intros c v x H Hk. rewrite parse_cls_S in H. eapply cls_body_k; eassumption.
  Qed.
End KMain.

Theorem export_keys_ok_live : forall classify root j v,
  keys_ok j = true -> parse_any classify root j = Ok v -> keys_ok (export v) = true.
Proof.
  intros classify root j v Hk H. unfold parse_any in H. rewrite export_exp.
  destruct (export_keys_ok Generated.schema classify (pre_full classify (parse_fuel j)) (post_hook classify)
                           generated_faithful_ok (parse_fuel j)) as [_ Hc].
  eapply Hc; eassumption.
Qed.

(* what the harness computes is what the theorem says *)
Theorem faithful_decided : forall classify root j v,
  keys_ok j = true -> parse_any classify root j = Ok v -> jequivb j (export v) = true.
Proof.
  intros classify root j v Hk H. apply jequivb_complete; [exact Hk| |].
  - eapply export_keys_ok_live; eassumption.
  - eapply faithful_any. exact H.
Qed.
