(* ScopeWalk.v — generic model of src/openjd/model/_internal/_variable_reference_validation.py:
   the pre-validation walk that checks every '{{ name }}' reference of a template against the
   symbols visible at that location.  It interprets a [schema_t] value (the translator's
   Generated.schema), so it runs the metadata the code has NOW.  Definitions only.

   [refs] is the format-string front end (FormatString(value).expressions -> names):
   None = malformed string (the walker then reports nothing; pydantic flags it later). *)
From Coq Require Import List NArith ZArith Bool String.
Import ListNotations.
Require Import OJD.Base OJD.Json OJD.Schema.
Local Open Scope string_scope.
Local Open Scope list_scope.

(* ScopedSymtabs: one symbol set per resolution scope *)
Record symtabs : Type := mkST { st_template : list str; st_session : list str; st_task : list str }.
Definition st_empty : symtabs := mkST [] [] [].
Definition st_union (a b : symtabs) : symtabs :=
  mkST (st_template a ++ st_template b) (st_session a ++ st_session b) (st_task a ++ st_task b).
Definition st_get (sc : scope) (s : symtabs) : list str :=
  match sc with TEMPLATE => st_template s | SESSION => st_session s | TASK => st_task s end.

(* _add_symbol *)
Definition add_symbol (into : symtabs) (sc : scope) (name : str) : symtabs :=
  match sc with
  | TEMPLATE => mkST (name :: st_template into) (name :: st_session into) (name :: st_task into)
  | SESSION => mkST (st_template into) (name :: st_session into) (name :: st_task into)
  | TASK => mkST (st_template into) (st_session into) (name :: st_task into)
  end.

Inductive locitem : Type := LKey (k : str) | LIdx (i : nat).
Definition loc : Type := list locitem.

Inductive werr : Type :=
| ERef (l : loc) (name : str)   (* "Variable <name> does not exist at this location." at l *)
| EFuel.                        (* model ran out of fuel: excluded by theorem, never produced *)

Definition kind_is_literal (k : kind) : bool := match k with KLiteral _ => true | _ => false end.

(* symbol name from a prefix entry: "|X" is absolute, otherwise nested under symbol_prefix *)
Definition sym_name (symbol_prefix : str) (entry : string) (name : str) : str :=
  if starts_with_bar entry then str_of_string (drop1 entry) ++ name
  else symbol_prefix ++ str_of_string entry ++ name.

(* _get_model_for_singleton_value for a discriminated union *)
Definition resolve_disc (key : string) (mapping : list (string * string)) (v : json) : option string :=
  match jget key v with
  | JStr s =>
    match s with
    | [] => None
    | _ => (fix find (m : list (string * string)) : option string :=
              match m with
              | [] => None
              | (kv, c) :: r => if str_eqb (str_of_string kv) s then Some c else find r
              end) mapping
    end
  | _ => None
  end.

Definition srcs_of (c : cls) (dest : string) : list string :=
  match lookup_s dest (c_sources c) with Some l => l | None => [] end.

Definition gather (syms : list (string * symtabs)) (sources : list string) : symtabs :=
  fold_left (fun acc s => match lookup_s s syms with Some t => st_union acc t | None => acc end)
            sources st_empty.

Section Walk.
  Variable SC : schema_t.
  Variable refs : str -> option (list str).

  (* ---------------- _collect_variable_definitions / _collect_singleton ---------------- *)
  (* result: Some (mapping source-name -> symtabs) ; None = out of fuel *)
  Fixpoint collect (fuel : nat) (cname : string) (values : json) (sc : scope) (prefix : str)
    : option (list (string * symtabs)) :=
    match fuel with
    | O => None
    | Datatypes.S f =>
      match lookup_cls SC cname with
      | None => Some []
      | Some c =>
        let d := c_defs c in
        (* the variable this object itself defines *)
        let self0 :=
          if String.eqb (d_field d) "" then st_empty
          else match jget (d_field d) values with
               | JStr ((_ :: _) as name) =>
                 fold_left (fun acc pr => add_symbol acc (snd pr) (sym_name prefix (fst pr) name))
                           (d_defines d) st_empty
               | _ => st_empty
               end in
        let self1 :=
          fold_left (fun acc inj => add_symbol acc sc (sym_name prefix inj [])) (d_inject d) self0 in
        (* exported symbols of one singleton value *)
        let single (k : kind) (v : json) : option symtabs :=
          match v with
          | JObj _ =>
            let target := match k with
                          | KModel cn => Some cn
                          | KDisc key mapping => resolve_disc key mapping v
                          | _ => None
                          end in
            match target with
            | None => Some st_empty
            | Some cn =>
              match lookup_cls SC cn with
              | None => Some st_empty
              | Some c' =>
                match lookup_s "__export__" (c_sources c') with
                | None => Some st_empty
                | Some _ =>
                  match collect f cn v sc prefix with
                  | None => None
                  | Some m => Some (match lookup_s "__export__" m with Some t => t | None => st_empty end)
                  end
                end
              end
            end
          | _ => Some st_empty
          end in
        let per_field :=
          fold_left
            (fun (acc : option (list (string * symtabs))) (fl : field) =>
               match acc with
               | None => None
               | Some m =>
                 let v := jget (f_name fl) values in
                 if is_null v then Some m
                 else if kind_is_literal (f_kind fl) then Some m
                 else match f_shape fl with
                      | Single =>
                        match single (f_kind fl) v with
                        | None => None
                        | Some t => Some (m ++ [(f_name fl, t)])
                        end
                      | ListOf _ _ =>
                        match v with
                        | JArr items =>
                          match fold_left (fun (a : option symtabs) item =>
                                             match a with
                                             | None => None
                                             | Some t => match single (f_kind fl) item with
                                                         | None => None
                                                         | Some t' => Some (st_union t t')
                                                         end
                                             end) items (Some st_empty) with
                          | None => None
                          | Some t => Some (m ++ [(f_name fl, t)])
                          end
                        | _ => Some m
                        end
                      | DictOf _ => Some m
                      end
               end)
            (c_fields c) (Some [("__self__", self1)]) in
        match per_field with
        | None => None
        | Some m => Some (m ++ [("__export__", gather m (srcs_of c "__export__"))])
        end
      end
    end.

  (* ---------------- _check_format_string ---------------- *)
  Definition check_fs (value : str) (sc : scope) (syms : symtabs) (l : loc) : list werr :=
    match refs value with
    | None => []
    | Some names =>
      flat_map (fun n => if mem_str n (st_get sc syms) then [] else [ERef l n]) names
    end.

  (* ---------------- _validate_singleton / _validate_general_union /
                      _validate_model_template_variable_references ---------------- *)
  Fixpoint vsingle (fuel : nat) (k : kind) (v : json) (sc : scope) (prefix : str)
           (syms : symtabs) (l : loc) {struct fuel} : list werr :=
    match fuel with
    | O => [EFuel]
    | Datatypes.S f =>
      match k with
      | KUnion alts =>
        flat_map (fun a =>
                    match a with
                    | UScalar k' => vsingle f k' v sc prefix syms l
                    | UList _ _ k' =>
                      match v with
                      | JArr items => flat_map (fun item => vsingle f k' item sc prefix syms l) items
                      | _ => []
                      end
                    end) alts
      | KDisc key mapping =>
        match v with
        | JObj _ => match resolve_disc key mapping v with
                    | Some cn => walk f cn v sc prefix syms l
                    | None => []
                    end
        | _ => []
        end
      | KFormat _ _ _ _ => match v with JStr s => check_fs s sc syms l | _ => [] end
      | KModel cn => match v with JObj _ => walk f cn v sc prefix syms l | _ => [] end
      | _ => []
      end
    end
  with walk (fuel : nat) (cname : string) (values : json) (sc0 : scope) (prefix0 : str)
            (syms : symtabs) (l : loc) {struct fuel} : list werr :=
    match fuel with
    | O => [EFuel]
    | Datatypes.S f =>
      match lookup_cls SC cname with
      | None => []
      | Some c =>
        let sc := match c_scope c with Some s => s | None => sc0 end in
        let dp := d_prefix (c_defs c) in
        let prefix := if starts_with_bar dp then str_of_string (drop1 dp)
                      else prefix0 ++ str_of_string dp in
        match collect f cname values sc prefix with
        | None => [EFuel]
        | Some value_symbols =>
          flat_map
            (fun fl =>
               let v := jget (f_name fl) values in
               if is_null v then []
               else if kind_is_literal (f_kind fl) then []
               else
                 let vs := st_union (gather value_symbols (srcs_of c (f_name fl))) syms in
                 match f_shape fl with
                 | Single => vsingle f (f_kind fl) v sc prefix vs (l ++ [LKey (str_of_string (f_name fl))])
                 | ListOf _ _ =>
                   match v with
                   | JArr items =>
                     List.concat (List.map (fun iv => vsingle f (f_kind fl) (snd iv) sc prefix vs
                                                    (l ++ [LKey (str_of_string (f_name fl)); LIdx (fst iv)]))
                                 (combine (seq 0 (List.length items)) items))
                   | _ => []
                   end
                 | DictOf _ =>
                   match v with
                   | JObj members =>
                     List.concat (List.map (fun kv => vsingle f (f_kind fl) (snd kv) sc prefix vs
                                                    (l ++ [LKey (str_of_string (f_name fl)); LKey (fst kv)]))
                                 members)
                   | _ => []
                   end
                 end)
            (c_fields c)
        end
      end
    end.

  (* prevalidate_model_template_variable_references(cls, values) *)
  Definition walk_fuel (j : json) : nat := 4 * json_depth j + 8.

  Definition prevalidate (root : string) (j : json) : list werr :=
    walk (walk_fuel j) root j TEMPLATE [] st_empty [].
End Walk.
