(* NumRoundtrip.v — numeral round trips used by C17:
     parse_int (print_Z z) = Some z            (int(str(z)) == z)
     parse_dec (print_dec m e) = Some (Fin m e) (Decimal(str(d)) == d, same coefficient and exponent)
   for ALL z, m, e.  Lemmas only; models are Numerals.v / NumPrint.v. *)
From Coq Require Import List NArith ZArith Bool Lia ZifyBool Arith.
Import ListNotations.
Require Import OJD.Base OJD.Numerals OJD.NumPrint.
Require OJD.NumeralsProofs.   (* the digit lemmas only (qualified: that file has its own printer) *)
Ltac Zify.zify_post_hook ::= Z.to_euclidean_division_equations.

(* value of a digit string read left to right, starting from [acc] *)
Definition dval (acc : Z) (ds : str) : Z := fold_left (fun a c => (a * 10 + digit_val c)%Z) ds acc.

Definition all_digits (ds : str) : bool := forallb is_digit ds.

Lemma dval_app : forall x y a, dval a (x ++ y) = dval (dval a x) y.
Proof. intros. unfold dval. apply fold_left_app. Qed.

Lemma dval_cons : forall c r a, dval a (c :: r) = dval (a * 10 + digit_val c)%Z r.
Proof. reflexivity. Qed.

Lemma is_digit_char : forall d, (d < 10)%N -> is_digit (48 + d) = true.
Proof. intros d H. unfold is_digit. lia. Qed.

(* (for d < 10 only: 48 + d may be a digit of another script, with another value) *)
Lemma digit_val_char : forall d, (d < 10)%N -> digit_val (48 + d) = Z.of_N d.
Proof.
  intros d H. rewrite NumeralsProofs.digit_val_ascii_eq by (unfold is_digit_ascii; lia).
  unfold digit_val_ascii. lia.
Qed.

(* ---------------- digits_of_N ---------------- *)

Lemma digits_fuel_S : forall f n acc,
  digits_fuel (S f) n acc =
  if N.eqb (n / 10) 0 then (48 + n mod 10)%N :: acc
  else digits_fuel f (n / 10) ((48 + n mod 10)%N :: acc).
Proof. reflexivity. Qed.

Lemma digits_fuel_spec : forall f n acc,
  (n < 2 ^ N.of_nat (S f))%N ->
  exists ds, digits_fuel (S f) n acc = ds ++ acc /\ all_digits ds = true /\ ds <> []
             /\ dval 0 ds = Z.of_N n.
Proof.
  induction f as [|f IH]; intros n acc Hn.
  - (* n < 2 *)
    rewrite digits_fuel_S. assert (Hq : (n / 10 = 0)%N) by (change (2 ^ N.of_nat 1)%N with 2%N in Hn; lia).
    rewrite Hq. cbn [N.eqb]. exists [(48 + n mod 10)%N]. split; [reflexivity|].
    split; [unfold all_digits; cbn [forallb]; rewrite is_digit_char; [reflexivity|lia]|]. split; [discriminate|].
    unfold dval; cbn [fold_left]. rewrite digit_val_char by lia. lia.
  - rewrite digits_fuel_S. destruct (N.eqb (n / 10) 0) eqn:Eq.
    + apply N.eqb_eq in Eq. exists [(48 + n mod 10)%N]. split; [reflexivity|].
      split; [unfold all_digits; cbn [forallb]; rewrite is_digit_char; [reflexivity|lia]|]. split; [discriminate|].
      unfold dval; cbn [fold_left]. rewrite digit_val_char by lia. lia.
    + apply N.eqb_neq in Eq.
      assert (Hq : (n / 10 < 2 ^ N.of_nat (S f))%N).
      { rewrite Nat2N.inj_succ in Hn. rewrite N.pow_succ_r' in Hn.
        remember (2 ^ N.of_nat (S f))%N as P. lia. }
      destruct (IH (n / 10)%N ((48 + n mod 10)%N :: acc) Hq) as [ds [E [Hd [Hne Hv]]]].
      exists (ds ++ [(48 + n mod 10)%N]). split; [rewrite E, <- app_assoc; reflexivity|].
      split.
      { unfold all_digits in *. rewrite forallb_app, Hd. cbn [forallb andb]. rewrite is_digit_char; [reflexivity|lia]. }
      split; [destruct ds; discriminate|].
      rewrite dval_app, Hv. unfold dval; cbn [fold_left]. rewrite digit_val_char by lia. lia.
Qed.

Lemma digits_of_N_spec : forall n,
  all_digits (digits_of_N n) = true /\ digits_of_N n <> [] /\ dval 0 (digits_of_N n) = Z.of_N n.
Proof.
  intros n. unfold digits_of_N.
  destruct (digits_fuel_spec (N.to_nat (N.size n)) n []) as [ds [E [Hd [Hne Hv]]]].
  - rewrite Nat2N.inj_succ, N2Nat.id, N.pow_succ_r'. pose proof (N.size_gt n). lia.
  - rewrite E, app_nil_r. auto.
Qed.

(* ---------------- reading digits ---------------- *)

Definition stops (rest : str) : bool := match rest with [] => true | c :: _ => negb (is_digit c) end.

Lemma take_digits_app : forall ds acc k rest,
  all_digits ds = true -> stops rest = true ->
  take_digits acc k (ds ++ rest) = (dval acc ds, (k + Z.of_nat (length ds))%Z, rest).
Proof.
  induction ds as [|c ds IH]; intros acc k rest Hd Hs.
  - cbn [app length dval fold_left]. replace (k + Z.of_nat 0)%Z with k by lia.
    destruct rest as [|c r]; [reflexivity|]. cbn in Hs. cbn [take_digits].
    destruct (is_digit c); [discriminate|reflexivity].
  - cbn in Hd. apply andb_true_iff in Hd. destruct Hd as [Hc Hd].
    cbn [app take_digits]. rewrite Hc. rewrite IH by assumption. rewrite dval_cons.
    f_equal. f_equal. cbn [length]. lia.
Qed.

Lemma take_digits_all : forall ds acc k,
  all_digits ds = true -> take_digits acc k ds = (dval acc ds, (k + Z.of_nat (length ds))%Z, []).
Proof.
  intros ds acc k Hd. rewrite <- (app_nil_r ds) at 1. apply take_digits_app; [exact Hd|reflexivity].
Qed.

Lemma int_digits_all : forall ds acc prev,
  all_digits ds = true -> ds <> [] -> int_digits acc prev ds = Some (dval acc ds).
Proof.
  induction ds as [|c ds IH]; intros acc prev Hd Hne; [contradiction|].
  cbn in Hd. apply andb_true_iff in Hd. destruct Hd as [Hc Hd].
  cbn [int_digits]. rewrite Hc. rewrite dval_cons. destruct ds as [|c' ds'].
  - reflexivity.
  - apply IH; [exact Hd|discriminate].
Qed.

(* ---------------- the characters a printed number is made of ---------------- *)

Definition okc (c : N) : bool :=
  is_digit c || (c =? 45)%N || (c =? 46)%N || (c =? 69)%N || (c =? 43)%N.

Lemma okc_not_int_space : forall c, okc c = true -> int_space c = false.
Proof. intros c H. unfold okc, is_digit in H. unfold int_space, uni_space. lia. Qed.

Lemma okc_not_dec_space : forall c, okc c = true -> dec_space c = false.
Proof. intros c H. unfold okc, is_digit in H. unfold dec_space, int_space, uni_space. lia. Qed.

Lemma okc_not_underscore : forall c, okc c = true -> negb (c =? 95)%N = true.
Proof. intros c H. unfold okc, is_digit in H. lia. Qed.

Lemma digit_okc : forall c, is_digit c = true -> okc c = true.
Proof. intros c H. unfold okc. rewrite H. reflexivity. Qed.

Lemma all_digits_okc : forall ds, all_digits ds = true -> forallb okc ds = true.
Proof.
  intros ds H. unfold all_digits in H. rewrite forallb_forall in *. intros c Hc. apply digit_okc. apply H. exact Hc.
Qed.

Lemma drop_while_head : forall p s, match s with [] => True | c :: _ => p c = false end -> drop_while p s = s.
Proof. intros p [|c r] H; [reflexivity|]. cbn. rewrite H. reflexivity. Qed.

Lemma strip_id : forall p s, (forall c, In c s -> p c = false) -> strip p s = s.
Proof.
  intros p s H. unfold strip.
  rewrite (drop_while_head p s).
  - rewrite (drop_while_head p (rev s)); [apply rev_involutive|].
    destruct (rev s) as [|c r] eqn:E; [exact I|]. apply H. apply in_rev. rewrite E. left. reflexivity.
  - destruct s as [|c r]; [exact I|]. apply H. left. reflexivity.
Qed.

Lemma filter_id : forall (p : N -> bool) s, (forall c, In c s -> p c = true) -> filter p s = s.
Proof.
  induction s as [|c r IH]; intros H; [reflexivity|]. cbn. rewrite (H c (or_introl eq_refl)).
  rewrite IH; [reflexivity|]. intros c' Hc'. apply H. right. exact Hc'.
Qed.

(* ---------------- int(str(z)) ---------------- *)

Lemma split_sign_digit : forall c r, is_digit c = true -> split_sign (c :: r) = (false, c :: r).
Proof.
  intros c r H. unfold split_sign. unfold is_digit in H.
  assert (E1 : (c =? 43)%N = false) by lia. assert (E2 : (c =? 45)%N = false) by lia.
  rewrite E1, E2. reflexivity.
Qed.

Lemma split_sign_minus : forall r, split_sign (45%N :: r) = (true, r).
Proof. reflexivity. Qed.

Lemma split_sign_plus : forall r, split_sign (43%N :: r) = (false, r).
Proof. reflexivity. Qed.

Lemma head_digit : forall ds, all_digits ds = true -> ds <> [] -> exists c r, ds = c :: r /\ is_digit c = true.
Proof.
  intros [|c r] Hd Hne; [contradiction|]. cbn in Hd. apply andb_true_iff in Hd. exists c, r. tauto.
Qed.

Theorem parse_int_print_Z : forall z, parse_int (print_Z z) = Some z.
Proof.
  intros z. unfold parse_int.
  assert (Hok : forallb okc (print_Z z) = true).
  { destruct z as [|p|p]; [reflexivity| |].
    - apply all_digits_okc. apply digits_of_N_spec.
    - cbn [print_Z forallb]. rewrite all_digits_okc by apply digits_of_N_spec. reflexivity. }
  rewrite strip_id.
  2:{ intros c Hc. apply okc_not_int_space. rewrite forallb_forall in Hok. apply Hok. exact Hc. }
  destruct z as [|p|p].
  - reflexivity.
  - cbn [print_Z]. destruct (digits_of_N_spec (Npos p)) as [Hd [Hne Hv]].
    destruct (head_digit _ Hd Hne) as [c [r [E Hc]]]. rewrite E. rewrite split_sign_digit by exact Hc.
    rewrite <- E. rewrite int_digits_all by assumption. rewrite Hv. reflexivity.
  - cbn [print_Z]. unfold minus_c. rewrite split_sign_minus.
    destruct (digits_of_N_spec (Npos p)) as [Hd [Hne Hv]].
    rewrite int_digits_all by assumption. rewrite Hv. reflexivity.
Qed.

(* ---------------- Decimal(str(d)) ---------------- *)

Lemma dval_zeros : forall k a, dval a (zeros k) = (a * 10 ^ Z.of_nat k)%Z.
Proof.
  induction k as [|k IH]; intros a.
  - cbn. lia.
  - unfold zeros. cbn [repeat]. rewrite dval_cons. fold (zeros k). rewrite IH.
    change (digit_val zero_c) with 0%Z. rewrite Nat2Z.inj_succ, Z.pow_succ_r by lia. ring.
Qed.

Lemma all_digits_zeros : forall k, all_digits (zeros k) = true.
Proof. induction k as [|k IH]; [reflexivity|]. unfold zeros. cbn [repeat]. unfold all_digits. cbn [forallb]. exact IH. Qed.

Lemma length_zeros : forall k, length (zeros k) = k.
Proof. intros k. apply repeat_length. Qed.

Lemma all_digits_app : forall x y, all_digits (x ++ y) = all_digits x && all_digits y.
Proof. intros. apply forallb_app. Qed.

Lemma all_digits_firstn : forall k ds, all_digits ds = true -> all_digits (firstn k ds) = true.
Proof.
  intros k ds H. unfold all_digits in *. rewrite forallb_forall in *. intros c Hc. apply H.
  rewrite <- (firstn_skipn k ds). apply in_or_app. left. exact Hc.
Qed.

Lemma all_digits_skipn : forall k ds, all_digits ds = true -> all_digits (skipn k ds) = true.
Proof.
  intros k ds H. unfold all_digits in *. rewrite forallb_forall in *. intros c Hc. apply H.
  rewrite <- (firstn_skipn k ds). apply in_or_app. right. exact Hc.
Qed.

(* a string that starts with a digit is no "inf" / "nan" / "snan" *)
Lemma parse_unsigned_num : forall neg c t ip ni r1 m nf r2 x,
  is_digit c = true ->
  take_digits 0 0 (c :: t) = (ip, ni, r1) ->
  take_fraction ip r1 = (m, nf, r2) ->
  (ni + nf <> 0)%Z ->
  take_exponent r2 = Some x ->
  parse_unsigned neg (c :: t) = Some (Fin (if neg then Z.opp m else m) (x - nf)).
Proof.
  intros neg c t ip ni r1 m nf r2 x Hc Ht Hf Hn Hx. unfold parse_unsigned.
  assert (Hl : lower c = c). { unfold lower. unfold is_digit in Hc. assert (E : ((65 <=? c) && (c <=? 90))%N = false) by lia. rewrite E. reflexivity. }
  cbn [map]. rewrite Hl.
  assert (E1 : str_eqb (c :: map lower t) s_inf = false).
  { unfold s_inf. cbn [str_eqb]. unfold is_digit in Hc. assert (E : (c =? 105)%N = false) by lia. rewrite E. reflexivity. }
  assert (E2 : str_eqb (c :: map lower t) s_infinity = false).
  { unfold s_infinity. cbn [str_eqb]. unfold is_digit in Hc. assert (E : (c =? 105)%N = false) by lia. rewrite E. reflexivity. }
  assert (E3 : is_prefix s_nan (c :: map lower t) = false).
  { unfold s_nan. cbn [is_prefix]. unfold is_digit in Hc. assert (E : (110 =? c)%N = false) by lia. rewrite E. reflexivity. }
  assert (E4 : is_prefix s_snan (c :: map lower t) = false).
  { unfold s_snan. cbn [is_prefix]. unfold is_digit in Hc. assert (E : (115 =? c)%N = false) by lia. rewrite E. reflexivity. }
  rewrite E1, E2, E3, E4. cbn [orb]. rewrite Ht, Hf.
  destruct (ni + nf =? 0)%Z eqn:E; [lia|]. rewrite Hx. reflexivity.
Qed.

(* the exponent suffix "E[+-]ddd" *)
Definition exp_part (ex : Z) : str :=
  if (ex =? 0)%Z then []
  else [69%N] ++ (if (ex <? 0)%Z then [minus_c] else [43%N]) ++ digits_of_N (Z.abs_N ex).

Lemma take_exponent_exp_part : forall ex, take_exponent (exp_part ex) = Some ex.
Proof.
  intros ex. unfold exp_part. destruct (ex =? 0)%Z eqn:E0; [cbn; f_equal; lia|].
  destruct (digits_of_N_spec (Z.abs_N ex)) as [Hd [Hne Hv]].
  cbn [app take_exponent]. cbn [N.eqb Pos.eqb orb].
  destruct (ex <? 0)%Z eqn:En.
  - unfold minus_c. cbn [app]. rewrite split_sign_minus. rewrite take_digits_all by exact Hd. rewrite Hv.
    destruct (digits_of_N (Z.abs_N ex)) as [|c r]; [contradiction|].
    assert (El : (0 + Z.of_nat (length (c :: r)) =? 0)%Z = false) by (cbn [length]; lia).
    rewrite El. cbn. f_equal. lia.
  - cbn [app]. rewrite split_sign_plus. rewrite take_digits_all by exact Hd. rewrite Hv.
    destruct (digits_of_N (Z.abs_N ex)) as [|c r]; [contradiction|].
    assert (El : (0 + Z.of_nat (length (c :: r)) =? 0)%Z = false) by (cbn [length]; lia).
    rewrite El. cbn. f_equal. lia.
Qed.

Lemma exp_part_stops : forall ex, stops (exp_part ex) = true.
Proof. intros ex. unfold exp_part. destruct (ex =? 0)%Z; reflexivity. Qed.

Lemma exp_part_no_dot : forall ex ip, take_fraction ip (exp_part ex) = (ip, 0%Z, exp_part ex).
Proof. intros ex ip. unfold exp_part. destruct (ex =? 0)%Z; reflexivity. Qed.

Lemma exp_part_okc : forall ex, forallb okc (exp_part ex) = true.
Proof.
  intros ex. unfold exp_part. destruct (ex =? 0)%Z; [reflexivity|].
  rewrite !forallb_app. rewrite (all_digits_okc _ (proj1 (digits_of_N_spec _))).
  destruct (ex <? 0)%Z; reflexivity.
Qed.

(* the digits part of str(Decimal): [ds] = coefficient digits, [dp] = position of the point *)
Definition dec_body (ds : str) (dp : Z) : str :=
  let nd := Z.of_nat (length ds) in
  if (dp <=? 0)%Z then [zero_c; dot_c] ++ zeros (Z.to_nat (- dp)) ++ ds
  else if (nd <=? dp)%Z then ds ++ zeros (Z.to_nat (dp - nd))
  else firstn (Z.to_nat dp) ds ++ [dot_c] ++ skipn (Z.to_nat dp) ds.

Lemma print_dec_eq : forall m e,
  print_dec m e =
  let ds := digits_of_N (Z.abs_N m) in
  let nd := Z.of_nat (length ds) in
  let lead := (e + nd)%Z in
  let dp := if ((e <=? 0) && (-6 <? lead))%Z then lead else 1%Z in
  (if (m <? 0)%Z then [minus_c] else []) ++ dec_body ds dp ++ exp_part (lead - dp).
Proof. reflexivity. Qed.

Lemma dot_not_digit : is_digit dot_c = false.
Proof. reflexivity. Qed.

(* reading the body back: coefficient value, number of fraction digits *)
Lemma dec_body_read : forall ds dp rest,
  all_digits ds = true -> ds <> [] -> stops rest = true ->
  (forall ip, take_fraction ip rest = (ip, 0%Z, rest)) ->
  (dp <= Z.of_nat (length ds) \/ dp = 1)%Z ->
  exists c t ip ni r1,
    dec_body ds dp ++ rest = c :: t /\ is_digit c = true /\
    take_digits 0 0 (c :: t) = (ip, ni, r1) /\
    take_fraction ip r1 = (dval 0 ds, (if (dp <=? 0)%Z then Z.of_nat (length ds) - dp
                                       else if (Z.of_nat (length ds) <=? dp)%Z then 0
                                       else Z.of_nat (length ds) - dp)%Z, rest) /\
    (0 < ni)%Z.
Proof.
  intros ds dp rest Hd Hne Hs Hf Hdp. unfold dec_body.
  destruct (dp <=? 0)%Z eqn:E1.
  - (* 0.000ddd *)
    exists zero_c, ([dot_c] ++ zeros (Z.to_nat (- dp)) ++ ds ++ rest), 0%Z, 1%Z,
           ([dot_c] ++ zeros (Z.to_nat (- dp)) ++ ds ++ rest).
    split; [cbn [app]; rewrite <- !app_assoc; reflexivity|]. split; [reflexivity|]. split; [reflexivity|].
    split; [|lia].
    cbn [app take_fraction]. change (dot_c =? 46)%N with true. cbv iota.
    rewrite app_assoc. rewrite take_digits_app; [|rewrite all_digits_app, all_digits_zeros, Hd; reflexivity|exact Hs].
    rewrite dval_app, dval_zeros. rewrite app_length, length_zeros.
    f_equal. f_equal. lia.
  - destruct (Z.of_nat (length ds) <=? dp)%Z eqn:E2.
    + (* ddd *)
      assert (Hz : Z.to_nat (dp - Z.of_nat (length ds)) = 0%nat).
      { destruct ds as [|c0 r0]; [contradiction|]. cbn [length] in *. lia. }
      rewrite Hz. cbn [zeros repeat]. rewrite app_nil_r.
      destruct (head_digit _ Hd Hne) as [c [r [E Hc]]].
      exists c, (r ++ rest), (dval 0 ds), (0 + Z.of_nat (length ds))%Z, rest.
      split; [rewrite E; reflexivity|]. split; [exact Hc|].
      split; [change (c :: r ++ rest) with ((c :: r) ++ rest); rewrite <- E; apply take_digits_app; assumption|].
      split; [apply Hf|]. destruct ds; [contradiction|cbn [length]; lia].
    + (* dd.ddd *)
      assert (Hk : (0 < Z.to_nat dp < length ds)%nat) by lia.
      assert (Hd1 : all_digits (firstn (Z.to_nat dp) ds) = true) by (apply all_digits_firstn; exact Hd).
      assert (Hd2 : all_digits (skipn (Z.to_nat dp) ds) = true) by (apply all_digits_skipn; exact Hd).
      assert (Hne1 : firstn (Z.to_nat dp) ds <> []).
      { intros Ec. apply (f_equal (@length N)) in Ec. rewrite firstn_length in Ec. cbn in Ec. lia. }
      destruct (head_digit _ Hd1 Hne1) as [c [r [E Hc]]].
      exists c, (r ++ [dot_c] ++ skipn (Z.to_nat dp) ds ++ rest), (dval 0 (firstn (Z.to_nat dp) ds)),
             (0 + Z.of_nat (length (firstn (Z.to_nat dp) ds)))%Z, ([dot_c] ++ skipn (Z.to_nat dp) ds ++ rest).
      split; [rewrite E; cbn [app]; rewrite <- !app_assoc; reflexivity|]. split; [exact Hc|].
      split.
      { change (c :: r ++ [dot_c] ++ skipn (Z.to_nat dp) ds ++ rest)
          with ((c :: r) ++ [dot_c] ++ skipn (Z.to_nat dp) ds ++ rest).
        rewrite <- E. apply take_digits_app; [exact Hd1|reflexivity]. }
      split.
      { cbn [app take_fraction]. change (dot_c =? 46)%N with true. cbv iota.
        rewrite take_digits_app by assumption. rewrite <- dval_app. rewrite firstn_skipn.
        f_equal. f_equal. rewrite skipn_length. lia. }
      rewrite firstn_length. lia.
Qed.

Lemma nf_arith : forall e nd : Z, (0 < nd)%Z ->
  forall dp, dp = (if ((e <=? 0) && (-6 <? e + nd))%Z then (e + nd)%Z else 1%Z) ->
  (e + nd - dp - (if (dp <=? 0)%Z then nd - dp else if (nd <=? dp)%Z then 0 else nd - dp) = e)%Z.
Proof.
  intros e nd Hnd dp ->.
  destruct ((e <=? 0) && (-6 <? e + nd))%Z eqn:Ep.
  - destruct (e + nd <=? 0)%Z eqn:E1; [lia|]. destruct (nd <=? e + nd)%Z eqn:E2; lia.
  - destruct (1 <=? 0)%Z eqn:E1; [lia|]. destruct (nd <=? 1)%Z eqn:E2; lia.
Qed.

Theorem parse_dec_print_dec : forall m e, parse_dec (print_dec m e) = Some (Fin m e).
Proof.
  intros m e. rewrite print_dec_eq. cbv zeta.
  destruct (digits_of_N_spec (Z.abs_N m)) as [Hd [Hne Hv]].
  set (ds := digits_of_N (Z.abs_N m)) in *.
  set (nd := Z.of_nat (length ds)).
  set (lead := (e + nd)%Z).
  set (dp := if ((e <=? 0) && (-6 <? lead))%Z then lead else 1%Z).
  assert (Hnd : (0 < nd)%Z) by (unfold nd; destruct ds; [contradiction|cbn [length]; lia]).
  assert (Hdp : (dp <= nd \/ dp = 1)%Z).
  { unfold dp. destruct ((e <=? 0) && (-6 <? lead))%Z eqn:Ep; [left; unfold lead; lia|right; reflexivity]. }
  destruct (dec_body_read ds dp (exp_part (lead - dp)) Hd Hne (exp_part_stops _) (exp_part_no_dot _) Hdp)
    as [c [t [ip [ni [r1 [Eb [Hc [Ht [Hf Hni]]]]]]]]].
  (* the printed string is made of plain characters: strip and the underscore filter are the identity *)
  assert (Hok : forallb okc ((if (m <? 0)%Z then [minus_c] else []) ++ dec_body ds dp ++ exp_part (lead - dp)) = true).
  { rewrite !forallb_app. rewrite exp_part_okc.
    assert (Hb : forallb okc (dec_body ds dp) = true).
    { unfold dec_body. destruct (dp <=? 0)%Z.
      - rewrite !forallb_app. rewrite (all_digits_okc _ Hd), (all_digits_okc _ (all_digits_zeros _)). reflexivity.
      - destruct (Z.of_nat (length ds) <=? dp)%Z.
        + rewrite !forallb_app. rewrite (all_digits_okc _ Hd), (all_digits_okc _ (all_digits_zeros _)). reflexivity.
        + rewrite !forallb_app. rewrite (all_digits_okc _ (all_digits_firstn _ _ Hd)), (all_digits_okc _ (all_digits_skipn _ _ Hd)). reflexivity. }
    rewrite Hb. destruct (m <? 0)%Z; reflexivity. }
  unfold parse_dec. rewrite forallb_forall in Hok.
  rewrite strip_id by (intros c0 Hc0; apply okc_not_dec_space, Hok, Hc0).
  rewrite filter_id by (intros c0 Hc0; apply okc_not_underscore, Hok, Hc0).
  assert (Hnf : (lead - dp - (if (dp <=? 0)%Z then nd - dp else if (nd <=? dp)%Z then 0 else nd - dp) = e)%Z)
    by (apply (nf_arith e nd Hnd dp); reflexivity).
  rewrite Eb.
  destruct (m <? 0)%Z eqn:Em.
  - cbn [app]. unfold minus_c. rewrite split_sign_minus.
    rewrite (parse_unsigned_num true c t ip ni r1 _ _ _ (lead - dp)%Z Hc Ht Hf);
      [|destruct (dp <=? 0)%Z eqn:E1; [lia|]; destruct (Z.of_nat (length ds) <=? dp)%Z eqn:E2; lia
       |apply take_exponent_exp_part].
    f_equal. f_equal; [rewrite Hv; lia|exact Hnf].
  - cbn [app]. rewrite (split_sign_digit c t Hc).
    rewrite (parse_unsigned_num false c t ip ni r1 _ _ _ (lead - dp)%Z Hc Ht Hf);
      [|destruct (dp <=? 0)%Z eqn:E1; [lia|]; destruct (Z.of_nat (length ds) <=? dp)%Z eqn:E2; lia
       |apply take_exponent_exp_part].
    f_equal. f_equal; [rewrite Hv; lia|exact Hnf].
Qed.
