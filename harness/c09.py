"""C09 — parameter values in a Job carry their declared type."""
import random
import sys
from decimal import Decimal, InvalidOperation
from pathlib import Path

sys.path.insert(0, str(Path(__file__).resolve().parent))
import core  # noqa: E402
import gen_template as G  # noqa: E402
import jobparams_common as jc  # noqa: E402

from openjd.model import (  # noqa: E402
    DecodeValidationError, ParameterValue, ParameterValueType, StepParameterSpaceIterator, create_job, decode_environment_template, decode_job_template,
    preprocess_job_parameters,
)

_SRC_CHARS = "".join(sorted({c for c in Path(G.__file__).read_text() if ord(c) > 127}))

VALUE_POOL = ["5", "-3", "0", "007", " 5 ", "1_0", "+4", "1.5", "2.0", "1e2", ".5", "-0", "NaN", "nan", "sNaN", "Infinity", "-inf", "abc", "", "x y", "1-3", "3,4", "{{Param.I}}",
              "12345678901234567890", "é", "9" * 30, "a" * 300, "b" * 1024, "c" * 1025,
              # longer than CPython's int() will read (4300 digits) — in digits, or only in blanks around a short number:
              # whatever a fallback makes of them, an INT value must still be an integer numeral
              "1" + "0" * 4400, "1" + "0" * 4400 + ".0", "1" + "0" * 4310 + "E-1", " " * 4400 + "5.0", "5e0" + " " * 4400, " " * 4400 + "5", "-" + "7" * 4301]


def template(rng):
    """job parameters of every type; task parameters of every type whose ranges mix literals with references
    to job parameters of every type"""
    params = [{"name": "S", "type": "STRING"}, {"name": "S2", "type": "STRING"}, {"name": "I", "type": "INT"}, {"name": "F", "type": "FLOAT"}, {"name": "P", "type": "PATH"}]
    if rng.random() < 0.5:
        params[2].update(rng.choice([{"minValue": -5, "maxValue": 50}, {"allowedValues": [1, 2, 3]}, {"default": 2}, {}]))
    if rng.random() < 0.5:
        params[3].update(rng.choice([{"minValue": "-2.5"}, {"maxValue": 100}, {"allowedValues": ["1.5", 2]}, {"default": "0.25"}, {}]))
    refs = ["{{Param.S}}", "{{RawParam.S}}", "{{Param.S2}}", "{{Param.I}}", "{{RawParam.I}}", "{{Param.F}}", "{{RawParam.F}}", "{{RawParam.P}}", "{{Param.S}}{{Param.S2}}", "1{{Param.S}}", "{{ Param.I }}0"]

    def mix(lits):
        n = rng.choice([1, 2, 3, 4])
        return [rng.choice(refs) if rng.random() < 0.6 else rng.choice(lits) for _ in range(n)]
    tps = []
    k = rng.random()
    if k < 0.35:
        tps.append({"name": "TI", "type": "INT", "range": mix([1, -2, "3", " 4 ", "1_0"])})
    elif k < 0.6:
        tps.append({"name": "TI", "type": "INT", "range": rng.choice(["1-{{Param.S}}", "{{Param.I}}-{{Param.S}}:{{Param.S2}}", "{{Param.S}}", "1,{{Param.S}},9", "{{RawParam.I}}"])})
    if rng.random() < 0.5:
        tps.append({"name": "TF", "type": "FLOAT", "range": mix([1, 1.5, "2.5", "-0.25", "1e2"])})
    if rng.random() < 0.4:
        tps.append({"name": "TS", "type": "STRING", "range": mix(["lit", "", "{{Param.S}}" * 4, "x" * 1000 + "{{Param.S}}"])})
    if rng.random() < 0.3:
        tps.append({"name": "TP", "type": "PATH", "range": mix(["/a/b", "rel", "x" * 1020 + "{{Param.S2}}"])})
    if not tps:
        tps.append({"name": "TI", "type": "INT", "range": mix([1])})
    step = {"name": "s", "script": {"actions": {"onRun": {"command": "x"}}}, "parameterSpace": {"taskParameterDefinitions": tps}}
    return {"specificationVersion": "jobtemplate-2023-09", "name": "n", "parameterDefinitions": params, "steps": [step]}


def py_conforms(kind, ty, v):
    """independent judgement with Python's own int() / Decimal() (cross-check of the Coq predicate)"""
    if ty == "INT":
        try:
            int(v)
            return True
        except ValueError:
            return False
    if ty == "FLOAT":
        try:
            return Decimal(v).is_finite()
        except InvalidOperation:
            return False
    return True if kind == "job" else len(v) <= 1024


CORPUS = [
    {"doc": {"specificationVersion": "jobtemplate-2023-09", "name": "n", "parameterDefinitions": [{"name": "S", "type": "STRING"}],
             "steps": [{"name": "s", "script": {"actions": {"onRun": {"command": "x"}}},
                        "parameterSpace": {"taskParameterDefinitions": [{"name": "T", "type": t, "range": ["{{Param.S}}"]}]}}]}, "vals": {"S": v}}
    for t in ("INT", "FLOAT", "STRING", "PATH") for v in ("abc", "5", "NaN", "Infinity", "1.5", "x" * 1025)
] + [
    {"doc": {"specificationVersion": "jobtemplate-2023-09", "name": "n", "parameterDefinitions": [{"name": "F", "type": "FLOAT"}],
             "steps": [{"name": "s", "script": {"actions": {"onRun": {"command": "x"}}}}]}, "vals": {"F": v}}
    for v in ("NaN", "Infinity", "-Infinity", "sNaN", "1.5", "abc")
] + [
    {"doc": {"specificationVersion": "jobtemplate-2023-09", "name": "n", "parameterDefinitions": [{"name": "I", "type": "INT"}],
             "steps": [{"name": "s", "script": {"actions": {"onRun": {"command": "x"}}}}]}, "vals": {"I": v}}
    for v in ("1.5", "5", " 5 ", "1_0", "abc", "")
]


class C09(core.PropBase):
    id = "C09"
    component = "glue"
    extract_file = "ExtractGlue.v"
    chars = _SRC_CHARS
    uses_table = True
    chunk_size = 40
    theorem_for_mismatch = "C09_job_params / C09_range_list / C09_range_expr; every value of a returned Job conforms (conforms_job / conforms_task)"
    assumptions = [
        "int(str) / Decimal(str) are the Numerals.v models (differentially checked against Python by the C10 check and cross-checked here on every value)",
        "enumeration of task parameter sets is capped at 5000 per step",
    ]

    def corpus_cases(self):
        out = [G.deep(c) for c in CORPUS]
        # texts that are ALMOST numerals of the declared type, supplied for a parameter nothing else looks at (seed C09-3: the
        # checked text and the stored text were no longer the same thing)
        for ty, texts in (("INT", ["7.0", "7.", "-3.00", "+4.0", "0.0", "1e0", "1_0.0", " 7.0 ", "0x7", "7,0", "٧.٠"]),
                          ("FLOAT", ["1,5", "1.5.0", "0x1p3", "1e", "e5", "--1", "1.5f", "NaN(1)", "Inf inity", "١٫٥"])):
            for t in texts:
                out.append({"doc": {"specificationVersion": "jobtemplate-2023-09", "name": "J {{Param.N}}", "parameterDefinitions": [{"name": "N", "type": ty}],
                                    "steps": [{"name": "S", "script": {"actions": {"onRun": {"command": "c"}}}}]}, "vals": {"N": t}, "envs": []})
                out.append(dict(G.deep(out[-1]), pre={"N": "2"}))
        return out

    def cases(self, tier, seed):
        rng = random.Random(seed * 7919 + 9)
        n = 12000 if tier == "thorough" else 1500
        for i in range(n):
            if i % 4 == 3:
                doc = G.gen_job_template(rng, full=i % 8 == 7)
                yield {"doc": doc, "vals": G.gen_values(rng, doc)}
                continue
            doc = template(rng)
            vals = {}
            for p in doc["parameterDefinitions"]:
                if "default" in p and rng.random() < 0.3:
                    continue
                t = p["type"]
                if t in ("STRING", "PATH"):
                    vals[p["name"]] = rng.choice(VALUE_POOL)
                elif t == "INT":
                    vals[p["name"]] = rng.choice(["5", "0", "-3", " 7 ", "1_0", "2", "3", "1"] if rng.random() < 0.8 else VALUE_POOL)
                else:
                    vals[p["name"]] = rng.choice(["1.5", "2", "0.25", "-2.5", "1e1", " 3 ", "1_0.5"] if rng.random() < 0.8 else VALUE_POOL)
            envs = []
            if i % 5 == 1:
                # an environment template that defines the SAME parameter with another (more permissive) type and a
                # default / constraint, next to a bare definition in the job template: the merge must be refused
                # (then no Job is returned); if a Job is returned its values must still conform to the Job's types
                p = rng.choice(doc["parameterDefinitions"])
                for k in ("minValue", "maxValue", "allowedValues", "default"):
                    p.pop(k, None)
                other = rng.choice([t for t in ("STRING", "FLOAT", "INT", "PATH") if t != p["type"]])
                q = {"name": p["name"], "type": other}
                q.update(rng.choice([{"default": "many"}, {"default": "2.5"}, {"minLength": 1}, {"allowedValues": ["many", "2.5", "7"]}, {}]) if other in ("STRING", "PATH")
                         else rng.choice([{"default": 2.5}, {"minValue": 0}, {"allowedValues": [2.5, 7]}, {}]) if other == "FLOAT" else rng.choice([{"default": 7}, {"minValue": 0}, {}]))
                envs = [{"specificationVersion": "environment-2023-09", "parameterDefinitions": [q], "environment": {"name": "e", "variables": {"A": "b"}}}]
                if rng.random() < 0.5:
                    vals.pop(p["name"], None)
                else:
                    vals[p["name"]] = rng.choice(["many", "2.5", "", "7"])
            case = {"doc": doc, "vals": vals, "envs": envs}
            if i % 25 == 7:
                case["opt"] = True
            if i % 6 == 2:
                # the usual flow: preprocess_job_parameters() first, create_job() with the dict it returned — which the caller
                # has touched in between (values replaced in place).  create_job checks what it is given, whatever its history.
                good = {}
                for p in doc["parameterDefinitions"]:
                    t = p["type"]
                    good[p["name"]] = str(p["default"]) if "default" in p else "a" if t in ("STRING", "PATH") else "2" if t == "INT" else "1.5"
                case["pre"] = good
            yield case

    def rule(self, tier):
        return ("templates with job parameters of all four types and INT / FLOAT / STRING / PATH task parameters whose ranges (lists and range expressions) mix "
                "literals with references to job parameters of every type, x values from a pool of numerals, lenient numerals (' 5 ', '1_0'), non-numerals, "
                "NaN / Infinity, long strings; plus general generated templates. For every returned Job: every job parameter value and every enumerated task "
                "parameter value is judged by the extracted Coq predicate (and cross-checked with Python's int()/Decimal()). distinct = by (document, values)")

    def samples(self, tier, seed):
        rng = random.Random(seed)
        d = template(rng)
        return [{"taskParameterDefinitions": d["steps"][0]["parameterSpace"]["taskParameterDefinitions"]}]

    def collect(self, case):
        """-> ("ok", [(kind, type, value)...]) | ("skip", reason)"""
        if case.get("opt") and not sys.flags.optimize:
            # the same question put to an interpreter that runs with assertions stripped (python -O): what a Job holds does not
            # depend on how the interpreter was started
            import json
            import os
            import subprocess
            plain = {k: v for k, v in case.items() if not k.startswith("_")}
            p = subprocess.run([sys.executable, "-O", "-W", "ignore", __file__, "--collect"], input=json.dumps(plain), capture_output=True, text=True,
                               env=dict(os.environ), timeout=300)
            if p.returncode != 0:
                raise RuntimeError("python -O child failed: " + p.stderr[-300:])
            st, vals = json.loads(p.stdout.strip().splitlines()[-1])
            return st, vals
        try:
            jt = decode_job_template(template=G.deep(case["doc"]))
            for e in case.get("envs") or []:
                decode_environment_template(template=G.deep(e))
        except DecodeValidationError:
            return "skip", "template-rejected"
        types = {p["name"]: p["type"] for p in case["doc"].get("parameterDefinitions") or []}
        try:
            ets = [decode_environment_template(template=G.deep(e)) for e in case.get("envs") or []] or None
            if "pre" in case:
                try:
                    r = preprocess_job_parameters(job_template=jt, job_parameter_values=dict(case["pre"]), job_template_dir=Path(), current_working_dir=Path(),
                                                  allow_job_template_dir_walk_up=True, environment_templates=ets)
                except ValueError:
                    r = None
                if r is not None:
                    for k, v in case["vals"].items():
                        if k in r:
                            r[k] = ParameterValue(type=r[k].type, value=v)
                    job = create_job(job_template=jt, job_parameter_values=r, environment_templates=ets)
                    return "ok", self.values_of(job)
            job = create_job(job_template=jt, job_parameter_values={k: ParameterValue(type=ParameterValueType(types[k]), value=v) for k, v in case["vals"].items() if k in types},
                             environment_templates=ets)
        except DecodeValidationError:
            return "skip", "create-rejected"
        return "ok", self.values_of(job)

    @staticmethod
    def values_of(job):
        out = []
        for name, p in (job.parameters or {}).items():
            out.append(["job", p.type.value, p.value])
        for st in job.steps:
            it = StepParameterSpaceIterator(space=st.parameterSpace)
            for i, ps in enumerate(it):
                if i >= 5000:
                    break
                for name, pv in ps.items():
                    out.append(["task", pv.type.value, pv.value])
        # distinct values only
        seen, uniq = set(), []
        for x in out:
            k = tuple(x)
            if k not in seen:
                seen.add(k)
                uniq.append(x)
        return uniq

    def impl(self, case):
        if "_c" not in case:
            try:
                case["_c"] = self.collect(case)
            except BaseException as e:  # noqa: BLE001
                case["_c"] = ("raise", type(e).__name__)
        st, vals = case["_c"]
        if st != "ok":
            return [st, vals]
        return ["ok", len(vals), []]

    def requests(self, case):
        self.impl(case)
        st, vals = case["_c"]
        if st != "ok":
            return []
        reqs = []
        for kind, ty, v in vals:
            if set(c for c in v if ord(c) > 127) - set(self.chars):
                continue
            reqs.append(["conforms_" + kind, core.cps(ty), core.cps(v)])
        return reqs

    def run_chunk(self, chunk):
        res = super().run_chunk(chunk)
        for c in chunk:
            c.pop("_c", None)
        for m in res.get("mismatches", []):
            m["case"].pop("_c", None)
        return res

    def model_obs(self, case, replies):
        st, vals = case.get("_c") or self.collect(case)
        if st != "ok":
            return [st, vals]
        bad = []
        i = 0
        for kind, ty, v in vals:
            if set(c for c in v if ord(c) > 127) - set(self.chars):
                continue
            ok = replies[i] == "true"
            i += 1
            if jc.in_numeral_domain(v) and ok != py_conforms(kind, ty, v):
                raise AssertionError(f"HARNESS: Coq conforms_{kind}({ty},{v!r})={ok} disagrees with Python")
            if not ok:
                bad.append([kind, ty, v[:80]])
        return ["ok", len(vals), bad]

    def classify_case(self, case, obs):
        return [obs[0] if obs[0] == "ok" else obs[0] + ":" + str(obs[1])]

    def still_fails(self, case):
        case = {k: v for k, v in case.items() if not k.startswith("_")}
        drv = core.Driver(self.component)
        replies, _ = drv.ask(self.requests(case), self.prelude())
        return self.impl(case) != self.model_obs(case, replies)

    def shrink_candidates(self, case):
        doc = case["doc"]
        tps = doc["steps"][0].get("parameterSpace", {}).get("taskParameterDefinitions") if len(doc["steps"]) == 1 else None
        if tps and len(tps) > 1:
            for i in range(len(tps)):
                d = G.deep(doc)
                del d["steps"][0]["parameterSpace"]["taskParameterDefinitions"][i]
                yield dict(case, doc=d)
        if tps:
            for i, tp in enumerate(tps):
                if isinstance(tp["range"], list) and len(tp["range"]) > 1:
                    for j in range(len(tp["range"])):
                        d = G.deep(doc)
                        del d["steps"][0]["parameterSpace"]["taskParameterDefinitions"][i]["range"][j]
                        yield dict(case, doc=d)


PROP = C09()

if __name__ == "__main__":
    if sys.argv[1:2] == ["--collect"]:
        import json
        assert sys.flags.optimize, "child must run under -O"
        try:
            print(json.dumps(list(PROP.collect(json.loads(sys.stdin.read())))))
        except BaseException as e:  # noqa: BLE001
            print(json.dumps(["raise", type(e).__name__]))
        sys.exit(0)
    sys.exit(core.main(PROP, sys.argv[1:]))
