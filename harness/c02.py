"""C02 — well-formed templates are accepted: the completeness side of the c01 harness."""
import sys
from pathlib import Path

sys.path.insert(0, str(Path(__file__).resolve().parent))
import core  # noqa: E402
import c01  # noqa: E402


class C02(c01.C01):
    id = "C02"
    side = "complete"
    theorem_for_mismatch = "C02_table / validator iffs; model = implementation verdict correspondence (implementation rejects, model accepts)"


PROP = C02()

if __name__ == "__main__":
    sys.exit(core.main(PROP, sys.argv[1:]))
