(* props/C19x.v — the two theorems of C19 that props/C19.v leaves open (to be merged into it):

     C19_rename           the reference check commutes with a consistent renaming of job parameters,
                          task parameters and embedded files (same error sites, names renamed; verdict
                          unchanged).  Proofs: RenameProofs.v.
     C19_deep_key_order   permuting the members of the objects of a document at EVERY nesting level at
                          once changes the reference walk only by the order of its errors, and does not
                          change the decode verdict (the decoded model is the same up to the member
                          order of dictionaries).  Proofs: DeepKeyOrder.v.

   Both are stated on the document-level specification of ScopeSpec.v AND on the real walker
   [prevalidate Generated.schema] (equal for every document by C03_exact_job / C03_exact_env). *)
From Coq Require Import List NArith ZArith Bool String Permutation.
Import ListNotations.
Require Import OJD.Base OJD.Lexer OJD.Json OJD.Schema OJD.Generated OJD.FormatStr OJD.FsRefs OJD.CreateJob
               OJD.Parse OJD.Validators OJD.Accept OJD.ScopeWalk OJD.ScopeSpec
               OJD.RenameProofs OJD.DeepKeyOrder.
Local Open Scope string_scope.
Local Open Scope list_scope.

(* ================================================================== C19_rename *)

(* [rename_sym rho] maps <prefix><x> to <prefix><rho x> for the prefixes Param. RawParam. Task.Param.
   Task.RawParam. Task.File. Env.File. and is the identity elsewhere (Session names included).  It is
   injective as soon as [rho] is: the six namespaces are disjoint and closed under the renaming, so
   no "reserved name" condition is needed. *)
Theorem C19_rename_sym_injective : forall rho : str -> str,
  (forall a b, rho a = rho b -> a = b) ->
  forall a b, rename_sym rho a = rename_sym rho b -> a = b.
Proof. exact rename_sym_inj. Qed.
Print Assumptions C19_rename_sym_injective.

(* Side conditions: [rho] injective and never producing the empty name.  [rs] renames format-string
   texts, [refs'] is the front end used on the renamed side; the hypothesis ties them on the strings
   that occur in the document (FormatStr.v provides it for refs = refs' = fs_refs classify and
   rs = "rename the name inside each {{ }}" when rho maps identifiers to identifiers; not derived here).
   [rename_job rho rs j] maps the [name] of every job parameter definition, task parameter definition
   and embedded file through rho and every format-string site through rs. *)
Theorem C19_rename : forall (rho rs : str -> str) (refs refs' : str -> option (list str)) (j : json),
  (forall a b, rho a = rho b -> a = b) ->
  (forall c r, rho (c :: r) <> []) ->
  (forall s, In s (jstrings j) -> refs' (rs s) = option_map (map (rename_sym rho)) (refs s)) ->
  spec_job_template refs' (rename_job rho rs j) = map (rename_err rho) (spec_job_template refs j) /\
  spec_env_template refs' (rename_env_template rho rs j) = map (rename_err rho) (spec_env_template refs j).
Proof. exact rename_spec. Qed.
Print Assumptions C19_rename.

(* the same for the real walker (through C03_exact_job / C03_exact_env) *)
Theorem C19_rename_walker : forall (rho rs : str -> str) (refs refs' : str -> option (list str)) (j : json),
  (forall a b, rho a = rho b -> a = b) ->
  (forall c r, rho (c :: r) <> []) ->
  (forall s, In s (jstrings j) -> refs' (rs s) = option_map (map (rename_sym rho)) (refs s)) ->
  prevalidate Generated.schema refs' "JobTemplate" (rename_job rho rs j)
  = map (rename_err rho) (prevalidate Generated.schema refs "JobTemplate" j) /\
  prevalidate Generated.schema refs' "EnvironmentTemplate" (rename_env_template rho rs j)
  = map (rename_err rho) (prevalidate Generated.schema refs "EnvironmentTemplate" j).
Proof. exact rename_walker. Qed.
Print Assumptions C19_rename_walker.

(* in particular the verdict of the reference check is unchanged *)
Theorem C19_rename_verdict : forall (rho rs : str -> str) (refs refs' : str -> option (list str)) (j : json),
  (forall a b, rho a = rho b -> a = b) ->
  (forall c r, rho (c :: r) <> []) ->
  (forall s, In s (jstrings j) -> refs' (rs s) = option_map (map (rename_sym rho)) (refs s)) ->
  (prevalidate Generated.schema refs' "JobTemplate" (rename_job rho rs j) = []
   <-> prevalidate Generated.schema refs "JobTemplate" j = []) /\
  (prevalidate Generated.schema refs' "EnvironmentTemplate" (rename_env_template rho rs j) = []
   <-> prevalidate Generated.schema refs "EnvironmentTemplate" j = []).
Proof. exact rename_verdict. Qed.
Print Assumptions C19_rename_verdict.

(* ================================================================== C19_deep_key_order *)

(* [jperm j j']: same scalars; arrays pointwise; objects: keys of the first distinct, and the members
   of the second are a permutation of the first's members with jperm-related values — at every
   nesting level at once.

   Reference walk: every piece of the specification is EQUAL on jperm-related documents except the
   walk over the members of an Environment's [variables] object, which reports in member order;
   errors carry their location, so the statement is a Permutation of the error lists. *)
Theorem C19_deep_key_order_walk : forall refs j j', jperm j j' ->
  Permutation (spec_job_template refs j) (spec_job_template refs j') /\
  Permutation (spec_env_template refs j) (spec_env_template refs j') /\
  Permutation (prevalidate Generated.schema refs "JobTemplate" j) (prevalidate Generated.schema refs "JobTemplate" j') /\
  Permutation (prevalidate Generated.schema refs "EnvironmentTemplate" j)
              (prevalidate Generated.schema refs "EnvironmentTemplate" j').
Proof. exact deep_key_order_walk. Qed.
Print Assumptions C19_deep_key_order_walk.

Theorem C19_deep_key_order_walk_verdict : forall refs j j', jperm j j' ->
  (prevalidate Generated.schema refs "JobTemplate" j = [] <-> prevalidate Generated.schema refs "JobTemplate" j' = []) /\
  (prevalidate Generated.schema refs "EnvironmentTemplate" j = []
   <-> prevalidate Generated.schema refs "EnvironmentTemplate" j' = []).
Proof. exact deep_key_order_walk_verdict. Qed.
Print Assumptions C19_deep_key_order_walk_verdict.

(* Acceptance model: the outcomes of decoding are related by [olrel mperm]: the same exception, or
   accepted models that are equal up to the member order of dictionaries ([mperm]: MDict members
   permuted, everything else pointwise). *)
Theorem C19_deep_key_order_decode : forall classify j j', jperm j j' ->
  olrel mperm (decode_job classify j) (decode_job classify j') /\
  olrel mperm (decode_env classify j) (decode_env classify j').
Proof. exact deep_key_order_decode. Qed.
Print Assumptions C19_deep_key_order_decode.

(* the verdict *)
Theorem C19_deep_key_order : forall classify j j', jperm j j' ->
  is_ok (decode_job classify j) = is_ok (decode_job classify j') /\
  is_ok (decode_env classify j) = is_ok (decode_env classify j').
Proof. exact deep_key_order_verdict. Qed.
Print Assumptions C19_deep_key_order.

(* the ingredients: no validator of Validators.v depends on the member order of a dictionary.
   pre validators, on jperm-related raw objects: *)
Theorem C19_pre_hook_deep : forall c v v', jperm v v' -> pre_hook c v = pre_hook c v'.
Proof. exact pre_hook_jperm. Qed.
Print Assumptions C19_pre_hook_deep.

(* post validators of every class (template-side and job-side) except the job-side target class
   StepParameterSpace, on jperm-related raw objects and mperm-related parsed fields.  (The excluded
   validator looks members of a dictionary up by key: order-insensitive for the distinct keys a
   Python dict has, but [mperm] does not record distinctness; the class is not below the template
   roots, so decoding never runs it.) *)
Theorem C19_post_hook_deep : forall classify c raw raw' fs fs', c <> "StepParameterSpace" ->
  jperm raw raw' -> Forall2 (mrel mperm) fs fs' ->
  post_hook classify c raw fs = post_hook classify c raw' fs'.
Proof. exact post_hook_mperm. Qed.
Print Assumptions C19_post_hook_deep.

(* ... and that last validator, given the distinct keys a dictionary has *)
Theorem C19_post_hook_sps : forall classify raw raw' fs fs' l,
  Forall2 (mrel mperm) fs fs' -> fget "taskParameterDefinitions" fs = MDict l -> NoDup (map fst l) ->
  post_hook classify "StepParameterSpace" raw fs = post_hook classify "StepParameterSpace" raw' fs'.
Proof. exact post_hook_sps. Qed.
Print Assumptions C19_post_hook_sps.

(* the structural layer, for any schema: on a set R of classes closed under "class of a field" whose
   dictionary-valued fields have string keys and format-string values, with hooks invariant as
   above, parse results on jperm-related values are related, at every fuel *)
Theorem C19_parse_deep : forall SC classify pre post R,
  (forall c c0, In c R -> lookup_cls SC c = Some c0 ->
     forall fl, In fl (c_fields c0) -> incl (dk_kind_classes (f_kind fl)) R /\ dict_simple fl = true) ->
  (forall c v v', jperm v v' -> pre c v = pre c v') ->
  (forall c v v' fs fs', In c R -> jperm v v' -> Forall2 (mrel mperm) fs fs' -> post c v fs = post c v' fs') ->
  forall fuel,
  (forall k v v', incl (dk_kind_classes k) R -> jperm v v' ->
     olrel mperm (parse_kind SC classify pre post fuel k v) (parse_kind SC classify pre post fuel k v')) /\
  (forall c v v', In c R -> jperm v v' ->
     olrel mperm (parse_cls SC classify pre post fuel c v) (parse_cls SC classify pre post fuel c v')).
Proof. exact parse_jperm. Qed.
Print Assumptions C19_parse_deep.

(* a canonical instance: reversing the members of every object at every level *)
Theorem C19_reverse_everywhere : forall j, keys_ok j = true -> jperm j (jrev j).
Proof. exact jperm_jrev. Qed.
Print Assumptions C19_reverse_everywhere.

(* ================================================================== non-vacuity *)
Definition jsx (x : string) : json := JStr (str_of_string x).
Definition jox (l : list (string * json)) : json := JObj (map (fun kv => (str_of_string (fst kv), snd kv)) l).
Definition real_refs := fs_refs ascii_class.

(* ---- renaming: rho appends '_' ; rs rewrites the name inside each {{ }} *)
Definition rho_ex (s : str) : str := s ++ [95%N].

Fixpoint rs_scan (s : str) (acc : option str) : str :=
  match s with
  | [] => match acc with None => [] | Some a => 123%N :: 123%N :: rev a end
  | c :: r =>
    match acc with
    | None =>
      match r with
      | c2 :: r' => if N.eqb c 123 && N.eqb c2 123 then rs_scan r' (Some []) else c :: rs_scan r None
      | [] => [c]
      end
    | Some a =>
      match r with
      | c2 :: r' =>
        if N.eqb c 125 && N.eqb c2 125
        then 123%N :: 123%N :: rename_sym rho_ex (rev a) ++ 125%N :: 125%N :: rs_scan r' None
        else rs_scan r (Some (c :: a))
      | [] => 123%N :: 123%N :: rev (c :: a)
      end
    end
  end.
Definition rs_ex (s : str) : str := rs_scan s None.

(* Frames INT, Out PATH; step A with task parameter X, embedded file run, a step environment with
   embedded file setup.  Three mistakes: Param.Out (PATH) in the job name, the undeclared
   Task.Param.Y, the undeclared Env.File.nope. *)
Definition ex_ren : json :=
  jox [("specificationVersion", jsx "jobtemplate-2023-09");
       ("name", jsx "Job {{Param.Frames}} {{Param.Out}}");
       ("parameterDefinitions",
        JArr [jox [("name", jsx "Frames"); ("type", jsx "INT")];
              jox [("name", jsx "Out"); ("type", jsx "PATH")]]);
       ("steps",
        JArr [jox [("name", jsx "A");
                   ("parameterSpace",
                    jox [("taskParameterDefinitions",
                          JArr [jox [("name", jsx "X"); ("type", jsx "INT"); ("range", jsx "1-{{Param.Frames}}")]])]);
                   ("script",
                    jox [("actions",
                          jox [("onRun", jox [("command", jsx "{{Task.File.run}}");
                                              ("args", JArr [jsx "{{Task.Param.X}}"; jsx "{{Task.Param.Y}}";
                                                             jsx "{{RawParam.Out}}"])])]);
                         ("embeddedFiles",
                          JArr [jox [("name", jsx "run"); ("type", jsx "TEXT");
                                     ("data", jsx "{{Session.WorkingDirectory}} {{Env.File.nope}}")]])]);
                   ("stepEnvironments",
                    JArr [jox [("name", jsx "E");
                               ("variables", jox [("V", jsx "{{Param.Out}}")]);
                               ("script",
                                jox [("actions", jox [("onEnter", jox [("command", jsx "{{Env.File.setup}}")])]);
                                     ("embeddedFiles",
                                      JArr [jox [("name", jsx "setup"); ("type", jsx "TEXT");
                                                 ("data", jsx "x")]])])]])]])].

Lemma rho_ex_inj : forall a b, rho_ex a = rho_ex b -> a = b.
Proof. intros a b H. unfold rho_ex in H. apply app_inj_tail in H. exact (proj1 H). Qed.

Lemma rho_ex_nonempty : forall c r, rho_ex (c :: r) <> [].
Proof. intros c r H. discriminate H. Qed.

Lemma ex_ren_front_end : forall s, In s (jstrings ex_ren) ->
  real_refs (rs_ex s) = option_map (map (rename_sym rho_ex)) (real_refs s).
Proof.
  intros s Hs. vm_compute in Hs.
  repeat (destruct Hs as [<-|Hs]; [vm_compute; reflexivity|]). contradiction.
Qed.

Example C19_rename_nonvacuous :
  (* the hypotheses of C19_rename hold for the real front end ... *)
  (forall a b, rho_ex a = rho_ex b -> a = b) /\
  (forall c r, rho_ex (c :: r) <> []) /\
  (forall s, In s (jstrings ex_ren) -> real_refs (rs_ex s) = option_map (map (rename_sym rho_ex)) (real_refs s)) /\
  (* ... the renaming changes the document ... *)
  jget "name" (rename_job rho_ex rs_ex ex_ren) = jsx "Job {{Param.Frames_}} {{Param.Out_}}" /\
  (* ... and the walker reports the same three sites with the renamed names *)
  prevalidate Generated.schema real_refs "JobTemplate" ex_ren
  = [ERef [key "name"] $"Param.Out";
     ERef [key "steps"; LIdx 0; key "script"; key "actions"; key "onRun"; key "args"; LIdx 1] $"Task.Param.Y";
     ERef [key "steps"; LIdx 0; key "script"; key "embeddedFiles"; LIdx 0; key "data"] $"Env.File.nope"] /\
  prevalidate Generated.schema real_refs "JobTemplate" (rename_job rho_ex rs_ex ex_ren)
  = [ERef [key "name"] $"Param.Out_";
     ERef [key "steps"; LIdx 0; key "script"; key "actions"; key "onRun"; key "args"; LIdx 1] $"Task.Param.Y_";
     ERef [key "steps"; LIdx 0; key "script"; key "embeddedFiles"; LIdx 0; key "data"] $"Env.File.nope_"].
Proof.
  split; [exact rho_ex_inj|]. split; [exact rho_ex_nonempty|]. split; [exact ex_ren_front_end|].
  split; [vm_compute; reflexivity|]. split; vm_compute; reflexivity.
Qed.

(* the conclusion of C19_rename_walker on this instance, obtained FROM the theorem *)
Example C19_rename_instance :
  prevalidate Generated.schema real_refs "JobTemplate" (rename_job rho_ex rs_ex ex_ren)
  = map (rename_err rho_ex) (prevalidate Generated.schema real_refs "JobTemplate" ex_ren).
Proof.
  exact (proj1 (C19_rename_walker rho_ex rs_ex real_refs real_refs ex_ren rho_ex_inj rho_ex_nonempty ex_ren_front_end)).
Qed.

(* rho must be injective: mapping both parameters to one name makes a clash the walker cannot see
   the same way — the hypothesis is not decorative *)
Example C19_rename_noninjective_counterexample :
  let rho0 : str -> str := fun _ => $"P" in
  rename_sym rho0 $"Param.A" = rename_sym rho0 $"Param.B" /\ $"Param.A" <> $"Param.B".
Proof. split; [vm_compute; reflexivity|discriminate]. Qed.

(* ---- deep key order *)
(* a valid template with nested objects and two environment variables *)
Definition ex_ko (v1 v2 : string) : json :=
  jox [("specificationVersion", jsx "jobtemplate-2023-09");
       ("name", jsx "Job {{Param.P}}");
       ("parameterDefinitions", JArr [jox [("name", jsx "P"); ("type", jsx "INT")]]);
       ("steps",
        JArr [jox [("name", jsx "A");
                   ("stepEnvironments",
                    JArr [jox [("name", jsx "E");
                               ("variables", jox [("V1", jsx v1); ("V2", jsx v2)])]]);
                   ("script",
                    jox [("actions", jox [("onRun", jox [("command", jsx "run"); ("args", JArr [jsx "{{Param.P}}"])])])])]])].

Example C19_deep_key_order_nonvacuous :
  let j := ex_ko "{{Param.P}}" "x" in
  keys_ok j = true /\ jperm j (jrev j) /\ j <> jrev j /\
  (* reversed at the root AND inside the step, the script, the action, the environment, the variables *)
  jget "variables" (match jget "stepEnvironments" (match jget "steps" (jrev j) with JArr (s :: _) => s | _ => JNull end) with
                    | JArr (e :: _) => e | _ => JNull end)
  = jox [("V2", jsx "x"); ("V1", jsx "{{Param.P}}")] /\
  is_ok (decode_job ascii_class j) = true /\
  is_ok (decode_job ascii_class (jrev j)) = true.
Proof.
  cbv zeta. assert (Hk : keys_ok (ex_ko "{{Param.P}}" "x") = true) by (vm_compute; reflexivity).
  split; [exact Hk|]. split; [apply jperm_jrev; exact Hk|]. split; [vm_compute; discriminate|].
  split; [vm_compute; reflexivity|]. split; [vm_compute; reflexivity|].
  rewrite <- (proj1 (C19_deep_key_order ascii_class _ _ (jperm_jrev _ Hk))). vm_compute. reflexivity.
Qed.

(* Permutation, not equality, is the right statement for the walk: two offending variables are
   reported in member order *)
Example C19_deep_key_order_errors_reordered :
  let j := ex_ko "{{Task.Param.X}}" "{{Task.Param.Y}}" in
  keys_ok j = true /\
  prevalidate Generated.schema real_refs "JobTemplate" j
  = [ERef [key "steps"; LIdx 0; key "stepEnvironments"; LIdx 0; key "variables"; LKey $"V1"] $"Task.Param.X";
     ERef [key "steps"; LIdx 0; key "stepEnvironments"; LIdx 0; key "variables"; LKey $"V2"] $"Task.Param.Y"] /\
  prevalidate Generated.schema real_refs "JobTemplate" (jrev j)
  = [ERef [key "steps"; LIdx 0; key "stepEnvironments"; LIdx 0; key "variables"; LKey $"V2"] $"Task.Param.Y";
     ERef [key "steps"; LIdx 0; key "stepEnvironments"; LIdx 0; key "variables"; LKey $"V1"] $"Task.Param.X"] /\
  is_ok (decode_job ascii_class j) = false /\ is_ok (decode_job ascii_class (jrev j)) = false.
Proof. cbv zeta. repeat split; vm_compute; reflexivity. Qed.

(* the distinct-keys premise of jperm is necessary: with a duplicated key the first member wins *)
Example C19_deep_key_order_dup_counterexample :
  let j  := jox [("name", jsx "{{Param.Nope}}"); ("name", jsx "ok")] in
  let j' := jox [("name", jsx "ok"); ("name", jsx "{{Param.Nope}}")] in
  spec_job_template real_refs j <> [] /\ spec_job_template real_refs j' = [].
Proof. cbv zeta. split; [vm_compute; discriminate|vm_compute; reflexivity]. Qed.
