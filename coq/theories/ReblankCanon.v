(* ReblankCanon.v — the canonical spelling [canon classify s] (every reference written
   "{{name}}" with no blank) is a re-blanking of s, for EVERY s; re-blanked accepted strings have
   the same canonical spelling.  So [reblank] is inhabited by a total computable function, and the
   walker statement of ReblankWalk.v has an instance without hypotheses. *)
From Coq Require Import List NArith Bool Arith Lia.
Import ListNotations.
Require Import OJD.Base OJD.Lexer OJD.LexerProofs OJD.Generated OJD.FormatStr OJD.FormatStrSpec
               OJD.FormatStrProofs OJD.FsRefs OJD.Reblank OJD.ReblankProofs.

Section Canon.
  Variable classify : N -> cclass.
  Hypothesis AOK : ascii_ok classify = true.

  Notation lexg := (lex_go classify).
  Notation dots := (flat_map (fun w : str => dotc :: w)).

  Lemma dotc_is_dot : is_dot classify dotc = true.
  Proof.
    unfold is_dot. change dotc with (N.of_nat 46).
    rewrite (ascii_ok_class classify AOK 46) by lia. reflexivity.
  Qed.

  (* lex_tail of FormatStrProofs.v, also saying that the names are identifiers *)
  Lemma lex_tail_idents : forall r, DTail classify r ->
    exists ns, Forall (ident classify) ns /\ lexg LNone r = Ok (tail_toks ns) /\
               norm classify r = dots ns.
  Proof.
    intros r H. induction H as [b Hb | b1 d b2 w r Hb1 Hd Hb2 Hw Ht [ns [IH0 [IH1 IH2]]]].
    - exists []. split; [constructor|]. split.
      + rewrite <- (app_nil_r b). now rewrite (lex_blanks classify).
      + now apply norm_blanks.
    - exists (w :: ns). split; [constructor; assumption|]. split.
      + rewrite (lex_blanks classify) by exact Hb1. simpl app. rewrite (lex_dot classify) by exact Hd.
        rewrite (lex_blanks classify) by exact Hb2.
        rewrite (lex_ident classify); [|exact Hw|now apply DTail_nws].
        rewrite IH1. reflexivity.
      + rewrite !norm_app, (norm_blanks _ _ Hb1), (norm_blanks _ _ Hb2), (norm_dot _ _ Hd),
                (norm_ident _ _ Hw), IH2.
        reflexivity.
  Qed.

  Lemma dots_nws : forall ns, nws classify (dots ns).
  Proof.
    intros [|w ns]; [exact I|]. cbn [flat_map app nws]. apply isd_not_word. exact dotc_is_dot.
  Qed.

  Lemma lex_dots : forall ns, Forall (ident classify) ns -> lexg LNone (dots ns) = Ok (tail_toks ns).
  Proof.
    intros ns F. induction F as [|w ns Hw F IH]; [reflexivity|].
    cbn [flat_map]. change ((dotc :: w) ++ dots ns) with (dotc :: (w ++ dots ns)).
    rewrite (lex_dot classify) by exact dotc_is_dot.
    rewrite (lex_ident classify); [|exact Hw|apply dots_nws].
    rewrite IH. reflexivity.
  Qed.

  (* a dotted name and its normal form have the same tokens *)
  Lemma lex_norm : forall e, DName classify e -> lex classify (norm classify e) = lex classify e.
  Proof.
    intros e [b [w [r [Hb [Hw [Ht ->]]]]]].
    destruct (lex_tail_idents r Ht) as [ns [Hns [L Nr]]].
    unfold lex.
    rewrite !norm_app, (norm_blanks _ _ Hb), (norm_ident _ _ Hw), Nr. cbn [app].
    rewrite (lex_blanks classify b (w ++ r) Hb).
    rewrite (lex_ident classify w r Hw (DTail_nws classify r Ht)).
    rewrite (lex_ident classify w (dots ns) Hw (dots_nws ns)).
    now rewrite L, (lex_dots ns Hns).
  Qed.

  Lemma norm_no_rbrace : forall e, ~ In rbrace e -> ~ In rbrace (norm classify e).
  Proof.
    intros e H I. unfold norm in I. apply in_map_iff in I as [c [Hc I]].
    apply filter_In in I as [I _].
    destruct (is_dot classify c); [discriminate Hc|]. subst c. exact (H I).
  Qed.

  Lemma canon_items_of : forall segs last off,
    concat (map canon_piece (items_of classify off segs last)) = rebuild classify segs last.
  Proof.
    induction segs as [|[l e] segs IH]; intros last off.
    - cbn [items_of rebuild]. destruct last; [reflexivity|]. cbn [map concat canon_piece]. apply app_nil_r.
    - cbn [items_of map concat canon_piece rebuild]. rewrite IH. now rewrite <- !app_assoc.
  Qed.

  Lemma decomp_rebuild : forall t segs last, Decomp classify t segs last ->
    reblank classify t (rebuild classify segs last).
  Proof.
    intros t segs last D. induction D as [l HO HC | l e rest segs last HC HO HD D IH].
    - apply RB_same.
    - cbn [rebuild]. destruct (DName_no_brace classify AOK e HD) as [_ HR].
      apply RB_span.
      + exact HO.
      + now apply no_rbrace_span_text.
      + apply no_rbrace_span_text. now apply norm_no_rbrace.
      + symmetry. now apply lex_norm.
      + exact IH.
  Qed.

  Lemma canon_decomp : forall s segs last, Decomp classify s segs last ->
    canon classify s = rebuild classify segs last.
  Proof.
    intros s segs last D. unfold canon.
    assert (H : mk classify s = Ok (mkF s (items_of classify 0 segs last)))
      by (apply (mk_value_iff classify AOK); eauto).
    rewrite H. cbn [items]. apply canon_items_of.
  Qed.

  Theorem reblank_canon : forall s, reblank classify s (canon classify s).
  Proof.
    intros s. destruct (mk classify s) as [f|e] eqn:H.
    - apply (mk_value_iff classify AOK) in H as [segs [last [D _]]].
      rewrite (canon_decomp s segs last D). now apply decomp_rebuild.
    - unfold canon. rewrite H. apply RB_same.
  Qed.

  Lemma rebuild_sim : forall last segs segs', Forall2 (seg_sim classify) segs segs' ->
    rebuild classify segs last = rebuild classify segs' last.
  Proof.
    intros last segs segs' F. induction F as [|[l e] [l' e'] segs segs' [Hl Hn] F IH]; [reflexivity|].
    cbn [fst snd] in Hl, Hn. subst l'. cbn [rebuild]. now rewrite Hn, IH.
  Qed.

  (* re-blanked accepted strings have ONE canonical spelling *)
  Theorem reblank_canon_eq : forall s s', reblank classify s s' -> is_ok (mk classify s) = true ->
    canon classify s = canon classify s'.
  Proof.
    intros s s' R H. destruct (mk classify s) as [f|e] eqn:M; [|discriminate H].
    destruct (reblank_mk classify AOK s s' R f M) as [segs [segs' [last [D [D' [F _]]]]]].
    rewrite (canon_decomp s segs last D), (canon_decomp s' segs' last D'). now apply rebuild_sim.
  Qed.

  (* for accepted strings, being a re-blanking IS having the same canonical spelling *)
  Theorem reblank_iff_canon : forall s s', is_ok (mk classify s) = true -> is_ok (mk classify s') = true ->
    (reblank classify s s' <-> canon classify s = canon classify s').
  Proof.
    intros s s' H H'. split; [intros R; now apply reblank_canon_eq|].
    intros E. apply (reblank_trans classify s (canon classify s) (reblank_canon s)).
    rewrite E. apply reblank_sym. apply reblank_canon.
  Qed.

  (* canon is a normal form: applying it twice changes nothing more *)
  Theorem canon_accept : forall s, is_ok (mk classify (canon classify s)) = is_ok (mk classify s).
  Proof. intros s. symmetry. apply (reblank_accept classify AOK). apply reblank_canon. Qed.
End Canon.
