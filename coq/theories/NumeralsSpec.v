(* NumeralsSpec.v — what a finite decimal number denotes: the rational  mant * 10^expo ,
   and the order / equality of numbers as order / equality of those rationals. *)
From Coq Require Import ZArith QArith Qpower.
Require Import OJD.Base OJD.Numerals.

Definition Qnum (a : num) : Q := inject_Z (mant a) * (inject_Z 10) ^ (expo a).

Definition num_le (a b : num) : Prop := Qnum a <= Qnum b.
Definition num_lt (a b : num) : Prop := Qnum a < Qnum b.
Definition num_eq (a b : num) : Prop := Qnum a == Qnum b.
