(* MergeSpec.v — specification vocabulary of C12, written from the property text:

     "a value is never accepted unless every individual definition accepts it, and whenever
      the merge succeeds every value that all definitions accept is accepted; the effective
      default is the last one given.  The merge is refused whenever types, objectType or
      dataFlow differ or no value can satisfy all constraints, independent of how many
      templates take part and of their order (default aside)."

   "accepts" is [sat] of JobParamsSpec.v (the C10 notion). *)
From Coq Require Import List NArith ZArith Bool.
Import ListNotations.
Require Import OJD.Base OJD.Numerals OJD.NumeralsSpec OJD.JobParams OJD.JobParamsSpec OJD.Merge.
Local Open Scope Z_scope.

(* the effective default: the last one given, scanning the definitions in merge order *)
Definition last_given_default (ds : list pdef) : option str :=
  fold_left (fun acc d => match pdefault d with Some t => Some t | None => acc end) ds None.

(* every definition accepts the value *)
Definition all_accept (ds : list pdef) (v : str) : Prop := Forall (fun d => sat d v) ds.

(* no value can satisfy all constraints *)
Definition unsatisfiable (ds : list pdef) : Prop := forall v, ~ all_accept ds v.

(* ---- what the decoder guarantees about a definition, beyond [wf_def] ---- *)

(* the default text of an INT / FLOAT definition is the text of an int / finite Decimal *)
Definition wf_default (d : pdef) : Prop :=
  is_numeric (ptyp d) = true ->
  forall t, pdefault d = Some t -> exists x, default_num (ptyp d) t = Some x.

(* the numbers of an INT definition are integers (exponent 0 in the wire form) *)
Definition is_int (x : num) : Prop := expo x = 0.
Definition wf_int (d : pdef) : Prop :=
  ptyp d = INT ->
  opt_all (pminv d) is_int /\ opt_all (pmaxv d) is_int /\ opt_all (pallowed_n d) (Forall is_int).

Definition wf_merge (d : pdef) : Prop := wf_def d /\ wf_default d /\ wf_int d.
