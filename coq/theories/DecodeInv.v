(* DecodeInv.v — inversion of the acceptance model on the live schema, for props/C06.v:
   what an ACCEPTED job template looks like as an instance tree, as far as create_job's failure
   modes need it:
     * which classes can occur below a kind (closure of the schema's class graph);
     * the job parameter definitions of the tree are the declared parameters of the document
       (so: with a value for every declared parameter, create_job never raises KeyError);
     * the job name of the tree is the document's name string (so: it resolves). *)
From Coq Require Import List NArith ZArith Bool String Lia.
Import ListNotations.
Require Import OJD.Base OJD.Lexer OJD.Json OJD.Schema OJD.Generated OJD.Charsets OJD.Numerals OJD.NumPrint
               OJD.FormatStr OJD.FormatStrProofs OJD.FsRefs OJD.CreateJob OJD.CreateJobProofs OJD.Parse
               OJD.Validators OJD.Accept OJD.AcceptMono OJD.Export OJD.ScopeWalk OJD.ScopeSpec
               OJD.GlueLib OJD.ParseOutcomes OJD.NoMissingVar OJD.CreateExn.
Local Open Scope string_scope.
Local Open Scope list_scope.

(* ------------------------------------------------------------------ induction on instance trees *)
Section MvalInd.
  Variable P : mval -> Prop.
  Hypothesis HNone : P MNone.
  Hypothesis HBool : forall b, P (MBool b).
  Hypothesis HInt : forall z, P (MInt z).
  Hypothesis HDec : forall m e, P (MDec m e).
  Hypothesis HFloat : forall m e, P (MFloat m e).
  Hypothesis HStr : forall s, P (MStr s).
  Hypothesis HFmt : forall s, P (MFmt s).
  Hypothesis HList : forall l, Forall P l -> P (MList l).
  Hypothesis HDict : forall l, Forall (fun kv => P (snd kv)) l -> P (MDict l).
  Hypothesis HModel : forall c fs, Forall (fun kv => P (snd kv)) fs -> P (MModel c fs).

  Fixpoint mval_ind2 (v : mval) : P v :=
    match v with
    | MNone => HNone
    | MBool b => HBool b
    | MInt z => HInt z
    | MDec m e => HDec m e
    | MFloat m e => HFloat m e
    | MStr s => HStr s
    | MFmt s => HFmt s
    | MList l =>
      HList l ((fix go (l : list mval) : Forall P l :=
                  match l with
                  | [] => Forall_nil _
                  | x :: r => Forall_cons x (mval_ind2 x) (go r)
                  end) l)
    | MDict l =>
      HDict l ((fix go (l : list (str * mval)) : Forall (fun kv => P (snd kv)) l :=
                  match l with
                  | [] => Forall_nil _
                  | x :: r => Forall_cons x (mval_ind2 (snd x)) (go r)
                  end) l)
    | MModel c fs =>
      HModel c fs ((fix go (l : list (string * mval)) : Forall (fun kv => P (snd kv)) l :=
                      match l with
                      | [] => Forall_nil _
                      | x :: r => Forall_cons x (mval_ind2 (snd x)) (go r)
                      end) fs)
    end.
End MvalInd.

Lemma flat_map_nil_all : forall (A B : Type) (f : A -> list B) l,
  (forall x, In x l -> f x = []) -> flat_map f l = [].
Proof.
  induction l as [|a r IH]; intros H; [reflexivity|].
  cbn [flat_map]. rewrite (H a (or_introl eq_refl)). cbn [app]. apply IH. intros x Hx. apply H. right. exact Hx.
Qed.

Lemma adds_names_nil : forall SC x,
  (forall c, In c (classes_in x) -> j_adds_value (jcm_of SC c) = false) -> adds_names SC x = [].
Proof.
  intros SC x. induction x as [ | | | | | | |l IH|l IH|c fs IH] using mval_ind2; intros H; try reflexivity.
  - cbn [adds_names]. apply flat_map_nil_all. intros y Hy.
    rewrite Forall_forall in IH. apply (IH y Hy). intros c Hc. apply H.
    cbn [classes_in]. apply in_flat_map. exists y. split; assumption.
  - cbn [adds_names]. apply flat_map_nil_all. intros kv Hkv.
    rewrite Forall_forall in IH. apply (IH kv Hkv). intros c Hc. apply H.
    cbn [classes_in]. apply in_flat_map. exists kv. split; assumption.
  - cbn [adds_names]. rewrite (H c) by (cbn [classes_in]; left; reflexivity). cbn [app].
    apply flat_map_nil_all. intros kv Hkv.
    rewrite Forall_forall in IH. apply (IH kv Hkv). intros c' Hc. apply H.
    cbn [classes_in]. right. apply in_flat_map. exists kv. split; assumption.
Qed.

(* ------------------------------------------------------------------ classes below a kind *)
Fixpoint kind_classes (k : kind) : list string :=
  match k with
  | KModel c => [c]
  | KDisc _ mapping => map snd mapping
  | KUnion alts =>
    (fix go (l : list ualt) : list string :=
       match l with
       | [] => []
       | a :: r => ualt_classes a ++ go r
       end) alts
  | _ => []
  end
with ualt_classes (a : ualt) : list string :=
  match a with
  | UScalar k => kind_classes k
  | UList _ _ k => kind_classes k
  end.

Lemma kind_classes_union : forall alts, kind_classes (KUnion alts) = flat_map ualt_classes alts.
Proof. induction alts as [|a r IH]; [reflexivity|]. cbn [flat_map]. rewrite <- IH. reflexivity. Qed.

Lemma mapM_ok_in : forall (A B : Type) (f : A -> outcome B) l ys,
  mapM f l = Ok ys -> forall y, In y ys -> exists x, In x l /\ f x = Ok y.
Proof.
  induction l as [|a r IH]; intros ys H y Hy.
  - injection H as <-. destruct Hy.
  - cbn [mapM] in H. destruct (f a) as [b|e] eqn:Ea; cbn [bind] in H; [|discriminate H].
    destruct (mapM f r) as [bs|e] eqn:Er; cbn [bind] in H; [|discriminate H].
    injection H as <-. destruct Hy as [<-|Hy].
    + exists a. split; [left; reflexivity|exact Ea].
    + destruct (IH bs eq_refl y Hy) as [x [Hx Hf]]. exists x. split; [right; exact Hx|exact Hf].
Qed.

Lemma mapM_cons_ok : forall (A B : Type) (f : A -> outcome B) a r ys,
  mapM f (a :: r) = Ok ys -> exists y ys', f a = Ok y /\ mapM f r = Ok ys' /\ ys = y :: ys'.
Proof.
  intros A B f a r ys H. cbn [mapM] in H.
  destruct (f a) as [b|e]; cbn [bind] in H; [|discriminate H].
  destruct (mapM f r) as [bs|e]; cbn [bind] in H; [|discriminate H].
  injection H as <-. exists b, bs. repeat split; reflexivity.
Qed.

Definition scalar_mval (m : mval) : Prop :=
  match m with MList _ | MDict _ | MModel _ _ => False | _ => True end.

Lemma scalar_classes : forall m, scalar_mval m -> classes_in m = [].
Proof. intros m H. destruct m; try reflexivity; destruct H. Qed.

Lemma check_str_ok : forall lo hi cs s m, check_str lo hi cs s = Ok m -> m = MStr s /\ len_ok lo hi s = true.
Proof.
  intros lo hi cs s m H. unfold check_str in H.
  destruct (len_ok lo hi s && cs_ok cs s) eqn:E; [|discriminate H]. injection H as <-.
  apply andb_true_iff in E. destruct E as [E _]. split; [reflexivity|exact E].
Qed.

Lemma parse_scalar_ok_scalar : forall classify k v m, parse_scalar classify k v = Ok m -> scalar_mval m.
Proof.
  intros classify k v m H.
  destruct k as [lit|enum|strict lo hi cs|c lo hi cs|strict|strict ge le gt|gt| |c|key mp|alts];
    cbn [parse_scalar] in H; try discriminate H.
  - destruct v as [|b|z|dm de|s|l|members]; try discriminate H. destruct (str_eqb s (str_of_string lit)); [|discriminate H].
    injection H as <-. exact I.
  - destruct v as [|b|z|dm de|s|l|members]; try discriminate H. destruct (existsb _ enum); [|discriminate H]. injection H as <-. exact I.
  - destruct v as [|b|z|dm de|s|l|members]; try discriminate H; try (destruct strict; try discriminate H);
      apply check_str_ok in H; destruct H as [-> _]; exact I.
  - destruct v as [|b|z|dm de|s|l|members]; try discriminate H. destruct (len_ok lo hi s && cs_ok cs s && fs_ok classify s); [|discriminate H].
    injection H as <-. exact I.
  - destruct v; try (destruct strict; discriminate H). injection H as <-. exact I.
  - assert (F : forall z, (if zopt_ok ge le gt z then Ok (MInt z) else reject) = Ok m -> scalar_mval m).
    { intros z Hz. destruct (zopt_ok ge le gt z); [|discriminate Hz]. injection Hz as <-. exact I. }
    destruct v as [|b|z|dm de|s|l|members]; try discriminate H; try (destruct strict; try discriminate H); try (eapply F; exact H).
    + destruct (dec_integral dm de); [eapply F; exact H|discriminate H].
    + destruct (parse_int s); [eapply F; exact H|discriminate H].
  - assert (F : forall a x, match gt with
                            | Some b => if num_ltb (num_of_Z b) (mkNum a x) then Ok (MFloat a x) else reject
                            | None => Ok (MFloat a x)
                            end = Ok m -> scalar_mval m).
    { intros a x Hz. destruct gt as [b|]; [|injection Hz as <-; exact I].
      destruct (num_ltb (num_of_Z b) (mkNum a x)); [|discriminate Hz]. injection Hz as <-. exact I. }
    destruct v; try discriminate H; eapply F; exact H.
  - destruct v as [|b|z|dm de|s|l|members]; try discriminate H; try (injection H as <-; exact I).
    destruct (parse_dec s) as [[a x|b|]|]; try discriminate H. injection H as <-. exact I.
Qed.

Section Classes.
  Variable SC : schema_t.
  Variable classify : N -> cclass.
  Variable pre : string -> json -> bool.
  Variable post : string -> json -> list (string * mval) -> bool.
  Notation pk := (parse_kind SC classify pre post).
  Notation pc := (parse_cls SC classify pre post).

  Variable R : list string.
  (* R is closed under "class of a field" *)
  Hypothesis closed : forall c c0, In c R -> lookup_cls SC c = Some c0 ->
    forall fl, In fl (c_fields c0) -> incl (kind_classes (f_kind fl)) R.

  Lemma try_alts_ok : forall f v alts m, try_alts (pk f) v alts = Ok m ->
    exists a, In a alts /\ alt_res (pk f) a v = Ok m.
  Proof.
    intros f v alts m. induction alts as [|a r IH]; intros H.
    - rewrite try_alts_nil in H. discriminate H.
    - rewrite try_alts_cons in H. destruct (alt_res (pk f) a v) as [x|e] eqn:Ea.
      + injection H as <-. exists a. split; [left; reflexivity|exact Ea].
      + assert (Hr : try_alts (pk f) v r = Ok m) by (destruct e; try exact H; discriminate H).
        destruct (IH Hr) as [a' [Hin Ha']]. exists a'. split; [right; exact Hin|exact Ha'].
  Qed.

  Lemma list_items_classes : forall f lo hi k v m,
    (forall k v m, pk f k v = Ok m -> incl (kind_classes k) R -> incl (classes_in m) R) ->
    list_items (pk f) lo hi k v = Ok m -> incl (kind_classes k) R -> incl (classes_in m) R.
  Proof.
    intros f lo hi k v m IH H Hk. unfold list_items in H. destruct v as [|b|z|dm de|s|l|members]; try discriminate H.
    destruct (len_ok_n lo hi (List.length l)); [|discriminate H].
    destruct (mapM (pk f k) l) as [l'|e] eqn:Em; cbn [bind] in H; [|discriminate H].
    injection H as <-. cbn [classes_in]. intros c Hc. apply in_flat_map in Hc. destruct Hc as [y [Hy Hc]].
    destruct (mapM_ok_in _ _ _ _ _ Em y Hy) as [x [_ Hx]]. exact (IH k x y Hx Hk c Hc).
  Qed.

  Lemma parse_value_classes : forall f fl raw x,
    (forall k v m, pk f k v = Ok m -> incl (kind_classes k) R -> incl (classes_in m) R) ->
    parse_value (pk f) fl raw = Ok x -> incl (kind_classes (f_kind fl)) R -> incl (classes_in x) R.
  Proof.
    intros f fl raw x IH H Hk. unfold parse_value in H.
    assert (K : match f_shape fl with
                | Single => pk f (f_kind fl) raw
                | ListOf minl maxl => list_items (pk f) minl maxl (f_kind fl) raw
                | DictOf kk =>
                  match raw with
                  | JObj members => do l' <- mapM (dict_entry (pk f) kk (f_kind fl)) members; Ok (MDict l')
                  | _ => reject
                  end
                end = Ok x -> incl (classes_in x) R).
    { clear H. intros H. destruct (f_shape fl) as [|lo hi|kk].
      - eapply IH; eassumption.
      - eapply list_items_classes; eassumption.
      - destruct raw as [|b|z|a e|s|l|ms]; try discriminate H.
        + destruct (mapM (dict_entry (pk f) kk (f_kind fl)) ms) as [l'|e] eqn:Em; cbn [bind] in H; [|discriminate H].
          injection H as <-. cbn [classes_in]. intros c Hc. apply in_flat_map in Hc. destruct Hc as [kv' [Hy Hc]].
          destruct (mapM_ok_in _ _ _ _ _ Em kv' Hy) as [kv [_ Hx]]. unfold dict_entry in Hx.
          destruct (pk f kk (JStr (fst kv))) as [y1|e1]; cbn [bind] in Hx; [|discriminate Hx].
          destruct (pk f (f_kind fl) (snd kv)) as [y2|e2] eqn:E2; cbn [bind] in Hx; [|discriminate Hx].
          injection Hx as <-. cbn [snd] in Hc. exact (IH _ _ _ E2 Hk c Hc). }
    destruct raw; try (apply K; exact H).
    destruct (f_required fl); [discriminate H|]. injection H as <-. intros c Hc. destruct Hc.
  Qed.

  Lemma fields_classes : forall f ms fls fs,
    (forall k v m, pk f k v = Ok m -> incl (kind_classes k) R -> incl (classes_in m) R) ->
    mapM (parse_field (pk f) ms) fls = Ok fs ->
    (forall fl, In fl fls -> incl (kind_classes (f_kind fl)) R) ->
    forall kv, In kv fs -> incl (classes_in (snd kv)) R.
  Proof.
    intros f ms fls fs IH Hm Hk kv Hkv.
    destruct (mapM_ok_in _ _ _ _ _ Hm kv Hkv) as [fl [Hfl Hp]]. unfold parse_field in Hp.
    destruct (parse_value (pk f) fl (field_raw ms fl)) as [x|e] eqn:Ev; cbn [bind] in Hp; [|discriminate Hp].
    injection Hp as <-. cbn [snd]. eapply parse_value_classes; [exact IH|exact Ev|apply Hk; exact Hfl].
  Qed.

  Theorem parse_classes : forall fuel,
    (forall k v m, pk fuel k v = Ok m -> incl (kind_classes k) R -> incl (classes_in m) R) /\
    (forall c v m, pc fuel c v = Ok m -> In c R -> incl (classes_in m) R).
  Proof.
    induction fuel as [|f [IHk IHc]].
    - split; intros x v m H; [rewrite parse_kind_O in H|rewrite parse_cls_O in H]; discriminate H.
    - split.
      + intros k v m H Hk. rewrite parse_kind_S in H.
        destruct k as [lit|members|strict lo hi cs|c lo hi cs|strict|strict ge le gt|gt| |c|key mp|alts];
          try (rewrite (scalar_classes m (parse_scalar_ok_scalar _ _ _ _ H)); intros c0 Hc0; destruct Hc0).
        * apply (IHc c v m H). apply Hk. left. reflexivity.
        * unfold disc_res in H. destruct v as [|b|z|dm de|s|l|members]; try discriminate H.
          destruct (assoc (str_of_string key) members) as [[| | | |s| |]|]; try discriminate H.
          destruct (List.find _ mp) as [[k' c']|] eqn:Ef; [|discriminate H].
          apply (IHc c' _ m H). apply Hk. cbn [kind_classes]. apply find_some in Ef. destruct Ef as [Ef _].
          apply in_map_iff. exists (k', c'). split; [reflexivity|exact Ef].
        * apply try_alts_ok in H. destruct H as [a [Ha Hr]].
          assert (Hka : incl (ualt_classes a) R).
          { intros c Hc. apply Hk. rewrite kind_classes_union. apply in_flat_map. exists a. split; assumption. }
          destruct a as [k'|lo hi k']; cbn [alt_res ualt_classes] in *.
          -- exact (IHk k' v m Hr Hka).
          -- eapply list_items_classes; eassumption.
      + intros c v m H Hc. rewrite parse_cls_S in H.
        destruct (lookup_cls SC c) as [c0|] eqn:El; [|discriminate H].
        destruct v as [|b|z|a e|s|l|ms]; try discriminate H.
        destruct (negb (pre c (JObj ms))); [discriminate H|].
        destruct (extra_bad c0 ms); [discriminate H|].
        destruct (mapM (parse_field (pk f) ms) (c_fields c0)) as [fields|e'] eqn:Em; cbn [bind] in H; [|discriminate H].
        destruct (post c (JObj ms) fields); [|discriminate H]. injection H as <-.
        cbn [classes_in]. intros c1 [<-|Hc1]; [exact Hc|].
        apply in_flat_map in Hc1. destruct Hc1 as [kv [Hkv Hc1]].
        exact (fields_classes f ms (c_fields c0) fields IHk Em (closed c c0 Hc El) kv Hkv c1 Hc1).
  Qed.
End Classes.

(* boolean form of the closure condition *)
Definition closedb (SC : schema_t) (R : list string) : bool :=
  forallb (fun c => match lookup_cls SC c with
                    | Some c0 => forallb (fun fl => forallb (fun x => mem_s x R) (kind_classes (f_kind fl))) (c_fields c0)
                    | None => true
                    end) R.

Lemma mem_s_In : forall x l, mem_s x l = true <-> In x l.
Proof.
  intros x l. unfold mem_s. rewrite existsb_exists. split.
  - intros [y [Hy He]]. apply String.eqb_eq in He. subst y. exact Hy.
  - intros H. exists x. split; [exact H|apply String.eqb_refl].
Qed.

Lemma closedb_sound : forall SC R, closedb SC R = true ->
  forall c c0, In c R -> lookup_cls SC c = Some c0 ->
  forall fl, In fl (c_fields c0) -> incl (kind_classes (f_kind fl)) R.
Proof.
  intros SC R H c c0 Hc El fl Hfl x Hx. unfold closedb in H. rewrite forallb_forall in H.
  specialize (H c Hc). rewrite El in H. rewrite forallb_forall in H. specialize (H fl Hfl).
  rewrite forallb_forall in H. apply mem_s_In. apply H. exact Hx.
Qed.

(* ------------------------------------------------------------------ the live schema *)

Definition param_classes : list string :=
  ["JobIntParameterDefinition"; "JobFloatParameterDefinition"; "JobStringParameterDefinition"; "JobPathParameterDefinition"].

(* every class except the job parameter definitions and the two template roots *)
Definition R0 : list string :=
  filter (fun c => negb (mem_s c param_classes) && negb (mem_s c ["JobTemplate"; "EnvironmentTemplate"]))
         (map fst Generated.schema).

Lemma R0_closed : closedb Generated.schema R0 = true.
Proof. vm_compute. reflexivity. Qed.

Lemma R0_no_adds : forallb (fun c => negb (j_adds_value (jcm_of Generated.schema c))) R0 = true.
Proof. vm_compute. reflexivity. Qed.

Lemma R0_adds_nil : forall x, incl (classes_in x) R0 -> adds_names Generated.schema x = [].
Proof.
  intros x H. apply adds_names_nil. intros c Hc. pose proof R0_no_adds as E. rewrite forallb_forall in E.
  specialize (E c (H c Hc)). destruct (j_adds_value (jcm_of Generated.schema c)); [discriminate E|reflexivity].
Qed.

Section Live.
  Variable classify : N -> cclass.
  Notation pk := (parse_kind Generated.schema classify pre_hook (post_hook classify)).
  Notation pc := (parse_cls Generated.schema classify pre_hook (post_hook classify)).

  Lemma pk_classes_R0 : forall f k v m, pk f k v = Ok m -> incl (kind_classes k) R0 -> incl (classes_in m) R0.
  Proof.
    intros f. exact (proj1 (parse_classes Generated.schema classify pre_hook (post_hook classify) R0
                                          (closedb_sound _ _ R0_closed) f)).
  Qed.

  (* a parsed field whose kind stays inside R0 contributes no job parameter definition *)
  Lemma field_adds_nil : forall f ms fl y,
    parse_field (pk f) ms fl = Ok y ->
    forallb (fun x => mem_s x R0) (kind_classes (f_kind fl)) = true ->
    adds_names Generated.schema (snd y) = [].
  Proof.
    intros f ms fl y H Hk. unfold parse_field in H.
    destruct (parse_value (pk f) fl (field_raw ms fl)) as [x|e] eqn:Ev; cbn [bind] in H; [|discriminate H].
    injection H as <-. cbn [snd]. apply R0_adds_nil.
    eapply parse_value_classes; [intros k v m; apply pk_classes_R0|exact Ev|].
    intros c Hc. apply mem_s_In. rewrite forallb_forall in Hk. apply Hk. exact Hc.
  Qed.

  Lemma fields_adds_nil : forall f ms fls fs,
    mapM (parse_field (pk f) ms) fls = Ok fs ->
    forallb (fun fl => forallb (fun x => mem_s x R0) (kind_classes (f_kind fl))) fls = true ->
    flat_map (fun kv => adds_names Generated.schema (snd kv)) fs = [].
  Proof.
    intros f ms fls fs Hm Hk. apply flat_map_nil_all. intros kv Hkv.
    destruct (mapM_ok_in _ _ _ _ _ Hm kv Hkv) as [fl [Hfl Hp]].
    rewrite forallb_forall in Hk. eapply field_adds_nil; [exact Hp|apply Hk; exact Hfl].
  Qed.

  (* the required constr-identifier "name" field every parameter definition class starts with *)
  Definition name_field : field := mkField "name" "name" true Single (KStr true (Some 1%N) (Some 64%N) CS_identifier).

  Lemma name_field_inv : forall f ms y,
    parse_field (pk f) ms name_field = Ok y ->
    exists c r, y = ("name", MStr (c :: r)) /\ jget "name" (JObj ms) = JStr (c :: r).
  Proof.
    intros f ms y H. unfold parse_field, parse_value, field_raw in H. cbn [name_field f_alias f_required f_shape f_kind f_name] in H.
    cbn [jget]. change (str_of_string "name") with ($"name") in *.
    destruct (assoc $"name" ms) as [raw|]; [|discriminate H].
    destruct f as [|f']; [destruct raw; discriminate H|].
    rewrite parse_kind_S in H. cbn [parse_scalar] in H.
    destruct raw as [|b|z|a e|s|l|ms']; try discriminate H.
    destruct (check_str (Some 1%N) (Some 64%N) CS_identifier s) as [x|e] eqn:Ec; cbn [bind] in H; [|discriminate H].
    injection H as <-. apply check_str_ok in Ec. destruct Ec as [-> Hl].
    destruct s as [|c r]; [vm_compute in Hl; discriminate Hl|]. exists c, r. split; reflexivity.
  Qed.

  (* one job parameter definition object *)
  Lemma param_def_inv : forall c', In c' param_classes -> forall f ims y,
    pc f c' (JObj ims) = Ok y ->
    exists c r, jget "name" (JObj ims) = JStr (c :: r) /\ adds_names Generated.schema y = [c :: r].
  Proof.
    intros c' Hin f ims y H. destruct f as [|f]; [discriminate H|]. rewrite parse_cls_S in H.
    unfold param_classes in Hin.
    destruct Hin as [<-|[<-|[<-|[<-|[]]]]];
      (match type of H with context [lookup_cls Generated.schema ?c] =>
         destruct (lookup_cls Generated.schema c) as [c0|] eqn:El; [|discriminate H];
         vm_compute in El; injection El as <-
       end;
       match type of H with context [negb ?b] => destruct (negb b); [discriminate H|] end;
       match type of H with context [extra_bad ?a ?b] => destruct (extra_bad a b); [discriminate H|] end;
       cbn [c_fields] in H;
       match type of H with context [mapM ?g ?l] => destruct (mapM g l) as [fs|e] eqn:Em; cbn [bind] in H; [|discriminate H] end;
       match type of H with context [if ?b then _ else _] => destruct b; [|discriminate H] end;
       injection H as <-;
       apply mapM_cons_ok in Em; destruct Em as [y1 [fs' [H1 [Hr ->]]]];
       apply name_field_inv in H1; destruct H1 as [c [r [-> Hn]]];
       exists c, r; split; [exact Hn|];
       cbn [adds_names]; cbn [mfield lookup_s String.eqb Ascii.eqb Bool.eqb];
       match goal with |- context [jcm_of Generated.schema ?c] =>
         assert (Ej : j_adds_value (jcm_of Generated.schema c) = true) by (vm_compute; reflexivity); rewrite Ej
       end;
       cbn [flat_map snd adds_names app];
       rewrite (fields_adds_nil f ims _ fs' Hr) by (vm_compute; reflexivity); reflexivity).
  Qed.

  Lemma disc_param_inv : forall f item y,
    pk f (KDisc "type" [("INT", "JobIntParameterDefinition"); ("FLOAT", "JobFloatParameterDefinition");
                        ("STRING", "JobStringParameterDefinition"); ("PATH", "JobPathParameterDefinition")]) item = Ok y ->
    exists n, adds_names Generated.schema y = [n] /\ has_param_type item = true /\ decl_name item = Some n.
  Proof.
    intros f item y H. destruct f as [|f]; [discriminate H|]. rewrite parse_kind_S in H. unfold disc_res in H.
    destruct item as [| | | | | |ims]; try discriminate H.
    destruct (assoc (str_of_string "type") ims) as [[| | | |s| |]|] eqn:Ea; try discriminate H.
    destruct (List.find _ _) as [[k' c']|] eqn:Ef; [|discriminate H].
    apply find_some in Ef. destruct Ef as [Hin Hs]. cbn [fst] in Hs. apply gl_str_eqb_eq in Hs. subst s.
    assert (Hc : In c' param_classes /\ has_param_type (JObj ims) = true).
    { unfold has_param_type, type_is. cbn [jget]. rewrite Ea.
      destruct Hin as [E|[E|[E|[E|[]]]]]; injection E as <- <-; split; try (vm_compute; tauto); reflexivity. }
    destruct Hc as [Hc Ht].
    destruct (param_def_inv c' Hc f ims y H) as [c [r [Hn Ha]]].
    exists (c :: r). split; [exact Ha|]. split; [exact Ht|]. unfold decl_name. rewrite Hn. reflexivity.
  Qed.

  (* ---------------- the root ---------------- *)
  Lemma params_field_adds : forall f ms fl y,
    f_name fl = "parameterDefinitions" -> f_alias fl = "parameterDefinitions" -> f_required fl = false ->
    (exists lo hi, f_shape fl = ListOf lo hi) ->
    f_kind fl = KDisc "type" [("INT", "JobIntParameterDefinition"); ("FLOAT", "JobFloatParameterDefinition");
                              ("STRING", "JobStringParameterDefinition"); ("PATH", "JobPathParameterDefinition")] ->
    parse_field (pk f) ms fl = Ok y ->
    incl (adds_names Generated.schema (snd y)) (all_params (jget "parameterDefinitions" (JObj ms))).
  Proof.
    intros f ms fl y Hn Ha Hq [lo [hi Hs]] Hk H. unfold parse_field, parse_value, field_raw in H.
    rewrite Ha, Hq, Hs, Hk in H. cbn [jget]. change (str_of_string "parameterDefinitions") with ($"parameterDefinitions") in *.
    destruct (assoc $"parameterDefinitions" ms) as [raw|].
    - destruct raw as [|b|z|a e|s|items|ms']; cbn [bind list_items] in H; try discriminate H.
      + injection H as <-. intros n Hin. destruct Hin.
      + destruct (len_ok_n lo hi (List.length items)); [|discriminate H].
        destruct (mapM _ items) as [l'|e] eqn:Em; cbn [bind] in H; [|discriminate H].
        injection H as <-. cbn [snd adds_names]. intros n Hin. apply in_flat_map in Hin.
        destruct Hin as [m [Hm Hnm]]. destruct (mapM_ok_in _ _ _ _ _ Em m Hm) as [item [Hitem Hp]].
        apply disc_param_inv in Hp. destruct Hp as [n' [Hadds [Ht Hd]]]. rewrite Hadds in Hnm.
        destruct Hnm as [<-|[]].
        unfold all_params, declared. cbn [obj_list]. apply in_flat_map. exists item. split; [exact Hitem|].
        rewrite Ht, Hd. left. reflexivity.
    - cbn [bind] in H. injection H as <-. intros n Hin. destruct Hin.
  Qed.

  Lemma format_field_inv : forall f ms fname falias c lo hi cs y,
    parse_field (pk f) ms (mkField fname falias true Single (KFormat c lo hi cs)) = Ok y ->
    exists s, y = (fname, MFmt s) /\ assoc (str_of_string falias) ms = Some (JStr s) /\ fs_ok classify s = true.
  Proof.
    intros f ms fname falias c lo hi cs y H. unfold parse_field, parse_value, field_raw in H.
    cbn [f_alias f_required f_shape f_kind f_name] in H.
    destruct (assoc (str_of_string falias) ms) as [raw|]; [|discriminate H].
    destruct f as [|f']; [destruct raw; discriminate H|].
    rewrite parse_kind_S in H. cbn [parse_scalar] in H.
    destruct raw as [|b|z|a e|s|l|ms']; try discriminate H.
    destruct (len_ok lo hi s && cs_ok cs s && fs_ok classify s) eqn:E; cbn [bind] in H; [|discriminate H].
    injection H as <-. apply andb_true_iff in E. destruct E as [_ E]. exists s. repeat split. exact E.
  Qed.

  (* what the create_job model needs to know about an accepted job template *)
  Theorem decode_job_inv : forall j t, decode_job classify j = Ok t ->
    exists ms fields s,
      j = JObj ms /\ t = MModel "JobTemplate" fields /\
      jget "name" j = JStr s /\ mfield "name" fields = MFmt s /\ fs_ok classify s = true /\
      incl (adds_names Generated.schema t) (all_params (jget "parameterDefinitions" j)).
  Proof.
    intros j t H. unfold decode_job in H.
    destruct j as [| | | | | |ms]; try discriminate H.
    destruct (version_ok Generated.job_template_versions (JObj ms)); [|discriminate H].
    unfold parse_template, parse_root in H.
    destruct (parse_fuel (JObj ms)) as [|f]; [discriminate H|].
    rewrite parse_cls_S in H.
    destruct (lookup_cls Generated.schema "JobTemplate") as [c0|] eqn:El; [|discriminate H].
    vm_compute in El. injection El as <-.
    destruct (negb (pre_hook "JobTemplate" (JObj ms))); [discriminate H|].
    match type of H with context [extra_bad ?a ?b] => destruct (extra_bad a b); [discriminate H|] end.
    cbn [c_fields] in H.
    match type of H with context [mapM ?g ?l] => destruct (mapM g l) as [fields|e] eqn:Em; cbn [bind] in H; [|discriminate H] end.
    match type of H with context [if ?b then _ else _] => destruct b; [|discriminate H] end.
    injection H as <-.
    apply mapM_cons_ok in Em. destruct Em as [y1 [r1 [H1 [Em ->]]]].
    apply mapM_cons_ok in Em. destruct Em as [y2 [r2 [H2 [Em ->]]]].
    apply mapM_cons_ok in Em. destruct Em as [y3 [r3 [H3 [Em ->]]]].
    apply mapM_cons_ok in Em. destruct Em as [y4 [r4 [H4 [Em ->]]]].
    apply mapM_cons_ok in Em. destruct Em as [y5 [r5 [H5 [Em ->]]]].
    apply mapM_cons_ok in Em. destruct Em as [y6 [r6 [H6 [Em ->]]]].
    apply mapM_cons_ok in Em. destruct Em as [y7 [r7 [H7 [Em ->]]]].
    injection Em as <-.
    pose proof (format_field_inv _ _ _ _ _ _ _ _ _ H2) as [s [E2 [Hs Hfs]]].
    exists ms, [y1; y2; y3; y4; y5; y6; y7], s.
    split; [reflexivity|]. split; [reflexivity|].
    split; [cbn [jget]; rewrite Hs; reflexivity|].
    assert (N1 : fst y1 = "specificationVersion").
    { unfold parse_field in H1. destruct (parse_value _ _ _); cbn [bind] in H1; [|discriminate H1].
      injection H1 as <-. reflexivity. }
    split.
    { unfold mfield. cbn [lookup_s]. destruct y1 as [n1 x1]. cbn [fst] in N1. subst n1. subst y2.
      cbn [lookup_s String.eqb Ascii.eqb Bool.eqb]. reflexivity. }
    split; [exact Hfs|].
    cbn [adds_names].
    assert (Ej : j_adds_value (jcm_of Generated.schema "JobTemplate") = false) by (vm_compute; reflexivity).
    rewrite Ej. cbn [app flat_map].
    rewrite (field_adds_nil _ _ _ _ H1) by (vm_compute; reflexivity).
    rewrite (field_adds_nil _ _ _ _ H2) by (vm_compute; reflexivity).
    rewrite (field_adds_nil _ _ _ _ H3) by (vm_compute; reflexivity).
    rewrite (field_adds_nil _ _ _ _ H4) by (vm_compute; reflexivity).
    rewrite (field_adds_nil _ _ _ _ H6) by (vm_compute; reflexivity).
    rewrite (field_adds_nil _ _ _ _ H7) by (vm_compute; reflexivity).
    cbn [app]. rewrite app_nil_r.
    match type of H5 with parse_field _ _ ?fl = _ =>
      exact (params_field_adds f ms fl y5 eq_refl eq_refl eq_refl (ex_intro _ _ (ex_intro _ _ eq_refl)) eq_refl H5)
    end.
  Qed.
End Live.

(* ------------------------------------------------------------------ end to end *)

(* an accepted template, values for all its declared parameters: create_job never raises KeyError *)
Theorem accepted_no_keyerror : forall classify j t vals,
  decode_job classify j = Ok t -> covers (jget "parameterDefinitions" j) vals ->
  create_job_verdict classify vals t <> Raise KeyError.
Proof.
  intros classify j t vals Hd [C1 _] H.
  destruct (create_job_verdict_raises classify vals t KeyError H) as [_ [_ K]].
  destruct (K eq_refl) as [n [Hn Hnot]].
  destruct (decode_job_inv classify j t Hd) as [ms [fields [s [_ [_ [_ [_ [_ Hincl]]]]]]]].
  apply Hnot. apply C1. apply Hincl. exact Hn.
Qed.

(* ... and the job name of the decoded template is the document's name, a well-formed format
   string all of whose references are bound: create_job's resolve of it succeeds *)
Theorem accepted_name_resolves : forall classify j t vals,
  decode_job classify j = Ok t -> covers (jget "parameterDefinitions" j) vals ->
  exists fields s r, t = MModel "JobTemplate" fields /\ mfield "name" fields = MFmt s /\
                     jget "name" j = JStr s /\ Export.fs_resolve classify (symtab_of vals) s = Ok r.
Proof.
  intros classify j t vals Hd Hc.
  destruct (decode_job_inv classify j t Hd) as [ms [fields [s [Hj [Ht [Hn [Hm [Hfs _]]]]]]]].
  pose proof (decode_job_prevalidated classify j t Hd) as Hp.
  unfold fs_ok in Hfs. destruct (mk classify s) as [f|e] eqn:Emk; [|discriminate Hfs].
  assert (Hr : fs_refs classify s = Some (FormatStrProofs.names f)) by (unfold fs_refs; rewrite Emk; reflexivity).
  assert (Hs : In (JStr s) (template_sites j)) by (unfold template_sites; left; exact Hn).
  destruct (sites_bound classify j vals Hc Hp s Hs _ Hr) as [_ [r Hok]].
  exists fields, s, r. repeat split; assumption.
Qed.
