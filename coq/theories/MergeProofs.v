(* MergeProofs.v — the merge model of Merge.v meets the C12 specification. *)
From Coq Require Import List NArith ZArith Bool Lia Permutation.
Import ListNotations.
Require Import OJD.Base OJD.Numerals OJD.NumeralsSpec OJD.NumeralsProofs OJD.JobParams OJD.JobParamsSpec
        OJD.JobParamsProofs OJD.Merge OJD.MergeSpec.
Local Open Scope Z_scope.

(* ---------- small facts ---------- *)

Lemma ptype_eqb_eq : forall a b, ptype_eqb a b = true <-> a = b.
Proof. intros [] []; cbn; split; intro H; try reflexivity; discriminate. Qed.

Lemma objtype_eqb_eq : forall a b, objtype_eqb a b = true <-> a = b.
Proof. intros [] []; cbn; split; intro H; try reflexivity; discriminate. Qed.

Lemma dataflow_eqb_eq : forall a b, dataflow_eqb a b = true <-> a = b.
Proof. intros [] []; cbn; split; intro H; try reflexivity; discriminate. Qed.

Lemma last_opt_some : forall {A} (l : list A) y, exists z, last_opt (y :: l) = Some z.
Proof.
  intros A l. induction l as [|a l IH]; intro y; [exists y; reflexivity|].
  change (last_opt (y :: a :: l)) with (last_opt (a :: l)). apply IH.
Qed.

Lemma last_opt_cons : forall {A} (x : A) l,
  last_opt (x :: l) = match last_opt l with Some y => Some y | None => Some x end.
Proof.
  intros A x [|y l]; [reflexivity|].
  change (last_opt (x :: y :: l)) with (last_opt (y :: l)).
  destruct (last_opt_some l y) as [z ->]. reflexivity.
Qed.

Lemma last_opt_in : forall {A} (l : list A) x, last_opt l = Some x -> In x l.
Proof.
  intros A l. induction l as [|y l IH]; intros x H; [discriminate|].
  rewrite last_opt_cons in H. destruct (last_opt l) as [z|] eqn:E.
  - injection H as <-. right. apply IH. reflexivity.
  - injection H as <-. left. reflexivity.
Qed.

Lemma last_opt_none : forall {A} (l : list A), last_opt l = None <-> l = [].
Proof.
  intros A [|x l]; [tauto|]. rewrite last_opt_cons. split; [|discriminate]. destruct (last_opt l); discriminate.
Qed.

Lemma last_opt_app : forall {A} (l1 l2 : list A),
  last_opt (l1 ++ l2) = match last_opt l2 with Some y => Some y | None => last_opt l1 end.
Proof.
  intros A l1 l2. induction l1 as [|x l1 IH].
  - cbn. destruct (last_opt l2); reflexivity.
  - cbn [app]. rewrite !last_opt_cons, IH. destruct (last_opt l2); [reflexivity|]. reflexivity.
Qed.

Lemma in_somes : forall {A} (l : list (option A)) x, In x (somes l) <-> In (Some x) l.
Proof.
  intros A l x. unfold somes. rewrite in_flat_map. split.
  - intros [[y|] [Ho Hx]]; cbn in Hx; [|tauto]. destruct Hx as [<-|[]]. exact Ho.
  - intro H. exists (Some x). split; [exact H|left; reflexivity].
Qed.

Lemma all_equal_spec : forall {A} (eqb : A -> A -> bool) (l : list A),
  (forall a b, eqb a b = true <-> a = b) ->
  (all_equal eqb l = true <-> forall x y, In x l -> In y l -> x = y).
Proof.
  intros A eqb [|a l] E; cbn [all_equal].
  - split; [intros _ x y []|reflexivity].
  - rewrite forallb_forall. split.
    + intros H x y Hx Hy.
      assert (K : forall z, In z (a :: l) -> z = a).
      { intros z [<-|Hz]; [reflexivity|]. symmetry. apply E. apply H. exact Hz. }
      rewrite (K x Hx), (K y Hy). reflexivity.
    + intros H x Hx. apply E. apply H; [left; reflexivity|right; exact Hx].
Qed.

(* ---------- fold_opt: the merged bound is the least upper bound ---------- *)

Section FoldOpt.
  Context {A : Type} (le : A -> A -> Prop) (f : A -> A -> A).
  Hypothesis f_lub : forall a b c, le (f a b) c <-> le a c /\ le b c.

  Lemma fold_opt_bound : forall l acc c,
    opt_all (fold_opt f acc l) (fun b => le b c) <->
    opt_all acc (fun b => le b c) /\ (forall o, In o l -> opt_all o (fun b => le b c)).
  Proof.
    induction l as [|[x|] r IH]; intros acc c; cbn [fold_opt].
    - split; [intro H; split; [exact H|intros o []]|intros [H _]; exact H].
    - rewrite IH. cbn [opt_all]. split.
      + intros [H1 H2]. destruct acc as [a|]; cbn [opt_all].
        * apply f_lub in H1. destruct H1 as [Ha Hx]. split; [exact Ha|].
          intros o [<-|Ho]; [exact Hx|apply H2; exact Ho].
        * split; [exact I|]. intros o [<-|Ho]; [exact H1|apply H2; exact Ho].
      + intros [H1 H2]. split.
        * destruct acc as [a|]; cbn [opt_all] in *.
          -- apply f_lub. split; [exact H1|]. apply (H2 (Some x)). left. reflexivity.
          -- apply (H2 (Some x)). left. reflexivity.
        * intros o Ho. apply H2. right. exact Ho.
    - rewrite IH. split.
      + intros [H1 H2]. split; [exact H1|]. intros o [<-|Ho]; [exact I|apply H2; exact Ho].
      + intros [H1 H2]. split; [exact H1|]. intros o Ho. apply H2. right. exact Ho.
  Qed.
End FoldOpt.

Lemma fold_opt_none : forall {A} (f : A -> A -> A) l acc,
  fold_opt f acc l = None <-> acc = None /\ forall o, In o l -> o = None.
Proof.
  intros A f l. induction l as [|[x|] r IH]; intro acc; cbn [fold_opt].
  - split; [intro H; split; [exact H|intros o []]|tauto].
  - rewrite IH. split.
    + intros [H _]. discriminate.
    + intros [_ H]. specialize (H (Some x) (or_introl eq_refl)). discriminate.
  - rewrite IH. split.
    + intros [H1 H2]. split; [exact H1|]. intros o [<-|Ho]; [reflexivity|apply H2; exact Ho].
    + intros [H1 H2]. split; [exact H1|]. intros o Ho. apply H2. right. exact Ho.
Qed.

(* an invariant of the elements survives the fold when f returns one of its arguments *)
Lemma fold_opt_pres : forall {A} (f : A -> A -> A) (P : A -> Prop),
  (forall a b, P a -> P b -> P (f a b)) ->
  forall l acc, opt_all acc P -> (forall o, In o l -> opt_all o P) -> opt_all (fold_opt f acc l) P.
Proof.
  intros A f P Hf l. induction l as [|[x|] r IH]; intros acc Ha Hl; cbn [fold_opt].
  - exact Ha.
  - apply IH.
    + cbn [opt_all]. pose proof (Hl (Some x) (or_introl eq_refl)) as Hx. cbn in Hx.
      destruct acc as [a|]; [apply Hf; assumption|exact Hx].
    + intros o Ho. apply Hl. right. exact Ho.
  - apply IH; [exact Ha|]. intros o Ho. apply Hl. right. exact Ho.
Qed.

(* ---------- _merge_allowed_values ---------- *)

Section Allowed.
  Context {A : Type} (mem : A -> list A -> bool) (eqv : A -> A -> Prop).
  Hypothesis mem_spec : forall x l, mem x l = true <-> exists y, In y l /\ eqv x y.
  Hypothesis eqv_sym : forall a b, eqv a b -> eqv b a.
  Hypothesis eqv_trans : forall a b c, eqv a b -> eqv b c -> eqv a c.

  Definition memP (x : A) (l : list A) : Prop := exists y, In y l /\ eqv x y.

  Lemma inter_spec : forall a l x, memP x (inter mem a l) <-> memP x a /\ memP x l.
  Proof.
    intros a l x. unfold memP, inter. split.
    - intros [y [Hy E]]. apply filter_In in Hy. destruct Hy as [Hy M].
      apply mem_spec in M. destruct M as [z [Hz E']]. split; [exists y; auto|].
      exists z. split; [exact Hz|]. eapply eqv_trans; eauto.
    - intros [[y [Hy E]] [z [Hz E']]]. exists y. split; [|exact E].
      apply filter_In. split; [exact Hy|]. apply mem_spec. exists z. split; [exact Hz|].
      eapply eqv_trans; [apply eqv_sym; exact E|exact E'].
  Qed.

  Lemma loop_none : forall ls acc,
    merge_allowed_loop false mem acc ls = None <->
    acc = None /\ forall o, In o ls -> truthy_list o = None.
  Proof.
    induction ls as [|o r IH]; intro acc; cbn [merge_allowed_loop].
    - split; [intro H; split; [exact H|intros o []]|tauto].
    - destruct (truthy_list o) as [l|] eqn:T.
      + destruct acc as [a|]; cbn [andb]; rewrite IH; split.
        * intros [H _]. discriminate.
        * intros [H _]. discriminate.
        * intros [H _]. discriminate.
        * intros [_ H]. specialize (H o (or_introl eq_refl)). congruence.
      + rewrite IH. split.
        * intros [H1 H2]. split; [exact H1|]. intros o' [<-|Ho]; [exact T|apply H2; exact Ho].
        * intros [H1 H2]. split; [exact H1|]. intros o' Ho. apply H2. right. exact Ho.
  Qed.

  Lemma loop_some : forall ls acc L,
    merge_allowed_loop false mem acc ls = Some L ->
    forall x, memP x L <->
      opt_all acc (memP x) /\ (forall o l, In o ls -> truthy_list o = Some l -> memP x l).
  Proof.
    induction ls as [|o r IH]; intros acc L H x; cbn [merge_allowed_loop] in H.
    - subst acc. cbn [opt_all]. split; [intro K; split; [exact K|intros o l []]|tauto].
    - destruct (truthy_list o) as [l|] eqn:T.
      + destruct acc as [a|]; cbn [andb] in H.
        * rewrite (IH _ _ H x). cbn [opt_all]. rewrite inter_spec. split.
          -- intros [[Ha Hl] Hr]. split; [exact Ha|].
             intros o' l' [<-|Ho] T'; [rewrite T in T'; injection T' as <-; exact Hl|eapply Hr; eauto].
          -- intros [Ha Hr]. split; [split; [exact Ha|apply (Hr o l); [left; reflexivity|exact T]]|].
             intros o' l' Ho T'. apply (Hr o' l'); [right; exact Ho|exact T'].
        * rewrite (IH _ _ H x). cbn [opt_all]. split.
          -- intros [Hl Hr]. split; [exact I|].
             intros o' l' [<-|Ho] T'; [rewrite T in T'; injection T' as <-; exact Hl|eapply Hr; eauto].
          -- intros [_ Hr]. split; [apply (Hr o l); [left; reflexivity|exact T]|].
             intros o' l' Ho T'. apply (Hr o' l'); [right; exact Ho|exact T'].
      + rewrite (IH _ _ H x). split.
        * intros [Ha Hr]. split; [exact Ha|].
          intros o' l' [<-|Ho] T'; [congruence|eapply Hr; eauto].
        * intros [Ha Hr]. split; [exact Ha|]. intros o' l' Ho T'. apply (Hr o' l'); [right; exact Ho|exact T'].
  Qed.

  (* the merged list, when no "empty intersection" error is raised, accepts exactly the
     values every given list accepts *)
  Lemma merge_allowed_spec : forall ls al,
    merge_allowed false mem ls = (al, false) ->
    (forall o, In o ls -> o <> Some []) ->
    al <> Some [] /\
    forall x, opt_all al (memP x) <-> (forall o, In o ls -> opt_all o (memP x)).
  Proof.
    intros ls al H W. unfold merge_allowed in H.
    destruct (merge_allowed_loop false mem None ls) as [[|y L]|] eqn:E.
    - discriminate.
    - injection H as <-. split; [discriminate|]. intro x. cbn [opt_all].
      rewrite (loop_some _ _ _ E x). cbn [opt_all]. split.
      + intros [_ Hr] o Ho. destruct o as [[|z l]|]; cbn [opt_all]; [exfalso; apply (W _ Ho); reflexivity| |exact I].
        apply (Hr (Some (z :: l))); [exact Ho|reflexivity].
      + intro Hr. split; [exact I|]. intros o l Ho T.
        destruct o as [[|z l']|]; cbn in T; try discriminate. injection T as <-.
        apply (Hr _ Ho).
    - injection H as <-. split; [discriminate|]. intro x. cbn [opt_all].
      apply loop_none in E. destruct E as [_ E]. split; [|tauto]. intros _ o Ho.
      specialize (E o Ho). destruct o as [[|z l]|]; cbn in E; try discriminate; [exfalso; apply (W _ Ho); reflexivity|exact I].
  Qed.

  (* elements of the merged list keep any property all given elements have *)
  Lemma loop_pres : forall (P : A -> Prop) ls acc L,
    merge_allowed_loop false mem acc ls = Some L ->
    opt_all acc (Forall P) -> (forall o, In o ls -> opt_all o (Forall P)) -> Forall P L.
  Proof.
    intros P. induction ls as [|o r IH]; intros acc L H Ha Hl; cbn [merge_allowed_loop] in H.
    - subst acc. exact Ha.
    - assert (Hr : forall o', In o' r -> opt_all o' (Forall P)) by (intros o' Ho; apply Hl; right; exact Ho).
      destruct (truthy_list o) as [l|] eqn:T.
      + assert (Pl : Forall P l).
        { pose proof (Hl o (or_introl eq_refl)) as K. destruct o as [[|z l']|]; cbn in T; try discriminate.
          injection T as <-. exact K. }
        destruct acc as [a|]; cbn [andb] in H.
        * apply (IH _ _ H); [|exact Hr]. cbn [opt_all] in *. unfold inter.
          rewrite Forall_forall in *. intros z Hz. apply filter_In in Hz. apply Ha. tauto.
        * apply (IH _ _ H); [exact Pl|exact Hr].
      + apply (IH _ _ H); [exact Ha|exact Hr].
  Qed.
End Allowed.

(* ---------- inversion of a successful merge ---------- *)

Lemma forall_map : forall {A B} (g : A -> B) (l : list A) (Q : B -> Prop),
  (forall o, In o (map g l) -> Q o) <-> (forall d, In d l -> Q (g d)).
Proof.
  intros A B g l Q. split.
  - intros H d Hd. apply H. apply in_map. exact Hd.
  - intros H o Ho. apply in_map_iff in Ho. destruct Ho as [d [<- Hd]]. apply H. exact Hd.
Qed.

Lemma merge_ok_inv : forall ds m, merge false ds = Ok m ->
  exists dl, last_opt ds = Some dl /\
    (forall d, In d ds -> pname d = pname dl) /\
    (forall d, In d ds -> ptyp d = ptyp dl) /\
    merge_errors false ds dl = false /\ m = candidate false ds dl /\ revalidate m = Ok tt.
Proof.
  intros ds m H. unfold merge in H.
  destruct (last_opt ds) as [dl|] eqn:L; [|discriminate]. exists dl.
  destruct (forallb (fun d => str_eqb (pname d) (pname dl)) ds) eqn:N; cbn [negb] in H; [|discriminate].
  destruct (forallb (fun d => ptype_eqb (ptyp d) (ptyp dl)) ds) eqn:T; cbn [negb] in H; [|discriminate].
  destruct (merge_errors false ds dl) eqn:E; [discriminate|].
  destruct (revalidate (candidate false ds dl)) as [[]|e] eqn:R; [|discriminate].
  injection H as <-. rewrite forallb_forall in N, T.
  split; [reflexivity|]. split; [|split; [|auto]].
  - intros d Hd. apply str_eqb_eq. apply N. exact Hd.
  - intros d Hd. apply ptype_eqb_eq. apply T. exact Hd.
Qed.

Lemma merge_errors_false : forall ds dl, merge_errors false ds dl = false ->
  snd (merged_allowed_n false ds (ptyp dl)) = false /\
  snd (merged_allowed_s false ds (ptyp dl)) = false /\
  (ptype_eqb (ptyp dl) PATH && negb (all_equal objtype_eqb (map eff_objtype ds))) = false /\
  (ptype_eqb (ptyp dl) PATH && negb (all_equal dataflow_eqb (somes (map pdataflow ds)))) = false /\
  match merged_minlen ds (ptyp dl), merged_maxlen ds (ptyp dl) with Some a, Some b => b <? a | _, _ => false end = false /\
  match merged_minv ds (ptyp dl), merged_maxv ds (ptyp dl) with Some a, Some b => num_ltb b a | _, _ => false end = false.
Proof.
  intros ds dl H. unfold merge_errors in H.
  apply orb_false_iff in H. destruct H as [H H6].
  apply orb_false_iff in H. destruct H as [H H5].
  apply orb_false_iff in H. destruct H as [H H4].
  apply orb_false_iff in H. destruct H as [H H3].
  apply orb_false_iff in H. destruct H as [H1 H2].
  auto 10.
Qed.

Lemma memP_eq : forall (x : str) l, memP eq x l <-> In x l.
Proof.
  intros x l. unfold memP. split.
  - intros [y [Hy ->]]. exact Hy.
  - intro H. exists x. auto.
Qed.

Lemma mem_str_spec : forall x l, mem_str x l = true <-> exists y, In y l /\ x = y.
Proof. intros x l. rewrite mem_str_In. symmetry. apply (memP_eq x l). Qed.

Lemma candidate_number_ok : forall ds dl x,
  is_numeric (ptyp dl) = true ->
  snd (merged_allowed_n false ds (ptyp dl)) = false ->
  (forall d, In d ds -> wf_def d) ->
  (number_ok (candidate false ds dl) x <-> forall d, In d ds -> number_ok d x).
Proof.
  intros ds dl x Hn He W. unfold number_ok, candidate. cbn [pminv pmaxv pallowed_n].
  unfold merged_minv, merged_maxv, merged_allowed_n in *. rewrite Hn in *.
  pose proof (fold_opt_bound num_le num_max num_max_spec (map pminv ds) None x) as Bmin.
  pose proof (fold_opt_bound (fun b c => num_le c b) num_min (fun a b c => num_min_spec a b c) (map pmaxv ds) None x) as Bmax.
  cbn beta in Bmax. cbn [opt_all] in Bmin, Bmax.
  rewrite forall_map in Bmin, Bmax.
  destruct (merge_allowed false mem_num (map pallowed_n ds)) as [al e] eqn:MA. cbn [fst snd] in *. subst e.
  assert (Wl : forall o, In o (map pallowed_n ds) -> o <> Some []).
  { intros o Ho. apply in_map_iff in Ho. destruct Ho as [d [<- Hd]]. apply (W d Hd). }
  destruct (merge_allowed_spec mem_num num_eq mem_num_spec num_eq_sym num_eq_trans _ _ MA Wl) as [_ Ball].
  specialize (Ball x). rewrite forall_map in Ball. unfold memP in Ball.
  rewrite Bmin, Bmax, Ball. split.
  - intros [[_ H1] [[_ H2] H3]] d Hd. auto.
  - intro H. repeat split; try exact I; intros d Hd; apply (H d Hd).
Qed.

Lemma candidate_string_ok : forall ds dl v,
  is_numeric (ptyp dl) = false ->
  snd (merged_allowed_s false ds (ptyp dl)) = false ->
  (forall d, In d ds -> wf_def d) ->
  (string_ok (candidate false ds dl) v <-> forall d, In d ds -> string_ok d v).
Proof.
  intros ds dl v Hn He W. unfold string_ok, candidate. cbn [pminlen pmaxlen pallowed_s].
  unfold merged_minlen, merged_maxlen, merged_allowed_s in *. rewrite Hn in *.
  pose proof (fold_opt_bound Z.le Z.max Z.max_lub_iff (map pminlen ds) None (slen v)) as Bmin.
  pose proof (fold_opt_bound (fun b c => c <= b) Z.min (fun a b c => Z.min_glb_iff a b c) (map pmaxlen ds) None (slen v)) as Bmax.
  cbn beta in Bmax. cbn [opt_all] in Bmin, Bmax.
  rewrite forall_map in Bmin, Bmax.
  destruct (merge_allowed false mem_str (map pallowed_s ds)) as [al e] eqn:MA. cbn [fst snd] in *. subst e.
  assert (Wl : forall o, In o (map pallowed_s ds) -> o <> Some []).
  { intros o Ho. apply in_map_iff in Ho. destruct Ho as [d [<- Hd]]. apply (W d Hd). }
  assert (ET : forall a b c : str, a = b -> b = c -> a = c) by (intros; congruence).
  destruct (merge_allowed_spec mem_str eq mem_str_spec (@eq_sym str) ET _ _ MA Wl) as [_ Ball].
  specialize (Ball v). rewrite forall_map in Ball.
  assert (Ball' : opt_all al (fun l => In v l) <-> forall d, In d ds -> opt_all (pallowed_s d) (fun l => In v l)).
  { destruct al as [l|]; cbn [opt_all] in *.
    - rewrite <- memP_eq, Ball. split; intros H d Hd; specialize (H d Hd); destruct (pallowed_s d); cbn [opt_all] in *; try exact I; apply memP_eq; exact H.
    - split; [|tauto]. intros _ d Hd. apply proj1 in Ball. specialize (Ball I d Hd).
      destruct (pallowed_s d); cbn [opt_all] in *; [apply memP_eq; exact Ball|exact I]. }
  rewrite Bmin, Bmax, Ball'. split.
  - intros [H3 [[_ H1] [_ H2]]] d Hd. auto.
  - intro H. repeat split; try exact I; intros d Hd; apply (H d Hd).
Qed.

(* the heart of C12: a merged definition accepts exactly what every source accepts *)
Theorem sat_merged_iff : forall ds m v,
  merge false ds = Ok m -> (forall d, In d ds -> wf_def d) ->
  (sat m v <-> forall d, In d ds -> sat d v).
Proof.
  intros ds m v H W. destruct (merge_ok_inv ds m H) as [dl [L [_ [T [E [-> _]]]]]].
  destruct (merge_errors_false ds dl E) as [En [Es _]].
  pose proof (last_opt_in _ _ L) as Hdl.
  unfold sat at 1. change (ptyp (candidate false ds dl)) with (ptyp dl).
  destruct (ptyp dl) eqn:Ty.
  - rewrite candidate_string_ok; [|rewrite Ty; reflexivity|rewrite Ty; exact Es|exact W].
    split; intros K d Hd; specialize (K d Hd); unfold sat in *; rewrite (T d Hd) in *; exact K.
  - rewrite candidate_string_ok; [|rewrite Ty; reflexivity|rewrite Ty; exact Es|exact W].
    split; intros K d Hd; specialize (K d Hd); unfold sat in *; rewrite (T d Hd) in *; exact K.
  - split.
    + intros [z [P K]] d Hd. unfold sat. rewrite (T d Hd). exists z. split; [exact P|].
      apply (proj1 (candidate_number_ok ds dl (num_of_Z z) ltac:(rewrite Ty; reflexivity) ltac:(rewrite Ty; exact En) W) K d Hd).
    + intro K. pose proof (K dl Hdl) as K0. unfold sat in K0. rewrite Ty in K0. destruct K0 as [z [P _]].
      exists z. split; [exact P|].
      apply (candidate_number_ok ds dl (num_of_Z z)); [rewrite Ty; reflexivity|rewrite Ty; exact En|exact W|].
      intros d Hd. specialize (K d Hd). unfold sat in K. rewrite (T d Hd) in K. destruct K as [z' [P' K]].
      rewrite P in P'. injection P' as <-. exact K.
  - split.
    + intros [mm [e [P K]]] d Hd. unfold sat. rewrite (T d Hd). exists mm, e. split; [exact P|].
      apply (proj1 (candidate_number_ok ds dl (mkNum mm e) ltac:(rewrite Ty; reflexivity) ltac:(rewrite Ty; exact En) W) K d Hd).
    + intro K. pose proof (K dl Hdl) as K0. unfold sat in K0. rewrite Ty in K0. destruct K0 as [mm [e [P _]]].
      exists mm, e. split; [exact P|].
      apply (candidate_number_ok ds dl (mkNum mm e)); [rewrite Ty; reflexivity|rewrite Ty; exact En|exact W|].
      intros d Hd. specialize (K d Hd). unfold sat in K. rewrite (T d Hd) in K. destruct K as [m' [e' [P' K]]].
      rewrite P in P'. injection P' as <- <-. exact K.
Qed.

(* ---------- C12_sound / C12_complete / C12_order ---------- *)

Theorem merge_sound : forall ds m v,
  Forall wf_def ds -> merge false ds = Ok m -> sat m v -> all_accept ds v.
Proof.
  intros ds m v W H S. unfold all_accept. rewrite Forall_forall in *.
  apply (sat_merged_iff ds m v H W). exact S.
Qed.

Theorem merge_complete : forall ds m v,
  Forall wf_def ds -> merge false ds = Ok m -> all_accept ds v -> sat m v.
Proof.
  intros ds m v W H S. unfold all_accept in S. rewrite Forall_forall in *.
  apply (sat_merged_iff ds m v H W). exact S.
Qed.

Theorem merge_order : forall ds ds' m m' v,
  Forall wf_def ds -> Permutation ds ds' ->
  merge false ds = Ok m -> merge false ds' = Ok m' -> (sat m v <-> sat m' v).
Proof.
  intros ds ds' m m' v W P H H'.
  assert (W' : Forall wf_def ds') by (eapply Permutation_Forall; eauto).
  rewrite Forall_forall in W, W'.
  rewrite (sat_merged_iff ds m v H W), (sat_merged_iff ds' m' v H' W').
  split; intros K d Hd; apply K.
  - eapply Permutation_in; [apply Permutation_sym; exact P|exact Hd].
  - eapply Permutation_in; [exact P|exact Hd].
Qed.

(* ---------- C12_default ---------- *)

Lemma somes_cons : forall {A} (o : option A) l,
  somes (o :: l) = match o with Some x => [x] | None => [] end ++ somes l.
Proof. reflexivity. Qed.

Lemma last_given_default_spec : forall ds, last_given_default ds = last_opt (somes (map pdefault ds)).
Proof.
  unfold last_given_default.
  assert (G : forall ds acc,
    fold_left (fun acc d => match pdefault d with Some t => Some t | None => acc end) ds acc =
    match last_opt (somes (map pdefault ds)) with Some t => Some t | None => acc end).
  { induction ds as [|d ds IH]; intro acc; [reflexivity|].
    cbn [fold_left map]. rewrite IH, somes_cons, last_opt_app.
    destruct (last_opt (somes (map pdefault ds))); [reflexivity|].
    destruct (pdefault d); reflexivity. }
  intro ds. rewrite G. destruct (last_opt (somes (map pdefault ds))); reflexivity.
Qed.

Theorem merge_default : forall ds m, merge false ds = Ok m -> pdefault m = last_given_default ds.
Proof.
  intros ds m H. destruct (merge_ok_inv ds m H) as [dl [_ [_ [_ [_ [-> _]]]]]].
  rewrite last_given_default_spec. reflexivity.
Qed.

(* ---------- C12_refuse: incompatible definitions ---------- *)

Theorem merge_refuse_types : forall p ds d d',
  In d ds -> In d' ds -> ptyp d <> ptyp d' -> merge p ds = Raise CompatibilityError.
Proof.
  intros p ds d d' Hd Hd' Ne. unfold merge.
  destruct (last_opt ds) as [dl|] eqn:L; [|apply last_opt_none in L; subst; destruct Hd].
  destruct (forallb (fun x => str_eqb (pname x) (pname dl)) ds); cbn [negb]; [|reflexivity].
  destruct (forallb (fun x => ptype_eqb (ptyp x) (ptyp dl)) ds) eqn:T; cbn [negb]; [|reflexivity].
  exfalso. rewrite forallb_forall in T. apply Ne.
  rewrite (proj1 (ptype_eqb_eq _ _) (T d Hd)), (proj1 (ptype_eqb_eq _ _) (T d' Hd')). reflexivity.
Qed.

Lemma merge_errors_raise : forall p ds dl,
  last_opt ds = Some dl -> merge_errors p ds dl = true -> merge p ds = Raise CompatibilityError.
Proof.
  intros p ds dl L E. unfold merge. rewrite L.
  destruct (forallb (fun x => str_eqb (pname x) (pname dl)) ds); cbn [negb]; [|reflexivity].
  destruct (forallb (fun x => ptype_eqb (ptyp x) (ptyp dl)) ds); cbn [negb]; [|reflexivity].
  rewrite E. reflexivity.
Qed.

Theorem merge_refuse_objtype : forall p ds d d',
  (forall x, In x ds -> ptyp x = PATH) ->
  In d ds -> In d' ds -> eff_objtype d <> eff_objtype d' -> merge p ds = Raise CompatibilityError.
Proof.
  intros p ds d d' TP Hd Hd' Ne.
  destruct (last_opt ds) as [dl|] eqn:L; [|apply last_opt_none in L; subst; destruct Hd].
  apply (merge_errors_raise p ds dl L).
  assert (AE : all_equal objtype_eqb (map eff_objtype ds) = false).
  { destruct (all_equal objtype_eqb (map eff_objtype ds)) eqn:AE; [|reflexivity]. exfalso. apply Ne.
    apply (proj1 (all_equal_spec objtype_eqb _ objtype_eqb_eq) AE); apply in_map; assumption. }
  unfold merge_errors. rewrite (TP dl (last_opt_in _ _ L)), AE. cbn [ptype_eqb andb negb].
  destruct (snd (merged_allowed_n p ds PATH)), (snd (merged_allowed_s p ds PATH)); reflexivity.
Qed.

Theorem merge_refuse_dataflow : forall p ds d d' a b,
  (forall x, In x ds -> ptyp x = PATH) ->
  In d ds -> In d' ds -> pdataflow d = Some a -> pdataflow d' = Some b -> a <> b ->
  merge p ds = Raise CompatibilityError.
Proof.
  intros p ds d d' a b TP Hd Hd' Da Db Ne.
  destruct (last_opt ds) as [dl|] eqn:L; [|apply last_opt_none in L; subst; destruct Hd].
  apply (merge_errors_raise p ds dl L).
  assert (AE : all_equal dataflow_eqb (somes (map pdataflow ds)) = false).
  { destruct (all_equal dataflow_eqb (somes (map pdataflow ds))) eqn:AE; [|reflexivity]. exfalso. apply Ne.
    apply (proj1 (all_equal_spec dataflow_eqb _ dataflow_eqb_eq) AE); apply in_somes.
    - rewrite <- Da. apply in_map. exact Hd.
    - rewrite <- Db. apply in_map. exact Hd'. }
  unfold merge_errors. rewrite (TP dl (last_opt_in _ _ L)), AE. cbn [ptype_eqb andb negb].
  destruct (snd (merged_allowed_n p ds PATH)), (snd (merged_allowed_s p ds PATH)),
           (all_equal objtype_eqb (map eff_objtype ds)); reflexivity.
Qed.

(* ---------- every refusal is a CompatibilityError ---------- *)

Lemma cfail_raise : forall b e, cfail b = Raise e -> e = CompatibilityError.
Proof. intros [] e H; cbn in H; [injection H as <-; reflexivity|discriminate]. Qed.

Lemma cfail_ok : forall b, cfail b = Ok tt <-> b = false.
Proof. intros []; cbn; split; intro H; try reflexivity; discriminate. Qed.

Lemma andthen_raise : forall a b e, (a ;;; b) = Raise e -> a = Raise e \/ (a = Ok tt /\ b = Raise e).
Proof. intros [[]|x] b e H; cbn in H; [right; auto|left; exact H]. Qed.

Definition ce_or (Q : exn -> Prop) (o : outcome unit) : Prop :=
  forall e, o = Raise e -> e = CompatibilityError \/ Q e.

Lemma cfail_ce : forall Q b, ce_or Q (cfail b).
Proof. intros Q b e H. left. eapply cfail_raise. exact H. Qed.

Lemma ok_ce : forall Q, ce_or Q (Ok tt).
Proof. intros Q e H. discriminate. Qed.

Lemma andthen_ce : forall Q a b, ce_or Q a -> ce_or Q b -> ce_or Q (a ;;; b).
Proof.
  intros Q a b Ha Hb e H. apply andthen_raise in H. destruct H as [H|[_ H]]; [apply Ha|apply Hb]; exact H.
Qed.

Lemma revalidate_raise : forall m e, revalidate m = Raise e ->
  e = CompatibilityError \/
  (e = RuntimeError /\ is_numeric (ptyp m) = true /\
   exists txt, pdefault m = Some txt /\ default_num (ptyp m) txt = None).
Proof.
  intros m e H. unfold revalidate in H. destruct (is_numeric (ptyp m)) eqn:N.
  - revert e H.
    change (ce_or (fun e => e = RuntimeError /\ true = true /\
                    exists txt, pdefault m = Some txt /\ default_num (ptyp m) txt = None) (revalidate_number m)).
    unfold revalidate_number. repeat apply andthen_ce; try apply cfail_ce.
    destruct (pdefault m) as [txt|] eqn:D; [|apply ok_ce].
    destruct (default_num (ptyp m) txt) as [x|] eqn:DN.
    + repeat apply andthen_ce; apply cfail_ce.
    + intros e H. injection H as <-. right. split; [reflexivity|]. split; [reflexivity|]. exists txt. auto.
  - assert (C : ce_or (fun _ => False) (revalidate_string m)).
    { unfold revalidate_string. repeat apply andthen_ce; try apply cfail_ce.
      destruct (pdefault m) as [txt|] eqn:D; [|apply ok_ce].
      repeat apply andthen_ce; apply cfail_ce. }
    destruct (C e H) as [K|[]]. left. exact K.
Qed.

Theorem merge_raise : forall ds e,
  ds <> [] -> Forall wf_default ds -> merge false ds = Raise e -> e = CompatibilityError.
Proof.
  intros ds e NE W H. unfold merge in H.
  destruct (last_opt ds) as [dl|] eqn:L; [|apply last_opt_none in L; contradiction].
  destruct (forallb (fun x => str_eqb (pname x) (pname dl)) ds); cbn [negb] in H; [|injection H as <-; reflexivity].
  destruct (forallb (fun x => ptype_eqb (ptyp x) (ptyp dl)) ds) eqn:T; cbn [negb] in H; [|injection H as <-; reflexivity].
  destruct (merge_errors false ds dl); [injection H as <-; reflexivity|].
  destruct (revalidate (candidate false ds dl)) as [[]|x] eqn:R; [discriminate|]. injection H as <-.
  destruct (revalidate_raise _ _ R) as [->|[-> [N [txt [D DN]]]]]; [reflexivity|exfalso].
  change (ptyp (candidate false ds dl)) with (ptyp dl) in *.
  change (pdefault (candidate false ds dl)) with (last_opt (somes (map pdefault ds))) in D.
  apply last_opt_in in D. apply in_somes in D. apply in_map_iff in D. destruct D as [d [D Hd]].
  rewrite Forall_forall in W. rewrite forallb_forall in T.
  pose proof (proj1 (ptype_eqb_eq _ _) (T d Hd)) as Td.
  destruct (W d Hd ltac:(rewrite Td; exact N) txt D) as [x K]. rewrite Td in K. congruence.
Qed.

(* ---------- C12_refuse: an unsatisfiable set of definitions is refused ----------
   Contrapositive: a merge that succeeds has a witness value. *)

Lemma within_num_spec : forall lo hi x,
  within_num lo hi x = true <-> opt_all lo (fun b => num_le b x) /\ opt_all hi (fun b => num_le x b).
Proof.
  intros lo hi x. unfold within_num. rewrite andb_true_iff.
  destruct lo as [a|], hi as [b|]; cbn [opt_all]; rewrite ?negb_true_iff, ?num_ltb_false; tauto.
Qed.

Lemma within_len_spec : forall lo hi v,
  within_len lo hi v = true <-> opt_all lo (fun n => n <= slen v) /\ opt_all hi (fun n => slen v <= n).
Proof.
  intros lo hi v. unfold within_len. rewrite andb_true_iff.
  destruct lo as [a|], hi as [b|]; cbn [opt_all]; rewrite ?negb_true_iff, ?Z.ltb_ge; tauto.
Qed.

Lemma andthen_ok3 : forall a b, (a ;;; b) = Ok tt -> a = Ok tt /\ b = Ok tt.
Proof. intros a b H. apply andthen_ok. exact H. Qed.

(* a number that the re-validated numeric definition accepts *)
Definition witness_num (m : pdef) : num :=
  match pallowed_n m with
  | Some (a :: _) => a
  | _ => match pminv m with
         | Some b => b
         | None => match pmaxv m with Some b => b | None => mkNum 0 0 end
         end
  end.

Lemma witness_num_ok : forall m, revalidate_number m = Ok tt -> number_ok m (witness_num m).
Proof.
  intros m H. unfold revalidate_number in H.
  apply andthen_ok3 in H. destruct H as [H _].
  apply andthen_ok3 in H. destruct H as [H1 H2].
  apply cfail_ok in H1. apply cfail_ok in H2.
  unfold number_ok, witness_num.
  destruct (pallowed_n m) as [[|a l]|]; [discriminate| |].
  - apply negb_false_iff in H2. rewrite forallb_forall in H2.
    pose proof (H2 a (or_introl eq_refl)) as Wa. apply within_num_spec in Wa. destruct Wa as [Wl Wh].
    split; [exact Wl|]. split; [exact Wh|]. cbn [opt_all]. exists a. split; [left; reflexivity|].
    unfold num_eq. reflexivity.
  - destruct (pminv m) as [a|], (pmaxv m) as [b|]; cbn [opt_all]; repeat split; try apply num_le_refl.
    apply num_ltb_false. exact H1.
Qed.

Lemma witness_num_int : forall m, ptyp m = INT -> wf_int m -> is_int (witness_num m).
Proof.
  intros m T W. destruct (W T) as [W1 [W2 W3]]. unfold witness_num.
  destruct (pallowed_n m) as [[|a l]|]; cbn [opt_all] in *.
  - destruct (pminv m); [exact W1|]. destruct (pmaxv m); [exact W2|reflexivity].
  - inversion W3; assumption.
  - destruct (pminv m); [exact W1|]. destruct (pmaxv m); [exact W2|reflexivity].
Qed.

(* a string that the re-validated string-kind definition accepts *)
Definition witness_str (m : pdef) : str :=
  match pallowed_s m with
  | Some (a :: _) => a
  | _ => repeat 120%N (Z.to_nat (match pminlen m with Some n => n | None => 0 end))
  end.

Lemma witness_str_ok : forall m, revalidate_string m = Ok tt -> string_ok m (witness_str m).
Proof.
  intros m H. unfold revalidate_string in H.
  apply andthen_ok3 in H. destruct H as [H _].
  apply andthen_ok3 in H. destruct H as [H H3].
  apply andthen_ok3 in H. destruct H as [H1 H2].
  apply cfail_ok in H1. apply cfail_ok in H2. apply cfail_ok in H3.
  unfold string_ok, witness_str.
  destruct (pallowed_s m) as [[|a l]|]; [discriminate| |].
  - apply negb_false_iff in H3. rewrite forallb_forall in H3.
    pose proof (H3 a (or_introl eq_refl)) as Wa. apply within_len_spec in Wa. destruct Wa as [Wl Wh].
    split; [cbn [opt_all]; left; reflexivity|]. split; assumption.
  - split; [exact I|]. unfold slen. rewrite repeat_length.
    destruct (pminlen m) as [n|], (pmaxlen m) as [k|]; cbn [opt_all]; split; try exact I; lia.
Qed.

Lemma num_eta : forall x, mkNum (mant x) (expo x) = x.
Proof. intros []. reflexivity. Qed.

Lemma revalidate_witness : forall m, revalidate m = Ok tt -> wf_int m -> exists v, sat m v.
Proof.
  intros m H W. unfold revalidate in H. unfold sat.
  destruct (ptyp m) eqn:T; cbn [is_numeric] in H.
  - exists (witness_str m). apply witness_str_ok. exact H.
  - exists (witness_str m). apply witness_str_ok. exact H.
  - pose proof (witness_num_ok m H) as K. pose proof (witness_num_int m T W) as Hi.
    exists (print_Z (mant (witness_num m))), (mant (witness_num m)). split; [apply parse_int_print|].
    unfold num_of_Z. unfold is_int in Hi. rewrite <- Hi, num_eta. exact K.
  - pose proof (witness_num_ok m H) as K.
    exists (print_num (witness_num m)), (mant (witness_num m)), (expo (witness_num m)).
    split; [apply parse_dec_print|]. rewrite num_eta. exact K.
Qed.

Lemma num_max_pres : forall (P : num -> Prop) a b, P a -> P b -> P (num_max a b).
Proof. intros P a b Ha Hb. unfold num_max. destruct (num_ltb a b); assumption. Qed.
Lemma num_min_pres : forall (P : num -> Prop) a b, P a -> P b -> P (num_min a b).
Proof. intros P a b Ha Hb. unfold num_min. destruct (num_ltb b a); assumption. Qed.

Lemma candidate_wf_int : forall ds dl,
  (forall d, In d ds -> ptyp d = ptyp dl) -> (forall d, In d ds -> wf_int d) ->
  wf_int (candidate false ds dl).
Proof.
  intros ds dl T W Ty. change (ptyp (candidate false ds dl)) with (ptyp dl) in Ty.
  assert (Wd : forall d, In d ds -> opt_all (pminv d) is_int /\ opt_all (pmaxv d) is_int /\ opt_all (pallowed_n d) (Forall is_int)).
  { intros d Hd. apply (W d Hd). rewrite (T d Hd). exact Ty. }
  unfold candidate. cbn [pminv pmaxv pallowed_n]. unfold merged_minv, merged_maxv, merged_allowed_n.
  rewrite Ty. cbn [is_numeric]. split; [|split].
  - apply fold_opt_pres; [apply num_max_pres|exact I|]. apply forall_map. intros d Hd. apply (Wd d Hd).
  - apply fold_opt_pres; [apply num_min_pres|exact I|]. apply forall_map. intros d Hd. apply (Wd d Hd).
  - unfold merge_allowed. destruct (merge_allowed_loop false mem_num None (map pallowed_n ds)) as [[|x l]|] eqn:E; cbn [fst opt_all]; try exact I.
    apply (loop_pres mem_num is_int _ _ _ E); [exact I|]. apply forall_map. intros d Hd. apply (Wd d Hd).
Qed.

Theorem merge_ok_satisfiable : forall ds m,
  Forall wf_merge ds -> merge false ds = Ok m -> exists v, all_accept ds v.
Proof.
  intros ds m W H. rewrite Forall_forall in W.
  destruct (merge_ok_inv ds m H) as [dl [_ [_ [T [_ [Em R]]]]]].
  assert (Wi : wf_int m) by (rewrite Em; apply candidate_wf_int; [exact T|intros d Hd; apply (W d Hd)]).
  destruct (revalidate_witness m R Wi) as [v S]. exists v.
  apply (merge_sound ds m v); [|exact H|exact S].
  apply Forall_forall. intros d Hd. apply (W d Hd).
Qed.

Theorem merge_refuse_unsat : forall ds,
  Forall wf_merge ds -> unsatisfiable ds -> merge false ds = Raise CompatibilityError.
Proof.
  intros ds W U. destruct (merge false ds) as [m|e] eqn:H.
  - exfalso. destruct (merge_ok_satisfiable ds m W H) as [v S]. apply (U v S).
  - f_equal. apply (merge_raise ds e); [| |exact H].
    + intro E. subst ds. apply (U []). constructor.
    + eapply Forall_impl; [|exact W]. intros d [_ [Wd _]]. exact Wd.
Qed.

(* ---------- the merged definition inside preprocess_job_parameters ---------- *)

Lemma merged_wf_def : forall ds m, merge false ds = Ok m -> wf_def m.
Proof.
  intros ds m H. destruct (merge_ok_inv ds m H) as [dl [_ [_ [_ [_ [Em R]]]]]].
  unfold revalidate in R. unfold wf_def.
  assert (Ty : ptyp m = ptyp dl) by (rewrite Em; reflexivity).
  destruct (is_numeric (ptyp m)) eqn:N.
  - assert (S1 : pallowed_s m = None).
    { rewrite Em. unfold candidate. cbn [pallowed_s]. unfold merged_allowed_s. rewrite <- Ty, N. reflexivity. }
    assert (S2 : pmaxlen m = None).
    { rewrite Em. unfold candidate. cbn [pmaxlen]. unfold merged_maxlen. rewrite <- Ty, N. reflexivity. }
    rewrite S1, S2. split; [|split; discriminate].
    unfold revalidate_number in R.
    apply andthen_ok3 in R. destruct R as [R _]. apply andthen_ok3 in R. destruct R as [_ R2].
    apply cfail_ok in R2. intro E. rewrite E in R2. discriminate.
  - assert (S1 : pallowed_n m = None).
    { rewrite Em. unfold candidate. cbn [pallowed_n]. unfold merged_allowed_n. rewrite <- Ty, N. reflexivity. }
    rewrite S1. split; [discriminate|].
    unfold revalidate_string in R.
    apply andthen_ok3 in R. destruct R as [R _]. apply andthen_ok3 in R. destruct R as [R R3].
    apply andthen_ok3 in R. destruct R as [_ R2].
    apply cfail_ok in R2. apply cfail_ok in R3. split.
    + intro E. rewrite E in R3. discriminate.
    + intro E. rewrite E in R2. cbn in R2. discriminate.
Qed.

Section PreMerged.
  Variable path_in : str -> str.
  Variable path_default : str -> outcome str.

  (* preprocessing with environment templates: a value map is accepted exactly when the
     usual conditions hold for the merged definition and EVERY source accepts the final value *)
  Theorem preprocess_merged_iff : forall ds m vals,
    Forall wf_def ds -> merge false ds = Ok m ->
    ((exists r, preprocess_merged true path_in path_default ds vals = Ok r) <->
     no_extra [m] vals /\ no_missing [m] vals /\ path_defaults_ok path_default [m] vals /\
     (forall v, final path_in path_default vals m v -> all_accept ds v)).
  Proof.
    intros ds m vals W H. unfold preprocess_merged. rewrite H.
    assert (Wm : Forall wf_def [m]) by (constructor; [eapply merged_wf_def; eauto|constructor]).
    assert (ND : NoDup (map pname [m])) by (cbn; constructor; [intros []|constructor]).
    rewrite (preprocess_iff path_in path_default [m] vals Wm ND).
    assert (K : all_sat path_in path_default [m] vals <->
                (forall v, final path_in path_default vals m v -> all_accept ds v)).
    { unfold all_sat. split.
      - intros A v F. apply (merge_sound ds m v W H). apply (A m v); [left; reflexivity|exact F].
      - intros A d v [<-|[]] F. apply (merge_complete ds m v W H). apply A. exact F. }
    rewrite K. tauto.
  Qed.

  (* a refused merge is the ValueError of preprocess_job_parameters (create_job turns every
     ValueError of preprocess_job_parameters into DecodeValidationError: C06) *)
  Theorem preprocess_merged_refused : forall dir_ok ds vals,
    merge false ds = Raise CompatibilityError ->
    preprocess_merged dir_ok path_in path_default ds vals = Raise ValueError.
  Proof. intros dir_ok ds vals H. unfold preprocess_merged. rewrite H. reflexivity. Qed.
End PreMerged.
