# C16 probe: exhaustive strings over a 9-symbol alphabet vs an independent scanner oracle.
import itertools, re, sys
from openjd.model._format_strings import FormatString, FormatStringError
from openjd.model import SymbolTable
ALPHA = ['{', '}', '.', ' ', 'a', '1', '_', '\n', 'é']
MAXLEN = int(sys.argv[1]) if len(sys.argv) > 1 else 5
NAME = r"[^\W\d]\w*"
EXPR = re.compile(rf"\s*{NAME}(?:\s*\.\s*{NAME})*\s*\Z")
def oracle(s):
    """left-to-right: every '{{' closed by the next '}}', no unopened '}}', enclosed text a dotted name"""
    out = []; pos = 0
    while pos < len(s):
        o = s.find('{{', pos); c = s.find('}}', pos)
        if o == -1 and c == -1: break
        if o == -1: return None          # unopened }}
        if c == -1 or c < o: return None  # unterminated, or }} before {{
        inner = s[o+2:c]
        if not EXPR.match(inner): return None
        name = ".".join(re.findall(NAME, inner))
        out.append((name, o, c+2)); pos = c+2
    return out
def impl(s):
    try: f = FormatString(s)
    except FormatStringError: return None
    assert f == s
    return [(e.expression._expresion_tree.name, e.start_pos, e.end_pos) for e in f.expressions]
n = bad = 0
symA = SymbolTable(source={"a": "X{{a}}", "a.a": 5, "_": "u"})
for L in range(0, MAXLEN+1):
    for t in itertools.product(ALPHA, repeat=L):
        s = "".join(t); n += 1
        i, o = impl(s), oracle(s)
        if i != o:
            bad += 1
            if bad < 20: print("MISMATCH", repr(s), i, o)
            continue
        if i is not None:
            f = FormatString(s)
            names = [x[0] for x in i]
            bound = all(nm in symA for nm in names)
            try:
                r = f.resolve(symtab=symA); ok = True
            except FormatStringError: ok = False
            if ok != bound: bad += 1; print("RESOLVE-VERDICT", repr(s))
            if ok:
                exp = []; p = 0
                for nm, a, b in i: exp.append(s[p:a]); exp.append(str(symA[nm])); p = b
                exp.append(s[p:])
                if "".join(exp) != r: bad += 1; print("RESOLVE-VALUE", repr(s), r)
            errs = 0
            for e in f.expressions:
                try: e.expression.validate_symbol_refs(symbols=set(symA.symbols))
                except ValueError: errs += 1
            if (errs > 0) != (not bound): bad += 1; print("VALIDATE", repr(s))
print("strings", n, "mismatches", bad)
