(* CreateJobProofs.v — lemmas for C05.

   Contents
     1. the creation-metadata table (C05_meta_table) and the list of trivial classes;
     2. a one-step unfolding equation for [inst] in terms of top-level mirrors of its local
        functions ([inst_item], [inst_val], [inst_field], [inst_model]);
     3. [trivial_identity]: a generic theorem, any schema — instances built from classes with trivial
        metadata are carried over unchanged;
     4. shape lemmas: partial evaluation of [inst] on the concrete metadata of Generated.schema;
     5. the symbol table [symtab_of];
     6. no re-expansion: the link to the format-string model (C16). *)
From Coq Require Import List NArith ZArith Bool String Lia Arith.
Import ListNotations.
Require Import OJD.Base OJD.Lexer OJD.Json OJD.Schema OJD.Generated OJD.NumPrint OJD.CreateJob.
Local Open Scope string_scope.
Local Open Scope list_scope.

Definition jcm_is_trivial (j : jcm) : bool :=
  match j with
  | mkJcm [] [] [] [] CreateSelf false => true
  | _ => false
  end.

(* the classes whose creation metadata does anything, with that metadata *)
Definition nontrivial_jcm (s : schema_t) : list (string * jcm) :=
  flat_map (fun nc => if jcm_is_trivial (c_jcm (snd nc)) then [] else [(fst nc, c_jcm (snd nc))]) s.

(* The 2023-09 table, written from the property text:
   - job name, task-parameter ranges, host-requirement names / attribute values are resolved;
   - job parameters become {type, description, value}; task parameters lose their name and are
     keyed by it; the template loses specificationVersion and $schema;
   - nothing else is resolved, excluded, renamed or reshaped. *)
Definition param_excl_sp : list string := ["allowedValues"; "default"; "maxLength"; "minLength"; "name"; "userInterface"].
Definition param_excl_num : list string := ["allowedValues"; "default"; "maxValue"; "minValue"; "name"; "userInterface"].

Definition expected_jcm_table : list (string * jcm) := [
  ("IntTaskParameterDefinition",
   mkJcm ["range"] ["name"] [] [] (CreateIntRange "RangeExpressionTaskParameterDefinition" "IntRangeListTaskParameterDefinition") false);
  ("FloatTaskParameterDefinition", mkJcm ["range"] ["name"] [] [] (CreateModel "FloatRangeListTaskParameterDefinition") false);
  ("StringTaskParameterDefinition", mkJcm ["range"] ["name"] [] [] (CreateModel "RangeListTaskParameterDefinition") false);
  ("PathTaskParameterDefinition", mkJcm ["range"] ["name"] [] [] (CreateModel "RangeListTaskParameterDefinition") false);
  ("StepParameterSpaceDefinition", mkJcm [] [] [] [("taskParameterDefinitions", "name")] (CreateModel "StepParameterSpace") false);
  ("JobStringParameterDefinition", mkJcm [] param_excl_sp [] [] (CreateModel "JobParameter") true);
  ("JobPathParameterDefinition",
   mkJcm [] ["allowedValues"; "dataFlow"; "default"; "maxLength"; "minLength"; "name"; "objectType"; "userInterface"] [] [] (CreateModel "JobParameter") true);
  ("JobIntParameterDefinition", mkJcm [] param_excl_num [] [] (CreateModel "JobParameter") true);
  ("JobFloatParameterDefinition", mkJcm [] param_excl_num [] [] (CreateModel "JobParameter") true);
  ("AmountRequirementTemplate", mkJcm ["name"] [] [] [] (CreateModel "AmountRequirement") false);
  ("AttributeRequirementTemplate", mkJcm ["allOf"; "anyOf"; "name"] [] [] [] (CreateModel "AttributeRequirement") false);
  ("HostRequirementsTemplate", mkJcm [] [] [] [] (CreateModel "HostRequirements") false);
  ("StepTemplate", mkJcm [] [] [] [] (CreateModel "Step") false);
  ("JobTemplate",
   mkJcm ["name"] ["schemaStr"; "specificationVersion"] [("parameterDefinitions", "parameters")] [("parameterDefinitions", "name")]
         (CreateModel "Job") false)
].

Lemma meta_table_ok : nontrivial_jcm Generated.schema = expected_jcm_table.
Proof. vm_compute. reflexivity. Qed.

(* ------------------------------------------------------------------------------------------ *)
(* 1b. the classes with trivial metadata                                                       *)

Definition trivial_classes (s : schema_t) : list string :=
  flat_map (fun nc => if jcm_is_trivial (c_jcm (snd nc)) then [fst nc] else []) s.

Definition expected_trivial_classes : list string := [
  "CancelationMethodNotifyThenTerminate"; "CancelationMethodTerminate"; "Action"; "StepActions";
  "EnvironmentActions"; "EmbeddedFileText"; "StepScript"; "EnvironmentScript";
  "RangeListTaskParameterDefinition"; "IntRangeListTaskParameterDefinition";
  "FloatRangeListTaskParameterDefinition"; "RangeExpressionTaskParameterDefinition";
  "StepParameterSpace"; "Environment"; "JobParameter";
  "JobStringParameterDefinitionUserInterface"; "JobPathParameterDefinitionFileFilter";
  "JobPathParameterDefinitionUserInterface"; "JobIntParameterDefinitionUserInterface";
  "JobFloatParameterDefinitionUserInterface"; "AmountRequirement"; "AttributeRequirement";
  "HostRequirements"; "StepDependency"; "Step"; "Job"; "EnvironmentTemplate" ].

Lemma trivial_classes_ok : trivial_classes Generated.schema = expected_trivial_classes.
Proof. vm_compute. reflexivity. Qed.

(* the classes the property names: scripts, environments, dependencies and everything below them *)
Definition carried_classes : list string := [
  "StepScript"; "StepActions"; "Action"; "CancelationMethodNotifyThenTerminate";
  "CancelationMethodTerminate"; "EmbeddedFileText"; "Environment"; "EnvironmentScript";
  "EnvironmentActions"; "StepDependency" ].

Lemma carried_are_trivial : incl carried_classes (trivial_classes Generated.schema).
Proof.
  rewrite trivial_classes_ok. intros c Hc.
  assert (H : forallb (fun c => existsb (String.eqb c) expected_trivial_classes) carried_classes = true)
    by (vm_compute; reflexivity).
  rewrite forallb_forall in H. specialize (H c Hc). apply existsb_exists in H.
  destruct H as [d [Hd He]]. apply String.eqb_eq in He. subst d. exact Hd.
Qed.

(* ------------------------------------------------------------------------------------------ *)
(* 2. one-step unfolding of [inst]                                                             *)

Section Unfold.
  Variable resolve : symtab -> str -> outcome str.
  Variable sigma : symtab.
  Variable rec : mval -> outcome mval.        (* the recursive call [inst ... f] *)
  Variable j : jcm.

  (* _instantiate_noncollection_value *)
  Definition inst_item (field_name : string) (x : mval) : outcome mval :=
    match x with
    | MModel _ _ => rec x
    | MFmt s => if mem_s field_name (j_resolve j)
                then do r <- resolve sigma s; Ok (MStr r)
                else Ok x
    | _ => Ok x
    end.

  Definition reshape_step (fname key_field : string) (acc : outcome (list (str * mval))) (item : mval)
    : outcome (list (str * mval)) :=
    do a <- acc;
    do k <- key_of item key_field;
    do y <- inst_item fname item;
    Ok (dict_set a k y).

  Definition inst_member (kv : str * mval) : outcome (str * mval) :=
    do y <- match snd kv with
            | MModel _ _ => rec (snd kv)
            | MFmt s => if existsb (fun r => str_eqb (str_of_string r) (fst kv)) (j_resolve j)
                        then do r <- resolve sigma s; Ok (MStr r)
                        else Ok (snd kv)
            | _ => Ok (snd kv)
            end; Ok (fst kv, y).

  (* the value of one field: list / dict / anything else *)
  Definition inst_val (fname : string) (x : mval) : outcome mval :=
    match x with
    | MList items =>
      match lookup_s fname (j_reshape j) with
      | Some key_field =>
        do d <- fold_left (reshape_step fname key_field) items (Ok []);
        Ok (MDict d)
      | None => do l <- mapM (inst_item fname) items; Ok (MList l)
      end
    | MDict members => do l <- mapM inst_member members; Ok (MDict l)
    | _ => inst_item fname x
    end.

  Definition inst_field (fv : string * mval) : outcome (list (string * mval)) :=
    let (fname, x) := fv in
    if mem_s fname (j_exclude j) then Ok []
    else
      let target := match lookup_s fname (j_rename j) with Some t => t | None => fname end in
      do y <- inst_val fname x;
      Ok [(target, y)].

  Definition add_value (fields fs : list (string * mval)) : outcome (list (string * mval)) :=
    if j_adds_value j then
      match mfield "name" fields with
      | MStr n =>
        match st_lookup sigma ($"RawParam." ++ n) with
        | Some v => Ok (fs ++ [("value", MStr v)])
        | None => Raise KeyError
        end
      | _ => Raise AttributeError
      end
    else Ok fs.

  Definition target_class (c : string) (fields : list (string * mval)) : string :=
    match j_create_as j with
    | CreateSelf => c
    | CreateModel t => t
    | CreateIntRange expr_cls list_cls =>
      match mfield "range" fields with MFmt _ => expr_cls | _ => list_cls end
    end.

  Definition inst_model (c : string) (fields : list (string * mval)) : outcome mval :=
    do fs <- mapM inst_field fields;
    do fs' <- add_value fields (List.concat fs);
    Ok (MModel (target_class c fields) fs').
End Unfold.

Lemma inst_S : forall SC resolve sigma f v,
  inst SC resolve sigma (S f) v =
  match v with
  | MModel c fields => inst_model resolve sigma (inst SC resolve sigma f) (jcm_of SC c) c fields
  | _ => Ok v
  end.
Proof. intros. destruct v; reflexivity. Qed.

Lemma inst_O : forall SC resolve sigma v, inst SC resolve sigma O v = Raise RuntimeError.
Proof. reflexivity. Qed.

(* ------------------------------------------------------------------------------------------ *)
(* 3. trivial metadata: identity                                                               *)

(* every class name occurring in an instance tree, at any depth *)
Fixpoint classes_in (v : mval) : list string :=
  match v with
  | MList l => flat_map classes_in l
  | MDict l => flat_map (fun kv => classes_in (snd kv)) l
  | MModel c fs => c :: flat_map (fun kv => classes_in (snd kv)) fs
  | _ => []
  end.

Lemma mapM_id : forall (A : Type) (f : A -> outcome A) l,
  (forall x, In x l -> f x = Ok x) -> mapM f l = Ok l.
Proof.
  induction l as [|a l IH]; intros H; [reflexivity|].
  simpl. rewrite (H a (or_introl eq_refl)). simpl. rewrite IH; [reflexivity|].
  intros x Hx. apply H. right. exact Hx.
Qed.

Lemma mapM_map : forall (A B : Type) (f : A -> outcome B) (g : A -> B) l,
  (forall x, In x l -> f x = Ok (g x)) -> mapM f l = Ok (map g l).
Proof.
  induction l as [|a l IH]; intros H; [reflexivity|].
  simpl. rewrite (H a (or_introl eq_refl)). simpl. rewrite IH; [reflexivity|].
  intros x Hx. apply H. right. exact Hx.
Qed.

Lemma mapM_ext : forall (A B : Type) (f g : A -> outcome B) l,
  (forall x, In x l -> f x = g x) -> mapM f l = mapM g l.
Proof.
  induction l as [|a l IH]; intros H; [reflexivity|].
  simpl. rewrite (H a (or_introl eq_refl)). rewrite IH; [reflexivity|].
  intros x Hx. apply H. right. exact Hx.
Qed.

Lemma concat_singletons : forall (A : Type) (l : list A), List.concat (map (fun x => [x]) l) = l.
Proof. induction l as [|a l IH]; simpl; [reflexivity|]. rewrite IH. reflexivity. Qed.

Lemma depth_le_max : forall (A : Type) (g : A -> nat) l x,
  In x l -> g x <= fold_right (fun y acc => Nat.max (g y) acc) O l.
Proof.
  induction l as [|a l IH]; intros x Hx; [destruct Hx|].
  simpl. destruct Hx as [Hx|Hx]; [subst; lia|]. specialize (IH x Hx). lia.
Qed.

Lemma jcm_trivial_eq : forall j, jcm_is_trivial j = true -> j = jcm_trivial.
Proof.
  intros [r e n s c a] H. unfold jcm_is_trivial in H.
  destruct r; [|discriminate]. destruct e; [|discriminate]. destruct n; [|discriminate].
  destruct s; [|discriminate]. destruct c; try discriminate. destruct a; [discriminate|].
  reflexivity.
Qed.

(* the values [inst_val] hands to the recursive call or to [inst_item] *)
Definition direct (x : mval) : list mval :=
  match x with
  | MList l => l
  | MDict l => map snd l
  | _ => [x]
  end.

Lemma direct_depth : forall x y, In y (direct x) -> mval_depth y <= mval_depth x.
Proof.
  intros x y H. destruct x; simpl in H;
    try (destruct H as [H|[]]; subst; apply Nat.le_refl).
  - simpl. apply (depth_le_max _ mval_depth) in H. lia.
  - simpl. apply in_map_iff in H. destruct H as [kv [E H]]. subst y.
    apply (depth_le_max _ (fun kv => mval_depth (snd kv))) in H. lia.
Qed.

Lemma direct_classes : forall x y c, In y (direct x) -> In c (classes_in y) -> In c (classes_in x).
Proof.
  intros x y c H Hc. destruct x; simpl in H;
    try (destruct H as [H|[]]; subst; exact Hc).
  - simpl. apply in_flat_map. exists y. split; assumption.
  - simpl. apply in_map_iff in H. destruct H as [kv [E H]]. subst y.
    apply in_flat_map. exists kv. split; assumption.
Qed.

Lemma inst_val_trivial : forall resolve sigma rec fname x,
  (forall y, In y (direct x) -> rec y = Ok y) ->
  inst_val resolve sigma rec jcm_trivial fname x = Ok x.
Proof.
  intros resolve sigma rec fname x H.
  destruct x; try reflexivity.
  - (* list *)
    unfold inst_val. simpl lookup_s.
    rewrite (mapM_id _ (inst_item resolve sigma rec jcm_trivial fname) l); [reflexivity|].
    intros y Hy. destruct y; try reflexivity. simpl. apply H. simpl. exact Hy.
  - (* dict *)
    unfold inst_val.
    rewrite (mapM_id _ (inst_member resolve sigma rec jcm_trivial) l); [reflexivity|].
    intros [k y] Hy. unfold inst_member. simpl fst. simpl snd.
    assert (Hr : rec y = Ok y) by (apply H; simpl; apply in_map_iff; exists (k, y); split; [reflexivity|exact Hy]).
    destruct y; try reflexivity. rewrite Hr. reflexivity.
  - (* model *)
    simpl. apply H. simpl. left. reflexivity.
Qed.

Theorem trivial_identity : forall SC resolve sigma fuel v,
  (forall c, In c (classes_in v) -> jcm_is_trivial (jcm_of SC c) = true) ->
  mval_depth v < fuel ->
  inst SC resolve sigma fuel v = Ok v.
Proof.
  intros SC resolve sigma. induction fuel as [|f IH]; intros v Hc Hd; [lia|].
  rewrite inst_S. destruct v as [ | | | | | | | | |c fields]; try reflexivity.
  assert (Hj : jcm_of SC c = jcm_trivial).
  { apply jcm_trivial_eq. apply Hc. simpl. left. reflexivity. }
  rewrite Hj. unfold inst_model.
  assert (Hf : mapM (inst_field resolve sigma (inst SC resolve sigma f) jcm_trivial) fields
               = Ok (map (fun fv => [fv]) fields)).
  { apply mapM_map. intros [fn x] Hin. unfold inst_field. simpl mem_s. simpl lookup_s.
    rewrite inst_val_trivial; [reflexivity|].
    intros y Hy. apply IH.
    - intros c' Hc'. apply Hc. simpl. right. apply in_flat_map. exists (fn, x). split; [exact Hin|].
      simpl. eapply direct_classes; eassumption.
    - apply direct_depth in Hy.
      pose proof (depth_le_max _ (fun kv : string * mval => mval_depth (snd kv)) fields (fn, x) Hin) as Hm.
      simpl in Hm. simpl in Hd. lia. }
  rewrite Hf. simpl. rewrite concat_singletons. reflexivity.
Qed.

(* instance trees built from the trivial classes of the live schema *)
Lemma trivial_class_jcm : forall c, In c (trivial_classes Generated.schema) ->
  jcm_is_trivial (jcm_of Generated.schema c) = true.
Proof.
  assert (H : forallb (fun c => jcm_is_trivial (jcm_of Generated.schema c)) (trivial_classes Generated.schema) = true)
    by (vm_compute; reflexivity).
  intros c Hc. rewrite forallb_forall in H. exact (H c Hc).
Qed.

Theorem trivial_unchanged : forall resolve sigma fuel v,
  incl (classes_in v) (trivial_classes Generated.schema) ->
  mval_depth v < fuel ->
  inst Generated.schema resolve sigma fuel v = Ok v.
Proof.
  intros resolve sigma fuel v Hi Hd. apply trivial_identity; [|exact Hd].
  intros c Hc. apply trivial_class_jcm. apply Hi. exact Hc.
Qed.

Theorem carried_unchanged : forall resolve sigma fuel v,
  incl (classes_in v) carried_classes ->
  mval_depth v < fuel ->
  inst Generated.schema resolve sigma fuel v = Ok v.
Proof.
  intros resolve sigma fuel v Hi Hd. apply trivial_unchanged; [|exact Hd].
  intros c Hc. apply carried_are_trivial. apply Hi. exact Hc.
Qed.

(* ------------------------------------------------------------------------------------------ *)
(* 5. the symbol table                                                                         *)

Lemma str_eqb_refl' : forall a, str_eqb a a = true.
Proof. induction a as [|x a IH]; simpl; [reflexivity|]. rewrite N.eqb_refl. exact IH. Qed.

Lemma str_eqb_true : forall a b, str_eqb a b = true <-> a = b.
Proof.
  induction a as [|x a IH]; intros [|y b]; simpl; split; intros H; try reflexivity; try discriminate.
  - apply andb_true_iff in H. destruct H as [H1 H2]. apply N.eqb_eq in H1. apply IH in H2. subst. reflexivity.
  - inversion H. subst. rewrite N.eqb_refl. apply str_eqb_refl'.
Qed.

Lemma str_eqb_app_l : forall p a b, str_eqb (p ++ a) (p ++ b) = str_eqb a b.
Proof. induction p as [|x p IH]; intros a b; simpl; [reflexivity|]. rewrite N.eqb_refl. apply IH. Qed.

Definition p_param : str := $"Param.".
Definition p_raw : str := $"RawParam.".

Lemma param_not_raw : forall a b, str_eqb (p_param ++ a) (p_raw ++ b) = false.
Proof. reflexivity. Qed.
Lemma raw_not_param : forall a b, str_eqb (p_raw ++ a) (p_param ++ b) = false.
Proof. reflexivity. Qed.

Definition v_name (e : str * str * str) : str := fst (fst e).
Definition v_type (e : str * str * str) : str := snd (fst e).
Definition v_value (e : str * str * str) : str := snd e.
Definition is_path (e : str * str * str) : bool := str_eqb (v_type e) $"PATH".

(* the first entry of [vals] with the given name *)
Definition first_named (n : str) (vals : list (str * str * str)) : option (str * str * str) :=
  List.find (fun e => str_eqb n (v_name e)) vals.

Lemma symtab_of_cons : forall n t v r,
  symtab_of ((n, t, v) :: r) =
  (if str_eqb t $"PATH" then [] else [(p_param ++ n, v)]) ++ [(p_raw ++ n, v)] ++ symtab_of r.
Proof. intros. unfold symtab_of. simpl flat_map. rewrite <- app_assoc. reflexivity. Qed.

Lemma symtab_raw : forall vals n,
  st_lookup (symtab_of vals) (p_raw ++ n) = option_map v_value (first_named n vals).
Proof.
  induction vals as [|[[n' t] v] r IH]; intros n; [reflexivity|].
  rewrite symtab_of_cons. unfold first_named. simpl List.find. unfold v_name at 1. simpl fst.
  destruct (str_eqb t $"PATH"); cbn [app st_lookup].
  - rewrite str_eqb_app_l. destruct (str_eqb n n'); [reflexivity|]. apply IH.
  - rewrite raw_not_param. rewrite str_eqb_app_l. destruct (str_eqb n n'); [reflexivity|]. apply IH.
Qed.

(* Param.<n>: the first entry with that name among the non-PATH entries *)
Lemma symtab_param_gen : forall vals n,
  st_lookup (symtab_of vals) (p_param ++ n)
  = option_map v_value (first_named n (filter (fun e => negb (is_path e)) vals)).
Proof.
  induction vals as [|[[n' t] v] r IH]; intros n; [reflexivity|].
  rewrite symtab_of_cons. simpl filter. unfold is_path at 1. unfold v_type at 1. simpl fst. simpl snd.
  destruct (str_eqb t $"PATH"); simpl negb; cbv iota.
  - cbn [app st_lookup]. rewrite param_not_raw. apply IH.
  - unfold first_named. simpl List.find. unfold v_name at 1. simpl fst.
    cbn [app st_lookup]. rewrite str_eqb_app_l. destruct (str_eqb n n'); [reflexivity|].
    rewrite param_not_raw. apply IH.
Qed.

Lemma first_named_in : forall n vals e, first_named n vals = Some e -> In e vals /\ v_name e = n.
Proof.
  intros n vals e H. unfold first_named in H. apply find_some in H. destruct H as [H1 H2].
  split; [exact H1|]. apply str_eqb_true in H2. symmetry. exact H2.
Qed.

Lemma first_named_none : forall n vals, ~ In n (map v_name vals) -> first_named n vals = None.
Proof.
  intros n vals H. unfold first_named. destruct (List.find _ vals) as [e|] eqn:E; [|reflexivity].
  apply find_some in E. destruct E as [E1 E2]. apply str_eqb_true in E2. exfalso. apply H.
  apply in_map_iff. exists e. split; [symmetry; exact E2|exact E1].
Qed.

(* with distinct parameter names: Param.<n> is bound iff the entry is not a PATH, same value *)
Lemma symtab_param : forall vals n,
  NoDup (map v_name vals) ->
  st_lookup (symtab_of vals) (p_param ++ n)
  = match first_named n vals with
    | Some e => if is_path e then None else Some (v_value e)
    | None => None
    end.
Proof.
  intros vals n Hnd. rewrite symtab_param_gen.
  induction vals as [|e r IH]; [reflexivity|].
  simpl map in Hnd. inversion Hnd as [|x l Hnotin Hnd']. subst x l.
  unfold first_named at 2. simpl List.find. simpl filter.
  destruct (str_eqb n (v_name e)) eqn:En.
  - apply str_eqb_true in En. destruct (is_path e) eqn:Ep; simpl negb; cbv iota.
    + rewrite first_named_none; [reflexivity|].
      intros Hin. apply Hnotin. rewrite <- En. apply in_map_iff in Hin.
      destruct Hin as [e' [E1 E2]]. apply filter_In in E2. destruct E2 as [E2 _].
      apply in_map_iff. exists e'. split; assumption.
    + unfold first_named. simpl List.find. rewrite <- En. rewrite str_eqb_refl'. reflexivity.
  - destruct (is_path e) eqn:Ep; simpl negb; cbv iota.
    + apply IH. exact Hnd'.
    + unfold first_named at 1. simpl List.find. rewrite En. apply IH. exact Hnd'.
Qed.

(* nothing else is bound *)
Lemma symtab_names : forall vals k,
  In k (map fst (symtab_of vals)) ->
  exists e, In e vals /\ (k = p_raw ++ v_name e \/ (k = p_param ++ v_name e /\ is_path e = false)).
Proof.
  induction vals as [|[[n t] v] r IH]; intros k H; [destruct H|].
  rewrite symtab_of_cons in H. rewrite !map_app in H. apply in_app_or in H.
  destruct H as [H|H].
  - destruct (str_eqb t $"PATH") eqn:Ep; [destruct H|]. simpl in H. destruct H as [H|[]].
    exists (n, t, v). split; [left; reflexivity|]. right. split; [symmetry; exact H|]. exact Ep.
  - apply in_app_or in H. destruct H as [H|H].
    + simpl in H. destruct H as [H|[]]. exists (n, t, v). split; [left; reflexivity|]. left. symmetry. exact H.
    + destruct (IH k H) as [e [He1 He2]]. exists e. split; [right; exact He1|exact He2].
Qed.

Lemma st_lookup_some_in : forall sigma k v, st_lookup sigma k = Some v -> In k (map fst sigma).
Proof.
  induction sigma as [|[k' v'] r IH]; intros k v H; [discriminate|].
  simpl in H. destruct (str_eqb k k') eqn:E.
  - apply str_eqb_true in E. left. symmetry. exact E.
  - right. eapply IH. exact H.
Qed.

Lemma symtab_only : forall vals k v,
  st_lookup (symtab_of vals) k = Some v ->
  exists e, In e vals /\ (k = p_raw ++ v_name e \/ (k = p_param ++ v_name e /\ is_path e = false)).
Proof. intros vals k v H. apply symtab_names. eapply st_lookup_some_in. exact H. Qed.

Theorem symtab_facts : forall vals,
  (forall n, st_lookup (symtab_of vals) ($"RawParam." ++ n) = option_map v_value (first_named n vals))
  /\ (forall n, st_lookup (symtab_of vals) ($"Param." ++ n)
               = option_map v_value (first_named n (filter (fun e => negb (is_path e)) vals)))
  /\ (NoDup (map v_name vals) ->
      forall n, st_lookup (symtab_of vals) ($"Param." ++ n)
                = match first_named n vals with
                  | Some e => if is_path e then None else Some (v_value e)
                  | None => None
                  end)
  /\ (forall k v, st_lookup (symtab_of vals) k = Some v ->
        exists e, In e vals /\
                  (k = $"RawParam." ++ v_name e \/ (k = $"Param." ++ v_name e /\ is_path e = false))).
Proof.
  intros vals. split; [|split; [|split]].
  - exact (symtab_raw vals).
  - exact (symtab_param_gen vals).
  - intros H n. exact (symtab_param vals n H).
  - exact (symtab_only vals).
Qed.

(* ------------------------------------------------------------------------------------------ *)
(* 4. shape lemmas: [inst] partially evaluated on the metadata of Generated.schema             *)

Section Shapes.
  Variable resolve : symtab -> str -> outcome str.
  Variable sigma : symtab.
  Variable rec : mval -> outcome mval.

  (* an item / single value of a field that is NOT resolved: models are instantiated, the rest kept *)
  Definition inst_elem (x : mval) : outcome mval :=
    match x with MModel _ _ => rec x | _ => Ok x end.

  (* an item / single value of a RESOLVED field: format strings become their resolved text *)
  Definition res_elem (x : mval) : outcome mval :=
    match x with
    | MModel _ _ => rec x
    | MFmt s => do r <- resolve sigma s; Ok (MStr r)
    | _ => Ok x
    end.

  Definition leaf (x : mval) : bool := match x with MList _ | MDict _ | MModel _ _ => false | _ => true end.
  Definition single (x : mval) : bool := match x with MList _ | MDict _ => false | _ => true end.
  Definition opt_list (x : mval) : bool := match x with MNone | MList _ => true | _ => false end.

  (* optional list, instantiated elementwise *)
  Definition elems (x : mval) : outcome mval :=
    match x with MList l => do l' <- mapM inst_elem l; Ok (MList l') | _ => Ok x end.
  Definition res_elems (x : mval) : outcome mval :=
    match x with MList l => do l' <- mapM res_elem l; Ok (MList l') | _ => Ok x end.

  (* optional list -> dictionary keyed by the items' [kf] attribute (result[key] = item, in order) *)
  Definition keyed_step (kf : string) (acc : outcome (list (str * mval))) (item : mval) :=
    do a <- acc; do k <- key_of item kf; do y <- inst_elem item; Ok (dict_set a k y).
  Definition keyed (kf : string) (x : mval) : outcome mval :=
    match x with
    | MList l => do d <- fold_left (keyed_step kf) l (Ok []); Ok (MDict d)
    | _ => Ok x
    end.

  Variable j : jcm.

  Lemma inst_item_unresolved : forall fn x, mem_s fn (j_resolve j) = false ->
    inst_item resolve sigma rec j fn x = inst_elem x.
  Proof. intros fn x H. destruct x; try reflexivity. simpl. rewrite H. reflexivity. Qed.

  Lemma inst_item_resolved : forall fn x, mem_s fn (j_resolve j) = true ->
    inst_item resolve sigma rec j fn x = res_elem x.
  Proof. intros fn x H. destruct x; try reflexivity. simpl. rewrite H. reflexivity. Qed.

  Lemma inst_val_single : forall fn x, mem_s fn (j_resolve j) = false -> single x = true ->
    inst_val resolve sigma rec j fn x = inst_elem x.
  Proof. intros fn x H Hs. destruct x; try discriminate; try reflexivity. simpl. rewrite H. reflexivity. Qed.

  Lemma inst_val_leaf : forall fn x, mem_s fn (j_resolve j) = false -> leaf x = true ->
    inst_val resolve sigma rec j fn x = Ok x.
  Proof. intros fn x H Hs. destruct x; try discriminate; try reflexivity. simpl. rewrite H. reflexivity. Qed.

  Lemma inst_val_fmt : forall fn s, mem_s fn (j_resolve j) = true ->
    inst_val resolve sigma rec j fn (MFmt s) = do r <- resolve sigma s; Ok (MStr r).
  Proof. intros fn s H. simpl. rewrite H. reflexivity. Qed.

  Lemma inst_val_elems : forall fn x,
    mem_s fn (j_resolve j) = false -> lookup_s fn (j_reshape j) = None -> opt_list x = true ->
    inst_val resolve sigma rec j fn x = elems x.
  Proof.
    intros fn x H Hr Ho. destruct x; try discriminate; [reflexivity|].
    unfold inst_val, elems. rewrite Hr.
    rewrite (mapM_ext _ _ (inst_item resolve sigma rec j fn) inst_elem); [reflexivity|].
    intros y _. apply inst_item_unresolved. exact H.
  Qed.

  Lemma inst_val_res_elems : forall fn x,
    mem_s fn (j_resolve j) = true -> lookup_s fn (j_reshape j) = None -> opt_list x = true ->
    inst_val resolve sigma rec j fn x = res_elems x.
  Proof.
    intros fn x H Hr Ho. destruct x; try discriminate; [reflexivity|].
    unfold inst_val, res_elems. rewrite Hr.
    rewrite (mapM_ext _ _ (inst_item resolve sigma rec j fn) res_elem); [reflexivity|].
    intros y _. apply inst_item_resolved. exact H.
  Qed.

  Lemma fold_left_ext : forall (A B : Type) (f g : A -> B -> A) l a,
    (forall a b, f a b = g a b) -> fold_left f l a = fold_left g l a.
  Proof. induction l as [|b l IH]; intros a H; [reflexivity|]. simpl. rewrite H. apply IH. exact H. Qed.

  Lemma inst_val_keyed : forall fn kf x,
    mem_s fn (j_resolve j) = false -> lookup_s fn (j_reshape j) = Some kf -> opt_list x = true ->
    inst_val resolve sigma rec j fn x = keyed kf x.
  Proof.
    intros fn kf x H Hr Ho. destruct x; try discriminate; [reflexivity|].
    unfold inst_val, keyed. rewrite Hr.
    rewrite (fold_left_ext _ _ (reshape_step resolve sigma rec j fn kf) (keyed_step kf)); [reflexivity|].
    intros a b. unfold reshape_step, keyed_step. rewrite inst_item_unresolved; [reflexivity|exact H].
  Qed.
End Shapes.

(* absent stays absent, whatever the metadata *)
Lemma inst_val_none : forall resolve sigma rec j fn, inst_val resolve sigma rec j fn MNone = Ok MNone.
Proof. reflexivity. Qed.

(* -- the dictionary built by [keyed] ------------------------------------------------------- *)

Lemma keyed_fold : forall rec kf items kys acc,
  Forall2 (fun item ky => key_of item kf = Ok (fst ky) /\ inst_elem rec item = Ok (snd ky)) items kys ->
  fold_left (keyed_step rec kf) items (Ok acc)
  = Ok (fold_left (fun a ky => dict_set a (fst ky) (snd ky)) kys acc).
Proof.
  intros rec kf items kys acc H. revert acc. induction H as [|item ky items kys [Hk Hi] _ IH]; intros acc.
  - reflexivity.
  - cbn [fold_left]. assert (E : keyed_step rec kf (Ok acc) item = Ok (dict_set acc (fst ky) (snd ky))).
    { unfold keyed_step. simpl. rewrite Hk. simpl. rewrite Hi. reflexivity. }
    rewrite E. apply IH.
Qed.

Lemma dict_set_fresh : forall d k v, ~ In k (map fst d) -> dict_set d k v = d ++ [(k, v)].
Proof.
  induction d as [|[k' v'] r IH]; intros k v H; [reflexivity|].
  simpl. destruct (str_eqb k k') eqn:E.
  - apply str_eqb_true in E. exfalso. apply H. left. symmetry. exact E.
  - rewrite IH; [reflexivity|]. intros Hc. apply H. right. exact Hc.
Qed.

Lemma dict_fold_fresh : forall (kys acc : list (str * mval)),
  NoDup (map fst (acc ++ kys)) ->
  fold_left (fun a ky => dict_set a (fst ky) (snd ky)) kys acc = acc ++ kys.
Proof.
  induction kys as [|[k v] r IH]; intros acc H; [rewrite app_nil_r; reflexivity|].
  simpl. rewrite dict_set_fresh.
  - rewrite IH; rewrite <- app_assoc; [reflexivity|exact H].
  - rewrite map_app in H. simpl in H. apply NoDup_remove_2 in H. intros Hc. apply H.
    apply in_or_app. left. exact Hc.
Qed.

(* every item instantiates and the keys are distinct: the dictionary lists (key, instantiated item)
   in the order of the list *)
Theorem keyed_distinct : forall rec kf items kys,
  Forall2 (fun item ky => key_of item kf = Ok (fst ky) /\ inst_elem rec item = Ok (snd ky)) items kys ->
  NoDup (map fst kys) ->
  keyed rec kf (MList items) = Ok (MDict kys).
Proof.
  intros rec kf items kys H Hnd. unfold keyed. rewrite (keyed_fold _ _ _ kys []); [|exact H].
  simpl. rewrite dict_fold_fresh; [reflexivity|exact Hnd].
Qed.

(* -- instantiated with the recursive call: elementwise identity on carried classes ---------- *)

Lemma elems_unchanged : forall resolve sigma f x,
  incl (classes_in x) (trivial_classes Generated.schema) -> mval_depth x <= f ->
  elems (inst Generated.schema resolve sigma f) x = Ok x.
Proof.
  intros resolve sigma f x Hi Hd. destruct x; try reflexivity.
  unfold elems. rewrite mapM_id; [reflexivity|].
  intros y Hy. destruct y; try reflexivity. unfold inst_elem.
  apply trivial_unchanged.
  - intros c Hc. apply Hi. simpl. apply in_flat_map. eexists. split; [exact Hy|exact Hc].
  - apply (depth_le_max _ mval_depth) in Hy. simpl in Hd. lia.
Qed.

Lemma inst_elem_unchanged : forall resolve sigma f x,
  incl (classes_in x) (trivial_classes Generated.schema) -> mval_depth x < f -> single x = true ->
  inst_elem (inst Generated.schema resolve sigma f) x = Ok x.
Proof.
  intros resolve sigma f x Hi Hd Hs. destruct x; try reflexivity; try discriminate.
  unfold inst_elem. apply trivial_unchanged; [exact Hi|exact Hd].
Qed.

(* -- the metadata of each non-trivial class, by computation -------------------------------- *)

Definition jcm_JobTemplate : jcm :=
  mkJcm ["name"] ["schemaStr"; "specificationVersion"] [("parameterDefinitions", "parameters")]
        [("parameterDefinitions", "name")] (CreateModel "Job") false.
Definition jcm_StepTemplate : jcm := mkJcm [] [] [] [] (CreateModel "Step") false.
Definition jcm_JobStringParam : jcm := mkJcm [] param_excl_sp [] [] (CreateModel "JobParameter") true.
Definition jcm_JobPathParam : jcm :=
  mkJcm [] ["allowedValues"; "dataFlow"; "default"; "maxLength"; "minLength"; "name"; "objectType"; "userInterface"]
        [] [] (CreateModel "JobParameter") true.
Definition jcm_JobNumParam : jcm := mkJcm [] param_excl_num [] [] (CreateModel "JobParameter") true.
Definition jcm_IntTaskParam : jcm :=
  mkJcm ["range"] ["name"] [] []
        (CreateIntRange "RangeExpressionTaskParameterDefinition" "IntRangeListTaskParameterDefinition") false.
Definition jcm_TaskParam (target : string) : jcm := mkJcm ["range"] ["name"] [] [] (CreateModel target) false.
Definition jcm_ParamSpace : jcm :=
  mkJcm [] [] [] [("taskParameterDefinitions", "name")] (CreateModel "StepParameterSpace") false.
Definition jcm_Amount : jcm := mkJcm ["name"] [] [] [] (CreateModel "AmountRequirement") false.
Definition jcm_Attribute : jcm := mkJcm ["allOf"; "anyOf"; "name"] [] [] [] (CreateModel "AttributeRequirement") false.
Definition jcm_HostReq : jcm := mkJcm [] [] [] [] (CreateModel "HostRequirements") false.

Lemma jcm_of_generated :
  jcm_of Generated.schema "JobTemplate" = jcm_JobTemplate
  /\ jcm_of Generated.schema "StepTemplate" = jcm_StepTemplate
  /\ jcm_of Generated.schema "JobStringParameterDefinition" = jcm_JobStringParam
  /\ jcm_of Generated.schema "JobPathParameterDefinition" = jcm_JobPathParam
  /\ jcm_of Generated.schema "JobIntParameterDefinition" = jcm_JobNumParam
  /\ jcm_of Generated.schema "JobFloatParameterDefinition" = jcm_JobNumParam
  /\ jcm_of Generated.schema "IntTaskParameterDefinition" = jcm_IntTaskParam
  /\ jcm_of Generated.schema "FloatTaskParameterDefinition" = jcm_TaskParam "FloatRangeListTaskParameterDefinition"
  /\ jcm_of Generated.schema "StringTaskParameterDefinition" = jcm_TaskParam "RangeListTaskParameterDefinition"
  /\ jcm_of Generated.schema "PathTaskParameterDefinition" = jcm_TaskParam "RangeListTaskParameterDefinition"
  /\ jcm_of Generated.schema "StepParameterSpaceDefinition" = jcm_ParamSpace
  /\ jcm_of Generated.schema "AmountRequirementTemplate" = jcm_Amount
  /\ jcm_of Generated.schema "AttributeRequirementTemplate" = jcm_Attribute
  /\ jcm_of Generated.schema "HostRequirementsTemplate" = jcm_HostReq.
Proof. vm_compute. repeat split. Qed.

(* unfold one class instance into binds over [inst_val] of its non-excluded fields *)
Ltac shape_unfold :=
  unfold inst_model; cbn [mapM]; unfold inst_field;
  cbn [mem_s existsb String.eqb Ascii.eqb Bool.eqb orb lookup_s
       jcm_JobTemplate jcm_StepTemplate jcm_JobStringParam jcm_JobPathParam jcm_JobNumParam
       jcm_IntTaskParam jcm_TaskParam jcm_ParamSpace jcm_Amount jcm_Attribute jcm_HostReq
       param_excl_sp param_excl_num
       j_exclude j_rename j_adds_value j_create_as add_value target_class mfield].
Ltac shape_cases :=
  repeat match goal with
         | |- context [inst_val ?a ?b ?c ?d ?e ?x] => destruct (inst_val a b c d e x); [|reflexivity]
         end;
  try reflexivity;
  try (match goal with |- context [st_lookup ?a ?b] => destruct (st_lookup a b) end; reflexivity).

Section ShapeLemmas.
  Variable resolve : symtab -> str -> outcome str.
  Variable sigma : symtab.
  Variable rec : mval -> outcome mval.

  Notation IV := (inst_val resolve sigma rec).
  Notation IM := (inst_model resolve sigma rec).

  (* ---- arbitrary field values: which fields survive, under which name, in which class ---- *)

  Lemma gen_JobTemplate : forall sv nm st d pd je ss,
    IM jcm_JobTemplate "JobTemplate"
      [("specificationVersion", sv); ("name", nm); ("steps", st); ("description", d);
       ("parameterDefinitions", pd); ("jobEnvironments", je); ("schemaStr", ss)]
    = do n <- IV jcm_JobTemplate "name" nm;
      do s <- IV jcm_JobTemplate "steps" st;
      do d' <- IV jcm_JobTemplate "description" d;
      do p <- IV jcm_JobTemplate "parameterDefinitions" pd;
      do e <- IV jcm_JobTemplate "jobEnvironments" je;
      Ok (MModel "Job" [("name", n); ("steps", s); ("description", d'); ("parameters", p); ("jobEnvironments", e)]).
  Proof. intros. shape_unfold. shape_cases. Qed.

  Lemma gen_StepTemplate : forall n d sc se ps hr dp,
    IM jcm_StepTemplate "StepTemplate"
      [("name", n); ("description", d); ("script", sc); ("stepEnvironments", se);
       ("parameterSpace", ps); ("hostRequirements", hr); ("dependencies", dp)]
    = do n' <- IV jcm_StepTemplate "name" n;
      do d' <- IV jcm_StepTemplate "description" d;
      do sc' <- IV jcm_StepTemplate "script" sc;
      do se' <- IV jcm_StepTemplate "stepEnvironments" se;
      do ps' <- IV jcm_StepTemplate "parameterSpace" ps;
      do hr' <- IV jcm_StepTemplate "hostRequirements" hr;
      do dp' <- IV jcm_StepTemplate "dependencies" dp;
      Ok (MModel "Step" [("name", n'); ("description", d'); ("script", sc'); ("stepEnvironments", se');
                         ("parameterSpace", ps'); ("hostRequirements", hr'); ("dependencies", dp')]).
  Proof. intros. shape_unfold. shape_cases. Qed.

  (* the value added to a job parameter *)
  Definition with_value (n : str) (fs : list (string * mval)) : outcome mval :=
    match st_lookup sigma ($"RawParam." ++ n) with
    | Some v => Ok (MModel "JobParameter" (fs ++ [("value", MStr v)]))
    | None => Raise KeyError
    end.

  Lemma gen_JobStringParam : forall n t ui d mn mx av df,
    IM jcm_JobStringParam "JobStringParameterDefinition"
      [("name", MStr n); ("type", t); ("userInterface", ui); ("description", d);
       ("minLength", mn); ("maxLength", mx); ("allowedValues", av); ("default", df)]
    = do t' <- IV jcm_JobStringParam "type" t;
      do d' <- IV jcm_JobStringParam "description" d;
      with_value n [("type", t'); ("description", d')].
  Proof. intros. shape_unfold. unfold with_value. shape_cases. Qed.

  Lemma gen_JobPathParam : forall n t ot df_ ui d mn mx av df,
    IM jcm_JobPathParam "JobPathParameterDefinition"
      [("name", MStr n); ("type", t); ("objectType", ot); ("dataFlow", df_); ("userInterface", ui);
       ("description", d); ("minLength", mn); ("maxLength", mx); ("allowedValues", av); ("default", df)]
    = do t' <- IV jcm_JobPathParam "type" t;
      do d' <- IV jcm_JobPathParam "description" d;
      with_value n [("type", t'); ("description", d')].
  Proof. intros. shape_unfold. unfold with_value. shape_cases. Qed.

  Lemma gen_JobNumParam : forall c n t ui d mn mx av df,
    IM jcm_JobNumParam c
      [("name", MStr n); ("type", t); ("userInterface", ui); ("description", d);
       ("minValue", mn); ("maxValue", mx); ("allowedValues", av); ("default", df)]
    = do t' <- IV jcm_JobNumParam "type" t;
      do d' <- IV jcm_JobNumParam "description" d;
      with_value n [("type", t'); ("description", d')].
  Proof. intros. shape_unfold. unfold with_value. shape_cases. Qed.

  Lemma gen_IntTaskParam : forall nm t r,
    IM jcm_IntTaskParam "IntTaskParameterDefinition" [("name", nm); ("type", t); ("range", r)]
    = do t' <- IV jcm_IntTaskParam "type" t;
      do r' <- IV jcm_IntTaskParam "range" r;
      Ok (MModel (match r with
                  | MFmt _ => "RangeExpressionTaskParameterDefinition"
                  | _ => "IntRangeListTaskParameterDefinition"
                  end) [("type", t'); ("range", r')]).
  Proof. intros. shape_unfold. shape_cases. Qed.

  Lemma gen_TaskParam : forall target c nm t r,
    IM (jcm_TaskParam target) c [("name", nm); ("type", t); ("range", r)]
    = do t' <- IV (jcm_TaskParam target) "type" t;
      do r' <- IV (jcm_TaskParam target) "range" r;
      Ok (MModel target [("type", t'); ("range", r')]).
  Proof. intros. shape_unfold. shape_cases. Qed.

  Lemma gen_ParamSpace : forall tpd cb,
    IM jcm_ParamSpace "StepParameterSpaceDefinition" [("taskParameterDefinitions", tpd); ("combination", cb)]
    = do t <- IV jcm_ParamSpace "taskParameterDefinitions" tpd;
      do c <- IV jcm_ParamSpace "combination" cb;
      Ok (MModel "StepParameterSpace" [("taskParameterDefinitions", t); ("combination", c)]).
  Proof. intros. shape_unfold. shape_cases. Qed.

  Lemma gen_Amount : forall nm a b,
    IM jcm_Amount "AmountRequirementTemplate" [("name", nm); ("min", a); ("max", b)]
    = do n <- IV jcm_Amount "name" nm;
      do a' <- IV jcm_Amount "min" a;
      do b' <- IV jcm_Amount "max" b;
      Ok (MModel "AmountRequirement" [("name", n); ("min", a'); ("max", b')]).
  Proof. intros. shape_unfold. shape_cases. Qed.

  Lemma gen_Attribute : forall nm any all,
    IM jcm_Attribute "AttributeRequirementTemplate" [("name", nm); ("anyOf", any); ("allOf", all)]
    = do n <- IV jcm_Attribute "name" nm;
      do a' <- IV jcm_Attribute "anyOf" any;
      do b' <- IV jcm_Attribute "allOf" all;
      Ok (MModel "AttributeRequirement" [("name", n); ("anyOf", a'); ("allOf", b')]).
  Proof. intros. shape_unfold. shape_cases. Qed.

  Lemma gen_HostReq : forall am at_,
    IM jcm_HostReq "HostRequirementsTemplate" [("amounts", am); ("attributes", at_)]
    = do a <- IV jcm_HostReq "amounts" am;
      do b <- IV jcm_HostReq "attributes" at_;
      Ok (MModel "HostRequirements" [("amounts", a); ("attributes", b)]).
  Proof. intros. shape_unfold. shape_cases. Qed.
End ShapeLemmas.

(* ---- well-shaped field values: the result spelled out ----------------------------------- *)
Ltac side := first [reflexivity | assumption].

Section Typed.
  Variable resolve : symtab -> str -> outcome str.
  Variable sigma : symtab.
  Variable f : nat.

  Notation REC := (inst Generated.schema resolve sigma f).
  Notation INST := (inst Generated.schema resolve sigma (S f)).

  Let J := jcm_of_generated.

  (* JobTemplate -> Job: name resolved; steps / jobEnvironments instantiated elementwise;
     description unchanged; parameterDefinitions -> "parameters", keyed by name;
     specificationVersion and schemaStr dropped; nothing else *)
  Theorem shape_JobTemplate : forall sv s st d pd je ss,
    opt_list st = true -> leaf d = true -> opt_list pd = true -> opt_list je = true ->
    INST (MModel "JobTemplate"
            [("specificationVersion", sv); ("name", MFmt s); ("steps", st); ("description", d);
             ("parameterDefinitions", pd); ("jobEnvironments", je); ("schemaStr", ss)])
    = do n <- resolve sigma s;
      do st' <- elems REC st;
      do p <- keyed REC "name" pd;
      do e <- elems REC je;
      Ok (MModel "Job" [("name", MStr n); ("steps", st'); ("description", d); ("parameters", p);
                        ("jobEnvironments", e)]).
  Proof.
    intros sv s st d pd je ss Hst Hd Hpd Hje. rewrite inst_S.
    replace (jcm_of Generated.schema "JobTemplate") with jcm_JobTemplate by (symmetry; apply J).
    rewrite gen_JobTemplate.
    rewrite inst_val_fmt by side.
    rewrite (inst_val_elems _ _ _ _ "steps") by side.
    rewrite (inst_val_leaf _ _ _ _ "description") by side.
    rewrite (inst_val_keyed _ _ _ _ "parameterDefinitions" "name") by side.
    rewrite (inst_val_elems _ _ _ _ "jobEnvironments") by side.
    destruct (resolve sigma s); reflexivity.
  Qed.

  (* StepTemplate -> Step: all seven fields kept under their names *)
  Theorem shape_StepTemplate : forall n d sc se ps hr dp,
    leaf n = true -> leaf d = true -> single sc = true -> opt_list se = true ->
    single ps = true -> single hr = true -> opt_list dp = true ->
    INST (MModel "StepTemplate"
            [("name", n); ("description", d); ("script", sc); ("stepEnvironments", se);
             ("parameterSpace", ps); ("hostRequirements", hr); ("dependencies", dp)])
    = do sc' <- inst_elem REC sc;
      do se' <- elems REC se;
      do ps' <- inst_elem REC ps;
      do hr' <- inst_elem REC hr;
      do dp' <- elems REC dp;
      Ok (MModel "Step" [("name", n); ("description", d); ("script", sc'); ("stepEnvironments", se');
                         ("parameterSpace", ps'); ("hostRequirements", hr'); ("dependencies", dp')]).
  Proof.
    intros n d sc se ps hr dp Hn Hd Hsc Hse Hps Hhr Hdp. rewrite inst_S.
    replace (jcm_of Generated.schema "StepTemplate") with jcm_StepTemplate by (symmetry; apply J).
    rewrite gen_StepTemplate.
    rewrite (inst_val_leaf _ _ _ _ "name") by side.
    rewrite (inst_val_leaf _ _ _ _ "description") by side.
    rewrite (inst_val_single _ _ _ _ "script") by side.
    rewrite (inst_val_elems _ _ _ _ "stepEnvironments") by side.
    rewrite (inst_val_single _ _ _ _ "parameterSpace") by side.
    rewrite (inst_val_single _ _ _ _ "hostRequirements") by side.
    rewrite (inst_val_elems _ _ _ _ "dependencies") by side.
    reflexivity.
  Qed.

  (* ... and when script, environments and dependencies are built from the carried classes they
     are carried over unchanged: only parameterSpace and hostRequirements are rewritten *)
  Theorem shape_StepTemplate_carried : forall n d sc se ps hr dp,
    leaf n = true -> leaf d = true -> single sc = true -> opt_list se = true ->
    single ps = true -> single hr = true -> opt_list dp = true ->
    incl (classes_in sc) carried_classes -> mval_depth sc < f ->
    incl (classes_in se) carried_classes -> mval_depth se <= f ->
    incl (classes_in dp) carried_classes -> mval_depth dp <= f ->
    INST (MModel "StepTemplate"
            [("name", n); ("description", d); ("script", sc); ("stepEnvironments", se);
             ("parameterSpace", ps); ("hostRequirements", hr); ("dependencies", dp)])
    = do ps' <- inst_elem REC ps;
      do hr' <- inst_elem REC hr;
      Ok (MModel "Step" [("name", n); ("description", d); ("script", sc); ("stepEnvironments", se);
                         ("parameterSpace", ps'); ("hostRequirements", hr'); ("dependencies", dp)]).
  Proof.
    intros n d sc se ps hr dp Hn Hd Hsc Hse Hps Hhr Hdp Csc Dsc Cse Dse Cdp Ddp.
    rewrite shape_StepTemplate by assumption.
    rewrite inst_elem_unchanged; [|intros c Hc; apply carried_are_trivial, Csc, Hc|exact Dsc|exact Hsc].
    rewrite (elems_unchanged _ _ _ se); [|intros c Hc; apply carried_are_trivial, Cse, Hc|exact Dse].
    rewrite (elems_unchanged _ _ _ dp); [|intros c Hc; apply carried_are_trivial, Cdp, Hc|exact Ddp].
    cbn [bind]. destruct (inst_elem REC ps); [|reflexivity]. cbn [bind].
    destruct (inst_elem REC hr); reflexivity.
  Qed.

  (* job parameters -> JobParameter {type, description, value}; value = RawParam.<name>;
     KeyError when the symbol is unbound; every other field of the definition is dropped *)
  Definition job_parameter (n : str) (t d : mval) : outcome mval :=
    match st_lookup sigma ($"RawParam." ++ n) with
    | Some v => Ok (MModel "JobParameter" [("type", t); ("description", d); ("value", MStr v)])
    | None => Raise KeyError
    end.

  Theorem shape_JobStringParam : forall n t ui d mn mx av df,
    leaf t = true -> leaf d = true ->
    INST (MModel "JobStringParameterDefinition"
            [("name", MStr n); ("type", t); ("userInterface", ui); ("description", d);
             ("minLength", mn); ("maxLength", mx); ("allowedValues", av); ("default", df)])
    = job_parameter n t d.
  Proof.
    intros n t ui d mn mx av df Ht Hd. rewrite inst_S.
    replace (jcm_of Generated.schema "JobStringParameterDefinition") with jcm_JobStringParam by (symmetry; apply J).
    rewrite gen_JobStringParam.
    rewrite (inst_val_leaf _ _ _ _ "type") by side.
    rewrite (inst_val_leaf _ _ _ _ "description") by side.
    reflexivity.
  Qed.

  Theorem shape_JobPathParam : forall n t ot dfl ui d mn mx av df,
    leaf t = true -> leaf d = true ->
    INST (MModel "JobPathParameterDefinition"
            [("name", MStr n); ("type", t); ("objectType", ot); ("dataFlow", dfl); ("userInterface", ui);
             ("description", d); ("minLength", mn); ("maxLength", mx); ("allowedValues", av); ("default", df)])
    = job_parameter n t d.
  Proof.
    intros n t ot dfl ui d mn mx av df Ht Hd. rewrite inst_S.
    replace (jcm_of Generated.schema "JobPathParameterDefinition") with jcm_JobPathParam by (symmetry; apply J).
    rewrite gen_JobPathParam.
    rewrite (inst_val_leaf _ _ _ _ "type") by side.
    rewrite (inst_val_leaf _ _ _ _ "description") by side.
    reflexivity.
  Qed.

  Theorem shape_JobIntParam : forall n t ui d mn mx av df,
    leaf t = true -> leaf d = true ->
    INST (MModel "JobIntParameterDefinition"
            [("name", MStr n); ("type", t); ("userInterface", ui); ("description", d);
             ("minValue", mn); ("maxValue", mx); ("allowedValues", av); ("default", df)])
    = job_parameter n t d.
  Proof.
    intros n t ui d mn mx av df Ht Hd. rewrite inst_S.
    replace (jcm_of Generated.schema "JobIntParameterDefinition") with jcm_JobNumParam by (symmetry; apply J).
    rewrite gen_JobNumParam.
    rewrite (inst_val_leaf _ _ _ _ "type") by side.
    rewrite (inst_val_leaf _ _ _ _ "description") by side.
    reflexivity.
  Qed.

  Theorem shape_JobFloatParam : forall n t ui d mn mx av df,
    leaf t = true -> leaf d = true ->
    INST (MModel "JobFloatParameterDefinition"
            [("name", MStr n); ("type", t); ("userInterface", ui); ("description", d);
             ("minValue", mn); ("maxValue", mx); ("allowedValues", av); ("default", df)])
    = job_parameter n t d.
  Proof.
    intros n t ui d mn mx av df Ht Hd. rewrite inst_S.
    replace (jcm_of Generated.schema "JobFloatParameterDefinition") with jcm_JobNumParam by (symmetry; apply J).
    rewrite gen_JobNumParam.
    rewrite (inst_val_leaf _ _ _ _ "type") by side.
    rewrite (inst_val_leaf _ _ _ _ "description") by side.
    reflexivity.
  Qed.

  (* task parameters: name dropped, range resolved (itemwise for a list), target class *)
  Theorem shape_IntTaskParam_expr : forall nm t s,
    leaf t = true ->
    INST (MModel "IntTaskParameterDefinition" [("name", nm); ("type", t); ("range", MFmt s)])
    = do r <- resolve sigma s;
      Ok (MModel "RangeExpressionTaskParameterDefinition" [("type", t); ("range", MStr r)]).
  Proof.
    intros nm t s Ht. rewrite inst_S.
    replace (jcm_of Generated.schema "IntTaskParameterDefinition") with jcm_IntTaskParam by (symmetry; apply J).
    rewrite gen_IntTaskParam.
    rewrite (inst_val_leaf _ _ _ _ "type") by side.
    rewrite inst_val_fmt by side.
    destruct (resolve sigma s); reflexivity.
  Qed.

  Theorem shape_IntTaskParam_list : forall nm t items,
    leaf t = true ->
    INST (MModel "IntTaskParameterDefinition" [("name", nm); ("type", t); ("range", MList items)])
    = do l <- mapM (res_elem resolve sigma REC) items;
      Ok (MModel "IntRangeListTaskParameterDefinition" [("type", t); ("range", MList l)]).
  Proof.
    intros nm t items Ht. rewrite inst_S.
    replace (jcm_of Generated.schema "IntTaskParameterDefinition") with jcm_IntTaskParam by (symmetry; apply J).
    rewrite gen_IntTaskParam.
    rewrite (inst_val_leaf _ _ _ _ "type") by side.
    rewrite (inst_val_res_elems _ _ _ _ "range") by side.
    cbn [bind res_elems]. destruct (mapM (res_elem resolve sigma REC) items); reflexivity.
  Qed.

  Definition task_param_target (c : string) : string :=
    if String.eqb c "FloatTaskParameterDefinition" then "FloatRangeListTaskParameterDefinition"
    else "RangeListTaskParameterDefinition".

  Theorem shape_TaskParam : forall c nm t items,
    In c ["FloatTaskParameterDefinition"; "StringTaskParameterDefinition"; "PathTaskParameterDefinition"] ->
    leaf t = true ->
    INST (MModel c [("name", nm); ("type", t); ("range", MList items)])
    = do l <- mapM (res_elem resolve sigma REC) items;
      Ok (MModel (task_param_target c) [("type", t); ("range", MList l)]).
  Proof.
    intros c nm t items Hc Ht. rewrite inst_S.
    assert (E : jcm_of Generated.schema c = jcm_TaskParam (task_param_target c)).
    { destruct Hc as [Hc|[Hc|[Hc|[]]]]; subst c; apply J. }
    rewrite E. rewrite gen_TaskParam.
    rewrite (inst_val_leaf _ _ _ _ "type") by side.
    rewrite (inst_val_res_elems _ _ _ _ "range") by side.
    cbn [bind res_elems]. destruct (mapM (res_elem resolve sigma REC) items); reflexivity.
  Qed.

  (* parameter space: taskParameterDefinitions list -> dictionary keyed by name; combination unchanged *)
  Theorem shape_ParamSpace : forall tpd cb,
    opt_list tpd = true -> leaf cb = true ->
    INST (MModel "StepParameterSpaceDefinition" [("taskParameterDefinitions", tpd); ("combination", cb)])
    = do t <- keyed REC "name" tpd;
      Ok (MModel "StepParameterSpace" [("taskParameterDefinitions", t); ("combination", cb)]).
  Proof.
    intros tpd cb Ht Hc. rewrite inst_S.
    replace (jcm_of Generated.schema "StepParameterSpaceDefinition") with jcm_ParamSpace by (symmetry; apply J).
    rewrite gen_ParamSpace.
    rewrite (inst_val_keyed _ _ _ _ "taskParameterDefinitions" "name") by side.
    rewrite (inst_val_leaf _ _ _ _ "combination") by side.
    reflexivity.
  Qed.

  Theorem shape_Amount : forall s a b,
    leaf a = true -> leaf b = true ->
    INST (MModel "AmountRequirementTemplate" [("name", MFmt s); ("min", a); ("max", b)])
    = do r <- resolve sigma s;
      Ok (MModel "AmountRequirement" [("name", MStr r); ("min", a); ("max", b)]).
  Proof.
    intros s a b Ha Hb. rewrite inst_S.
    replace (jcm_of Generated.schema "AmountRequirementTemplate") with jcm_Amount by (symmetry; apply J).
    rewrite gen_Amount.
    rewrite inst_val_fmt by side.
    rewrite (inst_val_leaf _ _ _ _ "min") by side.
    rewrite (inst_val_leaf _ _ _ _ "max") by side.
    destruct (resolve sigma s); reflexivity.
  Qed.

  Theorem shape_Attribute : forall s any all,
    opt_list any = true -> opt_list all = true ->
    INST (MModel "AttributeRequirementTemplate" [("name", MFmt s); ("anyOf", any); ("allOf", all)])
    = do r <- resolve sigma s;
      do a <- res_elems resolve sigma REC any;
      do b <- res_elems resolve sigma REC all;
      Ok (MModel "AttributeRequirement" [("name", MStr r); ("anyOf", a); ("allOf", b)]).
  Proof.
    intros s any all Ha Hb. rewrite inst_S.
    replace (jcm_of Generated.schema "AttributeRequirementTemplate") with jcm_Attribute by (symmetry; apply J).
    rewrite gen_Attribute.
    rewrite inst_val_fmt by side.
    rewrite (inst_val_res_elems _ _ _ _ "anyOf") by side.
    rewrite (inst_val_res_elems _ _ _ _ "allOf") by side.
    destruct (resolve sigma s); reflexivity.
  Qed.

  Theorem shape_HostReq : forall am at_,
    opt_list am = true -> opt_list at_ = true ->
    INST (MModel "HostRequirementsTemplate" [("amounts", am); ("attributes", at_)])
    = do a <- elems REC am;
      do b <- elems REC at_;
      Ok (MModel "HostRequirements" [("amounts", a); ("attributes", b)]).
  Proof.
    intros am at_ Ha Hb. rewrite inst_S.
    replace (jcm_of Generated.schema "HostRequirementsTemplate") with jcm_HostReq by (symmetry; apply J).
    rewrite gen_HostReq.
    rewrite (inst_val_elems _ _ _ _ "amounts") by side.
    rewrite (inst_val_elems _ _ _ _ "attributes") by side.
    reflexivity.
  Qed.
End Typed.

(* ------------------------------------------------------------------------------------------ *)
(* 6. resolved text = single-pass substitution on the ORIGINAL string (link to C16)            *)

Require Import OJD.FormatStr OJD.FormatStrSpec OJD.FormatStrProofs.

(* FormatString(s).resolve(symtab) as create_job runs it (the value of a format-string field is
   the string it was built from, C16_eq) *)
Definition fs_resolve (classify : N -> cclass) (sigma : CreateJob.symtab) (s : str) : outcome str :=
  match mk classify s with
  | Ok f => FormatStr.resolve sigma f
  | Raise e => Raise e
  end.

Lemma st_lookup_is_lookup : forall sigma n, st_lookup sigma n = FormatStr.lookup sigma n.
Proof. induction sigma as [|[k v] r IH]; intros n; [reflexivity|]. simpl. rewrite IH. reflexivity. Qed.

Theorem fs_resolve_single_pass : forall classify, ascii_ok classify = true ->
  forall s segs last sigma, Decomp classify s segs last ->
  fs_resolve classify sigma s = match spec_resolve classify sigma segs last with
                                | Some r => Ok r
                                | None => Raise FormatStringError
                                end.
Proof.
  intros classify Hok s segs last sigma Hd. unfold fs_resolve.
  assert (Hm : mk classify s = Ok (mkF s (items_of classify 0 segs last))).
  { apply (mk_value_iff classify Hok). exists segs, last. split; [exact Hd|reflexivity]. }
  rewrite Hm. eapply (mk_resolve classify Hok); eassumption.
Qed.

Theorem fs_resolve_bound : forall classify, ascii_ok classify = true ->
  forall s segs last sigma, Decomp classify s segs last ->
  (forall n, In n (refs classify segs) -> st_lookup sigma n <> None) ->
  exists r, spec_resolve classify sigma segs last = Some r /\ fs_resolve classify sigma s = Ok r.
Proof.
  intros classify Hok s segs last sigma Hd Hb. unfold fs_resolve.
  assert (Hm : mk classify s = Ok (mkF s (items_of classify 0 segs last))).
  { apply (mk_value_iff classify Hok). exists segs, last. split; [exact Hd|reflexivity]. }
  rewrite Hm. apply (mk_resolve_bound classify Hok s _ segs last sigma Hm Hd).
  intros n Hn. rewrite <- st_lookup_is_lookup. apply Hb. exact Hn.
Qed.

(* a string that is no format string at all: FormatStringError, nothing else *)
Theorem fs_resolve_errors : forall classify, ascii_ok classify = true ->
  forall s sigma e, fs_resolve classify sigma s = Raise e -> e = FormatStringError.
Proof.
  intros classify Hok s sigma e H. unfold fs_resolve in H.
  destruct (mk classify s) as [f0|e0] eqn:Hm.
  - destruct (mk_resolve_fail_iff classify Hok s f0 sigma Hm) as [_ [_ H3]]. apply H3. exact H.
  - inversion H. subst e0. eapply mk_errors. exact Hm.
Qed.

(* what [inst] stores for a resolved format-string value *)
Theorem res_elem_single_pass : forall classify, ascii_ok classify = true ->
  forall s segs last sigma rec, Decomp classify s segs last ->
  res_elem (fs_resolve classify) sigma rec (MFmt s)
  = match spec_resolve classify sigma segs last with
    | Some r => Ok (MStr r)
    | None => Raise FormatStringError
    end.
Proof.
  intros classify Hok s segs last sigma rec Hd. unfold res_elem.
  rewrite (fs_resolve_single_pass classify Hok s segs last sigma Hd).
  destruct (spec_resolve classify sigma segs last); reflexivity.
Qed.
