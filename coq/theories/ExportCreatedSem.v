(* ExportCreatedSem.v — p17j: "whatever the decoder makes of the export of x is equal to x", as a property of an
   instance value x and a kind / class / field of the schema, with the rules to establish it.

     good v x      v is equal to x as pydantic compares instances (ExportCreatedRel.mval_equiv) and exports to the same
                   document up to member order (JsonEquiv.json_equiv)
     SEMK k x      every successful parse of the export of x AS KIND k (any fuel) returns a v with [good v x]
     SEMC c x      the same for a parse AS CLASS c;   SEMV fl x   for a parse as the value of field fl

   The rules are representation facts only (which constructor of [mval] sits under which kind): no constraint of
   the target class is needed, because the parse is ASSUMED to succeed (create_job's own validation, Export.nodes_ok,
   provides that for the root).  [sem_cls] is the rule for a model node: the node's class may be ANOTHER class with
   the same field names and aliases (the subclasses create_job instantiates), and its fields may come in any order.
   Any pre / post validators: they only decide whether the parse succeeds. *)
From Coq Require Import List NArith ZArith Bool String Lia.
Import ListNotations.
Require Import OJD.Base OJD.Lexer OJD.Json OJD.Schema OJD.Generated OJD.Charsets OJD.Numerals OJD.NumPrint OJD.NumRoundtrip OJD.FormatStr
               OJD.CreateJob OJD.CreateJobProofs OJD.Parse OJD.Export OJD.ExportProofs OJD.JsonEquiv
               OJD.CreateJobExactLib OJD.ExportCreatedRel.
Local Open Scope string_scope.
Local Open Scope list_scope.

Notation G := Generated.schema.
Notation T := (tobj Generated.schema).

Definition good (v x : mval) : Prop := mval_equiv v x /\ json_equiv (T v) (T x).

Lemma good_refl : forall x, good x x.
Proof. intros x. split; [apply mval_equiv_refl|apply json_equiv_refl]. Qed.

Lemma mval_equiv_none_l : forall v x, mval_equiv v x -> x = MNone -> v = MNone.
Proof. intros v x H E. subst x. inversion H; subst; try reflexivity. discriminate. Qed.

Lemma mval_equiv_none_r : forall v x, mval_equiv v x -> v = MNone -> x = MNone.
Proof. intros v x H E. subst v. inversion H; subst; try reflexivity. discriminate. Qed.

Lemma mnone_false : forall x, mnone x = false <-> x <> MNone.
Proof. intros x. destruct x; split; intros H; try reflexivity; try discriminate; try congruence. Qed.

Lemma good_mnone : forall v x, good v x -> mnone v = mnone x.
Proof.
  intros v x [H _]. destruct (mnone x) eqn:Ex.
  - destruct x; try discriminate Ex. rewrite (mval_equiv_none_l _ _ H eq_refl). reflexivity.
  - destruct (mnone v) eqn:Ev; [|reflexivity]. destruct v; try discriminate Ev.
    rewrite (mval_equiv_none_r _ _ H eq_refl) in Ex. discriminate Ex.
Qed.

Lemma T_not_null : forall x, mnone x = false -> T x <> JNull.
Proof. intros x H E. apply tobj_null in E. subst x. discriminate H. Qed.

(* ------------------------------------------------------------------ members of an exported node *)

(* the members [tobj] emits for a field list, the key of a field name being [al name] *)
Definition mems (al : string -> string) (fs : list (string * mval)) : list (str * json) :=
  flat_map (fun fv : string * mval => match snd fv with
                                      | MNone => []
                                      | _ => [(str_of_string (al (fst fv)), T (snd fv))]
                                      end) fs.

Lemma T_model : forall c fs, T (MModel c fs) = JObj (mems (alias_of G c) fs).
Proof. reflexivity. Qed.

Lemma mems_cons : forall al n x r,
  mems al ((n, x) :: r) = (if mnone x then [] else [(str_of_string (al n), T x)]) ++ mems al r.
Proof. intros al n x r. unfold mems. cbn [flat_map fst snd]. destruct x; reflexivity. Qed.

Lemma mems_nonnull : forall al fs kv, In kv (mems al fs) -> snd kv <> JNull.
Proof.
  intros al fs kv H. unfold mems in H. apply in_flat_map in H. destruct H as [[n x] [_ H]]. cbn [fst snd] in H.
  destruct (mnone x) eqn:E; [destruct x; try discriminate E; destruct H|].
  assert (H' : kv = (str_of_string (al n), T x)) by (destruct x; try discriminate E; destruct H as [<-|[]]; reflexivity).
  subst kv. cbn [snd]. apply T_not_null. exact E.
Qed.

Lemma jfind_nonnull : forall k ms, (forall kv, In kv ms -> snd kv <> JNull) -> jfind k ms = assoc k ms.
Proof.
  induction ms as [|[k' v] r IH]; intros H; [reflexivity|].
  cbn [jfind assoc]. destruct (str_eqb k k').
  - assert (Hv : v <> JNull) by (apply (H (k', v)); left; reflexivity). destruct v; try reflexivity. contradiction.
  - apply IH. intros kv Hkv. apply H. right. exact Hkv.
Qed.

Lemma mfield_cons : forall k n (x : mval) r,
  mfield k ((n, x) :: r) = if String.eqb n k then x else mfield k r.
Proof. intros k n x r. unfold mfield. cbn [lookup_s]. destruct (String.eqb n k); reflexivity. Qed.

Lemma mfield_notin : forall k (fs : list (string * mval)), ~ In k (map fst fs) -> mfield k fs = MNone.
Proof. intros k fs H. unfold mfield. rewrite lookup_s_notin by exact H. reflexivity. Qed.

(* a key that is the key of no field name of the list *)
Lemma assoc_mems_absent : forall al fs key,
  (forall n, In n (map fst fs) -> str_of_string (al n) <> key) -> assoc key (mems al fs) = None.
Proof.
  induction fs as [|[n x] r IH]; intros key H; [reflexivity|].
  rewrite mems_cons.
  assert (Hr : assoc key (mems al r) = None) by (apply IH; intros m Hm; apply H; right; exact Hm).
  destruct (mnone x); [exact Hr|]. cbn [app assoc].
  rewrite str_eqb_false2; [exact Hr|]. intros E. apply (H n); [left; reflexivity|]. symmetry. exact E.
Qed.

(* the member under the key of field name [n0], when no other name of the list has that key *)
Lemma assoc_mems : forall al fs n0,
  NoDup (map fst fs) ->
  (forall n, In n (map fst fs) -> al n = al n0 -> n = n0) ->
  assoc (str_of_string (al n0)) (mems al fs)
  = if mnone (mfield n0 fs) then None else Some (T (mfield n0 fs)).
Proof.
  induction fs as [|[n x] r IH]; intros n0 Hnd Hinj; [reflexivity|].
  cbn [map fst] in Hnd. inversion Hnd as [|? ? Hnotin Hnd']. subst.
  rewrite mems_cons, mfield_cons. destruct (String.eqb n n0) eqn:En.
  - apply String.eqb_eq in En. subst n0.
    destruct (mnone x) eqn:Ex.
    + cbn [app]. apply assoc_mems_absent. intros m Hm E. apply str_of_string_inj in E.
      assert (m = n) by (apply Hinj; [right; exact Hm|exact E]). subst m. contradiction.
    + cbn [app assoc]. rewrite str_eqb_refl2. reflexivity.
  - apply String.eqb_neq in En.
    assert (Hr : assoc (str_of_string (al n0)) (mems al r)
                 = if mnone (mfield n0 r) then None else Some (T (mfield n0 r))).
    { apply IH; [exact Hnd'|]. intros m Hm E. apply Hinj; [right; exact Hm|exact E]. }
    destruct (mnone x); [exact Hr|]. cbn [app assoc].
    rewrite str_eqb_false2; [exact Hr|]. intros E. apply str_of_string_inj in E. apply En.
    apply Hinj; [left; reflexivity|]. symmetry. exact E.
Qed.

(* ------------------------------------------------------------------ the property *)
Section Sem.
  Variable classify : N -> cclass.
  Variable pre : string -> json -> bool.
  Variable post : string -> json -> list (string * mval) -> bool.
  Notation PK := (parse_kind G classify pre post).
  Notation PC := (parse_cls G classify pre post).

  Definition SEMK (k : kind) (x : mval) : Prop := forall f v, PK f k (T x) = Ok v -> good v x.
  Definition SEMC (c : string) (x : mval) : Prop := forall f v, PC f c (T x) = Ok v -> good v x.
  Definition SEMV (fl : field) (x : mval) : Prop := forall f y, field_value (PK f) fl (T x) = Ok y -> good y x.

  (* -------------------------------------------------------------- scalars *)
  Lemma sem_text : forall k x s, str_kind k = true -> mtext x = Some s -> SEMK k x.
  Proof.
    intros k x s Hk Hx f v H.
    assert (Ex : T x = JStr s) by (destruct x; try discriminate Hx; injection Hx as <-; reflexivity).
    rewrite Ex in H. destruct f as [|f]; [discriminate H|].
    rewrite parse_kind_S, (kind_body_scalar _ _ _ _ _ (scalar_of_str _ Hk)) in H.
    assert (Hv : mtext v = Some s).
    { destruct k as [lit|members|strict minl maxl cs|fc minl maxl cs| | | | | | |]; try discriminate Hk;
        cbn [scalar_body] in H; unfold reject in H.
      - destruct (str_eqb s $lit); [|discriminate H]. injection H as <-. reflexivity.
      - destruct (existsb _ members); [|discriminate H]. injection H as <-. reflexivity.
      - apply check_str_ok in H. subst v. reflexivity.
      - destruct (len_ok minl maxl s && cs_ok cs s && fs_ok classify s); [|discriminate H]. injection H as <-. reflexivity. }
    split; [eapply ME_text; eassumption|].
    assert (Ev : T v = JStr s) by (destruct v; try discriminate Hv; injection Hv as <-; reflexivity).
    rewrite Ev, Ex. apply json_equiv_refl.
  Qed.

  Lemma sem_exact : forall k x, (forall f v, PK f k (T x) = Ok v -> v = x) -> SEMK k x.
  Proof. intros k x H f v Hp. rewrite (H f v Hp). apply good_refl. Qed.

  Lemma sem_bool : forall st b, SEMK (KBool st) (MBool b).
  Proof.
    intros st b. apply sem_exact. intros f v H. destruct f as [|f]; [discriminate H|].
    rewrite parse_kind_S in H. cbn [kind_body scalar_body tobj] in H. injection H as <-. reflexivity.
  Qed.

  Lemma sem_int : forall st ge le gt z, SEMK (KInt st ge le gt) (MInt z).
  Proof.
    intros st ge le gt z. apply sem_exact. intros f v H. destruct f as [|f]; [discriminate H|].
    rewrite parse_kind_S in H. cbn [kind_body scalar_body tobj] in H.
    destruct (zopt_ok ge le gt z); [|discriminate H]. injection H as <-. reflexivity.
  Qed.

  Lemma sem_float : forall gt m e, SEMK (KFloat gt) (MFloat m e).
  Proof.
    intros gt m e. apply sem_exact. intros f v H. destruct f as [|f]; [discriminate H|].
    rewrite parse_kind_S in H. cbn [kind_body scalar_body tobj] in H.
    destruct gt as [b|]; [destruct (num_ltb _ _); [|discriminate H]|]; injection H as <-; reflexivity.
  Qed.

  Lemma sem_dec : forall m e, SEMK KDec (MDec m e).
  Proof.
    intros m e. apply sem_exact. intros f v H. destruct f as [|f]; [discriminate H|].
    rewrite parse_kind_S in H. cbn [kind_body scalar_body tobj] in H.
    rewrite parse_dec_print_dec in H. injection H as <-. reflexivity.
  Qed.

  (* a scalar kind never accepts an array or an object *)
  Lemma sem_scalar_composite : forall k x, scalar_kind k = true ->
    (exists l, T x = JArr l) \/ (exists ms, T x = JObj ms) -> SEMK k x.
  Proof.
    intros k x Hk Hx f v H. exfalso. destruct f as [|f]; [discriminate H|].
    rewrite parse_kind_S, (kind_body_scalar _ _ _ _ _ Hk) in H.
    destruct Hx as [[l E]|[ms E]]; rewrite E in H;
      destruct k as [lit|members|strict minl maxl cs|fc minl maxl cs|strict|strict ge le gt|gt| | | |];
      try discriminate Hk; cbn [scalar_body] in H; unfold reject, unsupported in H; try discriminate H;
      destruct strict; discriminate H.
  Qed.

  (* -------------------------------------------------------------- models, discriminated unions, ordered unions *)
  Lemma sem_model : forall c x, SEMC c x -> SEMK (KModel c) x.
  Proof.
    intros c x Hc f v H. destruct f as [|f]; [discriminate H|].
    rewrite parse_kind_S in H. cbn [kind_body] in H. eapply Hc. exact H.
  Qed.

  Lemma find_first_key : forall (mp : list (string * string)) kk c,
    NoDup (map fst mp) -> In (kk, c) mp ->
    List.find (fun kc => str_eqb (str_of_string (fst kc)) (str_of_string kk)) mp = Some (kk, c).
  Proof.
    induction mp as [|[k1 c1] r IH]; intros kk c Hnd Hin; [destruct Hin|].
    cbn [map fst] in Hnd. inversion Hnd as [|? ? Hnotin Hnd']. subst.
    cbn [List.find fst]. destruct Hin as [Hin|Hin].
    - injection Hin as -> ->. rewrite str_eqb_refl2. reflexivity.
    - rewrite str_eqb_false2; [apply IH; assumption|].
      intros E. apply str_of_string_inj in E. subst k1. apply Hnotin.
      apply (in_map fst r (kk, c)). exact Hin.
  Qed.

  Lemma sem_disc : forall key mp kk c x ms,
    NoDup (map fst mp) -> In (kk, c) mp ->
    T x = JObj ms -> assoc (str_of_string key) ms = Some (JStr (str_of_string kk)) ->
    SEMC c x -> SEMK (KDisc key mp) x.
  Proof.
    intros key mp kk c x ms Hnd Hin Ex Ha Hc f v H. destruct f as [|f]; [discriminate H|].
    rewrite parse_kind_S in H. cbn [kind_body] in H. unfold disc_value in H. rewrite Ex in H.
    rewrite Ha in H. rewrite (find_first_key mp kk c Hnd Hin) in H. rewrite <- Ex in H. eapply Hc. exact H.
  Qed.

  Definition SEMA (a : ualt) (x : mval) : Prop :=
    forall f v, alt_value (PK f) a (T x) = Ok v -> good v x.

  Lemma sem_union : forall alts x, (forall a, In a alts -> SEMA a x) -> SEMK (KUnion alts) x.
  Proof.
    intros alts x Ha f v H. destruct f as [|f]; [discriminate H|].
    rewrite parse_kind_S in H. cbn [kind_body] in H.
    induction alts as [|a r IH]; [discriminate H|].
    cbn [try_alts] in H. destruct (alt_value (PK f) a (T x)) as [y|e] eqn:E.
    - injection H as <-. eapply (Ha a); [left; reflexivity|exact E].
    - apply IH; [intros a' Ha'; apply Ha; right; exact Ha'|]. destruct e; try discriminate H; exact H.
  Qed.

  Lemma sema_scalar : forall k x, SEMK k x -> SEMA (UScalar k) x.
  Proof. intros k x H f v Hp. cbn [alt_value] in Hp. eapply H. exact Hp. Qed.

  (* -------------------------------------------------------------- the value of a field *)
  Lemma semv_none : forall fl, SEMV fl MNone.
  Proof.
    intros fl f y H. cbn [tobj field_value] in H. destruct (f_required fl); [discriminate H|].
    injection H as <-. apply good_refl.
  Qed.

  Lemma field_value_present : forall pk fl x, mnone x = false ->
    field_value pk fl (T x) = shape_value pk fl (T x).
  Proof. intros pk fl x H. apply field_value_nonnull. apply T_not_null. exact H. Qed.

  Lemma semv_single : forall fl x, f_shape fl = Single -> SEMK (f_kind fl) x -> SEMV fl x.
  Proof.
    intros fl x Hs Hk f y H. destruct (mnone x) eqn:Ex.
    - destruct x; try discriminate Ex. eapply semv_none. exact H.
    - rewrite field_value_present in H by exact Ex. unfold shape_value in H. rewrite Hs in H. eapply Hk. exact H.
  Qed.

  Lemma good_list : forall ys l, Forall2 good ys l -> good (MList ys) (MList l).
  Proof.
    intros ys l H. split.
    - constructor. induction H as [|y x ys l [Hm _] _ IH]; constructor; assumption.
    - cbn [tobj]. constructor. induction H as [|y x ys l [_ Hj] _ IH]; constructor; assumption.
  Qed.

  Lemma list_value_sem : forall f minl maxl k l y,
    (forall x, In x l -> SEMK k x) ->
    list_value (PK f) minl maxl k (T (MList l)) = Ok y -> good y (MList l).
  Proof.
    intros f minl maxl k l y Hl H. cbn [tobj] in H. unfold list_value in H.
    destruct (len_ok_n minl maxl (List.length (map T l))); [|discriminate H].
    destruct (mapM (PK f k) (map T l)) as [ys|e] eqn:Em; cbn [bind] in H; [|discriminate H]. injection H as <-.
    apply good_list. apply mapM_Forall2 in Em.
    revert ys Em. induction l as [|x r IH]; intros ys Em; inversion Em; subst; constructor.
    - eapply (Hl x); [left; reflexivity|eassumption].
    - apply IH; [intros x' Hx'; apply Hl; right; exact Hx'|assumption].
  Qed.

  Lemma semv_list : forall fl lo hi l, f_shape fl = ListOf lo hi ->
    (forall x, In x l -> SEMK (f_kind fl) x) -> SEMV fl (MList l).
  Proof.
    intros fl lo hi l Hs Hl f y H. rewrite field_value_present in H by reflexivity.
    unfold shape_value in H. rewrite Hs in H. eapply list_value_sem; eassumption.
  Qed.

  Lemma sema_list : forall lo hi k l, (forall x, In x l -> SEMK k x) -> SEMA (UList lo hi k) (MList l).
  Proof. intros lo hi k l Hl f v H. cbn [alt_value] in H. eapply list_value_sem; eassumption. Qed.

  (* a list-valued field (or alternative) rejects whatever does not export to an array *)
  Lemma semv_list_reject : forall fl lo hi x, f_shape fl = ListOf lo hi ->
    (forall l, T x <> JArr l) -> SEMV fl x.
  Proof.
    intros fl lo hi x Hs Hx f y H. destruct (mnone x) eqn:Ex.
    - destruct x; try discriminate Ex. eapply semv_none. exact H.
    - exfalso. rewrite field_value_present in H by exact Ex. unfold shape_value in H. rewrite Hs in H.
      unfold list_value in H. destruct (T x) as [| | | | |l|]; try discriminate H. apply (Hx l). reflexivity.
  Qed.

  Lemma T_dict : forall d, (forall kv, In kv d -> mnone (snd kv) = false) ->
    T (MDict d) = JObj (map (fun kv : str * mval => (fst kv, T (snd kv))) d).
  Proof.
    intros d Hd. cbn [tobj]. f_equal. induction d as [|[k x] r IH]; [reflexivity|].
    cbn [flat_map map fst snd]. rewrite IH by (intros kv Hkv; apply Hd; right; exact Hkv).
    specialize (Hd (k, x) (or_introl eq_refl)). cbn [snd] in Hd. destruct x; try discriminate Hd; reflexivity.
  Qed.

  Lemma good_dict : forall ys d,
    Forall2 (fun p q : str * mval => fst p = fst q /\ good (snd p) (snd q)) ys d ->
    (forall kv, In kv d -> mnone (snd kv) = false) ->
    good (MDict ys) (MDict d).
  Proof.
    intros ys d H Hd. split.
    - constructor. induction H as [|p q ys d [Hk [Hm _]] _ IH]; constructor; [split; assumption|].
      apply IH. intros kv Hkv. apply Hd. right. exact Hkv.
    - assert (Hy : forall kv, In kv ys -> mnone (snd kv) = false).
      { clear - H Hd. induction H as [|p q ys d [Hk Hg] _ IH]; intros kv Hkv; [destruct Hkv|].
        destruct Hkv as [<-|Hkv].
        - rewrite (good_mnone _ _ Hg). apply Hd. left. reflexivity.
        - apply IH; [intros kv' Hkv'; apply Hd; right; exact Hkv'|exact Hkv]. }
      rewrite (T_dict ys Hy), (T_dict d Hd). apply json_equiv_obj_pointwise.
      clear Hy Hd. induction H as [|p q ys d [Hk [_ Hj]] _ IH]; constructor; [split; assumption|exact IH].
  Qed.

  Lemma semv_dict : forall fl kk d, f_shape fl = DictOf kk ->
    (forall kv, In kv d -> mnone (snd kv) = false /\ SEMK (f_kind fl) (snd kv)) -> SEMV fl (MDict d).
  Proof.
    intros fl kk d Hs Hd f y H. rewrite field_value_present in H by reflexivity.
    unfold shape_value in H. rewrite Hs in H.
    assert (Hn : forall kv, In kv d -> mnone (snd kv) = false) by (intros kv Hkv; apply (Hd kv Hkv)).
    rewrite (T_dict d Hn) in H. unfold dict_value in H.
    destruct (mapM (dict_member (PK f) kk (f_kind fl)) (map (fun kv : str * mval => (fst kv, T (snd kv))) d)) as [ys|e] eqn:Em;
      cbn [bind] in H; [|discriminate H]. injection H as <-.
    apply good_dict; [|exact Hn]. apply mapM_Forall2 in Em.
    clear Hn. revert ys Em. induction d as [|[k x] r IH]; intros ys Em; inversion Em as [|a b l l' Hab Hr]; subst; constructor.
    - unfold dict_member in Hab. cbn [fst snd] in Hab.
      destruct (PK f kk (JStr k)) as [w|e]; cbn [bind] in Hab; [|discriminate Hab].
      destruct (PK f (f_kind fl) (T x)) as [z|e] eqn:Ez; cbn [bind] in Hab; [|discriminate Hab].
      injection Hab as <-. cbn [fst snd]. split; [reflexivity|].
      destruct (Hd (k, x) (or_introl eq_refl)) as [_ Hk]. eapply Hk. exact Ez.
    - apply IH; [intros kv Hkv; apply Hd; right; exact Hkv|exact Hr].
  Qed.

  (* -------------------------------------------------------------- a model node *)

  (* the node's field NAMES against the class it is parsed as: pairwise distinct, exactly the names of the
     class's fields (in any order), and the node's own class [c'] gives every field the alias the class gives it *)
  Definition fields_ok (c' : string) (k : cls) (names : list string) : bool :=
    nodup_sb names
    && forallb (fun n => mem_s n (map f_name (c_fields k))) names
    && forallb (fun fl => mem_s (f_name fl) names
                          && String.eqb (alias_of G c' (f_name fl)) (f_alias fl)) (c_fields k).

  Lemma NoDup_map_inj : forall (A B : Type) (g : A -> B) l a b,
    NoDup (map g l) -> In a l -> In b l -> g a = g b -> a = b.
  Proof.
    induction l as [|x r IH]; intros a b Hnd Ha Hb E; [destruct Ha|].
    cbn [map] in Hnd. inversion Hnd as [|? ? Hnotin Hnd']. subst.
    destruct Ha as [Ha|Ha], Hb as [Hb|Hb]; subst.
    - reflexivity.
    - exfalso. apply Hnotin. rewrite E. apply in_map. exact Hb.
    - exfalso. apply Hnotin. rewrite <- E. apply in_map. exact Ha.
    - apply IH; assumption.
  Qed.

  Lemma lookup_combine : forall (names : list string) (fields : list field) (vals : list mval) fl y,
    names = map f_name fields -> NoDup names -> In (fl, y) (combine fields vals) ->
    lookup_s (f_name fl) (combine names vals) = Some y.
  Proof.
    intros names fields vals fl y -> . revert vals. induction fields as [|g r IH]; intros vals Hnd Hin; [destruct Hin|].
    destruct vals as [|z vals]; [destruct Hin|]. cbn [map] in Hnd. inversion Hnd as [|? ? Hnotin Hnd']. subst.
    cbn [map combine lookup_s]. destruct Hin as [Hin|Hin].
    - injection Hin as -> ->. rewrite String.eqb_refl. reflexivity.
    - destruct (String.eqb (f_name g) (f_name fl)) eqn:E.
      + apply String.eqb_eq in E. exfalso. apply Hnotin. rewrite E. apply in_map. apply in_combine_l in Hin. exact Hin.
      + apply IH; assumption.
  Qed.

  Lemma in_combine_of_Forall2 : forall (A B : Type) (R : A -> B -> Prop) l l' a,
    Forall2 R l l' -> In a l -> exists b, In (a, b) (combine l l').
  Proof.
    intros A B R l l' a H. induction H as [|x y l l' _ _ IH]; intros Hin; [destruct Hin|].
    destruct Hin as [->|Hin]; [exists y; left; reflexivity|].
    destruct (IH Hin) as [b Hb]. exists b. right. exact Hb.
  Qed.

  Theorem sem_cls : forall c c' k fs,
    lookup_cls G c = Some k ->
    fields_ok c' k (map fst fs) = true ->
    (forall fl, In fl (c_fields k) -> SEMV fl (mfield (f_name fl) fs)) ->
    SEMC c (MModel c' fs).
  Proof.
    intros c c' k fs Hl Hok Hv f v H.
    destruct (generated_names_distinct c k Hl) as [Hn1 Hn2].
    unfold fields_ok in Hok. apply andb_true_iff in Hok. destruct Hok as [Hok H3].
    apply andb_true_iff in Hok. destruct Hok as [H1 H2]. apply nodup_sb_NoDup in H1.
    rewrite forallb_forall in H2, H3.
    assert (Hsub : forall n, In n (map fst fs) -> exists fl, In fl (c_fields k) /\ f_name fl = n).
    { intros n Hn. specialize (H2 n Hn). apply mem_s_In in H2. apply in_map_iff in H2.
      destruct H2 as [fl [E Hfl]]. exists fl. split; assumption. }
    assert (Hsup : forall fl, In fl (c_fields k) -> In (f_name fl) (map fst fs)).
    { intros fl Hfl. specialize (H3 fl Hfl). apply andb_true_iff in H3. destruct H3 as [H3 _]. apply mem_s_In in H3. exact H3. }
    assert (Hal' : forall fl, In fl (c_fields k) -> alias_of G c' (f_name fl) = f_alias fl).
    { intros fl Hfl. specialize (H3 fl Hfl). apply andb_true_iff in H3. destruct H3 as [_ H3]. apply String.eqb_eq in H3. exact H3. }
    assert (Hal : forall fl, In fl (c_fields k) -> alias_of G c (f_name fl) = f_alias fl).
    { intros fl Hfl. eapply alias_of_field; eassumption. }
    (* injectivity of the key of a field, on either side *)
    assert (Hinj' : forall fl n, In fl (c_fields k) -> In n (map fst fs) ->
                                 alias_of G c' n = alias_of G c' (f_name fl) -> n = f_name fl).
    { intros fl n Hfl Hn E. destruct (Hsub n Hn) as [fl2 [Hfl2 <-]].
      rewrite (Hal' fl Hfl), (Hal' fl2 Hfl2) in E.
      rewrite (NoDup_map_inj _ _ f_alias (c_fields k) fl2 fl Hn2 Hfl2 Hfl E). reflexivity. }
    (* the successful parse, field by field *)
    destruct (parse_cls_inv G classify pre post f c _ v H) as [f' [k0 [ms [vals [Ef [Hl0 [Ev [_ [Hf [Ex _]]]]]]]]]].
    rewrite Hl in Hl0. injection Hl0 as <-. rewrite T_model in Ev. injection Ev as <-.
    assert (Hlen : List.length vals = List.length (c_fields k)) by (symmetry; eapply Forall2_length'; exact Hf).
    assert (Hraw : forall fl, In fl (c_fields k) ->
                              raw_of fl (mems (alias_of G c') fs) = T (mfield (f_name fl) fs)).
    { intros fl Hfl. unfold raw_of. rewrite <- (Hal' fl Hfl).
      rewrite (assoc_mems (alias_of G c') fs (f_name fl) H1); [|intros n Hn E; apply (Hinj' fl n Hfl Hn E)].
      destruct (mnone (mfield (f_name fl) fs)) eqn:E; [|reflexivity].
      destruct (mfield (f_name fl) fs); try discriminate E. reflexivity. }
    assert (Hgood : forall fl y, In (fl, y) (combine (c_fields k) vals) -> good y (mfield (f_name fl) fs)).
    { intros fl y Hin. pose proof (Forall2_combine_in _ _ _ _ _ _ _ Hf Hin) as Hfv. cbn beta in Hfv.
      assert (Hfl : In fl (c_fields k)) by (apply in_combine_l in Hin; exact Hin).
      rewrite (Hraw fl Hfl) in Hfv. eapply (Hv fl Hfl). exact Hfv. }
    subst v. split.
    - (* equal as instances *)
      constructor. intros n.
      destruct (in_dec string_dec n (map f_name (c_fields k))) as [Hin|Hout].
      + apply in_map_iff in Hin. destruct Hin as [fl [<- Hfl]].
        destruct (in_combine_of_Forall2 _ _ _ _ _ fl Hf Hfl) as [y Hy].
        rewrite (lookup_combine _ (c_fields k) vals fl y eq_refl Hn1 Hy).
        pose proof (Hsup fl Hfl) as Hn. destruct (lookup_s (f_name fl) fs) as [x|] eqn:Ex.
        * constructor. pose proof (Hgood fl y Hy) as [Hm _]. unfold mfield in Hm. rewrite Ex in Hm. exact Hm.
        * exfalso. apply in_map_iff in Hn. destruct Hn as [[n' x'] [E Hin']]. cbn [fst] in E. subst n'.
          clear - Ex Hin'. induction fs as [|[m z] r IH]; [destruct Hin'|]. cbn [lookup_s] in Ex.
          destruct (String.eqb m (f_name fl)) eqn:E; [discriminate Ex|].
          destruct Hin' as [Hin'|Hin']; [injection Hin' as -> ->; rewrite String.eqb_refl in E; discriminate E|].
          apply IH; assumption.
      + rewrite lookup_s_notin by (rewrite map_fst_combine by (rewrite map_length; exact Hlen); exact Hout).
        rewrite lookup_s_notin; [constructor|]. intros Hc. destruct (Hsub n Hc) as [fl [Hfl <-]].
        apply Hout. apply in_map. exact Hfl.
    - (* same export up to member order *)
      rewrite !T_model. constructor. intros key.
      rewrite !jfind_nonnull by (apply mems_nonnull).
      destruct (existsb (fun fl => str_eqb key (str_of_string (f_alias fl))) (c_fields k)) eqn:Ek.
      + apply existsb_exists in Ek. destruct Ek as [fl [Hfl Ek]]. apply str_eqb_true2 in Ek. subst key.
        destruct (in_combine_of_Forall2 _ _ _ _ _ fl Hf Hfl) as [y Hy].
        pose proof (Hgood fl y Hy) as Hg.
        assert (Hl1 : assoc (str_of_string (f_alias fl)) (mems (alias_of G c) (combine (map f_name (c_fields k)) vals))
                      = if mnone y then None else Some (T y)).
        { rewrite <- (Hal fl Hfl).
          rewrite (assoc_mems (alias_of G c) _ (f_name fl)).
          - unfold mfield. rewrite (lookup_combine _ (c_fields k) vals fl y eq_refl Hn1 Hy). reflexivity.
          - rewrite map_fst_combine by (rewrite map_length; exact Hlen). exact Hn1.
          - rewrite map_fst_combine by (rewrite map_length; exact Hlen). intros n Hn E.
            apply in_map_iff in Hn. destruct Hn as [fl2 [<- Hfl2]].
            rewrite (Hal fl Hfl), (Hal fl2 Hfl2) in E.
            rewrite (NoDup_map_inj _ _ f_alias (c_fields k) fl2 fl Hn2 Hfl2 Hfl E). reflexivity. }
        assert (Hl2 : assoc (str_of_string (f_alias fl)) (mems (alias_of G c') fs)
                      = if mnone (mfield (f_name fl) fs) then None else Some (T (mfield (f_name fl) fs))).
        { rewrite <- (Hal' fl Hfl). apply assoc_mems; [exact H1|]. intros n Hn E. apply (Hinj' fl n Hfl Hn E). }
        rewrite Hl1, Hl2. rewrite (good_mnone _ _ Hg). destruct (mnone (mfield (f_name fl) fs)); constructor.
        exact (proj2 Hg).
      + assert (Hno : forall fl, In fl (c_fields k) -> str_of_string (f_alias fl) <> key).
        { intros fl Hfl E. assert (Hc : existsb (fun fl => str_eqb key (str_of_string (f_alias fl))) (c_fields k) = true).
          { apply existsb_exists. exists fl. split; [exact Hfl|]. rewrite <- E. apply str_eqb_refl2. }
          rewrite Hc in Ek. discriminate Ek. }
        rewrite (assoc_mems_absent (alias_of G c)); [rewrite (assoc_mems_absent (alias_of G c')); [constructor|]|].
        * intros n Hn. destruct (Hsub n Hn) as [fl [Hfl <-]]. rewrite (Hal' fl Hfl). apply Hno. exact Hfl.
        * rewrite map_fst_combine by (rewrite map_length; exact Hlen). intros n Hn.
          apply in_map_iff in Hn. destruct Hn as [fl [<- Hfl]]. rewrite (Hal fl Hfl). apply Hno. exact Hfl.
  Qed.
End Sem.
