(* Glue.v — small definitions for the glue properties C09 (typed values) and C18 (purity).
   Definitions only. *)
From Coq Require Import List NArith ZArith Bool String.
Import ListNotations.
Require Import OJD.Base OJD.Lexer OJD.Json OJD.Numerals OJD.NumPrint OJD.FormatStr.
Local Open Scope string_scope.

(* ---------------- C09: a value conforms to its declared type ---------------- *)
Definition is_int_numeral (v : str) : bool := match parse_int v with Some _ => true | None => false end.
Definition is_finite_decimal (v : str) : bool := match parse_dec v with Some (Fin _ _) => true | _ => false end.

(* job parameter values: INT integer numerals, FLOAT finite decimal numerals, STRING / PATH any text *)
Definition conforms_job (ty v : str) : bool :=
  if str_eqb ty $"INT" then is_int_numeral v
  else if str_eqb ty $"FLOAT" then is_finite_decimal v
  else true.

(* task parameter values: as above, and STRING / PATH at most 1024 characters *)
Definition conforms_task (ty v : str) : bool :=
  if str_eqb ty $"INT" then is_int_numeral v
  else if str_eqb ty $"FLOAT" then is_finite_decimal v
  else N.leb (N.of_nat (List.length v)) 1024.

(* ---------------- C18: FormatString.resolve with its scratch slots ----------------
   ExpressionInfo.resolved_value is a slot inside the (shared, nominally immutable) template:
   resolve() WRITES the evaluated value into the slot of each expression and then READS it back to
   build the result.  [slots] = the current contents of the slots of one format string, one per
   expression, in order (None = never written). *)
Fixpoint resolve_slots (sigma : symtab) (its : list item) (slots : list (option str))
  : list (option str) * outcome str :=
  match its with
  | [] => (slots, Ok [])
  | ILit l :: r =>
    let '(s', res) := resolve_slots sigma r slots in
    (s', match res with Ok t => Ok (l ++ t)%list | Raise e => Raise e end)
  | IExpr _ _ _ name :: r =>
    match slots with
    | [] => ([], Raise RuntimeError)                    (* one slot per expression: unreachable when lengths agree *)
    | old :: rest =>
      match expr_evaluate sigma name with
      | Raise e => (old :: rest, if is_expression_error e then Raise FormatStringError else Raise e)
      | Ok v =>
        (* element.resolved_value = v ; then str(element.resolved_value) is appended *)
        let written := Some v in
        let '(s', res) := resolve_slots sigma r rest in
        (written :: s',
         match res with
         | Ok t => Ok ((match written with Some w => w | None => [] end) ++ t)%list
         | Raise e => Raise e
         end)
      end
    end
  end.

Definition n_exprs (f : fstr) : nat := List.length (expressions f).

(* a history of resolve() calls with different symbol tables on ONE shared format string *)
Fixpoint resolve_history (f : fstr) (slots : list (option str)) (sigmas : list symtab) : list (outcome str) :=
  match sigmas with
  | [] => []
  | s :: r =>
    let '(slots', res) := resolve_slots s (items f) slots in
    res :: resolve_history f slots' r
  end.
