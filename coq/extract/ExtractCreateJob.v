(* Extraction of the job-creation model (C05) and its document-level spec oracle. ExtrOcamlBasic only. *)
From Coq Require Import Extraction ExtrOcamlBasic List NArith ZArith String.
Require Import OJD.Base OJD.Lexer OJD.Json OJD.Schema OJD.Generated OJD.FormatStr OJD.NumPrint OJD.CreateJob OJD.CreateJobSpec.
Extraction Language OCaml.
Definition fs_resolve (classify : N -> cclass) (sigma : symtab) (s : str) : outcome str :=
  match mk classify s with
  | Ok f => FormatStr.resolve sigma f
  | Raise e => Raise e
  end.
Definition model_create (classify : N -> cclass) (vals : list (str * str * str)) (t : mval) : outcome json :=
  create_job_object Generated.schema (fs_resolve classify) vals t.
Definition spec_create (classify : N -> cclass) (vals : list (str * str * str)) (j : json) : outcome json :=
  expected_job (fs_resolve classify) (symtab_of vals) j.
Extraction "Model.ml" exn_eqb ascii_ok ascii_class model_create spec_create print_dec print_Z.
