(* Schema.v — the vocabulary in which tools/regen.py describes the live pydantic model classes
   (Generated.schema).  Definitions only.  Everything the translator does not recognise makes it
   fail closed; the kinds below are exactly those the 2023-09 model uses. *)
From Coq Require Import List NArith ZArith Bool String.
Import ListNotations.
Require Import OJD.Base OJD.Json.

Inductive scope : Type := TEMPLATE | SESSION | TASK.
Definition scope_eqb (a b : scope) : bool :=
  match a, b with TEMPLATE, TEMPLATE | SESSION, SESSION | TASK, TASK => true | _, _ => false end.

(* character-set predicates of the fixed regexes; assigned by the translator from the live
   pattern's behavioural fingerprint, never from its text *)
Inductive charset : Type :=
| CS_any            (* no regex *)
| CS_identifier     (* [A-Za-z_][A-Za-z0-9_]*            *)
| CS_standard       (* no Cc characters, non-empty        *)
| CS_nocc_star      (* no Cc characters, may be empty     *)
| CS_description    (* no Cc characters except \r \n \t   *)
| CS_filefilter     (* "*", "*.*", "*.ext"                *)
| CS_combination.   (* [A-Za-z0-9_*(), ]+                 *)

Definition charset_eqb (a b : charset) : bool :=
  match a, b with
  | CS_any, CS_any | CS_identifier, CS_identifier | CS_standard, CS_standard
  | CS_nocc_star, CS_nocc_star | CS_description, CS_description | CS_filefilter, CS_filefilter
  | CS_combination, CS_combination => true
  | _, _ => false
  end.

(* scalar kinds.  Lengths and numeric limits are N / Z (never nat numerals). *)
Inductive kind : Type :=
| KLiteral (v : string)                                   (* Literal[Enum.member]: the member's value *)
| KEnum (members : list string)                           (* str-valued Enum field *)
| KStr (strict : bool) (minl maxl : option N) (cs : charset)    (* constr / plain str *)
| KFormat (cls : string) (minl maxl : option N) (cs : charset)  (* FormatString subclass *)
| KBool (strict : bool)
| KInt (strict : bool) (ge le gt : option Z)
| KFloat (gt : option Z)
| KDec
| KModel (cls : string)
| KDisc (key : string) (mapping : list (string * string)) (* discriminated union: key value -> class *)
| KUnion (alts : list ualt)                               (* ordered general union *)
with ualt : Type :=
| UScalar (k : kind)
| UList (minl maxl : option N) (k : kind).

Inductive shape : Type :=
| Single
| ListOf (minl maxl : option N)
| DictOf (key : kind).

Record field : Type := mkField {
  f_name : string;       (* attribute name; the walker and create-job look values up by THIS name *)
  f_alias : string;      (* key accepted on input *)
  f_required : bool;
  f_shape : shape;
  f_kind : kind }.

Record vardefs : Type := mkDefs {
  d_prefix : string;                       (* symbol_prefix; leading "|" resets nesting *)
  d_defines : list (string * scope);       (* (prefix, resolves), sorted *)
  d_field : string;                        (* "" = defines nothing from a field *)
  d_inject : list string }.                (* sorted *)

Inductive create_as : Type :=
| CreateSelf
| CreateModel (cls : string)
| CreateIntRange (expr_cls list_cls : string).   (* callable of IntTaskParameterDefinition: RangeString -> expr_cls, else list_cls *)

Record jcm : Type := mkJcm {
  j_resolve : list string;
  j_exclude : list string;
  j_rename : list (string * string);
  j_reshape : list (string * string);
  j_create_as : create_as;
  j_adds_value : bool }.   (* adds_fields present: {"value": symtab["RawParam.<name>"]} (checked behaviourally by the translator) *)

Definition jcm_trivial : jcm := mkJcm [] [] [] [] CreateSelf false.
Definition defs_none : vardefs := mkDefs "" [] "" [].

Record cls : Type := mkCls {
  c_extra_forbid : bool;
  c_frozen : bool;
  c_scope : option scope;
  c_defs : vardefs;
  c_sources : list (string * list string);   (* destination field or "__export__" -> sources, sorted *)
  c_jcm : jcm;
  c_validators : list string;                (* names only, for the evidence; no theorem mentions them *)
  c_fields : list field }.

Definition schema_t : Type := list (string * cls).

Fixpoint lookup_cls (s : schema_t) (name : string) : option cls :=
  match s with
  | [] => None
  | (n, c) :: r => if String.eqb n name then Some c else lookup_cls r name
  end.

Fixpoint lookup_s {A} (k : string) (l : list (string * A)) : option A :=
  match l with
  | [] => None
  | (n, v) :: r => if String.eqb n k then Some v else lookup_s k r
  end.

Definition mem_s (k : string) (l : list string) : bool := existsb (String.eqb k) l.
