(* props/C09.v — placeholder while the invariance lemmas are being closed. *)
From Coq Require Import List NArith ZArith String.
Import ListNotations.
Require Import OJD.Base OJD.Json OJD.Schema OJD.Generated.
Local Open Scope string_scope.
Example C09_schema_has_root : match lookup_cls Generated.schema "JobTemplate" with Some _ => True | None => False end.
Proof. vm_compute. exact I. Qed.
