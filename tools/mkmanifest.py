#!/usr/bin/env python3
"""mkmanifest.py — writes /verif/MANIFEST.json from the table below (one place to edit).
A property is *claimed* when harness/<id>.py exists and CLAIMS has an entry; every other
property of properties.jsonl goes under not_applicable with its reason."""
import json
from pathlib import Path

VERIF = Path(__file__).resolve().parent.parent

TRUST = ("trusted: Coq 8.16.1 kernel (no native_compute; vm_compute for table equalities and witnesses), "
         "ExtrOcamlBasic extraction + OCaml 4.13.1 driver, tools/regen.py translator, python harness "
         "(generators, canonicalisers, wire conversion), Python re for character classes (ascii_ok checked per run)")

# id -> (claim text, technique, design ref, extra note)
CLAIMS = {
    "C08": (
        "Coq theorems over all token strings: the range-expression model accepts exactly the written grammar with valid, "
        "span-disjoint elements and denotes exactly their union; every rejection is in the ExpressionError family. "
        "The model is tied to /repo on every run by an OCaml-extracted differential check (exhaustive small sweeps + seeded lists + mutations).",
        "Coq proof on hand-written Gallina model + extracted-model differential correspondence",
        "DESIGN.md §4 C08", ""),
}

NOT_YET = "check not built yet in this round (planned per DESIGN.md §8 build order); not claimed until its proof and correspondence run clean"


def main():
    props = [json.loads(l) for l in (VERIF / "properties.jsonl").read_text().splitlines() if l.strip()]
    extra = {}
    ef = VERIF / "tools" / "claims.json"
    if ef.exists():
        extra = json.loads(ef.read_text())
    claims = dict(CLAIMS)
    for k, v in extra.get("claims", {}).items():
        claims[k] = tuple(v)
    na_reasons = extra.get("not_applicable", {})
    checks, na = [], []
    for p in props:
        pid = p["id"]
        if pid in claims and (VERIF / "harness" / f"{pid.lower()}.py").exists():
            text, tech, ref, note = claims[pid]
            checks.append({
                "property_id": pid,
                "quick_cmd": f"./check {pid} quick",
                "thorough_cmd": f"./check {pid} thorough",
                "replay_cmd_template": f"./check {pid} --replay {{path}}",
                "evidence_file": f"/verif/evidence/{pid}.json",
                "engine": "coq-proof+extracted-differential",
                "technique": tech,
                "level_claimed": {"category": "proof", "text": text, "design_ref": ref},
                "level_note": TRUST + ((" ; " + note) if note else ""),
            })
        else:
            na.append({"property_id": pid, "reason": na_reasons.get(pid, NOT_YET)})
    man = {
        "version": 1,
        "setup_cmd": "./setup.sh",
        "hooks": {
            "guard": "OPENJD_MODEL_VERIF",
            "enable": "no hooks are needed: the harness drives the public API and imports of internal modules from /repo/src (PYTHONPATH forced to /repo/src)",
            "baseline_off_cmd": "cd /repo && /venv/bin/python -m pytest -ra -q -p no:cacheprovider --timeout=900 --continue-on-collection-errors",
            "source_commits": [],
            "add_only": True,
        },
        "engines": [{
            "name": "coq-proof+extracted-differential",
            "path": "/verif/check",
            "serves_properties": [c["property_id"] for c in checks],
            "kind_free_text": "Coq 8.16 theorems about Gallina models (coq/theories, coq/props); models regenerated (tools/regen.py -> Generated.v) or tied to /repo by differential correspondence against the OCaml-extracted model (harness/*.py, ocaml/*.ml)",
        }],
        "checks": checks,
        "not_applicable": na,
        "notes": "See DESIGN.md. KNOWN_FINDINGS.txt lists recorded findings (finding:) and repaired defects (fixed:).",
    }
    (VERIF / "MANIFEST.json").write_text(json.dumps(man, indent=1) + "\n")
    print(f"MANIFEST.json: {len(checks)} checks, {len(na)} not claimed")


if __name__ == "__main__":
    main()
