(* Extraction of the edit-distance / suggestion model and its spec oracles (C20).  ExtrOcamlBasic only. *)
From Coq Require Import Extraction ExtrOcamlBasic List NArith Arith.
Require Import OJD.Base OJD.Generated OJD.EditDist OJD.EditDistSpec.
Extraction Language OCaml.
Extraction "Model.ml"
  exn_eqb edit_distance closest suggest validate_symbol_refs max_match_distance
  lev nearest_oracle sumZ.
