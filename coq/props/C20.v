(* props/C20.v — 'Did you mean' suggestions are in-scope nearest names.
   Model: OJD.EditDist (two-row DP, closest, suggest, validate_symbol_refs).
   Spec:  OJD.EditDistSpec (lev = three-way Levenshtein recursion; script; dist m s = lev s m;
          argmin; is_min; min_cost).  The "in scope" half -- the set S handed to
          validate_symbol_refs at a location is the visible set -- is C03's; harness/c20.py checks it
          on real templates against an independent scope table. *)
From Coq Require Import String Ascii.
From Coq Require Import List NArith Arith Bool Lia Permutation.
Import ListNotations.
Require Import OJD.Base OJD.Generated OJD.EditDist OJD.EditDistSpec OJD.EditDistProofs.

(* ---- the distance used is the Levenshtein distance (and the DP never raises IndexError) ---- *)
Theorem C20_lev : forall a b : str, edit_distance a b = Ok (lev a b).
Proof. exact edit_distance_lev. Qed.
Print Assumptions C20_lev.

(* lev itself is "the least cost of an edit script" and is symmetric: the three-way recursion is
   not taken on trust *)
Theorem C20_lev_is_least_script : forall a b : str,
  script a b (lev a b) /\ (forall n, script a b n -> lev a b <= n) /\ lev a b = lev b a.
Proof. exact lev_is_least_script. Qed.
Print Assumptions C20_lev_is_least_script.

(* ---- closest(symbols, match) ----
   never raises; returns d = min(len(match)+1, min over S of lev) and T = the members of S at
   distance d, without duplicates.  Hence:
   (near)  if the true minimum d0 over S is <= len(match)+1 : d = d0, T = arg-min set, T <> {};
   (far)   if every member of S is farther than len(match)+1 -- in particular S = {} -- the
           initial values (len(match)+1, {}) come back;
   (order) any S' with the same members (permuted, duplicated) gives the same d and the same set. *)
Theorem C20_closest : forall (S : list str) (m : str), exists d T,
  closest S m = Ok (d, T) /\ NoDup T /\
  d = min_cost (length m + 1) S m /\
  (forall t, In t T <-> In t S /\ dist m t = d) /\
  (forall d0, is_min S m d0 -> d0 <= length m + 1 ->
              d = d0 /\ T <> [] /\ forall t, In t T <-> argmin S m t) /\
  ((forall s, In s S -> length m + 1 < dist m s) -> d = length m + 1 /\ T = []) /\
  (forall S', same_set S S' ->
              exists T', closest S' m = Ok (d, T') /\ same_set T T' /\ Permutation T T').
Proof. exact closest_full. Qed.
Print Assumptions C20_closest.

Theorem C20_closest_empty : forall m : str, closest [] m = Ok (length m + 1, []).
Proof. exact closest_empty. Qed.
Print Assumptions C20_closest_empty.

(* ---- suggestions ----
   The code's test is `distance < MAX_MATCH_DISTANCE_THRESHOLD` (strict), the constant is read from
   the live package into Generated.max_match_distance. *)
Theorem C20_threshold : max_match_distance = 5.
Proof. reflexivity. Qed.
Print Assumptions C20_threshold.

(* any names suggested are in S, they are ALL the names of S at minimum distance, and that minimum
   is below the threshold *)
Theorem C20_suggest : forall (S : list str) (m : str) (T : list str),
  suggest S m = Ok T -> T <> [] ->
  NoDup T /\
  (forall t, In t T -> In t S) /\
  (forall t, In t T <-> argmin S m t) /\
  exists d, is_min S m d /\ d < max_match_distance /\ forall t, In t T -> dist m t = d.
Proof. exact suggest_sound. Qed.
Print Assumptions C20_suggest.

(* suggest never raises, and a suggestion is made exactly when the minimum over S exists, is below
   the threshold and is within the initial bound len(name)+1 of `closest` *)
Theorem C20_suggest_iff : forall (S : list str) (m : str), exists T,
  suggest S m = Ok T /\
  (T <> [] <-> exists d, is_min S m d /\ d < max_match_distance /\ d <= length m + 1).
Proof. exact suggest_iff. Qed.
Print Assumptions C20_suggest_iff.

(* converse *)
Theorem C20_suggest_converse : forall (S : list str) (m : str) (d : nat),
  is_min S m d -> d < max_match_distance -> d <= length m + 1 ->
  exists T, suggest S m = Ok T /\ T <> [] /\ forall t, In t T <-> argmin S m t.
Proof. exact suggest_complete. Qed.
Print Assumptions C20_suggest_converse.

(* for symbol sets whose names all have >= 2*threshold-3 = 7 code points (every template variable
   name: the shortest is "Param." + one character) the side condition is automatic:
   minimum below the threshold  ==>  the suggestion is exactly the arg-min set *)
Theorem C20_suggest_converse_long_names : forall (S : list str) (m : str) (d : nat),
  is_min S m d -> d < max_match_distance ->
  (forall s, In s S -> 2 * max_match_distance <= length s + 3) ->
  exists T, suggest S m = Ok T /\ T <> [] /\ forall t, In t T <-> argmin S m t.
Proof. exact suggest_complete_long_names. Qed.
Print Assumptions C20_suggest_converse_long_names.

(* validate_symbol_refs: no error iff the name is in S; otherwise the error carries suggest S name *)
Theorem C20_validate : forall (S : list str) (name : str),
  (In name S -> validate_symbol_refs S name = Ok None) /\
  (~ In name S -> exists T, validate_symbol_refs S name = Ok (Some T) /\ suggest S name = Ok T).
Proof. exact validate_symbol_refs_spec. Qed.
Print Assumptions C20_validate.

(* ---- concrete instances ---- *)
Definition s (x : string) : str := map N_of_ascii (list_ascii_of_string x).
(* evaluate lev on closed strings through the (proved equal) polynomial DP, not the exponential recursion *)
Ltac lev_compute := unfold dist; rewrite ?lev_dp_eq; vm_compute.

(* Without the side condition d <= len(name)+1 the converse is FALSE of the code: a 1- or 2-character
   name never gets a suggestion at distance 3 or 4 because `closest` starts from
   best_cost = len(match)+1.  (Not a violation of the property text, which only says "only when";
   unreachable from templates, see C20_suggest_converse_long_names.) *)
Theorem C20_suggest_converse_unbounded_refuted :
  exists (S : list str) (m : str) (d : nat),
    is_min S m d /\ d < max_match_distance /\ suggest S m = Ok [].
Proof.
  exists [s "bbbb"], (s "a"), 4. split; [|split; [vm_compute; reflexivity | vm_compute; reflexivity]].
  split.
  - exists (s "bbbb"). split; [left; reflexivity | lev_compute; reflexivity].
  - intros x [<-|[]]. lev_compute. lia.
Qed.
Print Assumptions C20_suggest_converse_unbounded_refuted.

Example C20_lev_nonvacuous :
  edit_distance (s "Task.Param.Frame") (s "Param.Fraem") = Ok 7 /\
  edit_distance (s "kitten") (s "sitting") = Ok 3.
Proof. split; vm_compute; reflexivity. Qed.

(* ties: both nearest names are returned; a farther one is not *)
Example C20_closest_nonvacuous :
  closest [s "Param.Foo"; s "Param.Bar"; s "Param.Fob"; s "Param.Foo"] (s "Param.Fo")
  = Ok (1, [s "Param.Fob"; s "Param.Foo"]).
Proof. vm_compute. reflexivity. Qed.

Example C20_closest_far_nonvacuous :
  closest [s "Session.WorkingDirectory"] (s "x") = Ok (2, []).
Proof. vm_compute. reflexivity. Qed.

Example C20_suggest_nonvacuous :
  suggest [s "Param.Foo"; s "Param.Bar"; s "Param.Fob"] (s "Param.Fo") = Ok [s "Param.Fob"; s "Param.Foo"] /\
  [s "Param.Fob"; s "Param.Foo"] <> [] /\
  is_min [s "Param.Foo"; s "Param.Bar"; s "Param.Fob"] (s "Param.Fo") 1.
Proof.
  split; [vm_compute; reflexivity|]. split; [discriminate|]. split.
  - exists (s "Param.Foo"). split; [left; reflexivity | lev_compute; reflexivity].
  - intros x [<-|[<-|[<-|[]]]]; lev_compute; lia.
Qed.

(* distance exactly at the threshold: no suggestion (strict comparison); one below: suggestion *)
Example C20_threshold_boundary :
  suggest [s "Param.Frame"] (s "Param.Fxxxxx") = Ok [] /\
  edit_distance (s "Param.Frame") (s "Param.Fxxxxx") = Ok 5 /\
  suggest [s "Param.Frame"] (s "Param.Fxxxx") = Ok [s "Param.Frame"] /\
  edit_distance (s "Param.Frame") (s "Param.Fxxxx") = Ok 4.
Proof. repeat split; vm_compute; reflexivity. Qed.

Example C20_converse_nonvacuous :
  is_min [s "Param.Frame"; s "RawParam.Frame"] (s "Param.Fxxxx") 4 /\ 4 < max_match_distance /\
  (forall x, In x [s "Param.Frame"; s "RawParam.Frame"] -> 2 * max_match_distance <= length x + 3).
Proof.
  split; [split|split].
  - exists (s "Param.Frame"). split; [left; reflexivity | lev_compute; reflexivity].
  - intros x [<-|[<-|[]]]; lev_compute; lia.
  - vm_compute. lia.
  - intros x [<-|[<-|[]]]; vm_compute; lia.
Qed.

Example C20_validate_nonvacuous :
  validate_symbol_refs [s "Param.Foo"] (s "Param.Foo") = Ok None /\
  validate_symbol_refs [s "Param.Foo"] (s "Param.Fo") = Ok (Some [s "Param.Foo"]).
Proof. split; vm_compute; reflexivity. Qed.
