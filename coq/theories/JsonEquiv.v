(* JsonEquiv.v — a schema-independent equivalence of JSON documents, for C05_exact:

     * scalars are equal; arrays are equivalent pointwise (same length, same order);
     * objects are compared as FINITE MAPS: a member whose value is JNull is the same as no member,
       among the remaining members the first binding of a key is the one that counts, and the two
       objects must bind the same keys to equivalent values.  Member order is irrelevant.

   [json_equiv] is an equivalence relation; [strip_nulls] (the specification's "explicit nulls are
   absent members") maps every document to an equivalent one. *)
From Coq Require Import List NArith ZArith Bool String Lia.
Import ListNotations.
Require Import OJD.Base OJD.Json.
Local Open Scope list_scope.

(* ------------------------------------------------------------------ induction on documents *)
Section JsonInd.
  Variable P : json -> Prop.
  Hypothesis HNull : P JNull.
  Hypothesis HBool : forall b, P (JBool b).
  Hypothesis HInt : forall z, P (JInt z).
  Hypothesis HDec : forall m e, P (JDec m e).
  Hypothesis HStr : forall s, P (JStr s).
  Hypothesis HArr : forall l, Forall P l -> P (JArr l).
  Hypothesis HObj : forall ms, Forall (fun kv => P (snd kv)) ms -> P (JObj ms).

  Fixpoint json_ind2 (j : json) : P j :=
    match j with
    | JNull => HNull
    | JBool b => HBool b
    | JInt z => HInt z
    | JDec m e => HDec m e
    | JStr s => HStr s
    | JArr l =>
      HArr l ((fix go (l : list json) : Forall P l :=
                 match l with
                 | [] => Forall_nil _
                 | x :: r => Forall_cons x (json_ind2 x) (go r)
                 end) l)
    | JObj ms =>
      HObj ms ((fix go (l : list (str * json)) : Forall (fun kv => P (snd kv)) l :=
                  match l with
                  | [] => Forall_nil _
                  | x :: r => Forall_cons x (json_ind2 (snd x)) (go r)
                  end) ms)
    end.
End JsonInd.

(* ------------------------------------------------------------------ the finite map of an object *)

(* a value that is present *)
Definition onn (v : json) : option json := match v with JNull => None | _ => Some v end.

(* the binding of [k]: first member with that key whose value is not null *)
Fixpoint jfind (k : str) (ms : list (str * json)) : option json :=
  match ms with
  | [] => None
  | (k', v) :: r => if str_eqb k k' then (match onn v with Some x => Some x | None => jfind k r end) else jfind k r
  end.

Inductive opt_rel {A : Type} (R : A -> A -> Prop) : option A -> option A -> Prop :=
| OR_none : opt_rel R None None
| OR_some : forall a b, R a b -> opt_rel R (Some a) (Some b).

Inductive json_equiv : json -> json -> Prop :=
| JE_null : json_equiv JNull JNull
| JE_bool : forall b, json_equiv (JBool b) (JBool b)
| JE_int : forall z, json_equiv (JInt z) (JInt z)
| JE_dec : forall m e, json_equiv (JDec m e) (JDec m e)
| JE_str : forall s, json_equiv (JStr s) (JStr s)
| JE_arr : forall l l', Forall2 json_equiv l l' -> json_equiv (JArr l) (JArr l')
| JE_obj : forall ms ms', (forall k, opt_rel json_equiv (jfind k ms) (jfind k ms')) ->
                          json_equiv (JObj ms) (JObj ms').

(* ------------------------------------------------------------------ strings *)
Lemma je_str_eqb_refl : forall a, str_eqb a a = true.
Proof. induction a as [|x a IH]; simpl; [reflexivity|]. rewrite N.eqb_refl. exact IH. Qed.

Lemma je_str_eqb_eq : forall a b, str_eqb a b = true <-> a = b.
Proof.
  induction a as [|x a IH]; intros [|y b]; simpl; split; intros H; try reflexivity; try discriminate.
  - apply andb_true_iff in H. destruct H as [H1 H2]. apply N.eqb_eq in H1. apply IH in H2. subst. reflexivity.
  - inversion H. subst. rewrite N.eqb_refl. apply je_str_eqb_refl.
Qed.

Lemma je_str_eqb_neq : forall a b, a <> b -> str_eqb a b = false.
Proof. intros a b H. destruct (str_eqb a b) eqn:E; [|reflexivity]. apply je_str_eqb_eq in E. contradiction. Qed.

(* ------------------------------------------------------------------ jfind *)
Lemma jfind_in : forall k ms v, jfind k ms = Some v -> In (k, v) ms /\ v <> JNull.
Proof.
  induction ms as [|[k' x] r IH]; intros v H; [discriminate H|].
  cbn [jfind] in H. destruct (str_eqb k k') eqn:E.
  - apply je_str_eqb_eq in E. subst k'. destruct x; cbn [onn] in H;
      try (injection H as <-; split; [left; reflexivity|discriminate]).
    destruct (IH v H) as [H1 H2]. split; [right; exact H1|exact H2].
  - destruct (IH v H) as [H1 H2]. split; [right; exact H1|exact H2].
Qed.

Lemma jfind_notin : forall k ms, ~ In k (map fst ms) -> jfind k ms = None.
Proof.
  induction ms as [|[k' x] r IH]; intros H; [reflexivity|].
  cbn [jfind]. rewrite je_str_eqb_neq by (intros E; apply H; left; symmetry; exact E).
  apply IH. intros Hc. apply H. right. exact Hc.
Qed.

Lemma jfind_app : forall k a b,
  jfind k (a ++ b) = match jfind k a with Some v => Some v | None => jfind k b end.
Proof.
  induction a as [|[k' x] r IH]; intros b; [reflexivity|].
  cbn [app jfind]. destruct (str_eqb k k'); [|apply IH].
  destruct (onn x); [reflexivity|apply IH].
Qed.

Lemma jfind_nil : forall k, jfind k [] = None.
Proof. reflexivity. Qed.

Lemma jfind_miss : forall k k' v r, str_eqb k k' = false -> jfind k ((k', v) :: r) = jfind k r.
Proof. intros k k' v r H. cbn [jfind]. rewrite H. reflexivity. Qed.

Lemma jfind_hit : forall k k' v r, str_eqb k k' = true -> jfind k r = None -> jfind k ((k', v) :: r) = onn v.
Proof. intros k k' v r H Hr. cbn [jfind]. rewrite H, Hr. destruct (onn v); reflexivity. Qed.

(* with distinct keys the binding is the member [assoc] finds, unless it is null *)
Lemma jfind_assoc : forall k ms, NoDup (map fst ms) ->
  jfind k ms = match assoc k ms with Some v => onn v | None => None end.
Proof.
  induction ms as [|[k' x] r IH]; intros Hnd; [reflexivity|].
  cbn [map fst] in Hnd. inversion Hnd as [|y l Hnotin Hnd']. subst y l.
  cbn [jfind assoc]. destruct (str_eqb k k') eqn:E.
  - apply je_str_eqb_eq in E. subst k'. rewrite (jfind_notin k r Hnotin). destruct (onn x); reflexivity.
  - apply IH. exact Hnd'.
Qed.

Lemma assoc_some_in : forall (A : Type) k (ms : list (str * A)) v, assoc k ms = Some v -> In (k, v) ms.
Proof.
  induction ms as [|[k' x] r IH]; intros v H; [discriminate H|].
  cbn [assoc] in H. destruct (str_eqb k k') eqn:E.
  - apply je_str_eqb_eq in E. injection H as <-. subst k'. left. reflexivity.
  - right. apply IH. exact H.
Qed.

Lemma assoc_none_notin : forall (A : Type) k (ms : list (str * A)), assoc k ms = None -> ~ In k (map fst ms).
Proof.
  induction ms as [|[k' x] r IH]; intros H Hc; [destruct Hc|].
  cbn [assoc] in H. destruct (str_eqb k k') eqn:E; [discriminate H|].
  destruct Hc as [Hc|Hc].
  - cbn [fst] in Hc. subst k'. rewrite je_str_eqb_refl in E. discriminate E.
  - exact (IH H Hc).
Qed.

(* ------------------------------------------------------------------ equivalence relation *)
Lemma onn_equiv : forall a b, json_equiv a b -> opt_rel json_equiv (onn a) (onn b).
Proof. intros a b H. inversion H; subst; cbn [onn]; constructor; exact H. Qed.

Lemma Forall2_refl_in : forall (A : Type) (R : A -> A -> Prop) l, Forall (fun x => R x x) l -> Forall2 R l l.
Proof. induction l as [|a r IH]; intros H; constructor; inversion H; subst; auto. Qed.

Theorem json_equiv_refl : forall j, json_equiv j j.
Proof.
  induction j as [ | | | | |l IH|ms IH] using json_ind2; try constructor.
  - apply Forall2_refl_in. exact IH.
  - intros k. destruct (jfind k ms) as [v|] eqn:E; constructor.
    apply jfind_in in E. destruct E as [E _]. rewrite Forall_forall in IH. exact (IH (k, v) E).
Qed.

Theorem json_equiv_sym : forall a b, json_equiv a b -> json_equiv b a.
Proof.
  induction a as [ | | | | |l IH|ms IH] using json_ind2; intros j' H; inversion H; subst; try constructor.
  - match goal with HF : Forall2 json_equiv l ?l' |- _ => rename HF into H2 end.
    clear H. induction H2 as [|x y r r' Hxy _ IH2]; constructor.
    + inversion IH; subst. auto.
    + inversion IH; subst. auto.
  - intros k. match goal with HF : forall k, opt_rel json_equiv (jfind k ms) (jfind k ?ms') |- _ => specialize (HF k); rename HF into H2 end.
    destruct (jfind k ms) as [v|] eqn:E; inversion H2; subst; constructor.
    apply jfind_in in E. destruct E as [E _]. rewrite Forall_forall in IH. apply (IH (k, v) E). assumption.
Qed.

Theorem json_equiv_trans : forall a b c, json_equiv a b -> json_equiv b c -> json_equiv a c.
Proof.
  induction a as [ | | | | |l IH|ms IH] using json_ind2; intros j' j'' H1 H2; inversion H1; subst; inversion H2; subst;
    try constructor.
  - match goal with HF : Forall2 json_equiv l ?l' |- _ => rename HF into A1 end.
    match goal with HF : Forall2 json_equiv _ ?l'' |- Forall2 _ _ ?l'' => rename HF into A2 end.
    clear H1 H2. revert A2. generalize dependent l'0. induction A1 as [|x y r r' Hxy _ IH2]; intros l'' A2; inversion A2; subst; constructor.
    + inversion IH; subst. eauto.
    + inversion IH; subst. eauto.
  - intros k.
    match goal with HF : forall k, opt_rel json_equiv (jfind k ms) (jfind k ?ms') |- _ => specialize (HF k); rename HF into A1 end.
    match goal with HF : forall k, opt_rel json_equiv (jfind k _) (jfind k ?ms'') |- opt_rel _ _ (jfind k ?ms'') => specialize (HF k); rename HF into A2 end.
    destruct (jfind k ms) as [v|] eqn:E; inversion A1; subst.
    + match goal with HF : Some _ = jfind k _ |- _ => rewrite <- HF in A2 end.
      inversion A2; subst. constructor.
      apply jfind_in in E. destruct E as [E _]. rewrite Forall_forall in IH. eapply (IH (k, v) E); eassumption.
    + match goal with HF : None = jfind k _ |- _ => rewrite <- HF in A2 end.
      inversion A2; subst. constructor.
Qed.

(* ------------------------------------------------------------------ objects by their keys *)

(* two objects whose bindings agree on a list of keys that contains every key of both *)
Lemma json_equiv_obj_keys : forall keys ms ms',
  incl (map fst ms) keys -> incl (map fst ms') keys ->
  Forall (fun k => opt_rel json_equiv (jfind k ms) (jfind k ms')) keys ->
  json_equiv (JObj ms) (JObj ms').
Proof.
  intros keys ms ms' H1 H2 HF. constructor. intros k.
  destruct (mem_str k keys) eqn:E.
  - assert (Hin : In k keys).
    { clear - E. induction keys as [|y r IH]; [discriminate E|]. cbn [mem_str] in E.
      apply orb_true_iff in E. destruct E as [E|E]; [left; apply je_str_eqb_eq in E; symmetry; exact E|right; exact (IH E)]. }
    rewrite Forall_forall in HF. exact (HF k Hin).
  - assert (Hn : ~ In k keys).
    { clear - E. induction keys as [|y r IH]; intros Hc; [destruct Hc|]. cbn [mem_str] in E.
      apply orb_false_iff in E. destruct E as [E1 E2]. destruct Hc as [Hc|Hc]; [subst y; rewrite je_str_eqb_refl in E1; discriminate E1|exact (IH E2 Hc)]. }
    rewrite (jfind_notin k ms) by (intros Hc; apply Hn, H1, Hc).
    rewrite (jfind_notin k ms') by (intros Hc; apply Hn, H2, Hc).
    constructor.
Qed.

(* ------------------------------------------------------------------ dropping null members *)
Definition drop_null_members (g : json -> json) (ms : list (str * json)) : list (str * json) :=
  flat_map (fun kv => match snd kv with JNull => [] | x => [(fst kv, g x)] end) ms.

Lemma onn_nn : forall v, v <> JNull -> onn v = Some v.
Proof. intros v H. destruct v; try reflexivity. contradiction. Qed.

Lemma jfind_drop_nulls : forall g k ms, (forall x, x <> JNull -> g x <> JNull) ->
  jfind k (drop_null_members g ms) = option_map g (jfind k ms).
Proof.
  intros g k ms Hg. induction ms as [|[k' x] r IH]; [reflexivity|].
  unfold drop_null_members. cbn [flat_map snd fst]. fold (drop_null_members g r).
  destruct (onn x) as [y|] eqn:Ex.
  - assert (Hx : x <> JNull) by (intros ->; discriminate Ex).
    assert (Ey : y = x) by (destruct x; try contradiction; injection Ex as <-; reflexivity). subst y.
    assert (El : match x with JNull => [] | _ => [(k', g x)] end = [(k', g x)]) by (destruct x; try reflexivity; contradiction).
    replace (match x with JNull => [] | JBool b => [(k', g (JBool b))] | JInt z => [(k', g (JInt z))]
             | JDec m e => [(k', g (JDec m e))] | JStr s => [(k', g (JStr s))] | JArr l => [(k', g (JArr l))]
             | JObj members => [(k', g (JObj members))] end) with [(k', g x)] by (destruct x; try reflexivity; contradiction).
    cbn [app jfind]. rewrite Ex. rewrite (onn_nn (g x) (Hg x Hx)).
    destruct (str_eqb k k'); [reflexivity|exact IH].
  - assert (Hx : x = JNull) by (destruct x; try discriminate Ex; reflexivity). subst x.
    cbn [app jfind onn]. destruct (str_eqb k k'); exact IH.
Qed.

(* ------------------------------------------------------------------ equality up to member order *)
Require Import Coq.Sorting.Permutation.

(* the same document up to the order of object members: scalars equal, arrays pointwise, objects a
   permutation of members with the same keys and (recursively) the same values *)
Inductive json_perm : json -> json -> Prop :=
| JP_null : json_perm JNull JNull
| JP_bool : forall b, json_perm (JBool b) (JBool b)
| JP_int : forall z, json_perm (JInt z) (JInt z)
| JP_dec : forall m e, json_perm (JDec m e) (JDec m e)
| JP_str : forall s, json_perm (JStr s) (JStr s)
| JP_arr : forall l l', Forall2 json_perm l l' -> json_perm (JArr l) (JArr l')
| JP_obj : forall ms mid ms', Permutation ms mid ->
                              Forall2 (fun a b => fst a = fst b /\ json_perm (snd a) (snd b)) mid ms' ->
                              json_perm (JObj ms) (JObj ms').

(* no object member is null (null ARRAY items are allowed: arrays are compared pointwise) *)
Fixpoint no_null_members (j : json) : bool :=
  match j with
  | JArr l => forallb no_null_members l
  | JObj ms => forallb (fun kv => negb (is_null (snd kv)) && no_null_members (snd kv)) ms
  | _ => true
  end.

(* pairwise distinct keys in every object *)
Fixpoint str_nodupb (l : list str) : bool :=
  match l with
  | [] => true
  | x :: r => negb (mem_str x r) && str_nodupb r
  end.

Fixpoint distinct_keys (j : json) : bool :=
  match j with
  | JArr l => forallb distinct_keys l
  | JObj ms => str_nodupb (map fst ms) && forallb (fun kv => distinct_keys (snd kv)) ms
  | _ => true
  end.

Lemma str_nodupb_NoDup : forall l, str_nodupb l = true -> NoDup l.
Proof.
  induction l as [|x r IH]; intros H; [constructor|].
  cbn [str_nodupb] in H. apply andb_true_iff in H. destruct H as [H1 H2]. constructor; [|exact (IH H2)].
  intros Hin. clear - H1 Hin. induction r as [|y r IH]; [destruct Hin|].
  cbn [mem_str] in H1. apply negb_true_iff in H1. apply orb_false_iff in H1. destruct H1 as [E1 E2].
  destruct Hin as [->|Hin]; [rewrite je_str_eqb_refl in E1; discriminate E1|].
  apply IH; [apply negb_true_iff; exact E2|exact Hin].
Qed.

Lemma in_assoc_nodup : forall (A : Type) k (v : A) ms, NoDup (map fst ms) -> In (k, v) ms -> assoc k ms = Some v.
Proof.
  induction ms as [|[k' x] r IH]; intros Hnd Hin; [destruct Hin|].
  cbn [map fst] in Hnd. inversion Hnd as [|a l Hnotin Hnd']. subst a l. cbn [assoc].
  destruct Hin as [Hin|Hin].
  - injection Hin as -> ->. rewrite je_str_eqb_refl. reflexivity.
  - destruct (str_eqb k k') eqn:E; [|exact (IH Hnd' Hin)].
    apply je_str_eqb_eq in E. subst k'. exfalso. apply Hnotin. apply (in_map fst) in Hin. exact Hin.
Qed.

Lemma NoDup_pairs : forall (A : Type) (ms : list (str * A)), NoDup (map fst ms) -> NoDup ms.
Proof.
  induction ms as [|[k x] r IH]; intros H; [constructor|].
  cbn [map fst] in H. inversion H as [|a l Hnotin Hnd]. subst a l. constructor; [|exact (IH Hnd)].
  intros Hin. apply Hnotin. apply (in_map fst) in Hin. exact Hin.
Qed.

Theorem json_equiv_perm : forall a b,
  json_equiv a b ->
  no_null_members a = true -> no_null_members b = true -> distinct_keys a = true -> distinct_keys b = true ->
  json_perm a b.
Proof.
  induction a as [ | | | | |l IH|ms IH] using json_ind2; intros j' H Na Nb Da Db;
    try solve [inversion H; subst; constructor].
  - inversion H as [| | | | |la lb H2|]; subst. constructor.
    cbn [no_null_members distinct_keys] in Na, Nb, Da, Db. clear H.
    revert Na Nb Da Db. induction H2 as [|x y r r' Hxy _ IH2]; intros Na Nb Da Db; constructor.
    + cbn [forallb] in *. apply andb_true_iff in Na, Nb, Da, Db. inversion IH; subst. apply H1; tauto.
    + cbn [forallb] in *. apply andb_true_iff in Na, Nb, Da, Db. inversion IH; subst. apply IH2; tauto.
  - inversion H as [| | | | | |msa ms' HF]; subst.
    cbn [no_null_members distinct_keys] in Na, Nb, Da, Db.
    apply andb_true_iff in Da. destruct Da as [Da1 Da2]. apply andb_true_iff in Db. destruct Db as [Db1 Db2].
    apply str_nodupb_NoDup in Da1. apply str_nodupb_NoDup in Db1.
    rewrite forallb_forall in Na, Nb, Da2, Db2. rewrite Forall_forall in IH.
    (* bindings are the members *)
    assert (Fa : forall k v, In (k, v) ms -> jfind k ms = Some v).
    { intros k v Hin. rewrite (jfind_assoc k ms Da1). rewrite (in_assoc_nodup _ k v ms Da1 Hin).
      specialize (Na _ Hin). cbn [snd] in Na. apply andb_true_iff in Na. destruct Na as [Na _].
      destruct v; try reflexivity. discriminate Na. }
    assert (Fb : forall k v, In (k, v) ms' -> jfind k ms' = Some v).
    { intros k v Hin. rewrite (jfind_assoc k ms' Db1). rewrite (in_assoc_nodup _ k v ms' Db1 Hin).
      specialize (Nb _ Hin). cbn [snd] in Nb. apply andb_true_iff in Nb. destruct Nb as [Nb _].
      destruct v; try reflexivity. discriminate Nb. }
    set (pick := fun kv' : str * json => (fst kv', match assoc (fst kv') ms with Some v => v | None => JNull end)).
    apply (JP_obj ms (map pick ms') ms').
    + apply NoDup_Permutation.
      * apply NoDup_pairs. exact Da1.
      * apply NoDup_pairs. rewrite map_map. cbn [pick fst]. exact Db1.
      * intros [k v]. split.
        -- intros Hin. pose proof (Fa k v Hin) as E. specialize (HF k). rewrite E in HF. inversion HF as [|x y Hxy Ex Ey]; subst.
           symmetry in Ey. apply jfind_in in Ey. destruct Ey as [Ey _].
           apply in_map_iff. exists (k, y). split; [|exact Ey]. unfold pick. cbn [fst].
           rewrite (in_assoc_nodup _ k v ms Da1 Hin). reflexivity.
        -- intros Hin. apply in_map_iff in Hin. destruct Hin as [[k' v'] [E Hin']]. unfold pick in E. cbn [fst] in E.
           injection E as <- <-. pose proof (Fb k' v' Hin') as E. specialize (HF k'). rewrite E in HF.
           inversion HF as [|x y Hxy Ex Ey]; subst. symmetry in Ex. apply jfind_in in Ex. destruct Ex as [Ex _].
           rewrite (in_assoc_nodup _ k' x ms Da1 Ex). exact Ex.
    + assert (K : forall kv', In kv' ms' -> fst (pick kv') = fst kv' /\ json_perm (snd (pick kv')) (snd kv')).
      { intros [k' v'] Hin'. split; [reflexivity|]. unfold pick. cbn [fst snd].
        pose proof (Fb k' v' Hin') as E. specialize (HF k'). rewrite E in HF.
        inversion HF as [|x y Hxy Ex Ey]; subst. symmetry in Ex. apply jfind_in in Ex. destruct Ex as [Ex _].
        rewrite (in_assoc_nodup _ k' x ms Da1 Ex).
        apply (IH (k', x) Ex); cbn [snd]; try assumption.
        - specialize (Na _ Ex). cbn [snd] in Na. apply andb_true_iff in Na. tauto.
        - specialize (Nb _ Hin'). cbn [snd] in Nb. apply andb_true_iff in Nb. tauto.
        - exact (Da2 _ Ex).
        - exact (Db2 _ Hin'). }
      clear - K. induction ms' as [|kv r IHr]; cbn [map]; constructor.
      * apply K. left. reflexivity.
      * apply IHr. intros kv' Hin. apply K. right. exact Hin.
Qed.
