(* props/C07.v — Parameter-space iteration enumerates exactly the combination's denotation.

   Model: OJD.ParamSpace (ProductNode/AssociationNode/leaf nodes, their iterators, the
   StepParameterSpaceIterator front end).  Specification: OJD.ParamSpaceSpec ([denote], [valid]).
   All theorems are about the repaired code ([pinned_product_iter] = false) and hold for ALL
   trees (any nesting, any operand lengths); [C07_exhausted_refuted] documents the code before
   commit 8169558.  [a ≈ b] : the two dicts read the same under every name. *)
From Coq Require Import List NArith ZArith Bool Lia.
Import ListNotations.
Require Import OJD.Base OJD.ParamSpace OJD.ParamSpaceSpec OJD.ParamSpaceProofs.

(* len() is the number of task parameter sets *)
Theorem C07_len : forall t, valid t -> node_len t = Ok (Z.of_nat (length (denote t))).
Proof. exact len_correct. Qed.
Print Assumptions C07_len.

(* obj[i], negative i allowed, is the i-th set of the iteration; IndexError outside *)
Theorem C07_getitem : forall t i, valid t ->
  let len := Z.of_nat (length (denote t)) in
  ((- len <= i < len)%Z ->
     exists e, getitem t i = Ok e /\ e ≈ nth (Z.to_nat (i mod len)) (denote t) []) /\
  (~ (- len <= i < len)%Z -> getitem t i = Raise IndexError).
Proof. exact getitem_correct. Qed.
Print Assumptions C07_getitem.

(* from a fresh iterator the k-th call of __next__ (k = 0 .. len-1) returns the k-th element of the
   denotation, and call number len+1 raises StopIteration *)
Theorem C07_iterate : forall t, valid t ->
  (forall k, (k < length (denote t))%nat ->
     exists it' e, top_next false (iter_after false (top_iter (TopNode t)) k) = (it', e, None) /\
                   e ≈ nth k (denote t) []) /\
  (exists it', top_next false (iter_after false (top_iter (TopNode t)) (length (denote t)))
               = (it', [], Some StopIteration)).
Proof. exact iterate_correct. Qed.
Print Assumptions C07_iterate.

(* an exhausted iterator stays exhausted: every call after the first len raises StopIteration *)
Theorem C07_exhausted_stays : forall t, valid t -> forall m, (length (denote t) <= m)%nat ->
  exists it', top_next false (iter_after false (top_iter (TopNode t)) m) = (it', [], Some StopIteration).
Proof. exact exhausted_stays. Qed.
Print Assumptions C07_exhausted_stays.

(* the code before commit 8169558 (no _exhausted flag): A*B, two values each, hands out a task
   parameter set on the 6th call although the space has four *)
Theorem C07_exhausted_refuted :
  exists t m it' e, valid t /\ (length (denote t) <= m)%nat /\
    top_next true (iter_after true (top_iter (TopNode t)) m) = (it', e, None).
Proof. exact exhausted_refuted. Qed.
Print Assumptions C07_exhausted_refuted.

(* Histories.  In the pure model this is immediate by construction (an iterator's state lives
   in its own slot; nothing is shared but the _len memo): removing from any history all
   next()/reset_iter() calls addressed to OTHER iterators of the same object leaves every
   remaining observation (next on iterator i, obj[z], len(obj), iter(obj)) unchanged. *)
Theorem C07_histories : forall p tp i h,
  obs_kept p i (new_world tp) h
  = snd (run p (new_world tp) (filter (fun o => negb (addressed_other i o)) h)).
Proof. exact histories_independent. Qed.
Print Assumptions C07_histories.

(* ... and len(obj) / obj[z] answer after any history as on a fresh object; the non-trivial
   content is that the _len memo only ever holds the value node_len computes *)
Theorem C07_histories_len_get : forall p tp h w bs,
  run p (new_world tp) h = (w, bs) ->
  snd (exec p w OpLen) = match top_len tp with Ok v => ObLen v | Raise x => ObRaise x end /\
  forall z, snd (exec p w (OpGet z)) = match top_getitem tp z with Ok e => ObEnv e | Raise x => ObRaise x end.
Proof. exact len_get_history_free. Qed.
Print Assumptions C07_histories_len_get.

Theorem C07_cache_transparent : forall t c, cache_ok t c ->
  match cached_len c t with
  | Ok (v, c') => node_len t = Ok v /\ cache_ok t c'
  | Raise x => node_len t = Raise x
  end.
Proof. exact cache_transparent. Qed.
Print Assumptions C07_cache_transparent.

(* a missing combination is the product of all parameters in declaration order (hence, by the
   theorems above, iterated row-major with the last declared parameter fastest) *)
Theorem C07_default_comb : forall ps,
  ps <> [] -> NoDup (map pname ps) -> (forall p, In p ps -> snd p <> []) ->
  exists t, sps_init (Some (ps, None)) = Ok (TopNode t) /\ valid t /\ denote t = default_denote ps.
Proof. exact default_comb_correct. Qed.
Print Assumptions C07_default_comb.

(* a step without a parameter space has exactly one, empty, task parameter set *)
Theorem C07_none : forall p,
  let tp := TopList none_denote in
  sps_init None = Ok tp /\
  top_len tp = Ok 1%Z /\
  (forall i, top_getitem tp i = if ((i =? 0) || (i =? -1))%Z then Ok [] else Raise IndexError) /\
  top_next p (top_iter tp) = (ItList [], [], None) /\
  (forall m, (1 <= m)%nat -> top_next p (iter_after p (top_iter tp) m) = (ItList [], [], Some StopIteration)).
Proof. exact none_correct. Qed.
Print Assumptions C07_none.

(* every element of the denotation maps every declared parameter, and nothing else, to one value
   of its range with the declared type (so, by C07_iterate / C07_getitem, does every set produced) *)
Theorem C07_typed : forall t, valid t -> forall e, In e (denote t) -> well_typed t e.
Proof. exact denote_typed. Qed.
Print Assumptions C07_typed.

(* list(obj): driving a fresh iterator until the first exception yields the whole denotation, in
   order, and ends with StopIteration (corollary of C07_iterate; [drain] is what the driver runs) *)
Theorem C07_list : forall t bound, valid t -> (length (denote t) < bound)%nat ->
  exists l, drain false bound (top_iter (TopNode t)) = (l, Some StopIteration, true) /\
            Forall2 env_equiv l (denote t).
Proof. exact list_correct. Qed.
Print Assumptions C07_list.

(* the fuel of [next] (tree height) suffices for every tree and every state of that tree's shape,
   valid or not, pinned or repaired: RuntimeError (fuel exhausted) is never signalled *)
Theorem C07_fuel_enough : forall p f t st r, (height t <= f)%nat -> SShape t st ->
  no_fuel_err (snd (next p f st r)) /\ SShape t (fst (fst (next p f st r))).
Proof. exact fuel_enough. Qed.
Print Assumptions C07_fuel_enough.

(* ProductNode.__getitem__ never divides by zero, for any tree and index: the model's stand-in
   for ZeroDivisionError (Raise RuntimeError; Base.exn has no such family) is unreachable *)
Theorem C07_getitem_no_zero_division : forall t i, getitem t i <> Raise RuntimeError.
Proof. exact getitem_no_zero_division. Qed.
Print Assumptions C07_getitem_no_zero_division.

(* ------------------------------------------------------------------ non-vacuity *)
Local Open Scope N_scope.
(* A * (B, C) * D with |A| = 2, |B| = |C| = 3, |D| = 2 *)
Definition exA : node := Leaf [65] TInt [[49]; [50]].
Definition exB : node := Leaf [66] TInt [[49]; [51]; [53]].
Definition exC : node := Leaf [67] TFloat [[49; 46; 53]; [50]; [51]].
Definition exD : node := Leaf [68] TString [[120]; [121]].
Definition ex1 : node := Prod [exA; Assoc [exB; exC]; exD].

Ltac notin := let H := fresh in cbn [In]; intro H; repeat (destruct H as [H|H]; [discriminate H|]); exact H.
Ltac nd := repeat (constructor; [notin|]); constructor.

Example C07_nonvacuous : valid ex1 /\ length (denote ex1) = 12%nat.
Proof.
  split; [|reflexivity]. split.
  - cbn. nd.
  - apply WfProd; [discriminate|]. constructor; [apply WfLeaf; discriminate|].
    constructor; [|constructor; [apply WfLeaf; discriminate | constructor]].
    apply WfAssoc; [repeat constructor; discriminate | repeat constructor].
Qed.

(* the hypotheses of C07_getitem / C07_iterate are met by non-trivial indices and positions *)
Example C07_getitem_nonvacuous :
  (- Z.of_nat (length (denote ex1)) <= -5 < Z.of_nat (length (denote ex1)))%Z /\
  (exists e, getitem ex1 (-5)%Z = Ok e /\
             map (fun n => lookup n e) [[65]; [66]; [67]; [68]; [69]]
             = map (fun n => lookup n (nth 7 (denote ex1) [])) [[65]; [66]; [67]; [68]; [69]]) /\
  getitem ex1 12%Z = Raise IndexError.
Proof. split; [cbn; lia|]. split; [eexists; split; vm_compute; reflexivity | vm_compute; reflexivity]. Qed.

Example C07_iterate_nonvacuous :
  fst (top_next false (iter_after false (top_iter (TopNode ex1)) 7)) =
  (iter_after false (top_iter (TopNode ex1)) 8, nth 7 (denote ex1) []).
Proof. vm_compute. reflexivity. Qed.

Example C07_fuel_nonvacuous : (height ex1 <= 3)%nat /\ SShape ex1 (reset (init ex1)).
Proof. split; [cbn; lia | apply SShape_reset; apply SShape_init]. Qed.

Example C07_default_nonvacuous :
  let ps : list param := [([65], TInt, [[49]; [50]]); ([66], TString, [[120]; [121]; [122]])] in
  ps <> [] /\ NoDup (map pname ps) /\ (forall p, In p ps -> snd p <> []) /\ length (default_denote ps) = 6%nat.
Proof.
  cbn. split; [discriminate|]. split; [nd|]. split; [|reflexivity].
  intros p [<-|[<-|[]]]; discriminate.
Qed.

(* a history in which dropping the other iterator's calls matters for the bookkeeping *)
Example C07_histories_nonvacuous :
  let h := [OpIter; OpIter; OpNext 0; OpNext 1; OpNext 1; OpLen; OpNext 0; OpGet (-1)%Z; OpReset 1; OpNext 0] in
  obs_kept false 0 (new_world (TopNode ex1)) h
  = snd (run false (new_world (TopNode ex1)) [OpIter; OpIter; OpNext 0; OpLen; OpNext 0; OpGet (-1)%Z; OpNext 0]).
Proof. vm_compute. reflexivity. Qed.
