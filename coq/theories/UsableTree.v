(* UsableTree.v — from "the dimension check of the Job passed" to "the iterator's expression tree is
   well formed and can be iterated".  Pure: combination trees (Comb.v / CombSpec.v), the iterator
   (ParamSpace.v / ParamSpaceSpec.v); no schema, no templates.

     build_tree      a canonical combination tree whose dimension check [Comb.dims] returns, over lengths
                     that are the lengths of declared parameters with non-empty ranges, is copied by
                     _create_expr_tree into a well-formed node tree with the same leaves, and the
                     dimension the check computed is the number of task parameter sets;
     space_built     the constructor of StepParameterSpaceIterator returns, and the tree is C07-valid;
     ok_iterates     C07's theorems, packaged: a well-formed top iterates. *)
From Coq Require Import List NArith ZArith Bool Lia Permutation.
Import ListNotations.
Require Import OJD.Base OJD.Lexer OJD.Comb OJD.CombSpec OJD.CombProofs
               OJD.ParamSpace OJD.ParamSpaceSpec OJD.ParamSpaceProofs OJD.UsableGlue OJD.UsableSpec.

Lemma Forall2_length {A B} (R : A -> B -> Prop) l l' : Forall2 R l l' -> length l = length l'.
Proof. induction 1 as [|a b l l' _ _ IH]; [reflexivity|]. cbn [length]. rewrite IH. reflexivity. Qed.

(* ------------------------------------------------------------------ lengths of denotations *)
Lemma length_prodL : forall ds : list (list env),
  N.of_nat (length (prodL ds)) = fold_right N.mul 1%N (map (fun d => N.of_nat (length d)) ds).
Proof.
  induction ds as [|d ds IH]; [reflexivity|].
  rewrite prodL_cons, length_cross. cbn [map fold_right]. rewrite <- IH. lia.
Qed.

Lemma dlen_Prod : forall ts,
  N.of_nat (dlen (ParamSpace.Prod ts)) = fold_right N.mul 1%N (map (fun t => N.of_nat (dlen t)) ts).
Proof.
  intros ts. unfold dlen at 1. cbn [denote]. rewrite length_prodL, map_map. reflexivity.
Qed.

Lemma dlen_Assoc : forall t ts, dlen (ParamSpace.Assoc (t :: ts)) = dlen t.
Proof. intros t ts. unfold dlen. cbn [denote map]. apply length_zipL. Qed.

Lemma dlen_Leaf : forall n ty vs, dlen (Leaf n ty vs) = length vs.
Proof. intros. unfold dlen. cbn [denote]. apply map_length. Qed.

(* ------------------------------------------------------------------ copying the children *)
Lemma mk_children_conv : forall ps (cs : list Comb.ctree) ts,
  Forall2 (fun c t => create_expr_tree ps (conv c) = Ok t) cs ts ->
  mk_children (create_expr_tree ps) (map conv cs) = Ok ts.
Proof.
  intros ps cs ts H. induction H as [|c t cs ts Hc _ IH]; [reflexivity|].
  cbn [map mk_children]. rewrite Hc. cbn [bind]. rewrite IH. reflexivity.
Qed.

Section Build.
  Variable ps : list param.
  Variable lens : str -> option N.
  (* every length the dimension check can look up is the length of a declared, non-empty parameter *)
  Hypothesis Hlens : forall s k, lens s = Some k ->
    exists p, find_param ps s = Ok p /\ pname p = s /\ snd p <> [] /\ k = N.of_nat (length (snd p)).

  Definition built (c : Comb.ctree) (t : node) : Prop :=
    create_expr_tree ps (conv c) = Ok t /\ wfnode t /\ names t = collect_ids c /\
    dims lens c = Ok (N.of_nat (dlen t)).

  Lemma children_built : forall cs,
    Forall (fun c => Canonical c -> forall n, dims lens c = Ok n -> exists t, built c t) cs ->
    Forall Canonical cs ->
    forall ls, map_o (dims lens) cs = Ok ls ->
    exists ts, Forall2 built cs ts /\ ls = map (fun t => N.of_nat (dlen t)) ts.
  Proof.
    induction cs as [|c cs IH]; intros HF HC ls Hm.
    - cbn [map_o] in Hm. injection Hm as <-. exists []. split; [constructor|reflexivity].
    - inversion HF as [|? ? Hc HFr]; subst. inversion HC as [|? ? Cc HCr]; subst.
      cbn [map_o] in Hm. destruct (dims lens c) as [y|e] eqn:Ey; cbn [bind] in Hm; [|discriminate Hm].
      destruct (map_o (dims lens) cs) as [ys|e] eqn:Eys; cbn [bind] in Hm; [|discriminate Hm].
      injection Hm as <-.
      destruct (Hc Cc y eq_refl) as [t Ht]. destruct (IH HFr HCr ys eq_refl) as [ts [Hts Els]].
      exists (t :: ts). split; [constructor; assumption|].
      cbn [map]. f_equal; [|exact Els].
      destruct Ht as [_ [_ [_ Hd]]]. rewrite Ey in Hd. injection Hd as ->. reflexivity.
  Qed.

  Lemma built_create : forall cs ts, Forall2 built cs ts ->
    Forall2 (fun c t => create_expr_tree ps (conv c) = Ok t) cs ts.
  Proof. intros cs ts H. induction H as [|c t cs ts [Hc _] _ IH]; constructor; assumption. Qed.

  Lemma built_wf : forall cs ts, Forall2 built cs ts -> Forall wfnode ts.
  Proof. intros cs ts H. induction H as [|c t cs ts [_ [Hw _]] _ IH]; constructor; assumption. Qed.

  Lemma built_names : forall cs ts, Forall2 built cs ts -> flat_map names ts = flat_map collect_ids cs.
  Proof.
    intros cs ts H. induction H as [|c t cs ts [_ [_ [Hn _]]] _ IH]; [reflexivity|].
    cbn [flat_map]. rewrite Hn, IH. reflexivity.
  Qed.

  Theorem build_tree : forall c, Canonical c -> forall n, dims lens c = Ok n -> exists t, built c t.
  Proof.
    induction c as [s|cs IH|cs IH] using ctree_ind'; intros HC n Hd.
    - (* an identifier *)
      cbn [dims] in Hd. destruct (lens s) as [k|] eqn:El; [|discriminate Hd].
      destruct (Hlens s k El) as [p [Hf [Hp [Hne Hk]]]].
      exists (Leaf (fst (fst p)) (snd (fst p)) (snd p)). unfold built.
      cbn [conv create_expr_tree]. rewrite Hf. cbn [bind]. split; [reflexivity|].
      split; [apply WfLeaf; exact Hne|]. split; [cbn [names collect_ids]; f_equal; exact Hp|].
      cbn [dims]. rewrite El, dlen_Leaf, Hk. reflexivity.
    - (* a product *)
      inversion HC as [|cs0 Hlen HCs _|]; subst cs0.
      cbn [dims] in Hd. destruct (map_o (dims lens) cs) as [ls|e] eqn:Em; cbn [bind] in Hd; [|discriminate Hd].
      destruct (children_built cs IH HCs ls Em) as [ts [Hts Els]].
      exists (ParamSpace.Prod ts). unfold built. cbn [conv create_expr_tree].
      rewrite (mk_children_conv ps cs ts (built_create cs ts Hts)). cbn [bind]. split; [reflexivity|].
      split.
      { apply WfProd; [|exact (built_wf cs ts Hts)].
        apply Forall2_length in Hts. intros ->. cbn [length] in Hts. lia. }
      split; [cbn [names collect_ids]; exact (built_names cs ts Hts)|].
      cbn [dims]. rewrite Em. cbn [bind]. rewrite fold_mul_sym, Els, dlen_Prod. reflexivity.
    - (* an association *)
      inversion HC as [| |cs0 Hlen HCs]; subst cs0.
      cbn [dims] in Hd. destruct (map_o (dims lens) cs) as [ls|e] eqn:Em; cbn [bind] in Hd; [|discriminate Hd].
      destruct (children_built cs IH HCs ls Em) as [ts [Hts Els]].
      destruct (all_equal ls) eqn:Eq; [|discriminate Hd].
      destruct ts as [|t0 ts'].
      { apply Forall2_length in Hts. cbn [length] in Hts. lia. }
      exists (ParamSpace.Assoc (t0 :: ts')). unfold built. cbn [conv create_expr_tree].
      rewrite (mk_children_conv ps cs (t0 :: ts') (built_create cs _ Hts)). cbn [bind]. split; [reflexivity|].
      split.
      { apply WfAssoc; [exact (built_wf cs _ Hts)|].
        subst ls. cbn [map all_equal] in Eq. rewrite forallb_forall in Eq.
        apply Forall_forall. intros t' Ht'.
        assert (Hin : In (N.of_nat (dlen t')) (map (fun t => N.of_nat (dlen t)) ts')) by (apply (in_map (fun t => N.of_nat (dlen t))); exact Ht').
        specialize (Eq _ Hin). apply N.eqb_eq in Eq. apply Nat2N.inj in Eq. unfold dlen in Eq. symmetry. exact Eq. }
      split; [cbn [names collect_ids]; exact (built_names cs _ Hts)|].
      cbn [dims]. rewrite Em. cbn [bind]. rewrite Eq. subst ls. cbn [map]. rewrite dlen_Assoc. reflexivity.
  Qed.
End Build.

(* ------------------------------------------------------------------ the lengths the validator looks up *)
Lemma lookup_len_params : forall (al : list (str * N)) (ps : list param),
  Forall2 (fun a p => fst a = pname p /\ snd a = N.of_nat (length (snd p))) al ps ->
  forall s k, lookup_len al s = Some k ->
  exists p, In p ps /\ pname p = s /\ k = N.of_nat (length (snd p)).
Proof.
  intros al ps H. induction H as [|[k0 v0] p al ps [Hk Hv] _ IH]; intros s k Hl; [discriminate Hl|].
  cbn [lookup_len] in Hl. cbn [fst snd] in Hk, Hv. destruct (str_eqb s k0) eqn:E.
  - injection Hl as <-. apply CombProofs.str_eqb_eq in E. subst s.
    exists p. split; [left; reflexivity|]. split; [symmetry; exact Hk|exact Hv].
  - destruct (IH s k Hl) as [q [Hq [Hn Hkq]]]. exists q. split; [right; exact Hq|]. split; assumption.
Qed.

(* ------------------------------------------------------------------ the constructor returns *)
Theorem space_built : forall (ps : list param) (comb : option Comb.ctree) (al : list (str * N)),
  ps <> [] -> NoDup (map pname ps) -> (forall p, In p ps -> snd p <> []) ->
  Forall2 (fun a p => fst a = pname p /\ snd a = N.of_nat (length (snd p))) al ps ->
  (forall c, comb = Some c ->
     Canonical c /\ Permutation (collect_ids c) (map pname ps) /\ exists n, dims (lookup_len al) c = Ok n) ->
  exists t, sps_init (Some (ps, option_map conv comb)) = Ok (TopNode t) /\ valid t.
Proof.
  intros ps comb al Hne ND Hvs Hal Hc. destruct comb as [c|].
  - destruct (Hc c eq_refl) as [HC [HP [n Hd]]].
    assert (Hlens : forall s k, lookup_len al s = Some k ->
              exists p, find_param ps s = Ok p /\ pname p = s /\ snd p <> [] /\ k = N.of_nat (length (snd p))).
    { intros s k Hl. destruct (lookup_len_params al ps Hal s k Hl) as [p [Hp [Hn Hk]]].
      exists p. split; [rewrite <- Hn; apply find_param_in; assumption|]. split; [exact Hn|]. split; [apply Hvs; exact Hp|exact Hk]. }
    destruct (build_tree ps (lookup_len al) Hlens c HC n Hd) as [t [Hcr [Hw [Hn _]]]].
    exists t. cbn [sps_init option_map bind]. rewrite Hcr. cbn [bind]. split; [reflexivity|].
    split; [|exact Hw]. rewrite Hn. apply (Permutation_NoDup (Permutation_sym HP)). exact ND.
  - destruct (default_comb_correct ps Hne ND Hvs) as [t [Hi [Hv _]]]. exists t. split; [exact Hi|exact Hv].
Qed.

(* ------------------------------------------------------------------ a well-formed top iterates *)
Theorem ok_iterates : forall tp, space_ok tp -> iterates tp.
Proof.
  intros [l|t] H; cbn [space_ok] in H.
  - subst l. unfold iterates, none_denote. cbn [top_denote length]. split; [lia|]. split; [reflexivity|]. split.
    + intros i Hi. assert (E : i = 0%Z \/ i = (-1)%Z) by lia.
      destruct E as [-> | ->]; (exists []; split; [reflexivity|intros n; reflexivity]).
    + intros bound Hb. destruct bound as [|[|b]]; try lia.
      exists [[]]. split; [reflexivity|]. split; [reflexivity|]. constructor; [intros n; reflexivity|constructor].
  - unfold iterates. cbn [top_denote top_len top_getitem]. split; [exact (dlen_pos t (proj2 H))|].
    split; [exact (len_correct t H)|]. split.
    + intros i Hi. exact (proj1 (getitem_correct t i H) Hi).
    + intros bound Hb. destruct (list_correct t bound H Hb) as [l [Hd HF]].
      exists l. split; [exact Hd|]. split; [exact (Forall2_length _ _ _ HF)|exact HF].
Qed.
