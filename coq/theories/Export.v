(* Export.v — model_to_object and the decode/export round trip (C17), on top of Parse / CreateJob.
   Definitions only. *)
From Coq Require Import List NArith ZArith Bool String.
Import ListNotations.
Require Import OJD.Base OJD.Lexer OJD.Json OJD.Schema OJD.Generated OJD.FormatStr OJD.CreateJob OJD.Parse OJD.Validators OJD.Accept.
Local Open Scope string_scope.

(* value equality of model instances as pydantic defines it (self.dict() == other.dict()):
   class names are not compared; Decimals and floats compare by representation here (the round trip
   must reproduce them exactly) *)
Fixpoint mval_eqb (fuel : nat) (a b : mval) : bool :=
  match fuel with
  | O => false
  | S f =>
    match a, b with
    | MNone, MNone => true
    | MBool x, MBool y => Bool.eqb x y
    | MInt x, MInt y => Z.eqb x y
    | MDec m e, MDec m' e' | MFloat m e, MFloat m' e' => Z.eqb m m' && Z.eqb e e'
    | MStr x, MStr y | MFmt x, MFmt y | MStr x, MFmt y | MFmt x, MStr y => str_eqb x y
    | MList l, MList l' =>
      (fix go (p q : list mval) : bool :=
         match p, q with
         | [], [] => true
         | x :: p', y :: q' => mval_eqb f x y && go p' q'
         | _, _ => false
         end) l l'
    | MDict l, MDict l' =>
      (fix go (p q : list (str * mval)) : bool :=
         match p, q with
         | [], [] => true
         | (k, x) :: p', (k', y) :: q' => str_eqb k k' && mval_eqb f x y && go p' q'
         | _, _ => false
         end) l l'
    | MModel _ fs, MModel _ fs' =>
      (fix go (p q : list (string * mval)) : bool :=
         match p, q with
         | [], [] => true
         | (k, x) :: p', (k', y) :: q' => String.eqb k k' && mval_eqb f x y && go p' q'
         | _, _ => false
         end) fs fs'
    | _, _ => false
    end
  end.

Definition export (v : mval) : json := to_object Generated.schema (S (S (mval_depth v))) v.

Section Export.
  Variable classify : N -> cclass.

  (* job-side pre-root validators re-use the template classes (validate_concrete_model) *)
  Definition pre_full (fuel : nat) (cname : string) (raw : json) : bool :=
    pre_hook cname raw &&
    (if String.eqb cname "AmountRequirement"
     then is_ok (parse_cls Generated.schema classify pre_hook (post_hook classify) fuel "AmountRequirementTemplate" raw)
     else if String.eqb cname "AttributeRequirement"
     then is_ok (parse_cls Generated.schema classify pre_hook (post_hook classify) fuel "AttributeRequirementTemplate" raw)
     else true).

  (* parse_model(model=<cls>, obj=j) for any class of the module (Job, or a template root) *)
  Definition parse_any (root : string) (j : json) : outcome mval :=
    let fuel := parse_fuel j in
    parse_cls Generated.schema classify (pre_full fuel) (post_hook classify) fuel root j.

  (* (export of v, does the export decode back to an equal model?) *)
  Definition roundtrip (root : string) (v : mval) : json * bool :=
    let o := export v in
    (o, match parse_any root o with
        | Ok v' => mval_eqb (S (S (mval_depth v))) v v'
        | Raise _ => false
        end).

  Definition roundtrip_doc (root : string) (j : json) : outcome (json * bool) :=
    do v <- parse_any root j; Ok (roundtrip root v).

  (* FormatString(s).resolve(symtab) *)
  Definition fs_resolve (sigma : CreateJob.symtab) (s : str) : outcome str :=
    match mk classify s with
    | Ok f => FormatStr.resolve sigma f
    | Raise e => Raise e
    end.

  (* create_job after preprocessing: instantiate, then build the target models.
       Ok true   a Job is returned
       Ok false  DecodeValidationError (a target model rejects its values, or a reference cannot be
                 resolved: instantiate_model turns FormatStringError into a validation error)
       Raise e   anything else would escape from create_job (KeyError for an unbound RawParam, ...) *)
  (* every model instance of the tree is accepted by ITS OWN class (pydantic validates each target model
     when instantiate_model constructs it, e.g. IntRangeListTaskParameterDefinition, not when the parent
     is built): Ok true / Ok false, or Raise RuntimeError outside the structural model's domain *)
  Fixpoint nodes_ok (fuel : nat) (v : mval) : outcome bool :=
    match fuel with
    | O => Raise RuntimeError
    | S f =>
      let all (l : list mval) : outcome bool :=
        fold_left (fun (acc : outcome bool) x =>
                     do a <- acc; if a then nodes_ok f x else Ok false) l (Ok true) in
      match v with
      | MList l => all l
      | MDict l => all (map snd l)
      | MModel c fs =>
        do below <- all (map snd fs);
        if below then
          match parse_any c (export v) with
          | Ok _ => Ok true
          | Raise ValueError => Ok false
          | Raise e => Raise e
          end
        else Ok false
      | _ => Ok true
      end
    end.

  Definition create_job_verdict (vals : list (str * str * str)) (template : mval) : outcome bool :=
    let fuel := S (mval_depth template) in
    match inst Generated.schema fs_resolve (symtab_of vals) fuel template with
    | Ok job => nodes_ok (S (S fuel)) (coerce_job fuel job)
    | Raise FormatStringError => Ok false
    | Raise e => Raise e
    end.
End Export.
