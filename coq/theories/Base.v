(* Base.v — outcomes, exception families, small list utilities shared by every model.
   Definitions only (no proofs) so that extraction survives a broken proof file. *)
From Coq Require Import List NArith ZArith Bool.
Import ListNotations.

(* Exception *families* the properties talk about.  TokenError is a subclass of
   ExpressionError in the code; [is_expression_error] is the family test. *)
Inductive exn : Type :=
| ExpressionError | TokenError | ValueError | IndexError | KeyError | TypeError
| DecodeValidationError | FormatStringError | InvalidOperation | StopIteration
| CompatibilityError | UnboundLocalError | AttributeError | RuntimeError.

Definition exn_eqb (a b : exn) : bool :=
  match a, b with
  | ExpressionError, ExpressionError | TokenError, TokenError | ValueError, ValueError
  | IndexError, IndexError | KeyError, KeyError | TypeError, TypeError
  | DecodeValidationError, DecodeValidationError | FormatStringError, FormatStringError
  | InvalidOperation, InvalidOperation | StopIteration, StopIteration
  | CompatibilityError, CompatibilityError | UnboundLocalError, UnboundLocalError
  | AttributeError, AttributeError | RuntimeError, RuntimeError => true
  | _, _ => false
  end.

Definition is_expression_error (e : exn) : bool :=
  match e with ExpressionError | TokenError => true | _ => false end.

Inductive outcome (A : Type) : Type :=
| Ok : A -> outcome A
| Raise : exn -> outcome A.
Arguments Ok {A} _.
Arguments Raise {A} _.

Definition bind {A B : Type} (m : outcome A) (f : A -> outcome B) : outcome B :=
  match m with Ok a => f a | Raise e => Raise e end.

Notation "'do' x <- m ; k" := (bind m (fun x => k))
  (at level 200, x pattern, m at level 100, k at level 200, right associativity).

Definition is_ok {A} (m : outcome A) : bool := match m with Ok _ => true | Raise _ => false end.

(* map a function returning outcomes over a list, left to right, first error wins *)
Fixpoint mapM {A B : Type} (f : A -> outcome B) (l : list A) : outcome (list B) :=
  match l with
  | [] => Ok []
  | x :: xs => do y <- f x; do ys <- mapM f xs; Ok (y :: ys)
  end.

(* strings are lists of Unicode code points *)
Definition str := list N.

Fixpoint str_eqb (a b : str) : bool :=
  match a, b with
  | [], [] => true
  | x :: xs, y :: ys => N.eqb x y && str_eqb xs ys
  | _, _ => false
  end.

Fixpoint mem_str (x : str) (l : list str) : bool :=
  match l with [] => false | y :: ys => str_eqb x y || mem_str x ys end.

Definition sumZ (l : list Z) : Z := fold_right Z.add 0%Z l.
