(* Extraction of the "same document up to numeric formatting" decision function (C17 faithful):
   [jequivb] of ExportFaithful.v, proved to decide [jequiv] in ExportFaithfulDec.v.  ExtrOcamlBasic only. *)
From Coq Require Import Extraction ExtrOcamlBasic List NArith ZArith String.
Require Import OJD.Base OJD.Json OJD.Numerals OJD.ExportFaithful.
Extraction Language OCaml.
(* Ok b; Raise is never produced (the wire helpers of conv.ml need the outcome / exn / nat types in the module) *)
Definition jequiv_verdict (a b : json) : outcome bool := Ok (jequivb a b).
Definition jdepth (j : json) : nat := json_depth j.
Extraction "Model.ml" exn_eqb jequiv_verdict jequivb as_num jdepth.
