"""C17 — serialisation is faithful and round-trips."""
import json
import random
import sys
from decimal import Decimal, InvalidOperation
from pathlib import Path

import yaml

sys.path.insert(0, str(Path(__file__).resolve().parent))
import core  # noqa: E402
import gen_template as G  # noqa: E402
import c05  # noqa: E402
import mutate as M  # noqa: E402

from openjd.model import (  # noqa: E402
    DecodeValidationError, create_job, decode_environment_template, decode_job_template, model_to_object, parse_model,
    preprocess_job_parameters,
)
from openjd.model.v2023_09 import Job  # noqa: E402

_SRC_CHARS = "".join(sorted({c for c in Path(G.__file__).read_text() if ord(c) > 127}))

PLAIN = (dict, list, str, int, bool, float)


def is_plain(x):
    if type(x) not in PLAIN:
        return False
    if isinstance(x, float) and x != x:
        return False
    if isinstance(x, dict):
        return all(type(k) is str and is_plain(v) for k, v in x.items())
    if isinstance(x, list):
        return all(is_plain(v) for v in x)
    return True


def as_number(x):
    if isinstance(x, bool):
        return Decimal(int(x))      # Python's bool is the int subclass {0, 1}: a lax int / float field reads it so
    if isinstance(x, (int, float)):
        return Decimal(str(x))
    if isinstance(x, str):
        try:
            d = Decimal(x)
            return d if d.is_finite() else None
        except InvalidOperation:
            return None
    return None


def equiv(a, b):
    """the export reproduces the source document up to numeric formatting: null members are absent members,
    numerically equal scalars (5, 5.0, "5", "5.0") are identified"""
    if isinstance(a, dict) and isinstance(b, dict):
        ka = {k for k, v in a.items() if v is not None}
        kb = {k for k, v in b.items() if v is not None}
        return ka == kb and all(equiv(a[k], b[k]) for k in ka)
    if isinstance(a, list) and isinstance(b, list):
        return len(a) == len(b) and all(equiv(x, y) for x, y in zip(a, b))
    if type(a) is type(b) and a == b:
        return True
    # a non-strict string field stringifies any scalar it is given: bool is Python's 0/1 subclass of int and
    # comes out as str(True) / str(False) (DESIGN.md 0.3: read as part of "numeric formatting")
    for x, y in ((a, b), (b, a)):
        if isinstance(x, bool) and isinstance(y, str):
            return y == str(x)
    na, nb = as_number(a), as_number(b)
    return na is not None and nb is not None and na == nb


def norm_dec(m, e):
    """a float has no preferred exponent: 1.0 and 1 are the same value"""
    if m == 0:
        return ["DEC", 0, 0]
    while m % 10 == 0:
        m //= 10
        e += 1
    return ["DEC", m, e]


def renorm(x):
    if isinstance(x, list) and len(x) == 3 and x[0] == "DEC":
        return norm_dec(x[1], x[2])
    if isinstance(x, dict):
        return {k: renorm(v) for k, v in x.items()}
    if isinstance(x, list):
        return [renorm(v) for v in x]
    return x


def canon(x):
    """floats as exact decimals so that the model's JDec compares exactly"""
    if isinstance(x, float):
        sign, digits, exp = Decimal(str(x)).as_tuple()
        m = int("".join(map(str, digits)) or "0")
        return norm_dec(-m if sign else m, exp)
    if isinstance(x, dict):
        return {k: canon(v) for k, v in x.items()}
    if isinstance(x, list):
        return [canon(v) for v in x]
    return x


class C17(core.PropBase):
    id = "C17"
    component = "export"
    extract_file = "ExtractExport.v"
    chars = _SRC_CHARS
    uses_table = True
    chunk_size = 40
    theorem_for_mismatch = "C17_plain / C17_roundtrip; export model = model_to_object and decode(export) == model correspondence"
    assumptions = [
        "JSON / YAML dump-load fixpoints are library behaviour: checked on every case by the harness, not modelled",
        "numbers in generated documents are ints or decimals with <= 6 significant digits, numeric strings written canonically",
        "the structural layer is Parse.v (validated by the C01/C02 checks)",
    ]

    def cases(self, tier, seed):
        rng = random.Random(seed * 7919 + 17)
        n = 8000 if tier == "thorough" else 900
        for i in range(n):
            k = i % 4
            if k == 3:
                yield {"kind": "env", "doc": G.gen_env_template(rng, full=i % 8 == 7)}
            elif k == 2:
                doc = G.gen_job_template(rng, full=i % 3 == 0)
                yield {"kind": "jobobj", "doc": doc, "vals": c05.values_with_refs_text(rng, doc)}
            else:
                yield {"kind": "job", "doc": G.gen_job_template(rng, full=i % 3 == 0)}
        # documents off the generator's beaten track: whatever the implementation ACCEPTS must be reproduced.
        # Rule-typed mutants (most are rejected by both sides and then cost nothing; boundary mutants stay
        # valid), and every key spelled with its Python attribute name instead of the schema's name
        for i in range(n // 2):
            env = i % 4 == 3
            doc = G.gen_env_template(rng, full=i % 2 == 0) if env else G.gen_job_template(rng, full=i % 3 == 0)
            applied = M.mutate(rng, doc, n=1 if i % 5 else 2, not_json=True)
            yield {"kind": "env" if env else "job", "doc": doc, "mut": [a[0] for a in applied]}
        for i in range(n // 15):
            doc = G.gen_job_template(rng, full=True)
            applied = M.mutate(rng, doc, n=rng.choice([1, 2]), only=["high_precision"])
            yield {"kind": "job", "doc": doc, "mut": [a[0] for a in applied]}
        for i in range(n // 10):
            env = (i // 4) % 2 == 1
            doc = G.gen_env_template(rng, full=True) if env else G.gen_job_template(rng, full=True)
            k = i % 4
            if k == 3:
                # author-chosen KEYS (environment variable names) spelled like the model's own attribute and member names
                es = M.envs(doc)
                if es:
                    e = rng.choice(es)
                    names = ["schemaStr", "name", "specificationVersion", "parameterDefinitions", "variables", "script", "dependsOn", "type", "schema", "embeddedFiles"]
                    e["variables"] = {nm: rng.choice(["v", "a b", "x=y", ""]) for nm in rng.sample(names, rng.randint(1, 5))}
                    if "schemaStr" not in e["variables"] and rng.random() < 0.5:
                        e["variables"]["schemaStr"] = "s"
            elif k == 0:
                doc["schemaStr"] = doc.pop("$schema", "x")
            elif k == 1:
                doc["schemaStr"] = "y"
            else:
                doc["specification_version"] = doc.pop("specificationVersion")
            yield {"kind": "env" if env else "job", "doc": doc, "mut": ["python-attribute-name"]}

    def rule(self, tier):
        return ("generated job templates (one in three with every optional field incl. $schema), environment templates, and Jobs created from generated "
                "templates with accepted values; rule-typed mutants of generated templates and templates with a key under its Python attribute name (only those the implementation accepts count); each: export is plain data, JSON and YAML dump/load fixpoints, export equivalent to the source document up to "
                "numeric formatting, decode(export) == model (Jobs: parse_model(Job, export) == job), and export == the Coq export model. distinct = by document")

    def samples(self, tier, seed):
        rng = random.Random(seed)
        d = G.gen_job_template(rng)
        return [{"kind": "job", "keys": sorted(d.keys()), "steps": len(d["steps"])}]

    def _observe(self, obj, source, redecode_ok):
        out = {"obj": canon(obj), "plain": is_plain(obj)}
        try:
            out["json"] = json.loads(json.dumps(obj)) == obj
        except Exception as e:  # noqa: BLE001
            out["json"] = "raise:" + type(e).__name__
        try:
            out["yaml"] = yaml.safe_load(yaml.safe_dump(obj, allow_unicode=True)) == obj
        except Exception as e:  # noqa: BLE001
            out["yaml"] = "raise:" + type(e).__name__
        if source is not None:
            out["faithful"] = equiv(obj, source)
        out["redecode"] = redecode_ok
        return out

    def impl(self, case):
        try:
            if case["kind"] == "jobobj":
                prep = c05.PROP.prepare(dict(case, envs=[]))
                if prep["skip"]:
                    return ["skip", prep["skip"]]
                try:
                    job = create_job(job_template=prep["jt"], job_parameter_values=prep["pv"])
                except DecodeValidationError:
                    return ["skip", "create-failed"]
                obj = model_to_object(model=job)
                try:
                    back = parse_model(model=Job, obj=obj) == job
                except DecodeValidationError:
                    back = "redecode-rejected"
                case["_job"] = job
                return ["ok", self._observe(obj, None, back)]
            dec = decode_job_template if case["kind"] == "job" else decode_environment_template
            try:
                m = dec(template=G.deep(case["doc"]))
            except DecodeValidationError:
                if "mut" in case:
                    case["_rejected"] = True     # whether a mutant SHOULD be accepted is C01/C02's business
                return ["skip", "template-rejected"]
            obj = model_to_object(model=m)
            try:
                back = dec(template=obj) == m
            except DecodeValidationError:
                back = "redecode-rejected"
            res = ["ok", self._observe(obj, case["doc"], back)]
            # ... and the export is a function of the model alone: after the model has been USED (merged with other templates'
            # definitions of its parameters, instantiated into a Job) it exports as before
            self._use(case, m)
            try:
                res[1]["after_use"] = canon(model_to_object(model=m)) == res[1]["obj"]
            except BaseException as e:  # noqa: BLE001
                res[1]["after_use"] = "raise:" + type(e).__name__
            if "mut" in case:
                case["_res"] = res
            return res
        except BaseException as e:  # noqa: BLE001
            return ["raise", type(e).__name__, str(e)[:200]]

    @staticmethod
    def _use(case, m):
        """what a caller does with a decoded template; every failure is somebody else's business"""
        doc = case["doc"]
        try:
            pds = [d for d in (doc.get("parameterDefinitions") or []) if isinstance(d, dict)]
            other = []
            for d in pds:
                q = {k: v for k, v in d.items() if k in ("name", "type", "allowedValues", "minValue", "maxValue", "minLength", "maxLength")}
                if isinstance(q.get("allowedValues"), list) and len(q["allowedValues"]) >= 2:
                    q["allowedValues"] = q["allowedValues"][: (len(q["allowedValues"]) + 1) // 2]
                other.append(q)
            if case["kind"] == "env":
                jt = decode_job_template(template={"specificationVersion": "jobtemplate-2023-09", "name": "J", "parameterDefinitions": other or None,
                                                   "steps": [{"name": "S", "script": {"actions": {"onRun": {"command": "c"}}}}]} if other else
                                         {"specificationVersion": "jobtemplate-2023-09", "name": "J", "steps": [{"name": "S", "script": {"actions": {"onRun": {"command": "c"}}}}]})
                envs, vals = [m], {}
            else:
                jt = m
                envs = [decode_environment_template(template={"specificationVersion": "environment-2023-09", "parameterDefinitions": other,
                                                              "environment": {"name": "Used", "variables": {"A": "b"}}})] if other else []
                vals = {}
            for ee in ([envs, list(reversed(envs))] if envs else [[]]):
                try:
                    preprocess_job_parameters(job_template=jt, job_parameter_values=dict(vals), job_template_dir=Path("/t"), current_working_dir=Path("/c"),
                                              environment_templates=ee or None)
                except Exception:  # noqa: BLE001
                    pass
                try:
                    create_job(job_template=jt, job_parameter_values={}, environment_templates=ee or None)
                except Exception:  # noqa: BLE001
                    pass
        except Exception:  # noqa: BLE001
            pass

    def requests(self, case):
        if case["kind"] == "jobobj":
            io = self.impl(case)
            case["_io"] = io
            if io[0] != "ok":
                return []
            return [["rt_job", core.mval_sx(case.pop("_job"))]]
        try:
            return [["rtf_job_template" if case["kind"] == "job" else "rtf_env_template", core.json_sx(case["doc"])]]
        except ValueError:
            return []       # a non-finite number: no document of the model's json type, and nothing a template may hold

    def run_chunk(self, chunk):
        res = super().run_chunk(chunk)
        for c in chunk:
            c.pop("_job", None)
            c.pop("_io", None)
            c.pop("_rejected", None)
            c.pop("_res", None)
        for m in res.get("mismatches", []):
            m["case"].pop("_job", None)
            m["case"].pop("_io", None)
        return res

    def model_obs(self, case, replies):
        if case["kind"] == "jobobj":
            if not replies:
                return case.get("_io") or self.impl(case)
            o, ok = replies[0]
            return ["ok", {"obj": renorm(core.from_wire(o)), "plain": True, "json": True, "yaml": True, "redecode": ok == "true"}]
        if not replies:
            case.pop("_rejected", None)
            case.pop("_res", None)
            return ["skip", "template-rejected"]
        r = replies[0]
        if case.pop("_rejected", False):
            return ["skip", "template-rejected"]
        res = case.pop("_res", None)
        if r[0] != "ok":
            if r[1] == "ValueError":
                return ["skip", "template-rejected"]
            if r[1] == "RuntimeError" and res is not None and res[1].get("plain") is True and res[1].get("json") is True and res[1].get("yaml") is True \
                    and res[1].get("faithful") is True and res[1].get("redecode") is True:
                # a coercion outside Parse.v's stated domain (float("2"), str(1.5)): the model has no value to
                # compare, the implementation's own observations all hold
                return res
            return ["model", r]
        o, ok, faithful = r[1]
        # faithful: the extracted decision function jequivb (proved sound and complete for jequiv, and true of every
        # accepted document by C17_faithful_decided) on the source document and the model's export
        return ["ok", {"obj": renorm(core.from_wire(o)), "plain": True, "json": True, "yaml": True, "faithful": faithful == "true", "redecode": ok == "true", "after_use": True}]

    def classify_case(self, case, obs):
        return [case["kind"] + (":mutant" if "mut" in case else "") + ":" + (obs[0] if obs[0] != "skip" else "skip:" + obs[1])]

    def still_fails(self, case):
        case = {k: v for k, v in case.items() if not k.startswith("_")}
        drv = core.Driver(self.component)
        replies, _ = drv.ask(self.requests(case), self.prelude())
        i, m = self.impl(case), self.model_obs(case, replies)
        return i[0] == "ok" and i != m

    def shrink_candidates(self, case):
        if case.get("kind") == "env" or not isinstance(case.get("doc", {}).get("steps"), list):
            return
        for c in c05.PROP.shrink_candidates(dict(case, envs=[])):
            c.pop("envs", None)
            yield c


PROP = C17()

if __name__ == "__main__":
    sys.exit(core.main(PROP, sys.argv[1:]))
