(* props/C05.v — creation metadata obligations (see CreateJobProofs.v for the lemmas). *)
From Coq Require Import List NArith ZArith String.
Import ListNotations.
Require Import OJD.Base OJD.Json OJD.Schema OJD.Generated OJD.CreateJob OJD.CreateJobProofs.
Local Open Scope string_scope.

Theorem C05_meta_table : nontrivial_jcm Generated.schema = expected_jcm_table.
Proof. exact meta_table_ok. Qed.
Print Assumptions C05_meta_table.
