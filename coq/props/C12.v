(* props/C12.v — merged parameter definitions accept exactly what every source accepts.
   Model: theories/Merge.v ([merge pinned ds]; ds = the definitions of ONE parameter in merge
   order: environment templates first, job template last); "accepts" is [sat] of
   theories/JobParamsSpec.v; vocabulary in theories/MergeSpec.v.  The theorems are about the
   code of today ([pinned] = false).
   Premises on the SOURCE definitions are what the decoder guarantees:
     wf_def     allowedValues non-empty, maxLength <> 0
     wf_default the default of an INT/FLOAT definition is the text of an int / finite Decimal
     wf_int     the numbers of an INT definition are integers. *)
From Coq Require Import List NArith ZArith Bool Permutation.
Import ListNotations.
Require Import OJD.Base OJD.Numerals OJD.NumeralsSpec OJD.NumeralsProofs OJD.JobParams OJD.JobParamsSpec
        OJD.JobParamsProofs OJD.Merge OJD.MergeSpec OJD.MergeProofs OJD.MergeOrderProofs.
Local Open Scope Z_scope.

(* a value is never accepted unless every individual definition accepts it *)
Theorem C12_sound : forall ds m v,
  Forall wf_def ds -> merge false ds = Ok m -> sat m v -> Forall (fun d => sat d v) ds.
Proof. exact merge_sound. Qed.
Print Assumptions C12_sound.

(* whenever the merge succeeds every value that all definitions accept is accepted *)
Theorem C12_complete : forall ds m v,
  Forall wf_def ds -> merge false ds = Ok m -> Forall (fun d => sat d v) ds -> sat m v.
Proof. exact merge_complete. Qed.
Print Assumptions C12_complete.

(* the effective default is the last one given *)
Theorem C12_default : forall ds m, merge false ds = Ok m -> pdefault m = last_given_default ds.
Proof. exact merge_default. Qed.
Print Assumptions C12_default.

(* refusal when types differ (no premise; either setting of the historical flag) *)
Theorem C12_refuse_types : forall p ds d d',
  In d ds -> In d' ds -> ptyp d <> ptyp d' -> merge p ds = Raise CompatibilityError.
Proof. exact merge_refuse_types. Qed.
Print Assumptions C12_refuse_types.

(* refusal when objectTypes differ (an absent objectType counts as DIRECTORY, as the code says) *)
Theorem C12_refuse_objtype : forall p ds d d',
  (forall x, In x ds -> ptyp x = PATH) ->
  In d ds -> In d' ds -> eff_objtype d <> eff_objtype d' -> merge p ds = Raise CompatibilityError.
Proof. exact merge_refuse_objtype. Qed.
Print Assumptions C12_refuse_objtype.

(* refusal when two PROVIDED dataFlows differ (an absent dataFlow is compatible with any) *)
Theorem C12_refuse_dataflow : forall p ds d d' a b,
  (forall x, In x ds -> ptyp x = PATH) ->
  In d ds -> In d' ds -> pdataflow d = Some a -> pdataflow d' = Some b -> a <> b ->
  merge p ds = Raise CompatibilityError.
Proof. exact merge_refuse_dataflow. Qed.
Print Assumptions C12_refuse_dataflow.

(* refusal when no value can satisfy all constraints; for any number of definitions, in any order *)
Theorem C12_refuse_unsat : forall ds,
  Forall wf_merge ds -> (forall v, ~ Forall (fun d => sat d v) ds) ->
  merge false ds = Raise CompatibilityError.
Proof. exact merge_refuse_unsat. Qed.
Print Assumptions C12_refuse_unsat.

(* ... equivalently: a merge that succeeds has a value that every source accepts *)
Theorem C12_merged_satisfiable : forall ds m,
  Forall wf_merge ds -> merge false ds = Ok m -> exists v, Forall (fun d => sat d v) ds.
Proof. exact merge_ok_satisfiable. Qed.
Print Assumptions C12_merged_satisfiable.

(* every refusal is a CompatibilityError *)
Theorem C12_error : forall ds e,
  ds <> [] -> Forall wf_default ds -> merge false ds = Raise e -> e = CompatibilityError.
Proof. exact merge_raise. Qed.
Print Assumptions C12_error.

(* what the merged definition accepts does not depend on the order of the sources *)
Theorem C12_order : forall ds ds' m m' v,
  Forall wf_def ds -> Permutation ds ds' ->
  merge false ds = Ok m -> merge false ds' = Ok m' -> (sat m v <-> sat m' v).
Proof. exact merge_order. Qed.
Print Assumptions C12_order.

(* default aside, whether the merge is refused does not depend on the order either (no
   premise on the definitions): for definitions without defaults, success depends only on the
   SET of definitions taking part *)
Theorem C12_order_refusal : forall ds ds',
  Permutation ds ds' -> (forall d, In d ds -> pdefault d = None) ->
  is_ok (merge false ds) = is_ok (merge false ds').
Proof. exact merge_refusal_order. Qed.
Print Assumptions C12_order_refusal.

(* end to end, inside preprocess_job_parameters(environment_templates=...): with the merged
   definition m, a value map is accepted iff the C10 conditions hold for m and EVERY source
   accepts the final value; a refused merge is a ValueError *)
Theorem C12_preprocess_iff : forall (path_in : str -> str) (path_default : str -> outcome str) ds m vals,
  Forall wf_def ds -> merge false ds = Ok m ->
  ((exists r, preprocess_merged true path_in path_default ds vals = Ok r) <->
   no_extra [m] vals /\ no_missing [m] vals /\ path_defaults_ok path_default [m] vals /\
   (forall v, final path_in path_default vals m v -> Forall (fun d => sat d v) ds)).
Proof. exact preprocess_merged_iff. Qed.
Print Assumptions C12_preprocess_iff.

Theorem C12_preprocess_refused : forall (path_in : str -> str) (path_default : str -> outcome str) dir_ok ds vals,
  merge false ds = Raise CompatibilityError ->
  preprocess_merged dir_ok path_in path_default ds vals = Raise ValueError.
Proof. exact preprocess_merged_refused. Qed.
Print Assumptions C12_preprocess_refused.

(* ---------- the historical defect (fixed by 054f475), kept as regression documentation:
   allowedValues [1], [2], [3] merged to [3] ---------- *)
Definition nP : str := [80%N].
Definition d_al (z : Z) : pdef := mkDef nP INT None None (Some [mkNum z 0]) None None None None None None.
Definition s3 : str := [51%N].

Remark wf_d_al : forall z, wf_def (d_al z).
Proof. intro z. repeat split; discriminate. Qed.

Theorem C12_pinned_merge_allowed_refuted :
  exists ds m v, Forall wf_def ds /\ merge true ds = Ok m /\ sat m v /\ ~ Forall (fun d => sat d v) ds.
Proof.
  exists [d_al 1; d_al 2; d_al 3], (d_al 3), s3. split; [|split; [|split]].
  - repeat constructor; discriminate.
  - vm_compute. reflexivity.
  - apply check_constraints_iff; [apply wf_d_al|]. vm_compute. reflexivity.
  - intro H. inversion H as [|x l H1 _]; subst.
    apply check_constraints_iff in H1; [|apply wf_d_al]. vm_compute in H1. discriminate.
Qed.
Print Assumptions C12_pinned_merge_allowed_refuted.

Remark wfm_al : forall z, wf_merge (d_al z).
Proof.
  intro z. split; [apply wf_d_al|]. split.
  - intros _ t E. discriminate.
  - intros _. cbn. split; [exact I|]. split; [exact I|]. constructor; [reflexivity|constructor].
Qed.

(* today the same three definitions are refused *)
Example C12_allowed_123_refused : merge false [d_al 1; d_al 2; d_al 3] = Raise CompatibilityError.
Proof. vm_compute. reflexivity. Qed.

(* ---------- non-vacuity ---------- *)
Definition d_a : pdef := mkDef nP FLOAT (Some (mkNum 0 0)) None (Some [mkNum 10 (-1); mkNum 3 0]) None None None (Some [51%N]) None None.
Definition d_b : pdef := mkDef nP FLOAT None (Some (mkNum 25 (-1))) None None None None (Some [49%N]) None None.
Definition s_1_0 : str := [49%N; 46%N; 48%N].   (* "1.0" *)

Remark wfm_a : wf_merge d_a.
Proof.
  split; [repeat split; discriminate|]. split.
  - intros _ t E. injection E as <-. eexists. vm_compute. reflexivity.
  - intro E. discriminate.
Qed.
Remark wfm_b : wf_merge d_b.
Proof.
  split; [repeat split; discriminate|]. split.
  - intros _ t E. injection E as <-. eexists. vm_compute. reflexivity.
  - intro E. discriminate.
Qed.

(* two FLOAT definitions that merge: minValue 0 & allowedValues [1.0, 3] with maxValue 2.5 is
   refused by re-validation (3 > 2.5) although "1" satisfies both ... *)
Example C12_over_refusal : merge false [d_a; d_b] = Raise CompatibilityError /\
  Forall (fun d => sat d s_1_0) [d_a; d_b].
Proof.
  split; [vm_compute; reflexivity|].
  repeat constructor; (apply check_constraints_iff; [repeat split; discriminate|vm_compute; reflexivity]).
Qed.

(* ... so the hypotheses of sound/complete/default/order are exercised on a pair that merges *)
Definition d_c : pdef := mkDef nP FLOAT None (Some (mkNum 35 (-1))) None None None None (Some [49%N]) None None.
Remark wfm_c : wf_merge d_c.
Proof.
  split; [repeat split; discriminate|]. split.
  - intros _ t E. injection E as <-. eexists. vm_compute. reflexivity.
  - intro E. discriminate.
Qed.

Example C12_nonvacuous :
  Forall wf_merge [d_a; d_c] /\
  (exists m, merge false [d_a; d_c] = Ok m /\ pdefault m = Some [49%N] /\ sat m s_1_0) /\
  (exists m', merge false [d_c; d_a] = Ok m' /\ pdefault m' = Some [51%N]) /\
  Permutation [d_a; d_c] [d_c; d_a].
Proof.
  split; [constructor; [apply wfm_a|constructor; [apply wfm_c|constructor]]|]. split; [|split].
  - eexists. split; [vm_compute; reflexivity|]. split; [reflexivity|].
    apply check_constraints_iff; [repeat split; discriminate|vm_compute; reflexivity].
  - eexists. split; [vm_compute; reflexivity|reflexivity].
  - apply perm_swap.
Qed.

(* "default aside" is necessary: with defaults the refusal itself depends on the order, because
   the LAST default must satisfy the merged constraints.
   [INT default 5 ; INT maxValue 3 default 1] merges, the reverse order is refused. *)
Definition d_def5 : pdef := mkDef nP INT None None None None None None (Some [53%N]) None None.
Definition d_max3_def1 : pdef := mkDef nP INT None (Some (mkNum 3 0)) None None None None (Some [49%N]) None None.
Example C12_default_makes_order_matter :
  Permutation [d_def5; d_max3_def1] [d_max3_def1; d_def5] /\
  is_ok (merge false [d_def5; d_max3_def1]) = true /\
  merge false [d_max3_def1; d_def5] = Raise CompatibilityError.
Proof. split; [apply perm_swap|]. split; vm_compute; reflexivity. Qed.

(* hypotheses of the refusal theorems are met *)
Example C12_refuse_nonvacuous :
  (exists d d', In d [d_al 1; d_a] /\ In d' [d_al 1; d_a] /\ ptyp d <> ptyp d') /\
  Forall wf_merge [d_al 1; d_al 2] /\ (forall v, ~ Forall (fun d => sat d v) [d_al 1; d_al 2]).
Proof.
  split; [|split].
  - exists (d_al 1), d_a. cbn. intuition discriminate.
  - constructor; [apply wfm_al|constructor; [apply wfm_al|constructor]].
  - intros v H.
    assert (R : merge false [d_al 1; d_al 2] = Raise CompatibilityError) by (vm_compute; reflexivity).
    destruct (merge false [d_al 1; d_al 2]) eqn:E; [discriminate|].
    inversion H as [|x l H1 H2]; subst. inversion H2 as [|y l' H3 _]; subst.
    unfold sat in H1, H3. cbn [ptyp d_al] in H1, H3.
    destruct H1 as [z [P1 [_ [_ A1]]]]. destruct H3 as [z' [P3 [_ [_ A3]]]].
    rewrite P1 in P3. injection P3 as <-. cbn in A1, A3.
    destruct A1 as [y1 [[<-|[]] Q1]]. destruct A3 as [y3 [[<-|[]] Q3]].
    apply num_eq_sym in Q1. pose proof (num_eq_trans _ _ _ Q1 Q3) as Q.
    apply num_eqb_spec in Q. vm_compute in Q. discriminate.
Qed.
