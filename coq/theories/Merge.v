(* Merge.v — model of src/openjd/model/_merge_job_parameter.py (C12), AS CODED NOW:
     merge_job_parameter_definitions_for_one, _merge_allowed_values, _merge_path_param_types,
     _merge_string_kind_param_constraints, _merge_number_kind_param_constraints, and the
     re-validation of the merged properties through parse_model (the field validators of the
     four Job*ParameterDefinition classes of v2023_09/_model.py).
   Definitions only.

   Modelling decisions (tied to /repo by harness/c12.py):
   * The argument is the ordered list of definitions of ONE parameter (environment templates
     in order, job template last); the `source` strings only feed messages and are dropped.
     All definitions are of revision 2023-09 (the revision test cannot fail).
   * Python sets (of allowed values, objectTypes, dataFlows) are lists; intersection keeps the
     elements of the accumulated list, as set.intersection_update does; `sorted(...)` is not
     modelled (only membership is observed).  Equality of allowed values is numeric for
     INT/FLOAT (hash/eq of int and Decimal) and string equality otherwise.
   * max()/min() of bounds are Python's (first argument wins ties).
   * [revalidate] is what parse_model(model=<class>, obj=merged_properties) decides: pydantic
     collects the errors of all field validators and raises if there is any, so acceptance is
     the conjunction of the validators evaluated on the complete merged properties.  The
     merged properties carry only name, type, default, allowedValues, objectType, dataFlow and
     the bounds, all of them values that already passed the same field types once, so only the
     cross-field validators can fail.  DecodeValidationError is mapped to CompatibilityError
     (fix f775f4a).
   * The default is the text str(default) (see JobParams.v); the validators compare the
     NUMBER, obtained here by parsing the text.  A text that does not parse as the declared
     type cannot come from a decoded definition: that branch is an explicit
     [Raise RuntimeError] and the theorems assume [wf_default].
   * [pinned_merge_allowed] reproduces the historical `if not return_value:` test of
     _merge_allowed_values (finding fixed by 054f475): an empty intermediate intersection was
     taken for "no list seen yet".  The theorems are about the instance [false]. *)
From Coq Require Import List NArith ZArith Bool.
Import ListNotations.
Require Import OJD.Base OJD.Numerals OJD.JobParams.
Local Open Scope Z_scope.

Definition is_numeric (t : ptype) : bool := match t with INT | FLOAT => true | _ => false end.

Definition objtype_eqb (a b : objtype) : bool :=
  match a, b with OT_FILE, OT_FILE | OT_DIRECTORY, OT_DIRECTORY => true | _, _ => false end.
Definition dataflow_eqb (a b : dataflow) : bool :=
  match a, b with
  | DF_NONE, DF_NONE | DF_IN, DF_IN | DF_OUT, DF_OUT | DF_INOUT, DF_INOUT => true
  | _, _ => false
  end.

Fixpoint last_opt {A} (l : list A) : option A :=
  match l with
  | [] => None
  | [x] => Some x
  | _ :: r => last_opt r
  end.

(* len(set(l)) <= 1 *)
Definition all_equal {A} (eqb : A -> A -> bool) (l : list A) : bool :=
  match l with [] => true | x :: r => forallb (eqb x) r end.

(* the non-None values of a field, in order *)
Definition somes {A} (l : list (option A)) : list A :=
  flat_map (fun o => match o with Some x => [x] | None => [] end) l.

(* `acc = x if acc is None else f(acc, x)` over the non-None values *)
Fixpoint fold_opt {A} (f : A -> A -> A) (acc : option A) (l : list (option A)) : option A :=
  match l with
  | [] => acc
  | None :: r => fold_opt f acc r
  | Some x :: r => fold_opt f (Some (match acc with None => x | Some a => f a x end)) r
  end.

(* set.intersection_update *)
Definition inter {A} (mem : A -> list A -> bool) (a l : list A) : list A :=
  filter (fun x => mem x l) a.

(* objectType's default value is DIRECTORY if it is not provided *)
Definition eff_objtype (d : pdef) : objtype :=
  match pobjtype d with Some o => o | None => OT_DIRECTORY end.

Definition within_num (lo hi : option num) (x : num) : bool :=
  match lo with Some b => negb (num_ltb x b) | None => true end &&
  match hi with Some b => negb (num_ltb b x) | None => true end.

Definition within_len (lo hi : option Z) (v : str) : bool :=
  match lo with Some n => negb (slen v <? n) | None => true end &&
  match hi with Some n => negb (n <? slen v) | None => true end.

(* the number a default text stands for, at a numeric type *)
Definition default_num (t : ptype) (txt : str) : option num :=
  match t with
  | INT => option_map num_of_Z (parse_int txt)
  | FLOAT => match parse_dec txt with Some (Fin m e) => Some (mkNum m e) | _ => None end
  | _ => None
  end.

Definition cfail (b : bool) : outcome unit := if b then Raise CompatibilityError else Ok tt.

(* ---------- re-validation of a merged definition (parse_model) ---------- *)

(* JobIntParameterDefinition / JobFloatParameterDefinition:
   _validate_max_value, _validate_allowed_values_item (+ conlist min_items=1), _validate_default *)
Definition revalidate_number (m : pdef) : outcome unit :=
  cfail (match pminv m, pmaxv m with Some a, Some b => num_ltb b a | _, _ => false end) ;;;
  cfail (match pallowed_n m with
         | Some [] => true
         | Some l => negb (forallb (within_num (pminv m) (pmaxv m)) l)
         | None => false
         end) ;;;
  match pdefault m with
  | None => Ok tt
  | Some txt =>
    match default_num (ptyp m) txt with
    | None => Raise RuntimeError          (* not the text of an int / finite Decimal *)
    | Some x =>
      cfail (negb (within_num (pminv m) (pmaxv m) x)) ;;;
      cfail (match pallowed_n m with Some l => negb (mem_num x l) | None => false end)
    end
  end.

(* JobStringParameterDefinition / JobPathParameterDefinition:
   _validate_min_length, _validate_max_length, _validate_allowed_values_item, _validate_default *)
Definition revalidate_string (m : pdef) : outcome unit :=
  cfail (match pminlen m with Some n => n <=? 0 | None => false end) ;;;
  cfail (match pmaxlen m with
         | Some n => (n <=? 0) || match pminlen m with Some k => n <? k | None => false end
         | None => false
         end) ;;;
  cfail (match pallowed_s m with
         | Some [] => true
         | Some l => negb (forallb (within_len (pminlen m) (pmaxlen m)) l)
         | None => false
         end) ;;;
  match pdefault m with
  | None => Ok tt
  | Some v =>
    cfail (negb (within_len (pminlen m) (pmaxlen m) v)) ;;;
    cfail (match pallowed_s m with Some l => negb (mem_str v l) | None => false end)
  end.

Definition revalidate (m : pdef) : outcome unit :=
  if is_numeric (ptyp m) then revalidate_number m else revalidate_string m.

Section Merge.
  Variable pinned_merge_allowed : bool.

  (* the loop of _merge_allowed_values; [acc] = None is `return_value is None` *)
  Fixpoint merge_allowed_loop {A} (mem : A -> list A -> bool) (acc : option (list A))
           (ls : list (option (list A))) : option (list A) :=
    match ls with
    | [] => acc
    | o :: r =>
      match truthy_list o with
      | None => merge_allowed_loop mem acc r                 (* `continue` *)
      | Some l =>
        match acc with
        | None => merge_allowed_loop mem (Some l) r
        | Some a =>
          if pinned_merge_allowed && is_nil a
          then merge_allowed_loop mem (Some l) r             (* historical `if not return_value` *)
          else merge_allowed_loop mem (Some (inter mem a l)) r
        end
      end
    end.

  (* (merged allowedValues or None, "the intersection is empty" error) *)
  Definition merge_allowed {A} (mem : A -> list A -> bool) (ls : list (option (list A)))
    : option (list A) * bool :=
    match merge_allowed_loop mem None ls with
    | None => (None, false)
    | Some [] => (None, true)
    | Some (x :: l) => (Some (x :: l), false)
    end.

  (* the pieces of merge_job_parameter_definitions_for_one after the name and type tests;
     [dl] is params[-1], [t] its type *)
  Definition merged_allowed_n (ds : list pdef) (t : ptype) : option (list num) * bool :=
    if is_numeric t then merge_allowed mem_num (map pallowed_n ds) else (None, false).
  Definition merged_allowed_s (ds : list pdef) (t : ptype) : option (list str) * bool :=
    if is_numeric t then (None, false) else merge_allowed mem_str (map pallowed_s ds).

  (* _merge_string_kind_param_constraints *)
  Definition merged_minlen (ds : list pdef) (t : ptype) : option Z :=
    if is_numeric t then None else fold_opt Z.max None (map pminlen ds).
  Definition merged_maxlen (ds : list pdef) (t : ptype) : option Z :=
    if is_numeric t then None else fold_opt Z.min None (map pmaxlen ds).
  (* _merge_number_kind_param_constraints *)
  Definition merged_minv (ds : list pdef) (t : ptype) : option num :=
    if is_numeric t then fold_opt num_max None (map pminv ds) else None.
  Definition merged_maxv (ds : list pdef) (t : ptype) : option num :=
    if is_numeric t then fold_opt num_min None (map pmaxv ds) else None.

  (* merged_properties *)
  Definition candidate (ds : list pdef) (dl : pdef) : pdef :=
    let t := ptyp dl in
    let path := ptype_eqb t PATH in
    mkDef (pname dl) t
          (merged_minv ds t) (merged_maxv ds t)
          (fst (merged_allowed_n ds t)) (fst (merged_allowed_s ds t))
          (merged_minlen ds t) (merged_maxlen ds t)
          (last_opt (somes (map pdefault ds)))                     (* default_values[-1] *)
          (if path then hd_error (somes (map pobjtype ds)) else None)
          (if path then hd_error (somes (map pdataflow ds)) else None).

  (* `errors` is non-empty *)
  Definition merge_errors (ds : list pdef) (dl : pdef) : bool :=
    let t := ptyp dl in
    let path := ptype_eqb t PATH in
    snd (merged_allowed_n ds t) || snd (merged_allowed_s ds t)
    (* _merge_path_param_types *)
    || (path && negb (all_equal objtype_eqb (map eff_objtype ds)))
    || (path && negb (all_equal dataflow_eqb (somes (map pdataflow ds))))
    || match merged_minlen ds t, merged_maxlen ds t with Some a, Some b => b <? a | _, _ => false end
    || match merged_minv ds t, merged_maxv ds t with Some a, Some b => num_ltb b a | _, _ => false end.

  Definition merge (ds : list pdef) : outcome pdef :=
    match last_opt ds with
    | None => Raise IndexError                                     (* params[-1] *)
    | Some dl =>
      if negb (forallb (fun d => str_eqb (pname d) (pname dl)) ds) then Raise CompatibilityError
      else if negb (forallb (fun d => ptype_eqb (ptyp d) (ptyp dl)) ds) then Raise CompatibilityError
      else if merge_errors ds dl then Raise CompatibilityError
      else
        let m := candidate ds dl in
        match revalidate m with
        | Ok _ => Ok m
        | Raise e => Raise e
        end
    end.

End Merge.

(* merge_job_parameter_definitions restricted to one parameter name, then preprocessing:
   a CompatibilityError of the merge becomes the ValueError of preprocess_job_parameters *)
Definition preprocess_merged (dir_ok : bool) (path_in : str -> str) (path_default : str -> outcome str)
           (ds : list pdef) (vals : list (str * str)) : outcome (list (str * (ptype * str))) :=
  match merge false ds with
  | Ok m => preprocess false dir_ok path_in path_default [m] vals
  | Raise CompatibilityError => Raise ValueError
  | Raise e => Raise e
  end.
