(* EditDist.v — executable model of
     /repo/src/openjd/model/_format_strings/_edit_distance.py   (_edit_distance, closest)
     /repo/src/openjd/model/_format_strings/_nodes.py           (FullNameNode.validate_symbol_refs)
   Definitions only.  The model follows the code statement by statement:

   * the two rows a0 / a1 of the dynamic programme are [list nat] values that are READ with
     [get] and WRITTEN with [set_at]; an index outside the row is [Raise IndexError] exactly
     where `array[...]` would raise (there is no totalising default), and the theorem
     [EditDistProofs.edit_distance_lev] shows that branch is never taken;
   * `for x in range(1, n + 1)` is a monadic left fold over [seq 1 n];
   * the swap `a0, a1 = a1, a0` is the returned pair [(a1, a0)];
   * the Python subtractions `s1_idx - 1`, `s2_idx - 1` are on indices >= 1 (ranges start
     at 1), so truncated subtraction on [nat] coincides with Python's;
   * array("L") holds unsigned longs: distances are bounded by the string lengths, far below
     2^64, so [nat] loses nothing (assumption recorded in the harness evidence);
   * Python `str` equality of single characters is equality of code points ([N.eqb]);
   * a Python `set[str]` is a duplicate-free [list str]; `set.add` is [set_add]; iteration
     order of the input set is the order of the list [symbols] given to [closest]
     (theorem [closest_set_invariant]: the result does not depend on it).                    *)
From Coq Require Import List NArith Arith Bool.
Import ListNotations.
Require Import OJD.Base OJD.Generated.

(* left fold whose step may raise; first error wins (a Python `for` loop) *)
Fixpoint foldM {A S : Type} (f : S -> A -> outcome S) (l : list A) (s : S) : outcome S :=
  match l with
  | [] => Ok s
  | x :: xs => do s' <- f s x; foldM f xs s'
  end.

(* r[i]  (i >= 0) *)
Definition get {A : Type} (r : list A) (i : nat) : outcome A :=
  match nth_error r i with
  | Some v => Ok v
  | None => Raise IndexError
  end.

(* r[i] = v  (i >= 0); the row is a value, so the updated row is returned *)
Fixpoint set_at (r : list nat) (i v : nat) : outcome (list nat) :=
  match r, i with
  | [], _ => Raise IndexError
  | _ :: t, O => Ok (v :: t)
  | x :: t, S i' => do t' <- set_at t i' v; Ok (x :: t')
  end.

(* Python min(a, b, c) on ints *)
Definition min3 (a b c : nat) : nat := Nat.min a (Nat.min b c).

(* body of `for s2_idx in range(1, len(s2) + 1)`; state = the row a1 being filled *)
Definition inner_step (s1 s2 : str) (s1_idx : nat) (a0 : list nat)
           (a1 : list nat) (s2_idx : nat) : outcome (list nat) :=
  do up <- get a0 s2_idx;
  let delete_cost := up + 1 in
  do lft <- get a1 (s2_idx - 1);
  let insert_cost := lft + 1 in
  do diag <- get a0 (s2_idx - 1);
  do c1 <- get s1 (s1_idx - 1);
  do c2 <- get s2 (s2_idx - 1);
  let substitution_cost := diag + (if N.eqb c1 c2 then 0 else 1) in
  set_at a1 s2_idx (min3 delete_cost insert_cost substitution_cost).

(* body of `for s1_idx in range(1, len(s1) + 1)`; state = (a0, a1) *)
Definition outer_step (s1 s2 : str) (st : list nat * list nat) (s1_idx : nat)
  : outcome (list nat * list nat) :=
  let (a0, a1) := st in
  do a1' <- set_at a1 0 s1_idx;                                   (* a1[0] = s1_idx *)
  do a1'' <- foldM (inner_step s1 s2 s1_idx a0) (seq 1 (length s2)) a1';
  Ok (a1'', a0).                                                   (* a0, a1 = a1, a0 *)

(* _edit_distance(s1, s2) *)
Definition edit_distance (s1 s2 : str) : outcome nat :=
  if length s1 =? 0 then Ok (length s2)
  else if length s2 =? 0 then Ok (length s1)
  else
    let a0 := seq 0 (length s2 + 1) in          (* array("L", range(0, len(s2)+1)) *)
    let a1 := a0 in                              (* array("L", a0.tobytes()) : a copy *)
    do st <- foldM (outer_step s1 s2) (seq 1 (length s1)) (a0, a1);
    get (fst st) (length s2).                    (* return a0[len(s2)] *)

(* set.add *)
Definition set_add (x : str) (s : list str) : list str :=
  if mem_str x s then s else x :: s.

(* body of `for sym in symbols`; state = (best_cost, best_match) *)
Definition closest_step (m : str) (st : nat * list str) (sym : str) : outcome (nat * list str) :=
  let (best_cost, best_match) := st in
  do distance <- edit_distance sym m;
  if distance <? best_cost then Ok (distance, [sym])
  else if distance =? best_cost then Ok (best_cost, set_add sym best_match)
  else Ok (best_cost, best_match).

(* closest(symbols, match) -> (best_cost, best_match) *)
Definition closest (symbols : list str) (m : str) : outcome (nat * list str) :=
  foldM (closest_step m) symbols (length m + 1, []).

(* The part of FullNameNode.validate_symbol_refs after `if self.name not in symbols`:
   the names appended after "Did you mean"; [] = no suggestion text. *)
Definition suggest (symbols : list str) (name : str) : outcome (list str) :=
  do r <- closest symbols name;
  let (distance, closest_matches) := r in
  if distance <? max_match_distance then
    if length closest_matches =? 1 then Ok closest_matches          (* "Did you mean: x" *)
    else if 1 <? length closest_matches then Ok closest_matches     (* "Did you mean one of: ..." *)
    else Ok []
  else Ok [].

(* FullNameNode.validate_symbol_refs: None = returns normally; Some T = raises ValueError whose
   message suggests exactly the names T. *)
Definition validate_symbol_refs (symbols : list str) (name : str) : outcome (option (list str)) :=
  if mem_str name symbols then Ok None
  else do t <- suggest symbols name; Ok (Some t).
