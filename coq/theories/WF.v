(* WF.v — C01/C02 part B: the declarative well-formedness rules of the 2023-09 template schema,
   one [Prop] per validator, written from the property text and DESIGN.md Appendix C (not from
   the code), and the document-level statement [WFdoc].  Definitions only; the equivalences
   with the validators as coded (Validators.v) are in AcceptProofs.v.

   The rules read the parsed object through the same accessors as the validators
   ([fget name fields], [mitems], [mstr], [names_of], [num_of]) — both sides look at the same
   value, the rules say WHAT must hold of it. *)
From Coq Require Import List NArith ZArith Bool String Permutation.
Import ListNotations.
Require Import OJD.Base OJD.Lexer OJD.Json OJD.Schema OJD.Generated OJD.Charsets OJD.Numerals OJD.FormatStr
               OJD.FsRefs OJD.CreateJob OJD.RangeExpr OJD.Comb OJD.ScopeWalk OJD.DepGraph OJD.DepGraphSpec
               OJD.Parse OJD.Validators OJD.SchemaSpec.
Local Open Scope string_scope.
Local Open Scope list_scope.

(* ---------- vocabulary ---------- *)

(* pairwise distinct names of an (optional) list of named objects *)
Definition UniqueNames (v : mval) : Prop := NoDup (names_of v).

(* a <= b whenever both are numbers (absent bounds constrain nothing); exact decimal order *)
Definition OptLe (a b : mval) : Prop :=
  forall x y, num_of a = Some x -> num_of b = Some y -> num_leb x y = true.

Definition SameSet (a b : list str) : Prop := forall x, In x a <-> In x b.

(* the list field holds at least one value *)
Definition HasAllowed (fs : list (string * mval)) : Prop :=
  exists x l, fget "allowedValues" fs = MList (x :: l).

Definition NonNull (j : json) : Prop := j <> JNull.

Section Rules.
  Variable classify : N -> cclass.

  (* the string contains at least one {{ reference }} *)
  Definition HasRefs (s : str) : Prop := exists r rs, fs_refs classify s = Some (r :: rs).

  (* ---------- job parameter definitions: STRING / PATH ---------- *)
  Definition LenWithin (minl maxl : mval) (s : str) : Prop :=
    (forall a, minl = MInt a -> (a <= Z.of_nat (List.length s))%Z) /\
    (forall b, maxl = MInt b -> (Z.of_nat (List.length s) <= b)%Z).

  Definition StringParamRule (fs : list (string * mval)) : Prop :=
    let minl := fget "minLength" fs in
    let maxl := fget "maxLength" fs in
    let allowed := fget "allowedValues" fs in
    let dflt := fget "default" fs in
    (forall a, minl = MInt a -> (0 < a)%Z) /\
    (forall b, maxl = MInt b -> (0 < b)%Z) /\
    OptLe minl maxl /\                  (* minLength <= maxLength; on two ints this is a <= b (AcceptRules.OptLe_ints) *)
    (forall it, In it (mitems allowed) -> LenWithin minl maxl (mstr it)) /\
    (forall d, dflt = MStr d ->
       LenWithin minl maxl d /\
       (allowed <> MNone -> exists it, In it (mitems allowed) /\ mstr it = d)).

  (* the control named by userInterface.control, when a userInterface is given *)
  Definition Control (fs : list (string * mval)) (ctl : str) : Prop :=
    exists c ui, fget "userInterface" fs = MModel c ui /\ mstr (fget "control" ui) = ctl.

  Definition StringUiRule (fs : list (string * mval)) : Prop :=
    forall ctl, Control fs ctl ->
      ((ctl = $"LINE_EDIT" \/ ctl = $"MULTILINE_EDIT") -> ~ HasAllowed fs) /\
      (ctl = $"DROPDOWN_LIST" -> HasAllowed fs) /\
      (ctl = $"CHECK_BOX" ->
         fget "allowedValues" fs <> MNone /\
         exists st, In st Generated.checkbox_sets /\
           SameSet (map (fun it => upper_s (mstr it)) (mitems (fget "allowedValues" fs)))
                   (map str_of_string st)).

  Definition HasFilters (ui : list (string * mval)) : Prop :=
    (exists x l, fget "fileFilters" ui = MList (x :: l)) \/ fget "fileFilterDefault" ui <> MNone.

  Definition PathUiRule (fs : list (string * mval)) : Prop :=
    forall c ui, fget "userInterface" fs = MModel c ui ->
      let ctl := mstr (fget "control" ui) in
      let chooser_file := ctl = $"CHOOSE_INPUT_FILE" \/ ctl = $"CHOOSE_OUTPUT_FILE" in
      let ot := mstr (fget "objectType" fs) in
      (HasAllowed fs -> ~ (chooser_file \/ ctl = $"CHOOSE_DIRECTORY")) /\
      (ctl = $"DROPDOWN_LIST" -> HasAllowed fs) /\
      (HasFilters ui -> chooser_file) /\
      (ot = $"FILE" -> ctl <> $"CHOOSE_DIRECTORY") /\
      (ot = $"DIRECTORY" -> ~ chooser_file).

  (* ---------- job parameter definitions: INT / FLOAT ---------- *)
  Definition NumWithin (mn mx v : mval) : Prop := OptLe mn v /\ OptLe v mx.

  Definition NumParamRule (fs : list (string * mval)) : Prop :=
    let mn := fget "minValue" fs in
    let mx := fget "maxValue" fs in
    let allowed := fget "allowedValues" fs in
    let dflt := fget "default" fs in
    OptLe mn mx /\
    (forall it, In it (mitems allowed) -> NumWithin mn mx it) /\
    (forall d, num_of dflt = Some d ->
       NumWithin mn mx dflt /\
       (allowed <> MNone -> exists it x, In it (mitems allowed) /\ num_of it = Some x /\ num_eqb x d = true)).

  (* a non-zero singleStepDelta is given *)
  Definition HasDelta (ui : list (string * mval)) : Prop :=
    exists d, num_of (fget "singleStepDelta" ui) = Some d /\ mant d <> 0%Z.

  Definition NumUiRule (fs : list (string * mval)) : Prop :=
    forall c ui, fget "userInterface" fs = MModel c ui ->
      let ctl := mstr (fget "control" ui) in
      (HasAllowed fs -> ctl <> $"SPIN_BOX") /\
      (ctl = $"DROPDOWN_LIST" -> HasAllowed fs) /\
      (HasDelta ui -> ctl = $"SPIN_BOX").

  (* raw type of INT definition fields: integers or strings only (not bool, not float) *)
  Definition RawIntOrStr (j : json) : Prop := (exists z, j = JInt z) \/ (exists s, j = JStr s).
  Definition RawNumOrStr (j : json) : Prop := (exists z, j = JInt z) \/ (exists m e, j = JDec m e) \/ (exists s, j = JStr s).

  Definition IntParamRawRule (raw : json) : Prop :=
    (NonNull (jget "minValue" raw) -> RawIntOrStr (jget "minValue" raw)) /\
    (NonNull (jget "maxValue" raw) -> RawIntOrStr (jget "maxValue" raw)) /\
    (NonNull (jget "default" raw) -> RawIntOrStr (jget "default" raw)) /\
    (forall items, jget "allowedValues" raw = JArr items -> Forall RawIntOrStr items).

  (* ---------- task parameters ---------- *)
  (* a range expression a Python container can hold: it parses (C08 characterises that) and has fewer
     than 2^63 values *)
  Definition RangeExprOk (s : str) : Prop :=
    exists e, RangeExpr.from_str false false classify s = Ok e /\ (RangeExpr.elen e < 2 ^ 63)%Z.

  Definition IntRangeRule (fs : list (string * mval)) : Prop :=
    match fget "range" fs with
    | MList items => forall s, In (MFmt s) items -> HasRefs s
    | MFmt s => HasRefs s \/ RangeExprOk s
    | _ => True
    end.

  Definition FloatRangeRule (fs : list (string * mval)) : Prop :=
    forall s, In (MFmt s) (mitems (fget "range" fs)) -> HasRefs s.

  Definition IntRangeRawRule (raw : json) : Prop :=
    forall items, jget "range" raw = JArr items -> Forall RawIntOrStr items.
  Definition FloatRangeRawRule (raw : json) : Prop :=
    forall items, jget "range" raw = JArr items -> Forall RawNumOrStr items.

  (* the combination names each declared task parameter exactly once *)
  Definition CombinationRule (fs : list (string * mval)) : Prop :=
    let names := names_of (fget "taskParameterDefinitions" fs) in
    NoDup names /\
    (forall s, fget "combination" fs = MStr s ->
       exists t, Comb.parse_str classify s = Ok t /\ Permutation (Comb.collect_ids t) names).

  (* ---------- environments, scripts ---------- *)
  Definition EnvRule (fs : list (string * mval)) : Prop := fget "variables" fs <> MDict [].
  Definition EnvRawRule (raw : json) : Prop := NonNull (jget "script" raw) \/ NonNull (jget "variables" raw).
  Definition EnvActionsRawRule (raw : json) : Prop := NonNull (jget "onEnter" raw) \/ NonNull (jget "onExit" raw).
  Definition EmbeddedFilesRule (fs : list (string * mval)) : Prop := UniqueNames (fget "embeddedFiles" fs).

  (* ---------- capability names ---------- *)
  (* [a-z_][a-z0-9_]* *)
  Definition Seg (s : str) : Prop :=
    exists c r, s = c :: r /\ (is_lower c = true \/ c = 95%N) /\
                Forall (fun x => is_lower x = true \/ is_digit09 x = true \/ x = 95%N) r.

  Fixpoint join_dot (l : list str) : str :=
    match l with
    | [] => []
    | [s] => s
    | s :: r => s ++ 46%N :: join_dot r
    end.

  (* name (lower-cased) = [vendor ":"] kind "." seg ("." seg)* ; kind = amount | attr;
     vendor has at least two characters; then either a standard capability (no vendor), or
     the required "amount." / "attr." prefix and a first segment that is not a reserved scope.
     A name containing a reference is checked when the job is created. *)
  Definition CapName (standard : list string) (required_prefix : str) (name : str) : Prop :=
    HasRefs name \/
    exists (vendor : option str) (kind seg1 : str) (segs : list str),
      let capability := join_dot (kind :: seg1 :: segs) in
      lower_s name = (match vendor with Some v => v ++ [58%N] | None => [] end) ++ capability /\
      (forall v, vendor = Some v -> Seg v /\ 2 <= List.length v) /\
      (kind = $"amount" \/ kind = $"attr") /\
      Seg seg1 /\ Forall Seg segs /\
      ((vendor = None /\ In capability (map str_of_string standard)) \/
       (str_prefix required_prefix capability = true /\
        ~ In seg1 (map str_of_string Generated.reserved_scopes))).

  (* ---------- host requirements ---------- *)
  Definition AmountRule (fs : list (string * mval)) : Prop :=
    CapName Generated.std_amount_caps $"amount." (mstr (fget "name" fs)) /\
    (forall v, num_of (fget "min" fs) = Some v -> num_leb (num_of_Z 0) v = true) /\
    (forall v, num_of (fget "max" fs) = Some v -> num_ltb (num_of_Z 0) v = true) /\
    OptLe (fget "min" fs) (fget "max" fs).
  (* "at least one real bound": an explicit null is no bound *)
  Definition AmountRawRule (raw : json) : Prop := NonNull (jget "min" raw) \/ NonNull (jget "max" raw).

  (* [A-Za-z_][A-Za-z0-9_-]* *)
  Definition AttrValue (s : str) : Prop :=
    exists c r, s = c :: r /\ ident_start c = true /\ Forall (fun x => ident_char x = true \/ x = 45%N) r.

  (* the standard attribute capability with this (lower-cased) name: its value set, multivalued? *)
  Definition std_attr (low : str) : option (list string * bool) :=
    match List.find (fun e => str_eqb low (str_of_string (fst e))) Generated.std_attr_caps with
    | Some (_, vm) => Some vm
    | None => None
    end.

  Definition AttrListRule (name v : mval) (is_allof : bool) : Prop :=
    v = MNone \/
    forall nm, name = MFmt nm ->
      match std_attr (lower_s nm) with
      | Some (values, multivalued) =>
        (is_allof = true -> multivalued = false -> List.length (mitems v) <= 1) /\
        (forall it, In it (mitems v) -> HasRefs (mstr it) \/ In (mstr it) (map str_of_string values))
      | None =>
        forall it, In it (mitems v) ->
          HasRefs (mstr it) \/
          (AttrValue (mstr it) /\ (N.of_nat (List.length (mstr it)) <= Generated.attr_value_max_len)%N)
      end.

  Definition AttributeRule (fs : list (string * mval)) : Prop :=
    CapName (map fst Generated.std_attr_caps) $"attr." (mstr (fget "name" fs)) /\
    AttrListRule (fget "name" fs) (fget "anyOf" fs) false /\
    AttrListRule (fget "name" fs) (fget "allOf" fs) true.
  Definition AttributeRawRule (raw : json) : Prop := NonNull (jget "anyOf" raw) \/ NonNull (jget "allOf" raw).

  Definition HostReqRule (fs : list (string * mval)) : Prop :=
    let am := fget "amounts" fs in
    let at_ := fget "attributes" fs in
    am <> MList [] /\ at_ <> MList [] /\ ~ (am = MNone /\ at_ = MNone) /\
    (N.of_nat (List.length (mitems am) + List.length (mitems at_)) <= Generated.max_requirements)%N.

  (* ---------- steps and templates ---------- *)
  (* StepTemplate: no duplicate dependency, no self dependency, unique step-environment names *)
  Definition StepRule (fs : list (string * mval)) : Prop :=
    let deps := dep_names (MModel "StepTemplate" fs) in
    NoDup deps /\ UniqueNames (fget "stepEnvironments" fs) /\ ~ In (mstr (fget "name" fs)) deps.

  (* JobTemplate: unique step names, every dependency names a step, no dependency cycle
     ([dep_job] is the dependency relation on step positions; [acyclic] is C15's) *)
  Definition DepsRule (steps : mval) : Prop :=
    NoDup (names_of steps) /\
    (forall st d, In st (mitems steps) -> In d (dep_names st) -> In d (names_of steps)) /\
    acyclic (dep_job steps).

  (* the same rule with the dependency relation read directly on step NAMES (no positions):
     step [a] depends on [b] when a step named [a] lists [b] in its dependencies; no step
     reaches itself.  AcceptDeps.deps_rule_names_iff: equivalent to [DepsRule]. *)
  Definition step_name (st : mval) : str := mstr (fget "name" (model_fields st)).
  Definition StepDependsOn (steps : mval) (a b : str) : Prop :=
    exists st, In st (mitems steps) /\ step_name st = a /\ In b (dep_names st).
  Inductive DepPath (steps : mval) : str -> str -> Prop :=
  | DepPath_one : forall a b, StepDependsOn steps a b -> DepPath steps a b
  | DepPath_cons : forall a b c, StepDependsOn steps a b -> DepPath steps b c -> DepPath steps a c.
  Definition NameAcyclic (steps : mval) : Prop := forall a, ~ DepPath steps a a.

  Definition DepsRuleNames (steps : mval) : Prop :=
    NoDup (names_of steps) /\
    (forall st d, In st (mitems steps) -> In d (dep_names st) -> In d (names_of steps)) /\
    NameAcyclic steps.

  Definition EnvDisjointRule (fs : list (string * mval)) : Prop :=
    forall st e, In st (mitems (fget "steps" fs)) ->
      In e (names_of (fget "stepEnvironments" (model_fields st))) ->
      ~ In e (names_of (fget "jobEnvironments" fs)).

  (* every variable reference of the document is in scope (C03 characterises the walker) *)
  Definition RefsInScope (root : string) (raw : json) : Prop :=
    prevalidate Generated.schema (fs_refs classify) root raw = [].

  Definition JobTemplateRule (raw : json) (fs : list (string * mval)) : Prop :=
    DepsRule (fget "steps" fs) /\
    UniqueNames (fget "parameterDefinitions" fs) /\
    UniqueNames (fget "jobEnvironments" fs) /\
    RefsInScope "JobTemplate" raw /\
    EnvDisjointRule fs.

  Definition EnvTemplateRule (raw : json) (fs : list (string * mval)) : Prop :=
    UniqueNames (fget "parameterDefinitions" fs) /\ RefsInScope "EnvironmentTemplate" raw.

  (* ---------- job-side target classes (re-validation after substitution; not reached by
     template decoding, listed so that [Rule] covers every class the hooks know) ---------- *)
  Definition RangeExprRule (fs : list (string * mval)) : Prop := RangeExprOk (mstr (fget "range" fs)).
  Definition IntRangeListRule (fs : list (string * mval)) : Prop :=
    forall it, In it (mitems (fget "range" fs)) -> exists z, parse_int (mstr it) = Some z.
  Definition FloatRangeListRule (fs : list (string * mval)) : Prop :=
    forall it, In it (mitems (fget "range" fs)) -> exists m e, parse_dec (mstr it) = Some (Fin m e).
  Definition space_lens (fs : list (string * mval)) : list (str * N) :=
    flat_map (fun kv =>
                match fget "range" (model_fields (snd kv)) with
                | MList items => [(fst kv, N.of_nat (List.length items))]
                | MFmt r | MStr r =>
                  match RangeExpr.from_str false false classify r with
                  | Ok e => if Z.ltb (RangeExpr.elen e) (2 ^ 63) then [(fst kv, Z.to_N (RangeExpr.elen e))] else []
                  | Raise _ => []
                  end
                | _ => []
                end)
             (match fget "taskParameterDefinitions" fs with MDict l => l | _ => [] end).
  Definition SpaceRule (fs : list (string * mval)) : Prop :=
    forall s, fget "combination" fs = MStr s ->
      exists n, Comb.dims_str classify (Comb.lookup_len (space_lens fs)) s = Ok n.

  (* ---------- assembly: the rule of each class ---------- *)
  (* on the parsed fields (field and root validators) *)
  Definition Rule (c : string) (raw : json) (fs : list (string * mval)) : Prop :=
    if String.eqb c "StepScript" || String.eqb c "EnvironmentScript" then EmbeddedFilesRule fs
    else if String.eqb c "IntTaskParameterDefinition" then IntRangeRule fs
    else if String.eqb c "FloatTaskParameterDefinition" then FloatRangeRule fs
    else if String.eqb c "StepParameterSpaceDefinition" then CombinationRule fs
    else if String.eqb c "Environment" then EnvRule fs
    else if String.eqb c "JobStringParameterDefinition" then StringParamRule fs /\ StringUiRule fs
    else if String.eqb c "JobPathParameterDefinition" then StringParamRule fs /\ PathUiRule fs
    else if String.eqb c "JobIntParameterDefinition" || String.eqb c "JobFloatParameterDefinition" then
      NumParamRule fs /\ NumUiRule fs
    else if String.eqb c "AmountRequirementTemplate" then AmountRule fs
    else if String.eqb c "AttributeRequirementTemplate" then AttributeRule fs
    else if String.eqb c "HostRequirementsTemplate" then HostReqRule fs
    else if String.eqb c "StepTemplate" then StepRule fs
    else if String.eqb c "RangeExpressionTaskParameterDefinition" then RangeExprRule fs
    else if String.eqb c "IntRangeListTaskParameterDefinition" then IntRangeListRule fs
    else if String.eqb c "FloatRangeListTaskParameterDefinition" then FloatRangeListRule fs
    else if String.eqb c "StepParameterSpace" then SpaceRule fs
    else if String.eqb c "JobTemplate" then JobTemplateRule raw fs
    else if String.eqb c "EnvironmentTemplate" then EnvTemplateRule raw fs
    else True.

  (* on the raw object (pre validators): presence of real values, raw types *)
  Definition PreRule (c : string) (raw : json) : Prop :=
    if String.eqb c "EnvironmentActions" then EnvActionsRawRule raw
    else if String.eqb c "Environment" then EnvRawRule raw
    else if String.eqb c "AmountRequirementTemplate" then AmountRawRule raw
    else if String.eqb c "AttributeRequirementTemplate" then AttributeRawRule raw
    else if String.eqb c "IntTaskParameterDefinition" then IntRangeRawRule raw
    else if String.eqb c "FloatTaskParameterDefinition" then FloatRangeRawRule raw
    else if String.eqb c "JobIntParameterDefinition" then IntParamRawRule raw
    else True.

  (* ---------- the document-level statement ----------
     "j parses structurally under the FROZEN table [spec_schema] (Appendix E coercions), and at
     every object visited [PreRule] holds of the raw object and [Rule] of the parsed fields."
     The structural layer takes its hooks as booleans, so this is phrased with hooks that
     DECIDE the rules: the layer consults them exactly once per visited object, so parsing
     succeeds with such hooks iff the rules hold at every visited object.  Which deciders are
     chosen is immaterial (AcceptMono.parse_cls_hooks_ext). *)
  Definition decides_pre (pre' : string -> json -> bool) : Prop :=
    forall c raw, pre' c raw = true <-> PreRule c raw.
  Definition decides_post (post' : string -> json -> list (string * mval) -> bool) : Prop :=
    forall c raw fs, post' c raw fs = true <-> Rule c raw fs.

  Definition WFdoc (root : string) (j : json) : Prop :=
    exists pre' post' v,
      decides_pre pre' /\ decides_post post' /\
      parse_root spec_schema classify pre' post' root j = Ok v.
End Rules.
