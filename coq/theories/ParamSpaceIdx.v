(* ParamSpaceIdx.v — the index arithmetic of src/openjd/model/_step_param_space_iter.py
   (ProductNode / AssociationNode / leaf __len__ and __getitem__) over a tree of LENGTHS.

   ParamSpace.v holds every leaf's range as a value list, which cannot be built for spaces
   with 2**53 .. 2**63 sets.  Here a leaf is only its name and len(); [llen] is __len__ and
   [lindex t i] is, for obj[i], the POSITION that every leaf's own __getitem__ is asked for
   (already normalised to 0 <= pos < len(leaf), i.e. the element range[pos] it returns), as a
   dict name -> position built with the same result.update(...) calls, in the same order, as
   the code.  Definitions only; ParamSpaceIdxProofs.v ties both to ParamSpace.node_len /
   ParamSpace.getitem for every tree.

   Same conventions as ParamSpace.v: Python ints are [Z], ZeroDivisionError is
   [Raise RuntimeError] (unreachable: ParamSpaceIdxProofs.lindex_no_zero_division).
   len() of more than sys.maxsize is an OverflowError of CPython's len() builtin, outside this
   model (the harness keeps spaces below 2**63). *)
From Coq Require Import List NArith ZArith Bool.
Import ListNotations.
Require Import OJD.Base.
Local Open Scope Z_scope.

Inductive ltree : Type :=
| LLeaf (n : str) (len : Z)
| LProd (cs : list ltree)
| LAssoc (cs : list ltree).

(* dict name -> position, insertion order *)
Definition penv := list (str * Z).

(* d[k] = v and d.update(src) on association lists, for any value type (ParamSpace.set /
   ParamSpace.update are the instance at ParamSpace.pval: ParamSpaceIdxProofs.set_is_gset) *)
Fixpoint gset {A : Type} (e : list (str * A)) (k : str) (v : A) : list (str * A) :=
  match e with
  | [] => [(k, v)]
  | (k', v') :: e' => if str_eqb k k' then (k', v) :: e' else (k', v') :: gset e' k v
  end.

Definition gupdate {A : Type} (e src : list (str * A)) : list (str * A) :=
  fold_left (fun acc kv => gset acc (fst kv) (snd kv)) src e.

Section LLenLoop.
  Variable nl : ltree -> outcome Z.
  (* reduce(mul, (len(child) for child in children), acc) *)
  Fixpoint llen_loop (cs : list ltree) (acc : Z) : outcome Z :=
    match cs with
    | [] => Ok acc
    | c :: rest => do n <- nl c; llen_loop rest (acc * n)
    end.
End LLenLoop.

(* __len__ *)
Fixpoint llen (t : ltree) : outcome Z :=
  match t with
  | LLeaf _ l => Ok l
  | LProd cs => llen_loop llen cs 1
  | LAssoc cs =>
    match cs with
    | [] => Raise IndexError                      (* self.children[0] on an empty tuple *)
    | c :: _ => llen c
    end
  end.

(* range[i] of a leaf (a Python list, or IntRangeExpr.__getitem__): which element *)
Definition leaf_pos (len i : Z) : outcome Z :=
  let j := if i <? 0 then len + i else i in
  if (0 <=? j) && (j <? len) then Ok j else Raise IndexError.

Section LGetLoops.
  Variable li : ltree -> Z -> outcome penv.

  (* ProductNode.__getitem__, iterations pos = len-1 .. 1 over [cs] = children[1:]; the
     recursion unwinds right-to-left as in ParamSpace.prod_get_tail *)
  Fixpoint lprod_tail (cs : list ltree) (index : Z) (result : penv) : outcome (Z * penv) :=
    match cs with
    | [] => Ok (index, result)
    | c :: rest =>
      do ir <- lprod_tail rest index result;
      do cl <- llen c;
      if cl =? 0 then Raise RuntimeError           (* ZeroDivisionError *)
      else
        do e <- li c (fst ir mod cl);
        Ok (fst ir / cl, gupdate (snd ir) e)
    end.

  Definition lprod_get (cs : list ltree) (index : Z) : outcome penv :=
    match cs with
    | [] => Ok []
    | c0 :: rest =>
      do ir <- lprod_tail rest index [];
      do e <- li c0 (fst ir);                      (* pos = 0: child_index = index *)
      Ok (gupdate (snd ir) e)
    end.

  (* AssociationNode.__getitem__ *)
  Fixpoint lassoc_get (cs : list ltree) (i : Z) (result : penv) : outcome penv :=
    match cs with
    | [] => Ok result
    | c :: rest => do e <- li c i; lassoc_get rest i (gupdate result e)
    end.
End LGetLoops.

Fixpoint lindex (t : ltree) (i : Z) : outcome penv :=
  match t with
  | LLeaf n l => do j <- leaf_pos l i; Ok [(n, j)]
  | LProd cs =>
    do len <- llen (LProd cs);
    let j := if i <? 0 then len + i else i in
    if (0 <=? j) && (j <? len) then lprod_get lindex cs j else Raise IndexError
  | LAssoc cs => lassoc_get lindex cs i []
  end.

(* ------------------------------------------------------------------ closed form, pure products *)
Definition zprod (l : list Z) : Z := fold_right Z.mul 1 l.

(* mixed-radix digits of j over the radices [lens], most significant first, right-most fastest *)
Fixpoint radix (lens : list Z) (j : Z) : list Z :=
  match lens with
  | [] => []
  | l :: rest => (j / zprod rest) mod l :: radix rest j
  end.

(* index = (a * len(B) + b) * len(C) + c *)
Fixpoint horner (lens ds : list Z) : Z :=
  match lens, ds with
  | l :: ls, d :: ds' => d * zprod ls + horner ls ds'
  | _, _ => 0
  end.

Definition lleaf_of (nl : str * Z) : ltree := LLeaf (fst nl) (snd nl).
Definition lprod_of (nls : list (str * Z)) : ltree := LProd (map lleaf_of nls).
