"""C13 — IntRangeExpr is a consistent finite sequence with a canonical text form.

Correspondence check: the real class (len, iteration, indexing, str + re-parse, from_list) against
the extracted model (RangeExpr.v: elen, elems, getitem, expr_tokens + parse_tokens, from_list) that
coq/props/C13.v proves equal to the specification for all expressions and all integer lists."""
import itertools
import random
import re
import sys
from pathlib import Path

sys.path.insert(0, str(Path(__file__).resolve().parent))
import core  # noqa: E402
import c08  # noqa: E402  (generators of range-expression strings)

from openjd.model import IntRangeExpr  # noqa: E402
from openjd.model._errors import ExpressionError  # noqa: E402
from openjd.model._range_expr import (  # noqa: E402
    ColonToken, CommaToken, HyphenToken, PosIntToken, _tokenmap,
)
from openjd.model._tokenstream import TokenStream  # noqa: E402


def exn_family(e: BaseException) -> str:
    if isinstance(e, ExpressionError):
        return "ExpressionError"
    return type(e).__name__


def model_family(name: str) -> str:
    return "ExpressionError" if name in ("ExpressionError", "TokenError") else name


def lex_tokens(text: str):
    """Tokens of str(r) as the real lexer sees them, in the driver's token notation."""
    ts = TokenStream(text, supported_tokens=_tokenmap)
    out = []
    while not ts.at_end():
        t = ts.next()
        if isinstance(t, PosIntToken):
            out.append(["P", int(t.value)])
        elif isinstance(t, HyphenToken):
            out.append("H")
        elif isinstance(t, ColonToken):
            out.append("C")
        elif isinstance(t, CommaToken):
            out.append("M")
        else:
            out.append(["?", type(t).__name__])
    return out


def describe(r: IntRangeExpr):
    """Everything C13 observes on one IntRangeExpr object."""
    n = len(r)
    vals = list(r)
    gets = []
    for i in range(-n - 2, n + 2):
        try:
            gets.append(["ok", r[i]])
        except BaseException as e:  # noqa: BLE001
            gets.append(["raise", type(e).__name__])
    text = str(r)
    try:
        toks = lex_tokens(text)
    except BaseException as e:  # noqa: BLE001
        toks = ["raise", exn_family(e)]
    try:
        back = ["ok", list(IntRangeExpr.from_str(text))]
    except BaseException as e:  # noqa: BLE001
        back = ["raise", exn_family(e)]
    # indices far outside (too long to print, even): IndexError like any other index outside -len..len-1
    for far in (10 ** 4400, -(10 ** 4400), 2 ** 63, -(2 ** 63) - 1):
        try:
            r[far]
            return [vals, n, gets, toks, back, ["r[i] answered for an index far outside", str(far)[:12]]]
        except IndexError:
            pass
        except BaseException as e:  # noqa: BLE001
            return [vals, n, gets, toks, back, ["r[i] far outside raised", type(e).__name__]]
    # membership: `v in r` is true of exactly the iterated values (whatever __contains__ the class may define)
    valset = set(vals)
    lo, hi = (min(vals), max(vals)) if vals else (0, 0)
    probes = sorted(valset | {lo - 1, lo - 2, hi + 1, hi + 2} | {v + d for v in list(valset)[:200] for d in (-1, 1)})[:600]
    try:
        wrong = [v for v in probes if (v in r) != (v in valset)]
    except BaseException as e:  # noqa: BLE001
        wrong = ["raise", type(e).__name__]
    if wrong:
        return [vals, n, gets, toks, back, ["`in` disagrees with iteration for", wrong[:10]]]
    return [vals, n, gets, toks, back]


# ---------------------------------------------------------------- expressions too long to enumerate
LIMIT = 2 ** 63          # a Python container holds fewer values than this: len() of anything longer cannot exist


class int_limit:
    """the process-wide limit on the digits int() / str() handle, for the duration of a block"""
    def __init__(self, lim):
        self.lim = lim

    def __enter__(self):
        self.old = sys.get_int_max_str_digits()
        if self.lim is not None:
            sys.set_int_max_str_digits(self.lim)

    def __exit__(self, *a):
        sys.set_int_max_str_digits(self.old)


def bits(x):
    """integers spelled in binary (nothing that prints the structure later meets the decimal limit)"""
    if isinstance(x, bool) or not isinstance(x, int):
        return [bits(v) for v in x] if isinstance(x, list) else x
    return zb(x)


def zb(i: int) -> str:
    """arbitrary-precision integer on the driver's wire"""
    return ("b-" if i < 0 else "b") + bin(abs(i))[2:]


def unzb(a):
    return a if isinstance(a, int) else int(a[1:], 2)


def big_parts(s: str):
    """(a, b, step) per comma-separated part of a well-formed expression text, None when it is not that simple"""
    out = []
    for part in s.replace(" ", "").split(","):
        import re as _re
        m = _re.fullmatch(r"(-?\d+)(?:-(-?\d+)(?::(-?\d+))?)?", part)
        if not m:
            return None
        a = int(m.group(1))
        b = int(m.group(2)) if m.group(2) is not None else a
        st = int(m.group(3)) if m.group(3) is not None else 1
        out.append((a, b, st))
    return out


def big_indices(s: str):
    """Indices worth looking at, chosen from the text alone (both sides get the same list; nothing depends on
    the guess being right): around 0, around each cumulative part length, around the total, the same counted
    from the end, and around the container limit."""
    parts = big_parts(s) or []
    cums, tot = [0], 0
    for a, b, st in parts:
        n = 0 if st == 0 else max(0, (b - a) // st + 1)
        tot += n
        cums.append(tot)
    idx = set()
    for c in cums:
        for d in (-2, -1, 0, 1):
            idx.add(c + d)
            idx.add(c + d - tot)
    for d in (-2, -1, 0, 1):
        idx.add(-tot + d)
        idx.add(LIMIT + d)
        idx.add(-LIMIT + d)
    idx.update([tot // 2, -(tot // 2), tot // 3])
    return sorted(idx)


def describe_big(r: IntRangeExpr, idx):
    """len and r[i] at idx — or what went wrong with len"""
    try:
        n = len(r)
    except BaseException as e:  # noqa: BLE001
        return ["len-raises", type(e).__name__]
    gets = []
    for i in idx:
        try:
            gets.append(["ok", r[i]])
        except BaseException as e:  # noqa: BLE001
            gets.append(["raise", type(e).__name__])
    return [n, gets]


BIG_POINTS = [0, 1, 5, 2 ** 31, 2 ** 62 - 1, 2 ** 62, 2 ** 62 + 1, 2 ** 63 - 2, 2 ** 63 - 1, 2 ** 63, 2 ** 63 + 1, 2 ** 64 - 1, 2 ** 64, 10 ** 18, 10 ** 19, 3 * 2 ** 62]
BIG_STEPS = [1, 1, 1, 2, 2, 3, 7, 2 ** 31, 2 ** 62, 2 ** 63]
CORPUS_BIG = [
    "1-9223372036854775807", "0-9223372036854775807", "0-9223372036854775806", "-9223372036854775808-2", "0-18446744073709551612:2",
    "0-18446744073709551614:2", "0-4611686018427387903,4611686018427387905-9223372036854775808", "0-4611686018427387903,4611686018427387905-9223372036854775807",
    "0-4611686018427387902,4611686018427387905-9223372036854775807", "1-4611686018427387904,-4611686018427387904--1", "1-4611686018427387904,-4611686018427387903--1",
    "9223372036854775807-1:-1", "0-9223372036854775807:9223372036854775807", "0-3,10-9223372036854775000,-5--1",
    "0-6148914691236517204,6148914691236517206-12297829382473034410:2,12297829382473034415", "18446744073709551616", "-18446744073709551616-18446744073709551616:18446744073709551616",
]


def rand_big(rng):
    """1-3 ranges in ascending, disjoint position (sometimes written downwards or out of order) whose lengths
    add up to something near the container limit"""
    k = rng.choice([1, 1, 2, 2, 2, 3])
    parts, lo = [], rng.choice([0, 1, -1, -(2 ** 62), -(2 ** 63), -(2 ** 63) - 1, -5])
    budget = rng.choice([LIMIT - 1, LIMIT, LIMIT + 1, LIMIT - 2, LIMIT // 2, LIMIT + 2 ** 40, 2 * LIMIT, rng.randrange(1, 2 * LIMIT)])
    for j in range(k):
        st = rng.choice(BIG_STEPS)
        n = budget if j == k - 1 else rng.choice([1, 2, budget // 2, budget // 3, budget - 1, rng.randrange(1, max(2, budget))])
        n = max(1, n)
        budget = max(1, budget - n)
        hi = lo + (n - 1) * st + (rng.randrange(st) if st > 1 and rng.random() < 0.5 else 0)
        if n == 1 and rng.random() < 0.5:
            parts.append(str(lo))
        elif rng.random() < 0.15:
            parts.append(f"{hi - (hi - lo) % st}-{lo}:-{st}")
        else:
            parts.append(f"{lo}-{hi}" if st == 1 and rng.random() < 0.7 else f"{lo}-{hi}:{st}")
        lo = hi + rng.choice([1, 2, 2, 3, st + 1, 2 ** 20])
    if rng.random() < 0.3:
        rng.shuffle(parts)
    return ",".join(parts)


# ---------------------------------------------------------------- generators of integer lists
def small_lists(lo, hi, maxlen):
    dom = list(range(lo, hi + 1))
    for n in range(1, maxlen + 1):
        for t in itertools.product(dom, repeat=n):
            yield list(t)


def as_strings(rng, vs):
    """Some / all entries as integer strings (forms int() accepts)."""
    out = []
    mode = rng.random()
    for v in vs:
        if mode < 0.4 or (mode < 0.8 and rng.random() < 0.5):
            k = rng.random()
            if k < 0.6:
                out.append(str(v))
            elif k < 0.7:
                out.append(f" {v} ")
            elif k < 0.8 and v >= 0:
                out.append(f"+{v}")
            elif k < 0.9:
                out.append(("-" if v < 0 else "") + "0" + str(abs(v)))
            else:
                out.append(f"{v}\n")
        else:
            out.append(v)
    return out


def rand_int_list(rng):
    """Runs (several steps) followed by singletons, duplicates, negative numbers; shuffled."""
    out = []
    cur = rng.randint(-30, 10)
    for _ in range(rng.randint(1, 5)):
        kind = rng.random()
        if kind < 0.55:
            step = rng.choice([1, 1, 1, 2, 3, 5])
            n = rng.randint(2, 6)
            out.extend(cur + step * i for i in range(n))
            cur = cur + step * (n - 1)
        else:
            out.append(cur)
        cur += rng.choice([1, 1, 2, 2, 3, 4, 7, 20])     # gap to the next group (may continue the run)
    if rng.random() < 0.4:
        out.extend(rng.choice(out) for _ in range(rng.randint(1, 3)))   # duplicates
    if rng.random() < 0.2:
        out.append(rng.choice([10 ** 9, -10 ** 9, 10 ** 15, 2 ** 31, -2 ** 31 - 1]))
    k = rng.random()
    if k < 0.5:
        rng.shuffle(out)
    elif k < 0.65:
        out.reverse()
    return out


CORPUS_LISTS = [
    [1, 2, 4], [5, 5], [1, 2, 4, 5], [3], [2, 1], [], [0], [-1], [1, 2], [1, 3], [1, 2, 3], [1, 3, 5, 6], [1, 3, 5, 7, 8, 9],
    [1, 2, 4, 6, 8, 9, 10, 20], [5, 5, 5], [3, 1, 2, 1, 3], [-3, -2, -1, 0, 1], [-5, -3, -1, 2], [10, 7, 4, 1], [1, 2, 4, 7, 11],
    ["1", "2", "4"], ["5", 5], [" 7 ", "+3", "-0", "0"], ["1_0", 11, "12"], [1, 4, 7, 8], [1, 4, 7, 10, 11, 12, 14],
    [0, 10 ** 15, -(10 ** 15)], [2, 4, 6, 7, 8, 9, 11, 13], [1, 2, 3, 5, 8, 13, 21],
]
CORPUS_STRS = list(c08.CORPUS) + [
    "1-10:2,12-20:2", "12-12:5,10-1:-3,0", "7-7:3", "1-2,3", "3,1-2", "1-2,3-3:5", "1-3:2,5-9:2", "1-4:3,7-10:3", "10-1:-1",
    "10-1:-3,11-20:3", "-5--1:2,1-5:2", "-1--5:-2,-10--6", "0-0", "5-5:-2,3", "1,2,3", "1,3,5", "1-5:4,9", "0-100:7", "20-1:-7,21",
    "1-3,5-7,4", "1-3:2,2", "1000000-1000005:5", "-3--3:1", " 1 - 9 : 4 , 13 ",
]


class C13(core.PropBase):
    id = "C13"
    component = "range"
    extract_file = "ExtractRange.v"
    chars = c08.EXTRA_CHARS
    uses_table = True
    chunk_size = 400
    theorem_for_mismatch = ("C13_len / C13_getitem / C13_str_roundtrip / C13_from_list "
                            "(model = implementation correspondence)")
    assumptions = [
        "integer strings given to from_list are converted with Python's int() by the harness before the model sees the list",
        "Python int()/str() on decimal digit strings are inverse and equal the decimal value (printing is compared at token level after the real lexer)",
        "classes \\s \\w \\d of the characters used are read from Python's re on every run (ascii_ok checked by the driver)",
        "CPython 3.12 as installed; integers of any size travel to the extracted model in binary (ocaml/conv.ml); only expressions whose values are ENUMERATED on both sides are kept small (digit budget of the generators)",
    ]

    # ------------------------------------------------------------ cases
    def corpus_cases(self):
        A, A5 = "1" + "0" * 4300, "1" + "0" * 4299 + "5"
        limited = [(0, "9" * 4301), (0, "-" + "9" * 5000), (0, f"{A}-{A5}"), (0, f"{A}-{A5}:2,7"), (0, f"-{A5}--{A}"), (10000, "9" * 4301 + ",5"), (10000, "9" * 10001),
                   (640, "9" * 641), (640, "9" * 640 + ",5"), (640, "1-" + "9" * 641), (4300, "9" * 4301), (0, "9" * 4300), (640, "5-9:2")]
        return ([{"k": "l", "vs": vs} for vs in CORPUS_LISTS] + [{"k": "s", "s": s} for s in CORPUS_STRS]
                + [{"k": "b", "s": s} for s in CORPUS_BIG]
                # the process changed how many digits int() / str() handle AFTER the package was imported
                + [{"k": "b", "s": s, "limit": lim} for lim, s in limited])

    def cases(self, tier, seed):
        rng = random.Random(seed * 104729 + 13)
        thorough = tier == "thorough"
        # 1. all integer lists of length <= 4 / 5 over [-2,4]
        for vs in small_lists(-2, 4, 5 if thorough else 4):
            yield {"k": "l", "vs": vs}
        # 2. random longer lists, a third of them with integer strings
        for _ in range(40000 if thorough else 4000):
            vs = rand_int_list(rng)
            if rng.random() < 0.35:
                vs = as_strings(rng, vs)
            yield {"k": "l", "vs": vs}
        # 3. expressions of the C08 generators (the rejected ones cost nothing and are compared too)
        for s in c08.single_elements(-6, 6, 3):
            yield {"k": "s", "s": s}
        els = c08.pair_elements(-3, 5) if thorough else c08.pair_elements(-2, 4)
        for _ in range(80000 if thorough else 8000):
            yield {"k": "s", "s": rng.choice(els) + "," + rng.choice(els)}
        for _ in range(60000 if thorough else 6000):
            s = c08.cap_digits(c08.rand_list(rng))
            if rng.random() < 0.2:
                s = c08.with_blanks(rng, s)
            yield {"k": "s", "s": s}
        # 3b. expressions whose length is near or beyond what a container can hold: nothing is enumerated; len,
        #     r[i] at boundary indices, the printed form and its re-parse are compared with the (unbounded) model
        for a in BIG_POINTS:
            for b in BIG_POINTS:
                if a < b:
                    yield {"k": "b", "s": f"{a}-{b}"}
                    yield {"k": "b", "s": f"-{b}--{a}:2" if a else f"-{b}-0:2"}
        for _ in range(20000 if thorough else 3000):
            yield {"k": "b", "s": rand_big(rng)}
        # 3b'. numbers with as many digits as int() reads at most (4300), both signs, alone and in short ranges
        for nd in (4299, 4300):
            for m in (10 ** (nd - 1), 10 ** nd - 1, 10 ** nd - 7):
                for t in (f"{m}", f"-{m}", f"{m - 3}-{m}", f"-{m}--{m - 3}", f"-{m}--{m - 6}:3", f"-{m},5,{m}", f"-{m}-{m}:{m}"):
                    yield {"k": "b", "s": t}
        # 3c. expressions of a thousand and more elements (nothing merges: squares, alternating gaps): recursion budgets
        #     and quadratic loops show only here
        for k in ((600, 1100, 2500, 4000) if thorough else (1100, 2500)):
            sq = [i * i for i in range(k)]
            yield {"k": "l", "vs": sq}
            yield {"k": "l", "vs": [str(v) for v in reversed(sq)]}
            alt, v = [], 0
            for i in range(k):
                v += 2 if i % 2 else 3
                alt.append(v)
            yield {"k": "s", "s": ",".join(str(v) for v in alt)}
            yield {"k": "s", "s": ",".join(f"{5 * i}-{5 * i + 1}" for i in range(k))}
        # 4. str(from_list(random list)) fed back as an expression, and a few mutated expressions
        #    (c08.cap_digits bounds the digits per string: these requests enumerate the values and carry them
        #     as OCaml ints; longer numbers go through the long-expression family above)
        for _ in range(10000 if thorough else 1000):
            vs = rand_int_list(rng)
            yield {"k": "s", "s": c08.cap_digits(",".join(str(v) for v in vs))}
        for _ in range(10000 if thorough else 1000):
            yield {"k": "s", "s": c08.cap_digits(c08.mutate(rng, c08.rand_list(rng)))}

    def rule(self, tier):
        return ("corpus (historical failing inputs first); all integer lists of length <= "
                + ("5" if tier == "thorough" else "4")
                + " over [-2,4] (exhaustive); random lists of 1-5 groups (runs of 2-6 values with step 1/2/3/5, or singletons; gaps that may continue a run; "
                "duplicates; negative and large values; shuffled/reversed; 35% with integer strings); every single element a | a-b | a-b:s, a,b in [-6,6], s in [-3,3]; "
                "sampled ordered pairs of elements; random 2-6 element expressions (adjacent/misaligned/overlapping, 20% with blanks); comma lists of random integers; mutated expressions. "
                "expressions with lengths near and beyond 2**63 (pairs of boundary points; 1-3 random ranges whose lengths add up to about 2**63; observed without enumeration: len, r[i] at boundary indices, printed tokens, the same on the re-parse). Observed per object: list, len, r[i] for i in -len-2..len+1, tokens of str(r), list(from_str(str(r))). "
                "distinct = by input; non-trivial = the implementation returned an object with at least 2 values")

    def exhaustive(self, tier):
        return False

    def samples(self, tier, seed):
        rng = random.Random(seed)
        return ([{"from_list": vs} for vs in CORPUS_LISTS[:5]] + [{"from_list": as_strings(rng, rand_int_list(rng))} for _ in range(3)]
                + [{"from_str": c08.rand_list(rng)} for _ in range(4)])

    # ------------------------------------------------------------ the two sides
    def impl(self, case):
        if "limit" in case:
            with int_limit(case["limit"]):
                return bits(self._impl(case))
        return self._impl(case)

    def _impl(self, case):
        try:
            r = IntRangeExpr.from_str(case["s"]) if case["k"] in "sb" else IntRangeExpr.from_list(case["vs"])
        except BaseException as e:  # noqa: BLE001
            return ["raise", exn_family(e)]
        if case["k"] == "b":
            with int_limit(0 if "limit" in case else None):
                idx = big_indices(case["s"])
            text = str(r)
            try:
                toks = lex_tokens(text)
            except BaseException as e:  # noqa: BLE001
                toks = ["raise", exn_family(e)]
            try:
                back = ["ok", describe_big(IntRangeExpr.from_str(text), idx)]
            except BaseException as e:  # noqa: BLE001
                back = ["raise", exn_family(e)]
            return ["ok", [describe_big(r, idx), toks, back]]
        return ["ok", describe(r)]

    def requests(self, case):
        if case["k"] == "b":
            with int_limit(0 if "limit" in case else None):
                return [["big_str", False, False, core.cps(case["s"]), [zb(i) for i in big_indices(case["s"])]]]
        if case["k"] == "s":
            return [["from_str", False, False, core.cps(case["s"]), "auto"]]
        return [["from_list", False, False, [int(v) for v in case["vs"]], "auto"]]

    def model_obs(self, case, replies):
        if "limit" in case:
            lim = case["limit"]
            longest = max((len(m) for m in re.findall(r"[0-9]+", case["s"])), default=0)
            if lim and longest > lim:
                return ["raise", "ExpressionError"]      # int() cannot read it now: refused, and refused as ExpressionError
            with int_limit(0):
                return bits(self._model_obs({k: v for k, v in case.items() if k != "limit"}, replies))
        return self._model_obs(case, replies)

    def _model_obs(self, case, replies):
        if case["k"] == "b":
            if not replies:
                return ["raise", "ExpressionError"]
            r = replies[0]
            if r[0] == "raise":
                return ["raise", model_family(r[1])]
            if r[0] != "ok":
                return ["driver", r]

            def obs(o):
                return [unzb(o[0]), [["ok", unzb(g[1])] if g[0] == "ok" else ["raise", g[1]] for g in o[1]]]
            o, toks, back = r[1]
            o = obs(o)
            if o[0] >= LIMIT:
                # the unbounded model has the object; no Python object can (len() could not answer): the
                # expression has to be refused, like every other expression there is no IntRangeExpr for
                return ["raise", "ExpressionError"]
            toks = [["P", unzb(t[1])] if isinstance(t, list) else t for t in toks]
            back = ["ok", obs(back[1])] if back[0] == "ok" else ["raise", model_family(back[1])]
            return ["ok", [o, toks, back]]
        r = replies[0]
        if r[0] == "raise":
            return ["raise", model_family(r[1])]
        if r[0] == "ok":
            vals, n, gets, toks, back = r[1]
            if back[0] == "raise":
                back = ["raise", model_family(back[1])]
            return ["ok", [vals, n, gets, toks, back]]
        return ["driver", r]

    def nontrivial(self, case):
        if case["k"] == "b":
            return True
        if case["k"] == "l":
            return len(set(int(v) for v in case["vs"])) >= 2
        s = case["s"]
        return "," in s or "-" in s.strip()[1:]

    def classify_case(self, case, obs):
        kind = "from_list" if case["k"] == "l" else "from_str" if case["k"] == "s" else "from_str:long"
        if obs[0] != "ok":
            return [f"{kind}:raise:{obs[1]}"]
        if case["k"] == "b":
            n = obs[1][0][0] if isinstance(obs[1][0][0], int) else -1
            return [f"{kind}:ok", "long:len>=2^62" if n >= 2 ** 62 else "long:len>=2^32" if n >= 2 ** 32 else "long:len<2^32"]
        vals, n, gets, toks, back = obs[1][:5]
        ks = [f"{kind}:ok", f"len={min(n, 8) if n < 8 else '8+'}", f"ranges={min(toks.count('M') + 1, 6)}"]
        if case["k"] == "l" and any(isinstance(v, str) for v in case["vs"]):
            ks.append("from_list:with-strings")
        if "C" in toks:
            ks.append("printed-with-step")
        if vals != sorted(vals):
            ks.append("iteration-not-ascending")
        return ks

    def spec_obs(self, case):
        if case["k"] == "b":
            return ["an expression with fewer than 2**63 values is an IntRangeExpr whose len / r[i] / str agree with the unbounded model; one with more is refused"]
        if case["k"] == "l":
            vs = sorted(set(int(v) for v in case["vs"]))
            return ["sorted distinct values; len; r[i] = values[i]", vs, len(vs)] if vs else ["empty list: outside the property"]
        drv = core.Driver(self.component)
        replies, _ = drv.ask([["spec", core.cps(case["s"])]], self.prelude())
        r = replies[0]
        if r == "none" or (isinstance(r, list) and r[0] == "raise"):
            return ["rejected (C08)"]
        return ["accepted; the values (ascending), len = their number, str re-parses to the iteration order", r[1]]

    def shrink_candidates(self, case):
        if case["k"] == "l":
            vs = case["vs"]
            for i in range(len(vs)):
                yield {"k": "l", "vs": vs[:i] + vs[i + 1:]}
            for i, v in enumerate(vs):
                if isinstance(v, str):
                    yield {"k": "l", "vs": vs[:i] + [int(v)] + vs[i + 1:]}
            return
        s = case["s"]
        parts = s.split(",")
        if len(parts) > 1:
            for i in range(len(parts)):
                yield {"k": case["k"], "s": ",".join(parts[:i] + parts[i + 1:])}
        if case["k"] == "b":
            return            # never hand a long expression to the enumerating requests
        for i in range(len(s)):
            t = s[:i] + s[i + 1:]
            if t == c08.cap_digits(t):
                yield {"k": "s", "s": t}


PROP = C13()

if __name__ == "__main__":
    sys.exit(core.main(PROP, sys.argv[1:]))
