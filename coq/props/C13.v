(* props/C13.v — IntRangeExpr is a consistent finite sequence with a canonical text form.
   IsExpr e (RangeExpr.v) := e was built by IntRangeExpr.__init__ (flag-off mk_expr) from IntRange
   objects; C13_parse_is_expr / C13_from_list show that from_str and from_list produce such e.
   elems e = what iteration yields (chain of the ranges);  elen e = len(e);  getitem e i = e[i];
   expr_tokens e = the tokens of str(e). *)
From Coq Require Import List NArith ZArith.
Import ListNotations.
Require Import OJD.Base OJD.Lexer OJD.RangeExpr OJD.RangeExprSpec OJD.RangeExprProofs.
Local Open Scope Z_scope.

(* "12-12:5,10-1:-3,0" : a one-value stepped range, a descending range, a single value *)
Definition w4 : list tok :=
  [TPosInt 12; THyphen; TPosInt 12; TColon; TPosInt 5; TComma;
   TPosInt 10; THyphen; TPosInt 1; TColon; THyphen; TPosInt 3; TComma; TPosInt 0].

Theorem C13_parse_is_expr : forall ts e, parse_tokens false false ts = Ok e -> IsExpr e.
Proof. exact parse_tokens_IsExpr. Qed.
Print Assumptions C13_parse_is_expr.

(* the hypothesis IsExpr of the theorems below is met by a non-trivial expression *)
Example C13_IsExpr_nonvacuous :
  exists e, IsExpr e /\ elems e = [0; 10; 7; 4; 1; 12] /\ elen e = 6 /\
            getitem e (-2) = Ok 1 /\ getitem e 6 = Raise IndexError /\
            expr_tokens e = [TPosInt 0; TComma; TPosInt 10; THyphen; TPosInt 1; TColon; THyphen; TPosInt 3; TComma; TPosInt 12].
Proof.
  assert (H : exists e, parse_tokens false false w4 = Ok e) by (eexists; vm_compute; reflexivity).
  destruct H as (e & H). exists e. split; [exact (parse_tokens_IsExpr _ _ H)|].
  vm_compute in H. inversion H; subst e. repeat split; vm_compute; reflexivity.
Qed.

(* len(r) = number of values iteration yields *)
Theorem C13_len : forall e, IsExpr e -> elen e = Z.of_nat (length (elems e)).
Proof. exact len_correct. Qed.
Print Assumptions C13_len.

(* r[i] = the i-th iterated value (Python index normalisation) for -len <= i < len, IndexError otherwise *)
Theorem C13_getitem :
  forall e i, IsExpr e ->
    (- elen e <= i < elen e -> getitem e i = Ok (nth (Z.to_nat (i mod elen e)) (elems e) 0)) /\
    (~ (- elen e <= i < elen e) -> getitem e i = Raise IndexError).
Proof. exact getitem_correct. Qed.
Print Assumptions C13_getitem.

(* str(r) is a valid expression that parses back to the same values in the same order *)
Theorem C13_str_roundtrip :
  forall e, IsExpr e ->
    exists e', parse_tokens false false (expr_tokens e) = Ok e' /\ elems e' = elems e.
Proof. exact str_roundtrip. Qed.
Print Assumptions C13_str_roundtrip.

(* from_list of a non-empty list: an IntRangeExpr whose values are the sorted distinct integers *)
Theorem C13_from_list :
  forall vs, vs <> [] ->
    exists e, from_list false false vs = Ok e /\ elems e = sort_dedup vs /\ IsExpr e.
Proof. exact from_list_correct. Qed.
Print Assumptions C13_from_list.

(* ... where sort_dedup vs is THE strictly increasing list with the same members as vs *)
Theorem C13_sort_dedup_spec :
  forall vs,
    strictly_increasing (sort_dedup vs) /\
    (forall x, In x (sort_dedup vs) <-> In x vs) /\
    (forall l, strictly_increasing l -> (forall x, In x l <-> In x vs) -> l = sort_dedup vs).
Proof. exact sort_dedup_spec. Qed.
Print Assumptions C13_sort_dedup_spec.

Example C13_from_list_nonvacuous :
  (exists e, from_list false false [1; 2; 4] = Ok e /\ elems e = [1; 2; 4]) /\
  (exists e, from_list false false [5; 5] = Ok e /\ elems e = [5]) /\
  (exists e, from_list false false [4; -1; 1; 2; 4; 5; 3; 9] = Ok e /\ elems e = [-1; 1; 2; 3; 4; 5; 9]).
Proof. repeat split; eexists; split; vm_compute; reflexivity. Qed.

(* ---- regression documentation: the pinned (pre-fix) from_list violates the property ---- *)
(* defect #3 (fixed by ec66385): stale `end` after a run; `end` unbound when all values are equal *)
Theorem C13_pinned_from_list_refuted :
  (exists vs, vs <> [] /\ from_list false true vs = Raise ValueError) /\
  (exists vs, vs <> [] /\ from_list false true vs = Raise UnboundLocalError).
Proof.
  split; [exists [1; 2; 4]|exists [5; 5]]; (split; [discriminate|vm_compute; reflexivity]).
Qed.
Print Assumptions C13_pinned_from_list_refuted.
