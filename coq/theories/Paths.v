(* Paths.v — executable model of the POSIX path handling behind property C11.

   Code modelled (definitions only, no proofs):
     * CPython 3.12 posixpath.py : splitroot, join, normpath (the pure-Python algorithm; the
       C accelerator posix._path_normpath is tied to it by the harness' stdlib sweep);
     * CPython 3.12 pathlib.py (PurePosixPath) : _parse_path, _format_parsed_parts/__str__,
       parts, is_absolute, joinpath/__truediv__, parents, __eq__, is_relative_to;
     * /repo/src/openjd/model/_create_job.py : _collect_defaults_2023_09 (PATH branches),
       the wrapper preprocess_job_parameters (PATH parameters only, no constraints) and the
       server-mode call made by create_job.

   Strings are [str] = list N of code points; '/' = 47, '.' = 46.  Windows flavour is NOT
   modelled.

   A pathlib Path object is represented by its single raw string: PurePath.__init__ keeps
   the list _raw_paths and _load_parts joins it with posixpath.join (a left fold) before
   parsing, so Path(a) / b has the raw string [pjoin a b]; Path() and Path("") both parse
   from "".  PurePosixPath.is_absolute() is "some raw path starts with '/'", which for a
   posixpath.join-ed list is the same as "the joined string starts with '/'". *)
From Coq Require Import List NArith Bool.
Import ListNotations.
Require Import OJD.Base.

Definition SEP : N := 47%N.
Definition DOT : N := 46%N.
Definition s_dot : str := [DOT].
Definition s_dotdot : str := [DOT; DOT].

Definition is_sep (c : N) : bool := N.eqb c SEP.
Definition is_nil {A : Type} (l : list A) : bool := match l with [] => true | _ :: _ => false end.
Definition is_dot (c : str) : bool := str_eqb c s_dot.
Definition is_dotdot (c : str) : bool := str_eqb c s_dotdot.

(* s.startswith('/') , s.endswith('/') *)
Definition starts_with_sep (s : str) : bool :=
  match s with c :: _ => is_sep c | [] => false end.
Definition ends_with_sep (s : str) : bool := is_sep (last s 0%N).

(* s.split('/') : never the empty list *)
Fixpoint split_sep (s : str) : list str :=
  match s with
  | [] => [[]]
  | c :: r =>
    if is_sep c then [] :: split_sep r
    else match split_sep r with
         | h :: t => (c :: h) :: t
         | [] => [[c]]              (* unreachable: split_sep never returns [] *)
         end
  end.

(* '/'.join(l) *)
Fixpoint join_sep (l : list str) : str :=
  match l with
  | [] => []
  | x :: r => match r with [] => x | _ :: _ => x ++ SEP :: join_sep r end
  end.

(* ------------------------------------------------------------------ posixpath *)

(* posixpath.splitroot (drive is always ''): (root, rest) *)
Definition splitroot (p : str) : str * str :=
  match p with
  | [] => ([], p)
  | c0 :: p1 =>
    if negb (is_sep c0) then ([], p)                           (* p[:1] != sep *)
    else match p1 with
         | [] => ([SEP], p1)                                   (* p[1:2] != sep *)
         | c1 :: p2 =>
           if negb (is_sep c1) then ([SEP], p1)                (* p[1:2] != sep *)
           else match p2 with
                | [] => ([SEP; SEP], p2)                       (* exactly two *)
                | c2 :: _ => if is_sep c2 then ([SEP], p1)     (* p[2:3] == sep *)
                             else ([SEP; SEP], p2)
                end
         end
  end.

(* posixpath.join(a, b) *)
Definition pjoin (a b : str) : str :=
  if starts_with_sep b then b
  else if is_nil a || ends_with_sep a then a ++ b
  else a ++ SEP :: b.

(* the component filter shared by pathlib and normpath: drop '' and '.' *)
Definition keep_comp (c : str) : bool := negb (is_nil c) && negb (is_dot c).

(* posixpath.normpath's loop.  [stk] is new_comps REVERSED (head = new_comps[-1]);
   [rooted] is bool(initial_slashes). *)
Fixpoint norm_loop (rooted : bool) (comps : list str) (stk : list str) : list str :=
  match comps with
  | [] => rev stk
  | c :: r =>
    if is_nil c || is_dot c then norm_loop rooted r stk
    else if negb (is_dotdot c)
            || (negb rooted && is_nil stk)
            || (match stk with h :: _ => is_dotdot h | [] => false end)
         then norm_loop rooted r (c :: stk)
         else match stk with
              | _ :: s' => norm_loop rooted r s'       (* new_comps.pop() *)
              | [] => norm_loop rooted r stk           (* '..' at the root: dropped *)
              end
  end.

Definition normpath (p : str) : str :=
  if is_nil p then s_dot
  else
    let '(root, rest) := splitroot p in
    let s := root ++ join_sep (norm_loop (negb (is_nil root)) (split_sep rest) []) in
    if is_nil s then s_dot else s.

(* ------------------------------------------------------------------ pathlib *)

(* a parsed PurePosixPath: (root, tail); the drive is always '' *)
Definition ppath : Type := (str * list str)%type.

(* PurePath._parse_path *)
Definition parse (p : str) : ppath :=
  if is_nil p then ([], [])
  else let '(root, rest) := splitroot p in (root, filter keep_comp (split_sep rest)).

(* PurePath.parts *)
Definition pparts (pp : ppath) : list str :=
  if is_nil (fst pp) then snd pp else fst pp :: snd pp.
Definition parts (s : str) : list str := pparts (parse s).

(* PurePath.__str__ = _format_parsed_parts(...) or '.' *)
Definition to_str (pp : ppath) : str :=
  let s := if negb (is_nil (fst pp)) then fst pp ++ join_sep (snd pp) else join_sep (snd pp) in
  if is_nil s then s_dot else s.

(* str(Path(raw)) *)
Definition path_str (raw : str) : str := to_str (parse raw).

(* PurePosixPath.is_absolute on the raw string *)
Definition is_absolute (raw : str) : bool := starts_with_sep raw.

(* Path(a) / b : raw string of the result *)
Definition join (a b : str) : str := pjoin a b.

(* tails of PurePath.parents, in sequence order: tail[:-1], tail[:-2], ..., tail[:0] *)
Definition parent_tails (t : list str) : list (list str) :=
  map (fun k => firstn k t) (rev (seq 0 (length t))).

(* self.is_relative_to(other):  other == self or other in self.parents ;
   __eq__ compares str() of both sides (posix is case sensitive) *)
Definition is_relative_to (self other : ppath) : bool :=
  let so := to_str other in
  str_eqb so (to_str self)
  || existsb (fun t => str_eqb so (to_str (fst self, t))) (parent_tails (snd self)).

(* ------------------------------------------------------------------ _create_job.py *)

(* body of the loop of _collect_defaults_2023_09 for a PATH parameter that is NOT in
   job_parameter_values and has default [default] *)
Definition default_body (dir : str) (walkup : bool) (default : str) : outcome str :=
  if is_nil default then Ok default                              (* default != "" fails *)
  else if is_absolute default then
    (if negb walkup then Raise ValueError else Ok default)
  else if is_absolute dir then
    let dp := parse (normpath (path_str (join dir default))) in  (* Path(normpath(dir / default)) *)
    if negb walkup && negb (is_relative_to dp (parse dir)) then Raise ValueError
    else Ok (to_str dp)
  else Ok default.

(* the check that precedes the loop *)
Definition dir_check (dir : str) (walkup : bool) : bool :=
  negb walkup && negb (is_absolute dir).

(* one PATH parameter with a default, nothing supplied *)
Definition collect_path_default (dir : str) (walkup : bool) (default : str) : outcome str :=
  if dir_check dir walkup then Raise ValueError else default_body dir walkup default.

(* a supplied PATH value *)
Definition path_supplied (cwd v : str) : str :=
  if negb (is_nil v) && negb (is_absolute v) then path_str (join cwd v) else v.

(* a PATH parameter as the loop sees it *)
Inductive pparam : Type :=
| PSupplied (v : str)        (* name in job_parameter_values *)
| PDefault (d : str)         (* not supplied, default present *)
| PRequired.                 (* not supplied, no default: left out of the result *)

Definition collect_one (dir cwd : str) (walkup : bool) (p : pparam) : outcome (option str) :=
  match p with
  | PSupplied v => Ok (Some (path_supplied cwd v))
  | PDefault d => do v <- default_body dir walkup d; Ok (Some v)
  | PRequired => Ok None
  end.

Definition collect_defaults (dir cwd : str) (walkup : bool) (ps : list pparam)
  : outcome (list (option str)) :=
  if dir_check dir walkup then Raise ValueError else mapM (collect_one dir cwd walkup) ps.

Fixpoint all_some {A : Type} (l : list (option A)) : option (list A) :=
  match l with
  | [] => Some []
  | Some x :: r => match all_some r with Some xs => Some (x :: xs) | None => None end
  | None :: _ => None
  end.

(* preprocess_job_parameters restricted to unconstrained PATH parameters (no extra names):
   a ValueError of the collection is caught and re-raised as ValueError, anything else would
   propagate; a parameter left without value is "missing" -> ValueError; with no parameter
   definitions at all the collection is not even called. *)
Definition preprocess_paths (dir cwd : str) (walkup : bool) (ps : list pparam)
  : outcome (list str) :=
  match ps with
  | [] => Ok []
  | _ :: _ =>
    match collect_defaults dir cwd walkup ps with
    | Raise ValueError => Raise ValueError
    | Raise e => Raise e
    | Ok vs => match all_some vs with Some l => Ok l | None => Raise ValueError end
    end
  end.

(* create_job's call: Path() for both directories, walk-up allowed *)
Definition server_value (v : str) : str := path_supplied [] v.
Definition server_default (d : str) : outcome str := collect_path_default [] true d.
Definition server_preprocess (ps : list pparam) : outcome (list str) :=
  preprocess_paths [] [] true ps.
