(* FsRefs.v — the format-string front end the scope walker and job creation use:
   FormatString(value).expressions -> referenced names (None = FormatString(value) raises). *)
From Coq Require Import List NArith Bool.
Import ListNotations.
Require Import OJD.Base OJD.Lexer OJD.FormatStr.

Definition fs_refs (classify : N -> cclass) (s : str) : option (list str) :=
  match mk classify s with
  | Ok f => Some (map (fun x => fst (fst x)) (expressions f))
  | Raise _ => None
  end.
