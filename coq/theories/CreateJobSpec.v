(* CreateJobSpec.v — specification of C05 on the raw template DOCUMENT (no metadata): the Job's
   object form is the template with creation-time substitutions and nothing else.

     name, task-parameter ranges, host-requirement names and attribute values:
         every string is replaced by its single-pass substitution [resolve sigma] (C16);
     parameters: { <name>: { type, value = final value, description? } } for the template's own
         parameterDefinitions;  taskParameterDefinitions becomes a map keyed by name, without name;
     numbers that the Job stores as text (INT/FLOAT range items, amount bounds) are printed;
     specificationVersion and $schema are dropped;
     everything else — steps and their order, scripts, environments, dependencies, descriptions,
         combination — is carried over unchanged (explicit nulls are absent members).
   Executable; extracted as the spec oracle. *)
From Coq Require Import List NArith ZArith Bool String.
Import ListNotations.
Require Import OJD.Base OJD.Json OJD.NumPrint OJD.CreateJob.
Local Open Scope string_scope.
Local Open Scope list_scope.

Section Spec.
  Variable resolve : symtab -> str -> outcome str.
  Variable sigma : symtab.

  (* an absent member and an explicit null are the same document *)
  Fixpoint strip_nulls (fuel : nat) (j : json) : json :=
    match fuel with
    | O => j
    | S f =>
      match j with
      | JArr l => JArr (map (strip_nulls f) l)
      | JObj ms => JObj (flat_map (fun kv => match snd kv with
                                             | JNull => []
                                             | x => [(fst kv, strip_nulls f x)]
                                             end) ms)
      | _ => j
      end
    end.
  Definition same (j : json) : json := strip_nulls (json_depth j) j.

  Definition subst (v : json) : outcome json :=
    match v with
    | JStr s => do r <- resolve sigma s; Ok (JStr r)
    | _ => Ok v
    end.

  (* a number where the Job holds text *)
  Definition as_text (v : json) : outcome json :=
    match v with
    | JInt z => Ok (JStr (print_Z z))
    | JDec m e => Ok (JStr (print_dec m e))
    | _ => subst v
    end.

  Definition opt (k : string) (v : json) : list (str * json) :=
    match v with JNull => [] | _ => [(str_of_string k, v)] end.

  Definition items (v : json) : list json := match v with JArr l => l | _ => [] end.

  Definition map_arr (f : json -> outcome json) (v : json) : outcome json :=
    match v with
    | JArr l => do l' <- mapM f l; Ok (JArr l')
    | JNull => Ok JNull
    | _ => Raise TypeError
    end.

  Definition task_param (tp : json) : outcome (str * json) :=
    match jget "name" tp with
    | JStr n =>
      do r <- match jget "range" tp with
              | JArr l => do l' <- mapM as_text l; Ok (JArr l')
              | x => subst x
              end;
      Ok (n, JObj [($"type", jget "type" tp); ($"range", r)])
    | _ => Raise TypeError
    end.

  Definition param_space (ps : json) : outcome json :=
    match ps with
    | JNull => Ok JNull
    | _ =>
      do tps <- mapM task_param (items (jget "taskParameterDefinitions" ps));
      Ok (JObj ([($"taskParameterDefinitions", JObj tps)] ++ opt "combination" (jget "combination" ps)))
    end.

  Definition amount (a : json) : outcome json :=
    do n <- subst (jget "name" a);
    do mn <- as_text (jget "min" a);
    do mx <- as_text (jget "max" a);
    Ok (JObj ([($"name", n)] ++ opt "min" mn ++ opt "max" mx)).

  Definition attribute (a : json) : outcome json :=
    do n <- subst (jget "name" a);
    do any <- map_arr subst (jget "anyOf" a);
    do all <- map_arr subst (jget "allOf" a);
    Ok (JObj ([($"name", n)] ++ opt "anyOf" any ++ opt "allOf" all)).

  Definition host_req (h : json) : outcome json :=
    match h with
    | JNull => Ok JNull
    | _ =>
      do ams <- map_arr amount (jget "amounts" h);
      do ats <- map_arr attribute (jget "attributes" h);
      Ok (JObj (opt "amounts" ams ++ opt "attributes" ats))
    end.

  Definition step (st : json) : outcome json :=
    do ps <- param_space (jget "parameterSpace" st);
    do hr <- host_req (jget "hostRequirements" st);
    Ok (JObj ([($"name", jget "name" st); ($"script", same (jget "script" st))]
              ++ opt "description" (jget "description" st)
              ++ opt "stepEnvironments" (same (jget "stepEnvironments" st))
              ++ opt "parameterSpace" ps
              ++ opt "hostRequirements" hr
              ++ opt "dependencies" (same (jget "dependencies" st)))).

  Definition job_param (p : json) : outcome (str * json) :=
    match jget "name" p with
    | JStr n =>
      match st_lookup sigma ($"RawParam." ++ n) with
      | Some v => Ok (n, JObj ([($"type", jget "type" p); ($"value", JStr v)] ++ opt "description" (jget "description" p)))
      | None => Raise KeyError
      end
    | _ => Raise TypeError
    end.

  Definition expected_job (j : json) : outcome json :=
    do n <- subst (jget "name" j);
    do steps <- mapM step (items (jget "steps" j));
    do params <- match jget "parameterDefinitions" j with
                 | JNull => Ok JNull
                 | pd => do ps <- mapM job_param (items pd); Ok (JObj ps)
                 end;
    Ok (JObj ([($"name", n); ($"steps", JArr steps)]
              ++ opt "description" (jget "description" j)
              ++ opt "parameters" params
              ++ opt "jobEnvironments" (same (jget "jobEnvironments" j)))).
End Spec.
