(* Extraction of the glue definitions (C09 conformance, C18 slot model). ExtrOcamlBasic only. *)
From Coq Require Import Extraction ExtrOcamlBasic List NArith ZArith String.
Require Import OJD.Base OJD.Lexer OJD.Numerals OJD.FormatStr OJD.Glue.
Extraction Language OCaml.
Definition history (classify : N -> cclass) (s : str) (init : list (option str)) (sigmas : list symtab) : outcome (list (outcome str)) :=
  match mk classify s with
  | Ok f => Ok (resolve_history f init sigmas)
  | Raise e => Raise e
  end.
Definition isolated (classify : N -> cclass) (s : str) (sigma : symtab) : outcome str :=
  match mk classify s with
  | Ok f => resolve sigma f
  | Raise e => Raise e
  end.
Extraction "Model.ml" exn_eqb ascii_ok ascii_class conforms_job conforms_task history isolated sumZ.
