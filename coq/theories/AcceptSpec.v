(* AcceptSpec.v — the acceptance model run on the FROZEN specification table (SchemaSpec.spec_schema)
   instead of the table read from the live classes: the spec oracle of C01/C02.  When a limit, kind or
   required flag changes in the code, Generated.schema (and with it Accept.decode_job) follows the
   code; this oracle does not, so the documents on which the two disagree are the failing inputs of
   the broken C01_table / C02_table obligation.  Definitions only (no dependency on any proof). *)
From Coq Require Import List NArith ZArith Bool String.
Import ListNotations.
Require Import OJD.Base OJD.Lexer OJD.Json OJD.Schema OJD.SchemaSpec OJD.CreateJob OJD.Parse OJD.Validators OJD.Accept.
Local Open Scope string_scope.

Section Spec.
  Variable classify : N -> cclass.

  Definition spec_parse_template (root : string) (j : json) : outcome mval :=
    parse_root spec_schema classify pre_hook (post_hook classify) root j.

  Definition spec_decode_job (j : json) : outcome mval :=
    match j with
    | JObj _ => if version_ok ["jobtemplate-2023-09"] j then spec_parse_template "JobTemplate" j else Raise ValueError
    | _ => Raise RuntimeError
    end.

  Definition spec_decode_env (j : json) : outcome mval :=
    match j with
    | JObj _ => if version_ok ["environment-2023-09"] j then spec_parse_template "EnvironmentTemplate" j else Raise ValueError
    | _ => Raise RuntimeError
    end.
End Spec.
