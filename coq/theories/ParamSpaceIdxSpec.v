(* ParamSpaceIdxSpec.v — what ties the length-tree arithmetic (ParamSpaceIdx.v) to the
   value-list model (ParamSpace.v): the tree of lengths of a value tree, and the dict of
   VALUES that a dict of POSITIONS stands for.  Definitions only. *)
From Coq Require Import List NArith ZArith Bool.
Import ListNotations.
Require Import OJD.Base OJD.ParamSpace OJD.ParamSpaceSpec OJD.ParamSpaceIdx.
Local Open Scope Z_scope.

(* forget the values, keep name and len() of every leaf *)
Fixpoint shape (t : node) : ltree :=
  match t with
  | Leaf n _ vs => LLeaf n (Z.of_nat (length vs))
  | Prod cs => LProd (map shape cs)
  | Assoc cs => LAssoc (map shape cs)
  end.

(* the ParameterValue of the leaf named [n] of [t] at position [p] of its range *)
Definition value_at (t : node) (n : str) (p : Z) : pval :=
  match find_param (leaves t) n with
  | Ok (_, ty, vs) => (ty, nth (Z.to_nat p) vs [])
  | Raise _ => (TInt, [])
  end.

(* name -> position  becomes  name -> ParameterValue(type of that leaf, range[position]) *)
Definition env_at (t : node) (pos : penv) : env :=
  map (fun np => (fst np, value_at t (fst np) (snd np))) pos.

(* one dict entry name -> (ty, v) is what the entry name -> p selects: some leaf of [t] has that
   name and type, p is inside its range and v is its p-th value.  (Usable without any
   assumption on the names of [t]; with distinct names it is [env_at].) *)
Definition Ent (t : node) (e : str * pval) (p : str * Z) : Prop :=
  fst e = fst p /\
  exists vs, In (fst e, fst (snd e), vs) (leaves t) /\
             0 <= snd p < Z.of_nat (length vs) /\
             snd (snd e) = nth (Z.to_nat (snd p)) vs [].

(* leaf names of a length tree, left to right *)
Fixpoint lnames (t : ltree) : list str :=
  match t with
  | LLeaf n _ => [n]
  | LProd cs => flat_map lnames cs
  | LAssoc cs => flat_map lnames cs
  end.

(* a value tree for any list of (name, length): the product of INT leaves holding [length] values
   (used only to show that length trees of ANY size are shapes of valid value trees; never computed) *)
Definition vleaf_of (nl : str * Z) : node := Leaf (fst nl) TInt (repeat [48%N] (Z.to_nat (snd nl))).
Definition vprod_of (nls : list (str * Z)) : node := Prod (map vleaf_of nls).
