# C05 / C17 / C19 probe on a feature-rich template: expected-job transformation written on the raw document,
# serialisation round trips, key-order / YAML / blank invariance.
import copy, json, random, re, sys, yaml
from decimal import Decimal
from pathlib import Path
from openjd.model import (decode_job_template, preprocess_job_parameters, create_job, DecodeValidationError,
                          document_string_to_object, DocumentType)
from openjd.model._parse import model_to_object, parse_model
from openjd.model.v2023_09._model import Job
def env(name):
    return {"name": name, "description": "env {{ Not.A.Ref }}", "variables": {"V1": "{{Param.Pp}} {{RawParam.Ps}}", "V_2": ""},
            "script": {"actions": {"onEnter": {"command": "{{Env.File.f}}", "args": ["{{Session.WorkingDirectory}}", ""], "timeout": 5,
                                               "cancelation": {"mode": "NOTIFY_THEN_TERMINATE", "notifyPeriodInSeconds": 600}},
                                   "onExit": {"command": "c", "cancelation": {"mode": "TERMINATE"}}},
                       "embeddedFiles": [{"name": "f", "type": "TEXT", "data": "{{Param.Ps}}", "filename": "fn", "runnable": True}]}}
def template():
    return {"specificationVersion": "jobtemplate-2023-09", "$schema": "http://x", "name": "N {{Param.Ps}}-{{ RawParam.Pi }}", "description": "{{ Also.Not }}",
      "parameterDefinitions": [
         {"name": "Ps", "type": "STRING", "description": "dd", "minLength": 1, "maxLength": 20, "allowedValues": ["ab", "{{Param.Pi}}"], "default": "ab", "userInterface": {"control": "DROPDOWN_LIST", "label": "L", "groupLabel": "G"}},
         {"name": "Pi", "type": "INT", "minValue": -3, "maxValue": "7", "default": 2, "userInterface": {"control": "SPIN_BOX", "singleStepDelta": 2}},
         {"name": "Pf", "type": "FLOAT", "minValue": 0.5, "allowedValues": [1.5, "2.50"], "default": 1.5, "userInterface": {"control": "DROPDOWN_LIST"}},
         {"name": "Pp", "type": "PATH", "objectType": "FILE", "dataFlow": "IN", "default": "a/b", "userInterface": {"control": "CHOOSE_INPUT_FILE", "fileFilters": [{"label": "x", "patterns": ["*.png", "*"]}], "fileFilterDefault": {"label": "y", "patterns": ["*.*"]}}}],
      "jobEnvironments": [env("JE1")],
      "steps": [
        {"name": "S1", "description": "sd", "stepEnvironments": [env("SE1")],
         "parameterSpace": {"taskParameterDefinitions": [
              {"name": "Ti", "type": "INT", "range": [1, "2", "{{Param.Pi}}"]}, {"name": "Tr", "type": "INT", "range": "1 - {{Param.Pi}}"},
              {"name": "Tf", "type": "FLOAT", "range": [1.5, "2", "{{Param.Pf}}"]}, {"name": "Ts", "type": "STRING", "range": ["x", "{{Param.Ps}}", "{{RawParam.Pp}}"]},
              {"name": "Tp", "type": "PATH", "range": ["y", "z", "w"]}], "combination": "(Ti, Tf, Ts, Tp) * Tr"},
         "hostRequirements": {"amounts": [{"name": "amount.worker.vcpu", "min": 1, "max": 2.5}, {"name": "amount.{{Param.Ps}}", "min": 0}],
                              "attributes": [{"name": "attr.worker.os.family", "anyOf": ["linux"]}, {"name": "attr.custom", "anyOf": ["v", "{{Param.Ps}}"]}, {"name": "acme:attr.x", "allOf": ["a-b", "c"]}]},
         "script": {"actions": {"onRun": {"command": "{{Task.Param.Ti}}", "args": ["{{Task.File.tf1}}", "{{Param.Ps}}"]}}, "embeddedFiles": [{"name": "tf1", "type": "TEXT", "data": "{{Task.RawParam.Ts}}"}]}},
        {"name": "S2", "dependencies": [{"dependsOn": "S1"}], "script": {"actions": {"onRun": {"command": "c"}}}}]}
FS = re.compile(r"\{\{\s*([\w.]+?)\s*\}\}")
def subst(s, sym):   # single pass, left to right, no re-expansion
    return FS.sub(lambda m: str(sym[m.group(1)]), s)
def num(x):  # pydantic Decimal export -> str
    return str(Decimal(str(x)))
def expected_job(doc, final):
    sym = {}
    for p in doc.get("parameterDefinitions", []):
        if p["type"] != "PATH": sym["Param." + p["name"]] = final[p["name"]]
        sym["RawParam." + p["name"]] = final[p["name"]]
    job = {"name": subst(doc["name"], sym)}
    if "description" in doc: job["description"] = doc["description"]
    if "parameterDefinitions" in doc:
        job["parameters"] = {}
        for p in doc["parameterDefinitions"]:
            e = {"type": p["type"], "value": final[p["name"]]}
            if "description" in p: e["description"] = p["description"]
            job["parameters"][p["name"]] = e
    if "jobEnvironments" in doc: job["jobEnvironments"] = copy.deepcopy(doc["jobEnvironments"])
    job["steps"] = []
    for s in doc["steps"]:
        t = {k: copy.deepcopy(v) for k, v in s.items() if k not in ("parameterSpace", "hostRequirements")}
        if "parameterSpace" in s:
            ps = {"taskParameterDefinitions": {}}
            for tp in s["parameterSpace"]["taskParameterDefinitions"]:
                r = tp["range"]
                if isinstance(r, str): rr = subst(r, sym)
                else:
                    rr = []
                    for x in r:
                        if isinstance(x, str) and "{{" in x: rr.append(subst(x, sym))
                        elif tp["type"] == "INT": rr.append(str(int(x)))
                        elif tp["type"] == "FLOAT": rr.append(num(x))
                        else: rr.append(x)
                ps["taskParameterDefinitions"][tp["name"]] = {"type": tp["type"], "range": rr}
            if "combination" in s["parameterSpace"]: ps["combination"] = s["parameterSpace"]["combination"]
            t["parameterSpace"] = ps
        if "hostRequirements" in s:
            h = {}
            if "amounts" in s["hostRequirements"]:
                h["amounts"] = [{**{k: num(v) for k, v in a.items() if k != "name"}, "name": subst(a["name"], sym)} for a in s["hostRequirements"]["amounts"]]
            if "attributes" in s["hostRequirements"]:
                h["attributes"] = [{**{k: [subst(x, sym) for x in v] for k, v in a.items() if k != "name"}, "name": subst(a["name"], sym)} for a in s["hostRequirements"]["attributes"]]
            t["hostRequirements"] = h
        job["steps"].append(t)
    return job
def canon(o): return json.dumps(o, sort_keys=True, default=str)
def make(doc, vals):
    jt = decode_job_template(template=doc)
    pv = preprocess_job_parameters(job_template=jt, job_parameter_values=vals, job_template_dir=Path("/t"), current_working_dir=Path("/c"))
    return jt, pv, create_job(job_template=jt, job_parameter_values=pv)
doc = template(); bad = 0
for vals in [{}, {"Ps": "x3", "Pi": "3", "Pf": "2.5", "Pp": "/x/{{Param.Ps}}"}, {"Ps": "ab", "Pi": " 3 ", "Pf": "1.50"}]:
    vals = dict(vals)
    if vals.get("Ps") == "x3": doc2 = copy.deepcopy(doc); doc2["parameterDefinitions"][0]["allowedValues"] = ["ab", "x3"]
    else: doc2 = doc
    try: jt, pv, job = make(doc2, vals)
    except Exception as e: print("CREATE FAILED", type(e).__name__, str(e)[:300]); bad += 1; continue
    final = {k: v.value for k, v in pv.items()}
    got = model_to_object(model=job); want = expected_job(doc2, final)
    # normalise enum objects in got
    got = json.loads(json.dumps(got, default=lambda o: o.value if hasattr(o, "value") else str(o)))
    if canon(got) != canon(want):
        bad += 1
        for k in want:
            if canon(got.get(k)) != canon(want[k]): print("C05 DIFF at", k, "\n got ", canon(got.get(k))[:600], "\n want", canon(want[k])[:600])
    # C17 for jobs
    try:
        j2 = parse_model(model=Job, obj=model_to_object(model=job))
        if j2 != job: bad += 1; print("C17 job roundtrip differs")
    except Exception as e: bad += 1; print("C17 job reparse", type(e).__name__, str(e)[:300])
print("C05/C17-job bad", bad)
# C17 template: plain data, json/yaml fixpoint, faithful, redecode equal
jt = decode_job_template(template=doc); o = model_to_object(model=jt); bad = 0
def plain(x):
    if isinstance(x, dict): return all(isinstance(k, str) and plain(v) for k, v in x.items())
    if isinstance(x, list): return all(plain(v) for v in x)
    return type(x) in (str, int, bool, float)
if not plain(o): bad += 1; print("C17 not plain data:", [type(v) for v in o.values()])
try:
    if json.loads(json.dumps(o)) != o: bad += 1; print("C17 json fixpoint")
    if yaml.safe_load(yaml.safe_dump(o)) != o: bad += 1; print("C17 yaml fixpoint")
except Exception as e: bad += 1; print("C17 dump", type(e).__name__, e)
try:
    if decode_job_template(template=json.loads(json.dumps(o, default=str))) != jt: bad += 1; print("C17 redecode differs")
except Exception as e: bad += 1; print("C17 redecode", type(e).__name__, str(e)[:200])
print("C17 template bad", bad, "keys", sorted(o))
# C19: key order, YAML, blanks
def shuffle_keys(x, rnd):
    if isinstance(x, dict):
        ks = list(x); rnd.shuffle(ks); return {k: shuffle_keys(x[k], rnd) for k in ks}
    if isinstance(x, list): return [shuffle_keys(v, rnd) for v in x]
    return x
rnd = random.Random(3); bad = 0
base_job = canon(model_to_object(model=make(doc, {})[2]))
for i in range(30):
    d2 = shuffle_keys(doc, rnd)
    if canon(model_to_object(model=make(d2, {})[2])) != base_job: bad += 1; print("C19 key order changed job")
d3 = document_string_to_object(document=yaml.safe_dump(doc), document_type=DocumentType.YAML)
d4 = document_string_to_object(document=json.dumps(doc), document_type=DocumentType.JSON)
if d3 != doc or d4 != doc: bad += 1; print("C19 yaml/json object differs")
def blanks(x):
    if isinstance(x, dict): return {k: blanks(v) for k, v in x.items()}
    if isinstance(x, list): return [blanks(v) for v in x]
    if isinstance(x, str) and "{{" in x: return FS.sub(lambda m: "{{  " + m.group(1).replace(".", " . ") + " }}", x)
    return x
d5 = blanks(doc); d5["steps"][0]["parameterSpace"]["combination"] = "( Ti ,Tf,  Ts , Tp )*Tr"
j5 = model_to_object(model=make(d5, {})[2]); j0 = model_to_object(model=make(doc, {})[2])
for j in (j5, j0):
    for s in j["steps"]:
        if "parameterSpace" in s: s["parameterSpace"].pop("combination", None)
def strip_fs(x):
    if isinstance(x, dict): return {k: strip_fs(v) for k, v in x.items()}
    if isinstance(x, list): return [strip_fs(v) for v in x]
    if isinstance(x, str) and "{{" in x: return re.sub(r"\s+", "", x)
    return x
if canon(strip_fs(j5)) != canon(strip_fs(j0)): bad += 1; print("C19 blanks changed job")
print("C19 bad", bad)
