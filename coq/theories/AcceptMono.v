(* AcceptMono.v — C01/C02 part A: soundness of the table order of SchemaOrder.v.

     parse_monotone : schema_le S1 S2 = true ->
        parse_cls S1 classify pre post fuel root j = Ok v ->
        parse_cls S2 classify pre post fuel root j = Ok v

   for ALL kinds of Schema.v (unions, discriminated unions, models, dictionaries included), any
   hooks, any fuel.  This is what gives C01_table / C02_table their meaning.  *)
From Coq Require Import List NArith ZArith Bool String Lia.
Import ListNotations.
Require Import OJD.Base OJD.Lexer OJD.Json OJD.Schema OJD.Charsets OJD.Numerals OJD.NumPrint
               OJD.FormatStr OJD.CreateJob OJD.Parse OJD.SchemaOrder OJD.CombProofs.
Local Open Scope string_scope.
Local Open Scope list_scope.

(* ------------------------------------------------------------------ *)
(* 1. One-step unfolding of the structural layer, in named pieces       *)
(* ------------------------------------------------------------------ *)

(* the kinds that do not recurse: independent of the table and of the fuel *)
Definition parse_scalar (classify : N -> cclass) (k : kind) (v : json) : outcome mval :=
  match k with
  | KLiteral lit => match v with JStr s => if str_eqb s (str_of_string lit) then Ok (MStr s) else reject | _ => reject end
  | KEnum members =>
    match v with
    | JStr s => if existsb (fun m => str_eqb s (str_of_string m)) members then Ok (MStr s) else reject
    | _ => reject
    end
  | KStr strict minl maxl cs =>
    match v with
    | JStr s => check_str minl maxl cs s
    | JInt z => if strict then reject else check_str minl maxl cs (print_Z z)
    | JBool b => if strict then reject else check_str minl maxl cs (if b then s_True else s_False)
    | JDec _ _ => if strict then reject else unsupported
    | _ => reject
    end
  | KFormat _ minl maxl cs =>
    match v with
    | JStr s => if len_ok minl maxl s && cs_ok cs s && fs_ok classify s then Ok (MFmt s) else reject
    | _ => reject
    end
  | KBool strict =>
    match v with
    | JBool b => Ok (MBool b)
    | _ => if strict then reject else unsupported
    end
  | KInt strict ge le gt =>
    let fin (z : Z) : outcome mval := if zopt_ok ge le gt z then Ok (MInt z) else reject in
    match v with
    | JInt z => fin z
    | JBool b => if strict then reject else fin (if b then 1 else 0)%Z
    | JStr s => if strict then reject else match parse_int s with Some z => fin z | None => reject end
    | JDec m e => if strict then reject else if dec_integral m e then fin (trunc_dec m e) else reject
    | _ => reject
    end
  | KFloat gt =>
    let fin (m e : Z) : outcome mval :=
      match gt with
      | Some b => if num_ltb (num_of_Z b) (mkNum m e) then Ok (MFloat m e) else reject
      | None => Ok (MFloat m e)
      end in
    match v with
    | JInt z => fin z 0%Z
    | JDec m e => fin m e
    | JBool b => fin (if b then 1 else 0)%Z 0%Z
    | JStr _ => unsupported
    | _ => reject
    end
  | KDec =>
    match v with
    | JInt z => Ok (MDec z 0)
    | JDec m e => Ok (MDec m e)
    | JStr s => match parse_dec s with Some (Fin m e) => Ok (MDec m e) | _ => reject end
    | _ => reject
    end
  | KModel _ | KDisc _ _ | KUnion _ => unsupported
  end.

Definition is_scalar (k : kind) : bool :=
  match k with KModel _ | KDisc _ _ | KUnion _ => false | _ => true end.

Section Pieces.
  Variable pkf : kind -> json -> outcome mval.      (* parse_kind at the smaller fuel *)
  Variable pcf : string -> json -> outcome mval.    (* parse_cls at the smaller fuel *)

  Definition list_items (lo hi : option N) (k : kind) (v : json) : outcome mval :=
    match v with
    | JArr items =>
      if len_ok_n lo hi (List.length items)
      then do l' <- mapM (pkf k) items; Ok (MList l')
      else reject
    | _ => reject
    end.

  Definition alt_res (a : ualt) (v : json) : outcome mval :=
    match a with
    | UScalar k' => pkf k' v
    | UList lo hi k' => list_items lo hi k' v
    end.

  Definition try_alts (v : json) : list ualt -> outcome mval :=
    fix go (l : list ualt) : outcome mval :=
      match l with
      | [] => reject
      | a :: r =>
        match alt_res a v with
        | Ok x => Ok x
        | Raise RuntimeError => Raise RuntimeError
        | Raise _ => go r
        end
      end.

  Lemma try_alts_nil v : try_alts v [] = reject.
  Proof. reflexivity. Qed.
  Lemma try_alts_cons v a r :
    try_alts v (a :: r) =
    match alt_res a v with
    | Ok x => Ok x
    | Raise RuntimeError => Raise RuntimeError
    | Raise _ => try_alts v r
    end.
  Proof. reflexivity. Qed.

  Definition disc_res (key : string) (mapping : list (string * string)) (v : json) : outcome mval :=
    match v with
    | JObj ms =>
      match assoc (str_of_string key) ms with
      | Some (JStr s) =>
        match List.find (fun kc => str_eqb (str_of_string (fst kc)) s) mapping with
        | Some (_, c) => pcf c v
        | None => reject
        end
      | _ => reject
      end
    | _ => reject
    end.

  Definition dict_entry (kk k : kind) (kv : str * json) : outcome (str * mval) :=
    do _ <- pkf kk (JStr (fst kv));
    do y <- pkf k (snd kv);
    Ok (fst kv, y).

  Definition parse_value (fl : field) (raw : json) : outcome mval :=
    match raw with
    | JNull => if f_required fl then reject else Ok MNone
    | _ =>
      match f_shape fl with
      | Single => pkf (f_kind fl) raw
      | ListOf minl maxl => list_items minl maxl (f_kind fl) raw
      | DictOf kk =>
        match raw with
        | JObj members => do l' <- mapM (dict_entry kk (f_kind fl)) members; Ok (MDict l')
        | _ => reject
        end
      end
    end.

  Definition field_raw (ms : list (str * json)) (fl : field) : json :=
    match assoc (str_of_string (f_alias fl)) ms with Some x => x | None => JNull end.

  Definition parse_field (ms : list (str * json)) (fl : field) : outcome (string * mval) :=
    do x <- parse_value fl (field_raw ms fl); Ok (f_name fl, x).
End Pieces.

Definition alias_known (fields : list field) (k : str) : bool :=
  existsb (fun fl => str_eqb k (str_of_string (f_alias fl))) fields.

Definition extra_bad (c : cls) (ms : list (str * json)) : bool :=
  c_extra_forbid c && negb (forallb (fun kv => alias_known (c_fields c) (fst kv)) ms).

Section Unfold.
  Variable SC : schema_t.
  Variable classify : N -> cclass.
  Variable pre : string -> json -> bool.
  Variable post : string -> json -> list (string * mval) -> bool.
  Notation pk := (parse_kind SC classify pre post).
  Notation pc := (parse_cls SC classify pre post).

  Lemma parse_kind_O k v : pk 0 k v = Raise RuntimeError.
  Proof. reflexivity. Qed.
  Lemma parse_cls_O c v : pc 0 c v = Raise RuntimeError.
  Proof. reflexivity. Qed.

  Lemma parse_kind_S f k v :
    pk (S f) k v =
    match k with
    | KModel c => pc f c v
    | KDisc key mapping => disc_res (pc f) key mapping v
    | KUnion alts => try_alts (pk f) v alts
    | _ => parse_scalar classify k v
    end.
  Proof. destruct k; reflexivity. Qed.

  Lemma parse_cls_S f c v :
    pc (S f) c v =
    match lookup_cls SC c, v with
    | Some c0, JObj ms =>
      if negb (pre c v) then reject
      else if extra_bad c0 ms then reject
      else do fields <- mapM (parse_field (pk f) ms) (c_fields c0);
           if post c v fields then Ok (MModel c fields) else reject
    | Some _, _ => reject
    | None, _ => Raise RuntimeError
    end.
  Proof. reflexivity. Qed.
End Unfold.

(* ------------------------------------------------------------------ *)
(* 2. Small facts about the comparisons                                  *)
(* ------------------------------------------------------------------ *)
Lemma optN_eqb_eq a b : optN_eqb a b = true -> a = b.
Proof. destruct a, b; cbn; intros H; try discriminate; [apply N.eqb_eq in H; subst|]; reflexivity. Qed.
Lemma optZ_eqb_eq a b : optZ_eqb a b = true -> a = b.
Proof. destruct a, b; cbn; intros H; try discriminate; [apply Z.eqb_eq in H; subst|]; reflexivity. Qed.
Lemma charset_eqb_eq a b : charset_eqb a b = true -> a = b.
Proof. destruct a, b; cbn; intros H; try discriminate; reflexivity. Qed.
Lemma strs_eqb_eq a : forall b, strs_eqb a b = true -> a = b.
Proof.
  induction a as [|x r IH]; intros [|y s] H; cbn in H; try discriminate; [reflexivity|].
  apply andb_true_iff in H. destruct H as [H1 H2]. apply String.eqb_eq in H1. subst y.
  f_equal. apply IH. exact H2.
Qed.
Lemma mapping_eqb_eq a : forall b, mapping_eqb a b = true -> a = b.
Proof.
  induction a as [|[k c] r IH]; intros [|[k' c'] s] H; cbn in H; try discriminate; [reflexivity|].
  apply andb_true_iff in H. destruct H as [H H3]. apply andb_true_iff in H. destruct H as [H1 H2].
  apply String.eqb_eq in H1. apply String.eqb_eq in H2. subst k' c'. f_equal. apply IH. exact H3.
Qed.
Lemma bool_eqb_eq a b : Bool.eqb a b = true -> a = b.
Proof. apply Bool.eqb_prop. Qed.

Lemma len_ok_n_le lo1 hi1 lo2 hi2 n :
  lo_le lo1 lo2 = true -> hi_le hi1 hi2 = true ->
  len_ok_n lo1 hi1 n = true -> len_ok_n lo2 hi2 n = true.
Proof.
  unfold lo_le, hi_le, len_ok_n. intros Hl Hh H.
  apply andb_true_iff in H. destruct H as [H1 H2]. apply andb_true_iff. split.
  - destruct lo2 as [y|]; [|reflexivity]. destruct lo1 as [x|].
    + apply N.leb_le in Hl. apply N.leb_le in H1. apply N.leb_le. lia.
    + apply N.eqb_eq in Hl. apply N.leb_le. lia.
  - destruct hi2 as [y|]; [|reflexivity]. destruct hi1 as [x|]; [|discriminate].
    apply N.leb_le in Hh. apply N.leb_le in H2. apply N.leb_le. lia.
Qed.

Lemma len_ok_le lo1 hi1 lo2 hi2 s :
  lo_le lo1 lo2 = true -> hi_le hi1 hi2 = true ->
  len_ok lo1 hi1 s = true -> len_ok lo2 hi2 s = true.
Proof. intros Hl Hh. exact (len_ok_n_le lo1 hi1 lo2 hi2 (List.length s) Hl Hh). Qed.

Lemma zopt_ok_le g1 l1 t1 g2 l2 t2 z :
  zlo_le g1 g2 = true -> zhi_le l1 l2 = true -> zlo_le t1 t2 = true ->
  zopt_ok g1 l1 t1 z = true -> zopt_ok g2 l2 t2 z = true.
Proof.
  unfold zlo_le, zhi_le, zopt_ok. intros Hg Hl Ht H.
  apply andb_true_iff in H. destruct H as [H H3]. apply andb_true_iff in H. destruct H as [H1 H2].
  repeat (apply andb_true_iff; split).
  - destruct g2 as [y|]; [|reflexivity]. destruct g1 as [x|]; [|discriminate].
    apply Z.leb_le in Hg. apply Z.leb_le in H1. apply Z.leb_le. lia.
  - destruct l2 as [y|]; [|reflexivity]. destruct l1 as [x|]; [|discriminate].
    apply Z.leb_le in Hl. apply Z.leb_le in H2. apply Z.leb_le. lia.
  - destruct t2 as [y|]; [|reflexivity]. destruct t1 as [x|]; [|discriminate].
    apply Z.leb_le in Ht. apply Z.ltb_lt in H3. apply Z.ltb_lt. lia.
Qed.

(* an integer bound below a decimal: lowering the bound keeps it below *)
Lemma num_ltb_Z_le x y m e :
  (y <= x)%Z -> num_ltb (num_of_Z x) (mkNum m e) = true -> num_ltb (num_of_Z y) (mkNum m e) = true.
Proof.
  unfold num_ltb, num_cmp, num_of_Z. cbn [mant expo]. intros Hle H.
  set (k := Z.min 0 e) in *.
  destruct (Z.compare_spec (x * 10 ^ (0 - k)) (m * 10 ^ (e - k))) as [E|L|G]; try discriminate.
  assert (Hp : (0 <= 10 ^ (0 - k))%Z) by (apply Z.pow_nonneg; lia).
  assert (Hm : (y * 10 ^ (0 - k) <= x * 10 ^ (0 - k))%Z) by (apply Z.mul_le_mono_nonneg_r; assumption).
  destruct (Z.compare_spec (y * 10 ^ (0 - k)) (m * 10 ^ (e - k))) as [E'|L'|G']; [lia|reflexivity|lia].
Qed.

Lemma enum_le s a b :
  forallb (fun m => mem_s m b) a = true ->
  existsb (fun m => str_eqb s (str_of_string m)) a = true ->
  existsb (fun m => str_eqb s (str_of_string m)) b = true.
Proof.
  intros Hsub Hex. apply existsb_exists in Hex. destruct Hex as (m & Hin & Hm).
  rewrite forallb_forall in Hsub. specialize (Hsub m Hin). unfold mem_s in Hsub.
  apply existsb_exists in Hsub. destruct Hsub as (m' & Hin' & Hmm').
  apply String.eqb_eq in Hmm'. subst m'.
  apply existsb_exists. exists m. split; assumption.
Qed.

Lemma mapping_sub_find m1 m2 s k c :
  mapping_sub m1 m2 = true ->
  List.find (fun kc => str_eqb (str_of_string (fst kc)) s) m1 = Some (k, c) ->
  exists k', List.find (fun kc => str_eqb (str_of_string (fst kc)) s) m2 = Some (k', c).
Proof.
  intros Hsub Hf. apply find_some in Hf. destruct Hf as [Hin Hk]. cbn [fst] in Hk.
  apply str_eqb_eq in Hk. subst s.
  unfold mapping_sub in Hsub. rewrite forallb_forall in Hsub. specialize (Hsub (k, c) Hin).
  cbn [fst snd] in Hsub.
  destruct (List.find (fun kc' => str_eqb (str_of_string (fst kc')) (str_of_string k)) m2) as [[k' c']|];
    [|discriminate].
  apply String.eqb_eq in Hsub. subst c'. exists k'. reflexivity.
Qed.

Lemma forallb_ext' {A} (f g : A -> bool) l : (forall x, f x = g x) -> forallb f l = forallb g l.
Proof. intros H. induction l as [|a r IH]; [reflexivity|]. cbn [forallb]. rewrite H, IH. reflexivity. Qed.

Lemma mapM_ext {A B} (f g : A -> outcome B) l :
  (forall x, In x l -> f x = g x) -> mapM f l = mapM g l.
Proof.
  induction l as [|a r IH]; intros H; [reflexivity|]. cbn [mapM].
  rewrite (H a (or_introl eq_refl)). rewrite IH; [reflexivity|].
  intros x Hx. apply H. right. exact Hx.
Qed.

Lemma mapM_mono {A B} (f g : A -> outcome B) l ys :
  (forall x y, In x l -> f x = Ok y -> g x = Ok y) -> mapM f l = Ok ys -> mapM g l = Ok ys.
Proof.
  revert ys. induction l as [|a r IH]; intros ys H Hm; [exact Hm|]. cbn [mapM] in *.
  destruct (f a) as [y|e] eqn:Ea; [|discriminate]. cbn [bind] in Hm.
  rewrite (H a y (or_introl eq_refl) Ea). cbn [bind].
  destruct (mapM f r) as [zs|e] eqn:Er; [|discriminate]. cbn [bind] in Hm.
  rewrite (IH zs); [exact Hm| |reflexivity].
  intros x z Hx. apply H. right. exact Hx.
Qed.

(* ------------------------------------------------------------------ *)
(* 3. Unfolding the nested fixpoints of the order                        *)
(* ------------------------------------------------------------------ *)
Lemma kind_same_union R a1 a2 : kind_same R (KUnion a1) (KUnion a2) = alts_same R a1 a2.
Proof.
  reflexivity.
Qed.

Lemma kind_le_union R a1 a2 : kind_le R (KUnion a1) (KUnion a2) = alts_le R a1 a2.
Proof.
  reflexivity.
Qed.

(* ------------------------------------------------------------------ *)
(* 4. The rigid part: same definitions -> same outcome, errors included  *)
(* ------------------------------------------------------------------ *)
Lemma same_scalar R k1 k2 : kind_same R k1 k2 = true -> is_scalar k1 = true -> k1 = k2.
Proof.
  destruct k1, k2; cbn [kind_same is_scalar]; intros H Hs; try discriminate;
    repeat match goal with
           | H : _ && _ = true |- _ => apply andb_true_iff in H; destruct H
           end;
    repeat match goal with
           | H : String.eqb _ _ = true |- _ => apply String.eqb_eq in H
           | H : Bool.eqb _ _ = true |- _ => apply bool_eqb_eq in H
           | H : optN_eqb _ _ = true |- _ => apply optN_eqb_eq in H
           | H : optZ_eqb _ _ = true |- _ => apply optZ_eqb_eq in H
           | H : charset_eqb _ _ = true |- _ => apply charset_eqb_eq in H
           | H : strs_eqb _ _ = true |- _ => apply strs_eqb_eq in H
           end; subst; reflexivity.
Qed.

Lemma fields_same_alias R l1 : forall l2 k,
  fields_same R l1 l2 = true -> alias_known l1 k = alias_known l2 k.
Proof.
  induction l1 as [|a r IH]; intros [|b s] k H; cbn in H; try discriminate; [reflexivity|].
  apply andb_true_iff in H. destruct H as [Hf Hr]. unfold alias_known. cbn [existsb].
  unfold field_same in Hf.
  repeat (apply andb_true_iff in Hf; destruct Hf as [Hf ?]).
  match goal with H : String.eqb (f_alias a) (f_alias b) = true |- _ => apply String.eqb_eq in H; rewrite H end.
  f_equal. apply IH. exact Hr.
Qed.

Section Rigid.
  Variables S1 S2 : schema_t.
  Variable R : list string.
  Variable classify : N -> cclass.
  (* two pairs of hooks with the same boolean values *)
  Variables pre1 pre2 : string -> json -> bool.
  Variables post1 post2 : string -> json -> list (string * mval) -> bool.
  Hypothesis Hpre : forall c raw, pre1 c raw = pre2 c raw.
  Hypothesis Hpost : forall c raw fs, post1 c raw fs = post2 c raw fs.
  Hypothesis HR : rigid_ok R S1 S2 = true.
  Notation pk1 := (parse_kind S1 classify pre1 post1).
  Notation pk2 := (parse_kind S2 classify pre2 post2).
  Notation pc1 := (parse_cls S1 classify pre1 post1).
  Notation pc2 := (parse_cls S2 classify pre2 post2).

  Lemma rigid_lookup c : mem_s c R = true ->
    match lookup_cls S1 c, lookup_cls S2 c with
    | Some c1, Some c2 => cls_same R c1 c2 = true
    | None, None => True
    | _, _ => False
    end.
  Proof.
    intros Hm. unfold mem_s in Hm. apply existsb_exists in Hm. destruct Hm as (n & Hin & E).
    apply String.eqb_eq in E. subst n.
    unfold rigid_ok in HR. rewrite forallb_forall in HR. specialize (HR c Hin).
    destruct (lookup_cls S1 c), (lookup_cls S2 c); try discriminate; auto.
  Qed.

  Section Step.
    Variable f : nat.
    Hypothesis IHk : forall k1 k2 v, kind_same R k1 k2 = true -> pk1 f k1 v = pk2 f k2 v.
    Hypothesis IHc : forall c v, mem_s c R = true -> pc1 f c v = pc2 f c v.

    Lemma same_list_items lo hi k1 k2 v :
      kind_same R k1 k2 = true -> list_items (pk1 f) lo hi k1 v = list_items (pk2 f) lo hi k2 v.
    Proof.
      intros Hk. unfold list_items. destruct v; try reflexivity.
      destruct (len_ok_n lo hi (List.length l)); [|reflexivity].
      rewrite (mapM_ext (pk1 f k1) (pk2 f k2)); [reflexivity|]. intros x _. apply IHk. exact Hk.
    Qed.

    Lemma same_alt a1 a2 v : ualt_same R a1 a2 = true -> alt_res (pk1 f) a1 v = alt_res (pk2 f) a2 v.
    Proof.
      destruct a1 as [k1|lo1 hi1 k1], a2 as [k2|lo2 hi2 k2]; cbn [ualt_same alt_res]; intros H;
        try discriminate.
      - apply IHk. exact H.
      - apply andb_true_iff in H. destruct H as [H Hk]. apply andb_true_iff in H. destruct H as [Hl Hh].
        apply optN_eqb_eq in Hl. apply optN_eqb_eq in Hh. subst lo2 hi2.
        apply same_list_items. exact Hk.
    Qed.

    Lemma same_try v l1 : forall l2,
      alts_same R l1 l2 = true -> try_alts (pk1 f) v l1 = try_alts (pk2 f) v l2.
    Proof.
      induction l1 as [|a r IH]; intros [|b s] H; cbn [alts_same] in H; try discriminate; [reflexivity|].
      apply andb_true_iff in H. destruct H as [Ha Hr]. rewrite !try_alts_cons.
      rewrite (same_alt a b v Ha). rewrite (IH s Hr). reflexivity.
    Qed.

    Lemma same_disc key m v :
      forallb (fun kc => mem_s (snd kc) R) m = true ->
      disc_res (pc1 f) key m v = disc_res (pc2 f) key m v.
    Proof.
      intros Hm. unfold disc_res. destruct v; try reflexivity.
      destruct (assoc (str_of_string key) members) as [[]|]; try reflexivity.
      destruct (List.find (fun kc => str_eqb (str_of_string (fst kc)) s) m) as [[k c]|] eqn:Ef; [|reflexivity].
      apply find_some in Ef. destruct Ef as [Hin _].
      rewrite forallb_forall in Hm. specialize (Hm (k, c) Hin). cbn [snd] in Hm.
      apply IHc. exact Hm.
    Qed.

    Lemma same_kind_S k1 k2 v : kind_same R k1 k2 = true -> pk1 (S f) k1 v = pk2 (S f) k2 v.
    Proof.
      intros H. rewrite !parse_kind_S.
      destruct (is_scalar k1) eqn:Es.
      - pose proof (same_scalar R k1 k2 H Es) as E. subst k2. destruct k1; try discriminate; reflexivity.
      - destruct k1 as [lit1|ms1|st1 lo1 hi1 cs1|cn1 lo1 hi1 cs1|st1|st1 g1 l1 t1|t1| |c1|key1 m1|alts1], k2 as [lit2|ms2|st2 lo2 hi2 cs2|cn2 lo2 hi2 cs2|st2|st2 g2 l2 t2|t2| |c2|key2 m2|alts2];
          try discriminate Es; try discriminate H.
        + cbn [kind_same] in H. apply andb_true_iff in H. destruct H as [E Hm].
          apply String.eqb_eq in E. subst c2. apply IHc. exact Hm.
        + cbn [kind_same] in H. apply andb_true_iff in H. destruct H as [H Hm].
          apply andb_true_iff in H. destruct H as [E1 E2].
          apply String.eqb_eq in E1. apply mapping_eqb_eq in E2. subst key2 m2.
          apply same_disc. exact Hm.
        + rewrite kind_same_union in H. apply same_try. exact H.
    Qed.

    Lemma same_value fl1 fl2 raw :
      field_same R fl1 fl2 = true -> parse_value (pk1 f) fl1 raw = parse_value (pk2 f) fl2 raw.
    Proof.
      unfold field_same. intros H.
      repeat (apply andb_true_iff in H; destruct H as [H ?]).
      match goal with Hq : Bool.eqb (f_required fl1) (f_required fl2) = true |- _ => apply bool_eqb_eq in Hq; rename Hq into Hreq end.
      match goal with Hq : shape_same R _ _ = true |- _ => rename Hq into Hsh end.
      match goal with Hq : kind_same R (f_kind fl1) _ = true |- _ => rename Hq into Hk end.
      unfold parse_value. rewrite Hreq.
      destruct (f_shape fl1) as [|lo1 hi1|kk1], (f_shape fl2) as [|lo2 hi2|kk2]; cbn [shape_same] in Hsh;
        try discriminate.
      - destruct raw; try reflexivity; apply IHk; exact Hk.
      - apply andb_true_iff in Hsh. destruct Hsh as [Hl Hh].
        apply optN_eqb_eq in Hl. apply optN_eqb_eq in Hh. subst lo2 hi2.
        destruct raw; try reflexivity; apply same_list_items; exact Hk.
      - assert (E : forall members,
                   mapM (dict_entry (pk1 f) kk1 (f_kind fl1)) members
                   = mapM (dict_entry (pk2 f) kk2 (f_kind fl2)) members).
        { intros members. apply mapM_ext. intros kv _. unfold dict_entry.
          rewrite (IHk kk1 kk2 _ Hsh). rewrite (IHk _ _ (snd kv) Hk). reflexivity. }
        destruct raw; try reflexivity. rewrite E. reflexivity.
    Qed.

    Lemma same_fields ms l1 : forall l2,
      fields_same R l1 l2 = true ->
      mapM (parse_field (pk1 f) ms) l1 = mapM (parse_field (pk2 f) ms) l2.
    Proof.
      induction l1 as [|a r IH]; intros [|b s] H; cbn [fields_same] in H; try discriminate; [reflexivity|].
      apply andb_true_iff in H. destruct H as [Hf Hr]. cbn [mapM].
      rewrite (IH s Hr).
      assert (E : parse_field (pk1 f) ms a = parse_field (pk2 f) ms b).
      { unfold parse_field, field_raw. rewrite (same_value a b _ Hf).
        unfold field_same in Hf. repeat (apply andb_true_iff in Hf; destruct Hf as [Hf ?]).
        apply String.eqb_eq in Hf.
        match goal with Hq : String.eqb (f_alias a) (f_alias b) = true |- _ => apply String.eqb_eq in Hq; rewrite Hq end.
        rewrite Hf. reflexivity. }
      rewrite E. reflexivity.
    Qed.

    Lemma same_cls_S c v : mem_s c R = true -> pc1 (S f) c v = pc2 (S f) c v.
    Proof.
      intros Hm. pose proof (rigid_lookup c Hm) as HL. rewrite !parse_cls_S.
      destruct (lookup_cls S1 c) as [c1|], (lookup_cls S2 c) as [c2|]; try contradiction; [|reflexivity].
      unfold cls_same in HL. apply andb_true_iff in HL. destruct HL as [He Hf].
      apply bool_eqb_eq in He.
      destruct v; try reflexivity.
      rewrite Hpre.
      destruct (negb (pre2 c (JObj members))); [reflexivity|].
      assert (Ex : extra_bad c1 members = extra_bad c2 members).
      { unfold extra_bad. rewrite He. f_equal. f_equal. apply forallb_ext'.
        intros kv. apply (fields_same_alias R). exact Hf. }
      rewrite Ex. rewrite (same_fields members _ _ Hf).
      destruct (mapM (parse_field (pk2 f) members) (c_fields c2)) as [fs|e]; [|reflexivity].
      cbn [bind]. rewrite Hpost. reflexivity.
    Qed.
  End Step.

  Lemma rigid_same : forall f,
    (forall k1 k2 v, kind_same R k1 k2 = true -> pk1 f k1 v = pk2 f k2 v) /\
    (forall c v, mem_s c R = true -> pc1 f c v = pc2 f c v).
  Proof.
    induction f as [|f [IHk IHc]].
    - split; intros; reflexivity.
    - split.
      + intros k1 k2 v H. apply same_kind_S; assumption.
      + intros c v H. apply same_cls_S; assumption.
  Qed.
End Rigid.

(* ------------------------------------------------------------------ *)
(* 5. Monotonicity                                                       *)
(* ------------------------------------------------------------------ *)
Lemma scalar_le R classify k1 k2 v x :
  kind_le R k1 k2 = true -> is_scalar k1 = true ->
  parse_scalar classify k1 v = Ok x -> parse_scalar classify k2 v = Ok x.
Proof.
  destruct k1, k2; cbn [kind_le is_scalar]; intros H Hs; try discriminate;
    repeat match goal with
           | H : _ && _ = true |- _ => apply andb_true_iff in H; destruct H
           end;
    repeat match goal with
           | H : String.eqb _ _ = true |- _ => apply String.eqb_eq in H
           | H : Bool.eqb _ _ = true |- _ => apply bool_eqb_eq in H
           | H : charset_eqb _ _ = true |- _ => apply charset_eqb_eq in H
           end; subst; cbn [parse_scalar]; try (intros Hp; exact Hp).
  - (* KEnum *)
    destruct v; try discriminate.
    destruct (existsb (fun m => str_eqb s (str_of_string m)) members) eqn:E; [|discriminate].
    rewrite (enum_le s members members0 H E). intros Hp; exact Hp.
  - (* KStr *)
    assert (C : forall s, check_str minl maxl cs0 s = Ok x -> check_str minl0 maxl0 cs0 s = Ok x).
    { intros s. unfold check_str.
      destruct (len_ok minl maxl s) eqn:El; [|discriminate]. cbn [andb].
      match goal with Hl : lo_le _ _ = true, Hh : hi_le _ _ = true |- _ =>
        rewrite (len_ok_le _ _ _ _ s Hl Hh El) end.
      cbn [andb]. intros Hp; exact Hp. }
    destruct v; try (intros Hp; exact Hp); try apply C; destruct strict0; try (intros Hp; exact Hp); apply C.
  - (* KFormat *)
    destruct v; try discriminate.
    destruct (len_ok minl maxl s) eqn:El; [|discriminate]. cbn [andb].
    match goal with Hl : lo_le _ _ = true, Hh : hi_le _ _ = true |- _ =>
      rewrite (len_ok_le _ _ _ _ s Hl Hh El) end.
    cbn [andb]. intros Hp; exact Hp.
  - (* KInt *)
    assert (C : forall z, (if zopt_ok ge le gt z then Ok (MInt z) else reject) = Ok x ->
                          (if zopt_ok ge0 le0 gt0 z then Ok (MInt z) else reject) = Ok x).
    { intros z. destruct (zopt_ok ge le gt z) eqn:Ez; [|discriminate].
      match goal with Hg : zlo_le ge ge0 = true, Hl : zhi_le _ _ = true, Ht : zlo_le gt gt0 = true |- _ =>
        rewrite (zopt_ok_le _ _ _ _ _ _ z Hg Hl Ht Ez) end.
      intros Hp; exact Hp. }
    destruct v as [|b|z|m e|s| |]; try (intros Hp; exact Hp); try apply C; destruct strict0; try (intros Hp; exact Hp); try apply C.
    + destruct (dec_integral m e); [apply C|intros Hp; exact Hp].
    + destruct (parse_int s); [apply C|intros Hp; exact Hp].
  - (* KFloat *)
    assert (C : forall m e,
               match gt with
               | Some b => if num_ltb (num_of_Z b) (mkNum m e) then Ok (MFloat m e) else reject
               | None => Ok (MFloat m e)
               end = Ok x ->
               match gt0 with
               | Some b => if num_ltb (num_of_Z b) (mkNum m e) then Ok (MFloat m e) else reject
               | None => Ok (MFloat m e)
               end = Ok x).
    { intros m e. unfold zlo_le in H. destruct gt0 as [y|].
      - destruct gt as [b|]; [|discriminate]. apply Z.leb_le in H.
        destruct (num_ltb (num_of_Z b) (mkNum m e)) eqn:El; [|discriminate].
        rewrite (num_ltb_Z_le b y m e H El). intros Hp; exact Hp.
      - destruct gt as [b|]; [|intros Hp; exact Hp].
        destruct (num_ltb (num_of_Z b) (mkNum m e)); [intros Hp; exact Hp|discriminate]. }
    destruct v; try (intros Hp; exact Hp); apply C.
Qed.

Lemma fields_le_alias R l1 : forall l2 k,
  fields_le R l1 l2 = true -> alias_known l1 k = alias_known l2 k.
Proof.
  induction l1 as [|a r IH]; intros [|b s] k H; cbn in H; try discriminate; [reflexivity|].
  apply andb_true_iff in H. destruct H as [Hf Hr]. unfold alias_known. cbn [existsb].
  unfold field_le in Hf.
  repeat (apply andb_true_iff in Hf; destruct Hf as [Hf ?]).
  match goal with H : String.eqb (f_alias a) (f_alias b) = true |- _ => apply String.eqb_eq in H; rewrite H end.
  f_equal. apply IH. exact Hr.
Qed.

Section Mono.
  Variables S1 S2 : schema_t.
  Variable R : list string.
  Variable classify : N -> cclass.
  Variable pre : string -> json -> bool.
  Variable post : string -> json -> list (string * mval) -> bool.
  Hypothesis HR : rigid_ok R S1 S2 = true.
  Hypothesis HLE : forall c c1, lookup_cls S1 c = Some c1 ->
                     exists c2, lookup_cls S2 c = Some c2 /\ cls_le R c1 c2 = true.
  Notation pk1 := (parse_kind S1 classify pre post).
  Notation pk2 := (parse_kind S2 classify pre post).
  Notation pc1 := (parse_cls S1 classify pre post).
  Notation pc2 := (parse_cls S2 classify pre post).

  (* a kind that is not a union never accepts an array *)
  Lemma not_union_noarr f k items x : not_union k = true -> pk1 f k (JArr items) = Ok x -> False.
  Proof.
    intros Hn. destruct f as [|f]; [rewrite parse_kind_O; discriminate|].
    rewrite parse_kind_S.
    destruct k as [lit1|ms1|st1 lo1 hi1 cs1|cn1 lo1 hi1 cs1|st1|st1 g1 l1 t1|t1| |c1|key1 m1|alts1];
      try discriminate Hn; cbn [parse_scalar disc_res]; try discriminate.
    - destruct st1; discriminate.
    - destruct f as [|f]; [rewrite parse_cls_O; discriminate|]. rewrite parse_cls_S.
      destruct (lookup_cls S1 c1); discriminate.
  Qed.

  Section Step.
    Variable f : nat.
    Hypothesis IHk : forall k1 k2 v x, kind_le R k1 k2 = true -> pk1 f k1 v = Ok x -> pk2 f k2 v = Ok x.
    Hypothesis IHc : forall c v x, pc1 f c v = Ok x -> pc2 f c v = Ok x.

    Lemma le_list_items lo1 hi1 lo2 hi2 k1 k2 v x :
      lo_le lo1 lo2 = true -> hi_le hi1 hi2 = true -> kind_le R k1 k2 = true ->
      list_items (pk1 f) lo1 hi1 k1 v = Ok x -> list_items (pk2 f) lo2 hi2 k2 v = Ok x.
    Proof.
      intros Hl Hh Hk. unfold list_items. destruct v; try discriminate.
      destruct (len_ok_n lo1 hi1 (List.length l)) eqn:El; [|discriminate].
      rewrite (len_ok_n_le _ _ _ _ _ Hl Hh El).
      destruct (mapM (pk1 f k1) l) as [ys|e] eqn:Em; [|discriminate].
      rewrite (mapM_mono (pk1 f k1) (pk2 f k2) l ys); [intros Hp; exact Hp| |exact Em].
      intros j y _. apply IHk. exact Hk.
    Qed.

    Lemma le_alt a1 a2 v x :
      ualt_le R a1 a2 = true -> alt_res (pk1 f) a1 v = Ok x -> alt_res (pk2 f) a2 v = Ok x.
    Proof.
      destruct a1 as [k1|lo1 hi1 k1], a2 as [k2|lo2 hi2 k2]; cbn [ualt_le alt_res]; intros H;
        try discriminate.
      - apply IHk. exact H.
      - apply andb_true_iff in H. destruct H as [H Hk]. apply andb_true_iff in H. destruct H as [Hl Hh].
        apply le_list_items; assumption.
    Qed.

    Lemma try_noarr v l x :
      forallb scalar_noarr l = true -> try_alts (pk1 f) v l = Ok x -> forall items, v <> JArr items.
    Proof.
      induction l as [|a r IH]; cbn [forallb]; intros Hn Ht; [discriminate|].
      rewrite try_alts_cons in Ht.
      apply andb_true_iff in Hn. destruct Hn as [Ha Hr].
      destruct (alt_res (pk1 f) a v) as [y|e] eqn:Ea.
      - intros items E. subst v. destruct a as [k|]; [|discriminate Ha]. cbn in Ha, Ea.
        exact (not_union_noarr f k items y Ha Ea).
      - destruct e; try discriminate Ht; apply IH; assumption.
    Qed.

    Lemma le_try v x l1 : forall l2,
      alts_le R l1 l2 = true -> try_alts (pk1 f) v l1 = Ok x -> try_alts (pk2 f) v l2 = Ok x.
    Proof.
      induction l1 as [|a r IH]; intros [|b s] H Ht; cbn [alts_le] in H; try discriminate.
      rewrite try_alts_cons in Ht. rewrite try_alts_cons.
      apply andb_true_iff in H. destruct H as [Hhead Hr].
      destruct r as [|a' r'].
      - (* last alternative *)
        destruct (alt_res (pk1 f) a v) as [y|e] eqn:Ea.
        + rewrite (le_alt a b v y Hhead Ea). exact Ht.
        + destruct e; discriminate Ht.
      - unfold nonlast_ok in Hhead. apply orb_true_iff in Hhead. destruct Hhead as [Hs|Hd].
        + (* the same alternative over rigid classes *)
          pose proof (rigid_same S1 S2 R classify pre pre post post (fun _ _ => eq_refl) (fun _ _ _ => eq_refl) HR f) as [RK _].
          assert (E : alt_res (pk1 f) a v = alt_res (pk2 f) b v)
            by (apply (same_alt S1 S2 R classify pre pre post post f RK); exact Hs).
          rewrite <- E. destruct (alt_res (pk1 f) a v) as [y|e]; [exact Ht|].
          destruct e; try discriminate Ht; apply IH; assumption.
        + (* a list alternative, disjoint from the later ones *)
          apply andb_true_iff in Hd. destruct Hd as [Hd Hn]. apply andb_true_iff in Hd. destruct Hd as [Hu Hle].
          destruct (alt_res (pk1 f) a v) as [y|e] eqn:Ea.
          * rewrite (le_alt a b v y Hle Ea). exact Ht.
          * assert (Hrest : try_alts (pk1 f) v (a' :: r') = Ok x) by (destruct e; try discriminate Ht; exact Ht).
            pose proof (try_noarr v (a' :: r') x Hn Hrest) as Hna.
            destruct a as [|lo1 hi1 k1]; [discriminate Hu|].
            destruct b as [|lo2 hi2 k2]; [discriminate Hle|].
            assert (Eb : alt_res (pk2 f) (UList lo2 hi2 k2) v = reject).
            { cbn [alt_res]. unfold list_items. destruct v; try reflexivity. exfalso. exact (Hna l eq_refl). }
            rewrite Eb. unfold reject. apply IH; assumption.
    Qed.

    Lemma le_disc key m1 m2 v x :
      mapping_sub m1 m2 = true -> disc_res (pc1 f) key m1 v = Ok x -> disc_res (pc2 f) key m2 v = Ok x.
    Proof.
      intros Hm. unfold disc_res. destruct v; try discriminate.
      destruct (assoc (str_of_string key) members) as [[]|]; try discriminate.
      destruct (List.find (fun kc => str_eqb (str_of_string (fst kc)) s) m1) as [[k c]|] eqn:Ef; [|discriminate].
      destruct (mapping_sub_find m1 m2 s k c Hm Ef) as (k' & Ef'). rewrite Ef'. apply IHc.
    Qed.

    Lemma le_kind_S k1 k2 v x : kind_le R k1 k2 = true -> pk1 (S f) k1 v = Ok x -> pk2 (S f) k2 v = Ok x.
    Proof.
      intros H. rewrite !parse_kind_S.
      destruct (is_scalar k1) eqn:Es.
      - intros Hp.
        assert (Hp1 : parse_scalar classify k1 v = Ok x) by (destruct k1; try discriminate Es; exact Hp).
        pose proof (scalar_le R classify k1 k2 v x H Es Hp1) as Hp2.
        destruct k1, k2; try discriminate Es; try discriminate H; exact Hp2.
      - destruct k1 as [lit1|ms1|st1 lo1 hi1 cs1|cn1 lo1 hi1 cs1|st1|st1 g1 l1 t1|t1| |c1|key1 m1|alts1], k2 as [lit2|ms2|st2 lo2 hi2 cs2|cn2 lo2 hi2 cs2|st2|st2 g2 l2 t2|t2| |c2|key2 m2|alts2];
          try discriminate Es; try discriminate H.
        + cbn [kind_le] in H. apply String.eqb_eq in H. subst c2. apply IHc.
        + cbn [kind_le] in H. apply andb_true_iff in H. destruct H as [E Hm].
          apply String.eqb_eq in E. subst key2. apply le_disc. exact Hm.
        + rewrite kind_le_union in H. apply le_try. exact H.
    Qed.

    Lemma le_value fl1 fl2 raw x :
      field_le R fl1 fl2 = true -> parse_value (pk1 f) fl1 raw = Ok x -> parse_value (pk2 f) fl2 raw = Ok x.
    Proof.
      unfold field_le. intros H.
      repeat (apply andb_true_iff in H; destruct H as [H ?]).
      match goal with Hq : implb (f_required fl2) (f_required fl1) = true |- _ => rename Hq into Hreq end.
      match goal with Hq : shape_le R _ _ = true |- _ => rename Hq into Hsh end.
      match goal with Hq : kind_le R (f_kind fl1) _ = true |- _ => rename Hq into Hk end.
      unfold parse_value.
      assert (Hnull : (if f_required fl1 then reject else Ok MNone) = Ok x ->
                      (if f_required fl2 then reject else Ok MNone) = Ok x).
      { destruct (f_required fl1); [discriminate|]. destruct (f_required fl2); [discriminate Hreq|].
        intros Hp; exact Hp. }
      destruct (f_shape fl1) as [|lo1 hi1|kk1], (f_shape fl2) as [|lo2 hi2|kk2]; cbn [shape_le] in Hsh;
        try discriminate.
      - destruct raw; try exact Hnull; apply IHk; exact Hk.
      - apply andb_true_iff in Hsh. destruct Hsh as [Hl Hh].
        destruct raw; try exact Hnull; apply le_list_items; assumption.
      - assert (E : forall members ys,
                   mapM (dict_entry (pk1 f) kk1 (f_kind fl1)) members = Ok ys ->
                   mapM (dict_entry (pk2 f) kk2 (f_kind fl2)) members = Ok ys).
        { intros members ys. apply mapM_mono. intros kv y _. unfold dict_entry.
          destruct (pk1 f kk1 (JStr (fst kv))) as [u|e] eqn:E1; [|discriminate]. cbn [bind].
          rewrite (IHk kk1 kk2 _ u Hsh E1). cbn [bind].
          destruct (pk1 f (f_kind fl1) (snd kv)) as [w|e] eqn:E2; [|discriminate]. cbn [bind].
          rewrite (IHk _ _ _ w Hk E2). cbn [bind]. intros Hp; exact Hp. }
        destruct raw; try exact Hnull; try (intros Hp; exact Hp).
        destruct (mapM (dict_entry (pk1 f) kk1 (f_kind fl1)) members) as [ys|e] eqn:Em; [|discriminate].
        rewrite (E members ys Em). intros Hp; exact Hp.
    Qed.

    Lemma le_fields ms l1 : forall l2 ys,
      fields_le R l1 l2 = true ->
      mapM (parse_field (pk1 f) ms) l1 = Ok ys -> mapM (parse_field (pk2 f) ms) l2 = Ok ys.
    Proof.
      induction l1 as [|a r IH]; intros [|b s] ys H Hm; cbn [fields_le] in H; try discriminate; [exact Hm|].
      apply andb_true_iff in H. destruct H as [Hf Hr]. cbn [mapM] in Hm |- *.
      destruct (parse_field (pk1 f) ms a) as [y|e] eqn:Ea; [|discriminate]. cbn [bind] in Hm.
      destruct (mapM (parse_field (pk1 f) ms) r) as [zs|e] eqn:Er; [|discriminate]. cbn [bind] in Hm.
      assert (Eb : parse_field (pk2 f) ms b = Ok y).
      { unfold parse_field, field_raw in Ea |- *.
        pose proof Hf as Hf'. unfold field_le in Hf'.
        repeat (apply andb_true_iff in Hf'; destruct Hf' as [Hf' ?]).
        apply String.eqb_eq in Hf'.
        match goal with Hq : String.eqb (f_alias a) (f_alias b) = true |- _ => apply String.eqb_eq in Hq; rewrite <- Hq end.
        rewrite <- Hf'.
        destruct (parse_value (pk1 f) a _) as [u|e] eqn:Ev; [|discriminate]. cbn [bind] in Ea.
        rewrite (le_value a b _ u Hf Ev). exact Ea. }
      rewrite Eb. cbn [bind]. rewrite (IH s zs Hr eq_refl). exact Hm.
    Qed.

    Lemma le_cls_S c v x : pc1 (S f) c v = Ok x -> pc2 (S f) c v = Ok x.
    Proof.
      rewrite !parse_cls_S.
      destruct (lookup_cls S1 c) as [c1|] eqn:L1; [|destruct v; discriminate].
      destruct (HLE c c1 L1) as (c2 & L2 & Hle). rewrite L2.
      unfold cls_le in Hle. apply andb_true_iff in Hle. destruct Hle as [He Hf].
      destruct v; try discriminate.
      destruct (negb (pre c (JObj members))); [discriminate|].
      destruct (extra_bad c1 members) eqn:X1; [discriminate|].
      assert (X2 : extra_bad c2 members = false).
      { unfold extra_bad in X1 |- *. destruct (c_extra_forbid c2); [|reflexivity].
        cbn [implb] in He. rewrite He in X1. cbn [andb] in X1 |- *.
        rewrite <- X1. f_equal. apply forallb_ext'. intros kv. symmetry.
        apply (fields_le_alias R). exact Hf. }
      rewrite X2.
      destruct (mapM (parse_field (pk1 f) members) (c_fields c1)) as [fs|e] eqn:Em; [|discriminate].
      rewrite (le_fields members _ _ fs Hf Em). intros Hp; exact Hp.
    Qed.
  End Step.

  Lemma mono_all : forall f,
    (forall k1 k2 v x, kind_le R k1 k2 = true -> pk1 f k1 v = Ok x -> pk2 f k2 v = Ok x) /\
    (forall c v x, pc1 f c v = Ok x -> pc2 f c v = Ok x).
  Proof.
    induction f as [|f [IHk IHc]].
    - split; intros; [rewrite parse_kind_O in *|rewrite parse_cls_O in *]; discriminate.
    - split.
      + intros k1 k2 v x. apply le_kind_S; assumption.
      + intros c v x. apply le_cls_S; assumption.
  Qed.
End Mono.

Lemma lookup_cls_In S : forall c c1, lookup_cls S c = Some c1 -> In (c, c1) S.
Proof.
  induction S as [|[n k] r IH]; intros c c1 H; cbn in H; [discriminate|].
  destruct (String.eqb n c) eqn:E.
  - apply String.eqb_eq in E. inversion H. subst. left. reflexivity.
  - right. apply IH. exact H.
Qed.

(* The order is sound: a document accepted under S1 is accepted under S2 with the same value,
   whatever the hooks and the fuel.  All kinds. *)
Theorem parse_monotone : forall S1 S2, schema_le S1 S2 = true ->
  forall classify pre post fuel root j v,
    parse_cls S1 classify pre post fuel root j = Ok v ->
    parse_cls S2 classify pre post fuel root j = Ok v.
Proof.
  intros S1 S2 H classify pre post fuel root j v.
  unfold schema_le in H. apply andb_true_iff in H. destruct H as [H _].
  apply andb_true_iff in H. destruct H as [HR HC].
  refine (proj2 (mono_all S1 S2 (rigid_set S1 S2) classify pre post HR _ fuel) root j v).
  intros c c1 L. apply lookup_cls_In in L. rewrite forallb_forall in HC. specialize (HC (c, c1) L).
  cbn [fst snd] in HC. destruct (lookup_cls S2 c) as [c2|]; [|discriminate]. exists c2. split; [reflexivity|exact HC].
Qed.

Theorem parse_root_monotone : forall S1 S2, schema_le S1 S2 = true ->
  forall classify pre post root j v,
    parse_root S1 classify pre post root j = Ok v -> parse_root S2 classify pre post root j = Ok v.
Proof. intros S1 S2 H classify pre post root j v. unfold parse_root. apply parse_monotone. exact H. Qed.

(* Hooks: the structural layer consults the hooks only through their boolean values, so two
   pairs of hooks with the same values give the same outcome (by construction).  The premise
   says that every class the table mentions is defined in it (checked by computation for the
   two tables).  NOTE: hooks that are merely pointwise WEAKER do not accept "the same and
   more" with the same stored value, because of first-match unions; equivalence is needed. *)
Definition self_closed (SC : schema_t) : bool := rigid_ok (map fst SC) SC SC.

Theorem parse_cls_hooks_ext : forall SC, self_closed SC = true ->
  forall classify pre1 pre2 post1 post2,
    (forall c raw, pre1 c raw = pre2 c raw) ->
    (forall c raw fs, post1 c raw fs = post2 c raw fs) ->
    forall fuel root j,
      parse_cls SC classify pre1 post1 fuel root j = parse_cls SC classify pre2 post2 fuel root j.
Proof.
  intros SC HS classify pre1 pre2 post1 post2 Hpre Hpost fuel root j.
  destruct (mem_s root (map fst SC)) eqn:Hm.
  - exact (proj2 (rigid_same SC SC (map fst SC) classify pre1 pre2 post1 post2 Hpre Hpost HS fuel) root j Hm).
  - destruct fuel as [|f]; [reflexivity|]. rewrite !parse_cls_S.
    destruct (lookup_cls SC root) as [c|] eqn:L; [|reflexivity].
    exfalso. apply lookup_cls_In in L. unfold mem_s in Hm.
    assert (Ht : existsb (String.eqb root) (map fst SC) = true).
    { apply existsb_exists. exists root. split; [|apply String.eqb_refl].
      apply in_map_iff. exists (root, c). split; [reflexivity|exact L]. }
    rewrite Ht in Hm. discriminate Hm.
Qed.
