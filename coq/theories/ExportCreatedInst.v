(* ExportCreatedInst.v — p17j: the Job that instantiate_model + the job-side coercion build from a WELL-TYPED job
   template (ConformTyped.tc G "JobTemplate") has the property [SEMC "Job"] of ExportCreatedSem.v: whatever
   parse_model(Job, .) makes of its export is equal to it.  Top-down, class by class, along CreateJobProofs.shape_*:

     JobTemplate -> Job            name resolved (str); steps; description; parameterDefinitions -> parameters
                                   { n : JobParameter {type, description, value} }; jobEnvironments carried over
     StepTemplate -> Step          script / stepEnvironments / dependencies carried over (ExportCreatedCarried.v);
                                   parameterSpace -> StepParameterSpace { p : <subclass per type> }, every range item a
                                   str after coerce_job; hostRequirements -> HostRequirements [AmountRequirement],
                                   [AttributeRequirement] with resolved (str) names and values, Decimal bounds
     the ordered union RangeList | RangeExpression: a definition of EITHER subclass / shape re-parses to an equal
     instance under whichever alternative accepts its export ([sem_tpd]).
   Any resolver, symbol table, validators. *)
From Coq Require Import List NArith ZArith Bool String Lia.
Import ListNotations.
Require Import OJD.Base OJD.Lexer OJD.Json OJD.Schema OJD.Generated OJD.Charsets OJD.Numerals OJD.NumPrint
               OJD.FormatStr OJD.CreateJob OJD.CreateJobProofs OJD.Parse OJD.Export OJD.ExportProofs OJD.JsonEquiv
               OJD.CreateJobExactLib OJD.ConformLib OJD.ConformTyped OJD.ConformInst
               OJD.ExportCreatedRel OJD.ExportCreatedSem OJD.ExportCreatedCarried.
Local Open Scope string_scope.
Local Open Scope list_scope.

Ltac pick_field := cbn [f_name]; unfold mfield; cbn [lookup_s String.eqb Ascii.eqb Bool.eqb].
Ltac coerce_node := cbn [coerce map fst snd String.eqb Ascii.eqb Bool.eqb].

Definition opt_text (x : mval) : Prop := x = MNone \/ exists s, x = MStr s.
Definition opt_dec (x : mval) : Prop := x = MNone \/ exists a e, x = MDec a e.

Lemma opt_text_leaf : forall x, opt_text x -> leaf x = true.
Proof. intros x [->|[s ->]]; reflexivity. Qed.
Lemma opt_dec_leaf : forall x, opt_dec x -> leaf x = true.
Proof. intros x [->|[a [e ->]]]; reflexivity. Qed.

Lemma opt_str : forall st lo hi cs x, x = MNone \/ tk G (KStr st lo hi cs) x -> opt_text x.
Proof. intros st lo hi cs x [->|H]; [left; reflexivity|]. apply tk_str_inv in H. destruct H as [s [-> _]]. right. eexists. reflexivity. Qed.

Lemma opt_decimal : forall x, x = MNone \/ tk G KDec x -> opt_dec x.
Proof. intros x [->|H]; [left; reflexivity|]. apply tk_dec_inv in H. destruct H as [a [e ->]]. right. eexists. eexists. reflexivity. Qed.

Lemma coerce_strs : forall l, Forall (fun x => exists s, x = MStr s) l -> map coerce l = l.
Proof. intros l H. induction H as [|x r [s ->] _ IH]; [reflexivity|]. cbn [map coerce]. rewrite IH. reflexivity. Qed.

Lemma elems_list : forall rec l e, elems rec (MList l) = Ok e ->
  exists l', e = MList l' /\ Forall2 (fun x y => inst_elem rec x = Ok y) l l'.
Proof.
  intros rec l e H. cbn [elems] in H. destruct (mapM (inst_elem rec) l) as [l'|e'] eqn:Em; cbn [bind] in H; [|discriminate H].
  injection H as <-. exists l'. split; [reflexivity|]. apply mapM_Forall2. exact Em.
Qed.

Definition tpd_kind : kind :=
  KUnion [UScalar (KModel "RangeListTaskParameterDefinition"); UScalar (KModel "RangeExpressionTaskParameterDefinition")].

Definition tpd_classes : list string :=
  ["IntRangeListTaskParameterDefinition"; "RangeExpressionTaskParameterDefinition";
   "FloatRangeListTaskParameterDefinition"; "RangeListTaskParameterDefinition"].

Lemma jdef_fields : forall y, jdef y ->
  exists c' ty r, y = MModel c' [("type", MStr ty); ("range", r)] /\ In c' tpd_classes /\
                  ((exists ss, r = MList (map MStr ss)) \/ (exists s, r = MStr s)).
Proof.
  intros y H. destruct H as [ss|r|ss|ty ss Hty]; do 3 eexists; (split; [reflexivity|]); (split; [cbn; tauto|]);
    first [left; eexists; reflexivity|right; eexists; reflexivity].
Qed.

Section Inst.
  Variable classify : N -> cclass.
  Variable pre : string -> json -> bool.
  Variable post : string -> json -> list (string * mval) -> bool.
  Variable resolve : symtab -> str -> outcome str.
  Variable sigma : symtab.
  Notation SEMK := (SEMK classify pre post).
  Notation SEMC := (SEMC classify pre post).
  Notation SEMV := (SEMV classify pre post).
  Notation tk := (tk G). Notation tc := (tc G). Notation tv := (tv G).
  Notation INST := (inst G resolve sigma).

  Lemma semv_opt_text : forall fl x, f_shape fl = Single -> str_kind (f_kind fl) = true -> opt_text x -> SEMV fl x.
  Proof.
    intros fl x Hs Hk [->|[s ->]]; [apply semv_none|]. apply semv_single; [exact Hs|]. eapply sem_text; [exact Hk|reflexivity].
  Qed.

  Lemma semv_opt_dec : forall fl x, f_shape fl = Single -> f_kind fl = KDec -> opt_dec x -> SEMV fl x.
  Proof.
    intros fl x Hs Hk [->|[a [e ->]]]; [apply semv_none|]. apply semv_single; [exact Hs|]. rewrite Hk. apply sem_dec.
  Qed.

  (* -------------------------------------------------------------- task parameter definitions: the ordered union *)
  Theorem sem_tpd : forall y, jdef y -> SEMK tpd_kind y /\ mnone y = false.
  Proof.
    intros y Hy. destruct (jdef_fields y Hy) as [c' [ty [r [-> [Hc Hr]]]]]. split; [|reflexivity].
    apply sem_union. intros a Ha. destruct Ha as [<-|[<-|[]]]; apply sema_scalar; apply sem_model.
    - (* parsed as RangeListTaskParameterDefinition *)
      eapply sem_cls; [vm_compute; reflexivity| |].
      + destruct Hc as [<-|[<-|[<-|[<-|[]]]]]; vm_compute; reflexivity.
      + intros fl Hfl. cbn [c_fields In] in Hfl. destruct Hfl as [<-|[<-|[]]]; pick_field.
        * apply semv_single; [reflexivity|]. eapply sem_text; reflexivity.
        * destruct Hr as [[ss ->]|[s ->]].
          -- eapply semv_list; [reflexivity|]. intros x Hx. apply in_map_iff in Hx. destruct Hx as [s [<- _]].
             eapply sem_text; reflexivity.
          -- eapply semv_list_reject; [reflexivity|]. intros l. cbn [tobj]. discriminate.
    - (* parsed as RangeExpressionTaskParameterDefinition *)
      eapply sem_cls; [vm_compute; reflexivity| |].
      + destruct Hc as [<-|[<-|[<-|[<-|[]]]]]; vm_compute; reflexivity.
      + intros fl Hfl. cbn [c_fields In] in Hfl. destruct Hfl as [<-|[<-|[]]]; pick_field.
        * apply semv_single; [reflexivity|]. eapply sem_text; reflexivity.
        * apply semv_single; [reflexivity|]. destruct Hr as [[ss ->]|[s ->]].
          -- apply sem_scalar_composite; [reflexivity|]. left. cbn [tobj]. eexists. reflexivity.
          -- eapply sem_text; reflexivity.
  Qed.

  (* -------------------------------------------------------------- StepParameterSpaceDefinition -> StepParameterSpace *)
  Theorem space_sem : forall f ps y, tc "StepParameterSpaceDefinition" ps -> INST f ps = Ok y ->
    SEMC "StepParameterSpace" (coerce y).
  Proof.
    intros f ps y Ht H. destruct f as [|f]; [rewrite inst_O in H; discriminate H|]. open_tc Ht.
    match goal with Hx : tv (mkField "taskParameterDefinitions" _ _ _ _) ?x |- _ =>
      eapply tv_req_list in Hx; [|reflexivity|reflexivity]; cbn [f_kind] in Hx; destruct Hx as [items [-> Hitems]] end.
    match goal with Hx : tv (mkField "combination" _ _ _ _) ?x |- _ =>
      apply tv_opt_single in Hx; [|reflexivity]; cbn [f_kind] in Hx; apply opt_str in Hx; rename Hx into Hcb end.
    rewrite shape_ParamSpace in H; [|reflexivity|apply opt_text_leaf; exact Hcb].
    destruct (keyed (INST f) "name" (MList items)) as [t'|e] eqn:Ek; cbn [bind] in H; [|discriminate H]. injection H as <-.
    assert (Ed : exists d, t' = MDict d).
    { unfold keyed in Ek. destruct (fold_left _ items (Ok [])) as [d|e]; cbn [bind] in Ek; [|discriminate Ek].
      injection Ek as <-. eexists. reflexivity. }
    destruct Ed as [d ->].
    assert (Hd : forall kv, In kv d -> jdef (coerce (snd kv))).
    { intros kv Hkv. destruct (keyed_in _ _ _ _ Ek kv Hkv) as [item [Hi [_ Hy]]].
      rewrite Forall_forall in Hitems. specialize (Hitems item Hi).
      destruct (disc_task_class resolve sigma item Hitems) as [c [Hc Htc]].
      pose proof Htc as Htc'. apply tc_inv in Htc'. destruct Htc' as [c0 [ifs [_ [-> _]]]]. cbn [inst_elem] in Hy.
      apply coerce_def. eapply inst_task_def; eassumption. }
    coerce_node. cbn [coerce]. rewrite (leaf_coerce _ (opt_text_leaf _ Hcb)).
    eapply sem_cls; [vm_compute; reflexivity|vm_compute; reflexivity|].
    intros fl Hfl. cbn [c_fields In] in Hfl. destruct Hfl as [<-|[<-|[]]]; pick_field.
    - eapply semv_dict; [reflexivity|]. intros kv Hkv. apply in_map_iff in Hkv. destruct Hkv as [kv0 [<- Hkv0]].
      cbn [snd f_kind]. destruct (sem_tpd _ (Hd kv0 Hkv0)) as [H1 H2]. split; [exact H2|exact H1].
    - apply semv_opt_text; [reflexivity|reflexivity|exact Hcb].
  Qed.

  (* -------------------------------------------------------------- host requirements *)
  Theorem amount_sem : forall f x y, tc "AmountRequirementTemplate" x -> INST f x = Ok y ->
    SEMC "AmountRequirement" (coerce y).
  Proof.
    intros f x y Ht H. destruct f as [|f]; [rewrite inst_O in H; discriminate H|]. open_tc Ht.
    match goal with Hx : tv (mkField "name" _ _ _ _) ?x |- _ =>
      apply tv_req_single in Hx; [|reflexivity|reflexivity]; cbn [f_kind] in Hx; apply tk_fmt_inv in Hx; destruct Hx as [s ->] end.
    match goal with Hx : tv (mkField "min" _ _ _ _) ?x |- _ =>
      apply tv_opt_single in Hx; [|reflexivity]; cbn [f_kind] in Hx; apply opt_decimal in Hx; rename Hx into Hmin end.
    match goal with Hx : tv (mkField "max" _ _ _ _) ?x |- _ =>
      apply tv_opt_single in Hx; [|reflexivity]; cbn [f_kind] in Hx; apply opt_decimal in Hx; rename Hx into Hmax end.
    rewrite shape_Amount in H; [|apply opt_dec_leaf; assumption|apply opt_dec_leaf; assumption].
    destruct (resolve sigma s) as [r|e]; cbn [bind] in H; [|discriminate H]. injection H as <-.
    coerce_node. rewrite !leaf_coerce by (apply opt_dec_leaf; assumption).
    eapply sem_cls; [vm_compute; reflexivity|vm_compute; reflexivity|].
    intros fl Hfl. cbn [c_fields In] in Hfl. destruct Hfl as [<-|[<-|[<-|[]]]]; pick_field.
    - apply semv_single; [reflexivity|]. eapply sem_text; reflexivity.
    - apply semv_opt_dec; [reflexivity|reflexivity|assumption].
    - apply semv_opt_dec; [reflexivity|reflexivity|assumption].
  Qed.

  Definition opt_strs (x : mval) : Prop := x = MNone \/ exists l, x = MList l /\ Forall (fun y => exists s, y = MStr s) l.

  Lemma res_elems_strs : forall rec fc a b c x y,
    x = MNone \/ (exists l, x = MList l /\ Forall (tk (KFormat fc a b c)) l) ->
    res_elems resolve sigma rec x = Ok y -> opt_strs y.
  Proof.
    intros rec fc a b c x y [->|[l [-> Hl]]] H.
    - cbn [res_elems] in H. injection H as <-. left. reflexivity.
    - cbn [res_elems] in H. destruct (mapM (res_elem resolve sigma rec) l) as [l'|e] eqn:Em; cbn [bind] in H; [|discriminate H].
      injection H as <-. right. exists l'. split; [reflexivity|].
      eapply res_items; [|exact Hl|exact Em].
      intros x0 y0 Hx Hr. cbv beta in Hx. apply tk_fmt_inv in Hx. destruct Hx as [s ->]. eapply res_fmt. exact Hr.
  Qed.

  Lemma opt_strs_coerce : forall x, opt_strs x -> coerce x = x.
  Proof. intros x [->|[l [-> Hl]]]; [reflexivity|]. cbn [coerce]. rewrite (coerce_strs l Hl). reflexivity. Qed.

  Lemma semv_opt_strs : forall fl lo hi x, f_shape fl = ListOf lo hi -> str_kind (f_kind fl) = true -> opt_strs x -> SEMV fl x.
  Proof.
    intros fl lo hi x Hs Hk [->|[l [-> Hl]]]; [apply semv_none|]. eapply semv_list; [exact Hs|].
    intros y Hy. rewrite Forall_forall in Hl. destruct (Hl y Hy) as [s ->]. eapply sem_text; [exact Hk|reflexivity].
  Qed.

  Theorem attribute_sem : forall f x y, tc "AttributeRequirementTemplate" x -> INST f x = Ok y ->
    SEMC "AttributeRequirement" (coerce y).
  Proof.
    intros f x y Ht H. destruct f as [|f]; [rewrite inst_O in H; discriminate H|]. open_tc Ht.
    match goal with Hx : tv (mkField "name" _ _ _ _) ?x |- _ =>
      apply tv_req_single in Hx; [|reflexivity|reflexivity]; cbn [f_kind] in Hx; apply tk_fmt_inv in Hx; destruct Hx as [s ->] end.
    match goal with Hx : tv (mkField "anyOf" _ _ _ _) ?x |- _ =>
      eapply tv_opt_list in Hx; [|reflexivity]; cbn [f_kind] in Hx; rename Hx into Hany end.
    match goal with Hx : tv (mkField "allOf" _ _ _ _) ?x |- _ =>
      eapply tv_opt_list in Hx; [|reflexivity]; cbn [f_kind] in Hx; rename Hx into Hall end.
    rewrite shape_Attribute in H; [|eapply opt_list_ok; exact Hany|eapply opt_list_ok; exact Hall].
    destruct (resolve sigma s) as [r|e]; cbn [bind] in H; [|discriminate H].
    match type of H with context [res_elems ?a ?b ?c ?x] =>
      destruct (res_elems a b c x) as [any'|e] eqn:Ea; cbn [bind] in H; [|discriminate H] end.
    match type of H with context [res_elems ?a ?b ?c ?x] =>
      destruct (res_elems a b c x) as [all'|e] eqn:Eb; cbn [bind] in H; [|discriminate H] end.
    injection H as <-.
    pose proof (res_elems_strs _ _ _ _ _ _ _ Hany Ea) as Sa.
    pose proof (res_elems_strs _ _ _ _ _ _ _ Hall Eb) as Sb.
    coerce_node. rewrite (opt_strs_coerce _ Sa), (opt_strs_coerce _ Sb).
    eapply sem_cls; [vm_compute; reflexivity|vm_compute; reflexivity|].
    intros fl Hfl. cbn [c_fields In] in Hfl. destruct Hfl as [<-|[<-|[<-|[]]]]; pick_field.
    - apply semv_single; [reflexivity|]. eapply sem_text; reflexivity.
    - eapply semv_opt_strs; [reflexivity|reflexivity|exact Sa].
    - eapply semv_opt_strs; [reflexivity|reflexivity|exact Sb].
  Qed.

  (* an optional list of template-side items, instantiated elementwise and coerced *)
  Lemma semv_inst_items : forall fl lo hi cT cJ rec x e,
    f_shape fl = ListOf lo hi -> f_kind fl = KModel cJ ->
    x = MNone \/ (exists l, x = MList l /\ Forall (tk (KModel cT)) l) ->
    (forall item y, tc cT item -> rec item = Ok y -> SEMC cJ (coerce y)) ->
    elems rec x = Ok e -> SEMV fl (coerce e).
  Proof.
    intros fl lo hi cT cJ rec x e Hs Hk [->|[l [-> Hl]]] Hrec H.
    - cbn [elems] in H. injection H as <-. apply semv_none.
    - destruct (elems_list _ _ _ H) as [l' [-> HF]]. cbn [coerce]. eapply semv_list; [exact Hs|].
      intros y Hy. apply in_map_iff in Hy. destruct Hy as [y0 [<- Hy0]].
      destruct (Forall2_in_r _ _ _ _ _ _ HF Hy0) as [item [Hi Hr]].
      rewrite Forall_forall in Hl. pose proof (Hl item Hi) as Ht. apply tk_model_inv in Ht.
      pose proof Ht as Ht'. apply tc_inv in Ht'. destruct Ht' as [c0 [ifs [_ [-> _]]]]. cbn [inst_elem] in Hr.
      rewrite Hk. apply sem_model. eapply Hrec; eassumption.
  Qed.

  Theorem host_sem : forall f hr y, tc "HostRequirementsTemplate" hr -> INST f hr = Ok y ->
    SEMC "HostRequirements" (coerce y).
  Proof.
    intros f hr y Ht H. destruct f as [|f]; [rewrite inst_O in H; discriminate H|]. open_tc Ht.
    match goal with Hx : tv (mkField "amounts" _ _ _ _) ?x |- _ =>
      eapply tv_opt_list in Hx; [|reflexivity]; cbn [f_kind] in Hx; rename Hx into Ham end.
    match goal with Hx : tv (mkField "attributes" _ _ _ _) ?x |- _ =>
      eapply tv_opt_list in Hx; [|reflexivity]; cbn [f_kind] in Hx; rename Hx into Hat end.
    rewrite shape_HostReq in H; [|eapply opt_list_ok; exact Ham|eapply opt_list_ok; exact Hat].
    match type of H with context [elems ?r ?x] => destruct (elems r x) as [a|e] eqn:Ea; cbn [bind] in H; [|discriminate H] end.
    match type of H with context [elems ?r ?x] => destruct (elems r x) as [b|e] eqn:Eb; cbn [bind] in H; [|discriminate H] end.
    injection H as <-. coerce_node.
    eapply sem_cls; [vm_compute; reflexivity|vm_compute; reflexivity|].
    intros fl Hfl. cbn [c_fields In] in Hfl. destruct Hfl as [<-|[<-|[]]]; pick_field.
    - eapply semv_inst_items; [reflexivity|reflexivity|exact Ham| |exact Ea].
      intros item y Hti Hr. eapply amount_sem; eassumption.
    - eapply semv_inst_items; [reflexivity|reflexivity|exact Hat| |exact Eb].
      intros item y Hti Hr. eapply attribute_sem; eassumption.
  Qed.

  (* -------------------------------------------------------------- job parameters *)
  Lemma jobparam_sem : forall ty d v, opt_text d ->
    SEMK (KModel "JobParameter") (coerce (MModel "JobParameter" [("type", MStr ty); ("description", d); ("value", MStr v)]))
    /\ mnone (coerce (MModel "JobParameter" [("type", MStr ty); ("description", d); ("value", MStr v)])) = false.
  Proof.
    intros ty d v Hd. coerce_node. rewrite (leaf_coerce _ (opt_text_leaf _ Hd)). split; [|reflexivity].
    apply sem_model. eapply sem_cls; [vm_compute; reflexivity|vm_compute; reflexivity|].
    intros fl Hfl. cbn [c_fields In] in Hfl. destruct Hfl as [<-|[<-|[<-|[]]]]; pick_field.
    - apply semv_single; [reflexivity|]. eapply sem_text; reflexivity.
    - apply semv_single; [reflexivity|]. eapply sem_text; reflexivity.
    - apply semv_opt_text; [reflexivity|reflexivity|exact Hd].
  Qed.

  Ltac param_fields :=
    match goal with Hx : tv (mkField "name" _ _ _ _) ?x |- _ =>
      apply tv_req_single in Hx; [|reflexivity|reflexivity]; cbn [f_kind] in Hx; apply tk_str_inv in Hx;
      let n := fresh "n" in destruct Hx as [n [-> _]] end;
    match goal with Hx : tv (mkField "type" _ _ _ _) ?x |- _ =>
      apply tv_req_single in Hx; [|reflexivity|reflexivity]; cbn [f_kind] in Hx; apply tk_lit_inv in Hx; subst x end;
    match goal with Hx : tv (mkField "description" _ _ _ _) ?x |- _ =>
      apply tv_opt_single in Hx; [|reflexivity]; cbn [f_kind] in Hx; apply opt_str in Hx end.

  Ltac param_finish H :=
    unfold job_parameter in H;
    match type of H with context [st_lookup ?a ?b] => destruct (st_lookup a b); [|discriminate H] end;
    injection H as <-; apply jobparam_sem; assumption.

  Theorem param_sem : forall f item y, tk kdisc_param item -> INST f item = Ok y ->
    SEMK (KModel "JobParameter") (coerce y) /\ mnone (coerce y) = false.
  Proof.
    intros f item y Ht H. destruct f as [|f]; [rewrite inst_O in H; discriminate H|].
    apply tk_disc_inv in Ht. destruct Ht as [kk [c [Hin Ht]]].
    destruct Hin as [E|[E|[E|[E|[]]]]]; injection E as _ <-; open_tc Ht; param_fields.
    - rewrite shape_JobIntParam in H by (reflexivity || (apply opt_text_leaf; assumption)). param_finish H.
    - rewrite shape_JobFloatParam in H by (reflexivity || (apply opt_text_leaf; assumption)). param_finish H.
    - rewrite shape_JobStringParam in H by (reflexivity || (apply opt_text_leaf; assumption)). param_finish H.
    - rewrite shape_JobPathParam in H by (reflexivity || (apply opt_text_leaf; assumption)). param_finish H.
  Qed.

  (* -------------------------------------------------------------- carried values *)
  Lemma semv_carried_items : forall fl lo hi c x,
    f_shape fl = ListOf lo hi -> f_kind fl = KModel c -> In c carried_classes ->
    x = MNone \/ (exists l, x = MList l /\ Forall (tk (KModel c)) l) ->
    SEMV fl x /\ incl (classes_in x) carried_classes /\ coerce x = x.
  Proof.
    intros fl lo hi c x Hs Hk Hc [->|[l [-> Hl]]].
    - split; [apply semv_none|split; [intros ? []|reflexivity]].
    - pose proof (carried_items classify pre post c l Hc Hl) as Hi. split; [|split].
      + eapply semv_list; [exact Hs|]. intros y Hy. rewrite Hk. apply sem_model. apply (Hi y Hy).
      + cbn [classes_in]. intros c1 Hc1. apply in_flat_map in Hc1. destruct Hc1 as [y [Hy Hc1]].
        destruct (Hi y Hy) as [_ [H2 _]]. apply H2. exact Hc1.
      + cbn [coerce]. f_equal. induction l as [|a r IH]; [reflexivity|]. cbn [map].
        destruct (Hi a (or_introl eq_refl)) as [_ [_ H3]]. rewrite H3. f_equal. apply IH.
        * inversion Hl; assumption.
        * intros y Hy. apply Hi. right. exact Hy.
  Qed.

  Lemma opt_items_depth : forall c (fs : list (string * mval)) n x, In (n, x) fs -> mval_depth x < mval_depth (MModel c fs).
  Proof. intros c fs n x H. exact (field_depth c fs (n, x) H). Qed.

  (* -------------------------------------------------------------- StepTemplate -> Step *)
  Theorem step_sem : forall f st y, tc "StepTemplate" st -> mval_depth st <= f -> INST (S f) st = Ok y ->
    SEMC "Step" (coerce y).
  Proof.
    intros f st y Ht Hdep H. open_tc Ht.
    match goal with Hx : tv (mkField "name" _ _ _ _) ?x |- _ =>
      apply tv_req_single in Hx; [|reflexivity|reflexivity]; cbn [f_kind] in Hx; apply tk_str_inv in Hx;
      destruct Hx as [n [-> _]] end.
    match goal with Hx : tv (mkField "description" _ _ _ _) ?x |- _ =>
      apply tv_opt_single in Hx; [|reflexivity]; cbn [f_kind] in Hx; apply opt_str in Hx; rename Hx into Hd end.
    match goal with Hx : tv (mkField "script" _ _ _ _) ?x |- _ =>
      apply tv_req_single in Hx; [|reflexivity|reflexivity]; cbn [f_kind] in Hx; apply tk_model_inv in Hx; rename Hx into Hsc end.
    match goal with Hx : tv (mkField "stepEnvironments" _ _ _ _) ?x |- _ =>
      eapply tv_opt_list in Hx; [|reflexivity]; cbn [f_kind] in Hx; rename Hx into Hse end.
    match goal with Hx : tv (mkField "hostRequirements" _ _ _ _) ?x |- _ =>
      apply tv_opt_single in Hx; [|reflexivity]; cbn [f_kind] in Hx; rename Hx into Hhr end.
    match goal with Hx : tv (mkField "dependencies" _ _ _ _) ?x |- _ =>
      eapply tv_opt_list in Hx; [|reflexivity]; cbn [f_kind] in Hx; rename Hx into Hdp end.
    match goal with Hx : tv (mkField "parameterSpace" _ _ _ _) ?x |- _ =>
      apply tv_opt_single in Hx; [|reflexivity]; cbn [f_kind] in Hx; rename Hx into Hps end.
    destruct (carried_cp classify pre post "StepScript" _ (or_introl eq_refl) Hsc) as [Ssc [Csc Isc]].
    destruct (semv_carried_items (mkField "stepEnvironments" "stepEnvironments" false (ListOf (Some 1%N) None) (KModel "Environment"))
                                 _ _ "Environment" _ eq_refl eq_refl ltac:(cbn; tauto) Hse) as [Sse [Cse Ise]].
    destruct (semv_carried_items (mkField "dependencies" "dependencies" false (ListOf (Some 1%N) None) (KModel "StepDependency"))
                                 _ _ "StepDependency" _ eq_refl eq_refl ltac:(cbn; tauto) Hdp) as [Sdp [Cdp Idp]].
    match type of H with INST (S f) (MModel _ ?fs) = _ =>
      assert (Dep : forall fnm fvx, In (fnm, fvx) fs -> mval_depth fvx < f)
        by (intros fnm fvx Hin; pose proof (opt_items_depth "StepTemplate" fs fnm fvx Hin); lia) end.
    rewrite shape_StepTemplate_carried in H;
      [|reflexivity
       |apply opt_text_leaf; exact Hd
       |eapply tc_single; exact Hsc
       |eapply opt_list_ok; exact Hse
       |eapply opt_model_single; exact Hps
       |eapply opt_model_single; exact Hhr
       |eapply opt_list_ok; exact Hdp
       |exact Csc
       |eapply Dep; cbn; tauto
       |exact Cse
       |apply Nat.lt_le_incl; eapply Dep; cbn; tauto
       |exact Cdp
       |apply Nat.lt_le_incl; eapply Dep; cbn; tauto].
    match type of H with context [inst_elem ?r ?x] => destruct (inst_elem r x) as [ps'|e] eqn:Eps; cbn [bind] in H; [|discriminate H] end.
    match type of H with context [inst_elem ?r ?x] => destruct (inst_elem r x) as [hr'|e] eqn:Ehr; cbn [bind] in H; [|discriminate H] end.
    injection H as <-. coerce_node. rewrite (leaf_coerce _ (opt_text_leaf _ Hd)), Isc, Ise, Idp.
    eapply sem_cls; [vm_compute; reflexivity|vm_compute; reflexivity|].
    intros fl Hfl. cbn [c_fields In] in Hfl. destruct Hfl as [<-|[<-|[<-|[<-|[<-|[<-|[<-|[]]]]]]]]; pick_field.
    - apply semv_single; [reflexivity|]. eapply sem_text; reflexivity.
    - apply semv_single; [reflexivity|]. apply sem_model. exact Ssc.
    - apply semv_opt_text; [reflexivity|reflexivity|exact Hd].
    - exact Sse.
    - destruct Hps as [->|Hps].
      + cbn [inst_elem] in Eps. injection Eps as <-. apply semv_none.
      + apply tk_model_inv in Hps. pose proof Hps as Hps'. apply tc_inv in Hps'. destruct Hps' as [c0 [pfs [_ [-> _]]]].
        cbn [inst_elem] in Eps. apply semv_single; [reflexivity|]. apply sem_model. eapply space_sem; eassumption.
    - destruct Hhr as [->|Hhr].
      + cbn [inst_elem] in Ehr. injection Ehr as <-. apply semv_none.
      + apply tk_model_inv in Hhr. pose proof Hhr as Hhr'. apply tc_inv in Hhr'. destruct Hhr' as [c0 [pfs [_ [-> _]]]].
        cbn [inst_elem] in Ehr. apply semv_single; [reflexivity|]. apply sem_model. eapply host_sem; eassumption.
    - exact Sdp.
  Qed.

  (* -------------------------------------------------------------- JobTemplate -> Job *)
  Theorem job_sem : forall f t job, tc "JobTemplate" t -> mval_depth t <= f -> INST (S f) t = Ok job ->
    SEMC "Job" (coerce job) /\ exists fs, coerce job = MModel "Job" fs.
  Proof.
    intros f t job Ht Hdep H. open_tc Ht.
    match goal with Hx : tv (mkField "name" _ _ _ _) ?x |- _ =>
      apply tv_req_single in Hx; [|reflexivity|reflexivity]; cbn [f_kind] in Hx; apply tk_fmt_inv in Hx;
      destruct Hx as [s ->] end.
    match goal with Hx : tv (mkField "steps" _ _ _ _) ?x |- _ =>
      eapply tv_req_list in Hx; [|reflexivity|reflexivity]; cbn [f_kind] in Hx; destruct Hx as [stl [-> Hsteps]] end.
    match goal with Hx : tv (mkField "description" _ _ _ _) ?x |- _ =>
      apply tv_opt_single in Hx; [|reflexivity]; cbn [f_kind] in Hx; apply opt_str in Hx; rename Hx into Hd end.
    match goal with Hx : tv (mkField "jobEnvironments" _ _ _ _) ?x |- _ =>
      eapply tv_opt_list in Hx; [|reflexivity]; cbn [f_kind] in Hx; rename Hx into Hje end.
    match goal with Hx : tv (mkField "parameterDefinitions" _ _ _ _) ?x |- _ =>
      eapply tv_opt_list in Hx; [|reflexivity]; cbn [f_kind] in Hx; rename Hx into Hpd end.
    destruct (semv_carried_items (mkField "jobEnvironments" "jobEnvironments" false (ListOf (Some 1%N) None) (KModel "Environment"))
                                 _ _ "Environment" _ eq_refl eq_refl ltac:(cbn; tauto) Hje) as [Sje [Cje Ije]].
    match type of H with INST (S f) (MModel _ ?fs) = _ =>
      assert (Dep : forall fnm fvx, In (fnm, fvx) fs -> mval_depth fvx < f)
        by (intros fnm fvx Hin; pose proof (opt_items_depth "JobTemplate" fs fnm fvx Hin); lia) end.
    rewrite shape_JobTemplate in H;
      [|reflexivity|apply opt_text_leaf; exact Hd|eapply opt_list_ok; exact Hpd|eapply opt_list_ok; exact Hje].
    destruct (resolve sigma s) as [n|e]; cbn [bind] in H; [|discriminate H].
    destruct (elems (INST f) (MList stl)) as [st'|e] eqn:Est; cbn [bind] in H; [|discriminate H].
    match type of H with context [keyed ?r ?k ?x] => destruct (keyed r k x) as [p|e] eqn:Ep; cbn [bind] in H; [|discriminate H] end.
    rewrite (elems_unchanged resolve sigma f) in H;
      [|intros c Hc; apply carried_are_trivial; apply Cje; exact Hc|apply Nat.lt_le_incl; eapply Dep; cbn; tauto].
    cbn [bind] in H. injection H as <-.
    destruct (elems_list _ _ _ Est) as [steps [-> HFs]].
    coerce_node. cbn [coerce]. rewrite (leaf_coerce _ (opt_text_leaf _ Hd)), Ije.
    split; [|eexists; reflexivity].
    eapply sem_cls; [vm_compute; reflexivity|vm_compute; reflexivity|].
    intros fl Hfl. cbn [c_fields In] in Hfl. destruct Hfl as [<-|[<-|[<-|[<-|[<-|[]]]]]]; pick_field.
    - apply semv_single; [reflexivity|]. eapply sem_text; reflexivity.
    - eapply semv_list; [reflexivity|]. intros y Hy. apply in_map_iff in Hy. destruct Hy as [y0 [<- Hy0]].
      destruct (Forall2_in_r _ _ _ _ _ _ HFs Hy0) as [st [Hst Hr]].
      rewrite Forall_forall in Hsteps. pose proof (Hsteps st Hst) as Htk. apply tk_model_inv in Htk.
      pose proof Htk as Htk'. apply tc_inv in Htk'. destruct Htk' as [c0 [sfs [_ [Est' _]]]].
      rewrite Est' in Hr. cbn [inst_elem] in Hr. rewrite <- Est' in Hr.
      cbn [f_kind]. apply sem_model.
      assert (Dst : mval_depth st < mval_depth (MList stl)) by (apply item_depth; exact Hst).
      assert (Dl : mval_depth (MList stl) < f) by (eapply Dep; cbn; tauto).
      destruct f as [|f']; [lia|]. eapply (step_sem f'); [exact Htk|lia|exact Hr].
    - apply semv_opt_text; [reflexivity|reflexivity|exact Hd].
    - destruct Hpd as [->|[l [-> Hl]]].
      + cbn [keyed] in Ep. injection Ep as <-. apply semv_none.
      + assert (Edd : exists d, p = MDict d).
        { unfold keyed in Ep. destruct (fold_left _ l (Ok [])) as [d|e]; cbn [bind] in Ep; [|discriminate Ep].
          injection Ep as <-. eexists. reflexivity. }
        destruct Edd as [d ->]. cbn [coerce]. eapply semv_dict; [reflexivity|].
        intros kv Hkv. apply in_map_iff in Hkv. destruct Hkv as [kv0 [<- Hkv0]]. cbn [snd f_kind].
        destruct (keyed_in _ _ _ _ Ep kv0 Hkv0) as [item [Hi [_ Hy]]].
        rewrite Forall_forall in Hl. pose proof (Hl item Hi) as Htk.
        assert (Hm : exists ic ifs, item = MModel ic ifs).
        { pose proof Htk as Hl'. apply tk_disc_inv in Hl'. destruct Hl' as [kk [c [_ Hc]]]. apply tc_inv in Hc.
          destruct Hc as [c0 [ifs [_ [-> _]]]]. eexists. eexists. reflexivity. }
        destruct Hm as [ic [ifs Em]]. rewrite Em in Hy. cbn [inst_elem] in Hy. rewrite <- Em in Hy.
        destruct (param_sem f item (snd kv0) Htk Hy) as [H1 H2]. split; [exact H2|exact H1].
    - exact Sje.
  Qed.
End Inst.
