(* Accept.v — verdict of decode_job_template / decode_environment_template on a document:
   version dispatch (repo code in _parse.py) + structural parse + validators.  Definitions only. *)
From Coq Require Import List NArith ZArith Bool String.
Import ListNotations.
Require Import OJD.Base OJD.Lexer OJD.Json OJD.Schema OJD.Generated OJD.CreateJob OJD.Parse OJD.Validators.
Local Open Scope string_scope.

Section Accept.
  Variable classify : N -> cclass.

  Definition parse_template (root : string) (j : json) : outcome mval :=
    parse_root Generated.schema classify (pre_hook) (post_hook classify) root j.

  (* decode_job_template: the specificationVersion must be one of the job-template versions *)
  Definition version_ok (versions : list string) (j : json) : bool :=
    match jget "specificationVersion" j with
    | JStr s => existsb (fun v => str_eqb s (str_of_string v)) versions
    | _ => false
    end.

  Definition decode_job (j : json) : outcome mval :=
    match j with
    | JObj _ => if version_ok Generated.job_template_versions j then parse_template "JobTemplate" j else Raise ValueError
    | _ => Raise RuntimeError
    end.

  Definition decode_env (j : json) : outcome mval :=
    match j with
    | JObj _ => if version_ok Generated.env_template_versions j then parse_template "EnvironmentTemplate" j else Raise ValueError
    | _ => Raise RuntimeError
    end.
End Accept.
