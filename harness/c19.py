"""C19 — verdicts and Jobs are invariant under presentation changes (metamorphic check)."""
import json
import random
import re
import sys
from pathlib import Path

import yaml

sys.path.insert(0, str(Path(__file__).resolve().parent))
import core  # noqa: E402
import gen_template as G  # noqa: E402
import mutate as M  # noqa: E402
import c05  # noqa: E402

from openjd.model import (  # noqa: E402
    DecodeValidationError, DocumentType, ParameterValue, ParameterValueType, create_job, decode_environment_template,
    decode_job_template, document_string_to_object, model_to_object,
)

_SRC_CHARS = "".join(sorted({c for p in (G.__file__, M.__file__) for c in Path(p).read_text() if ord(c) > 127}))
IDENT = re.compile(r"[A-Za-z_][A-Za-z0-9_]*")
REF = re.compile(r"\{\{(.*?)\}\}", re.S)
PREFIXES = ["Task.RawParam.", "Task.Param.", "Task.File.", "Env.File.", "RawParam.", "Param."]


# ------------------------------------------------------------------ transformations
def permute_keys(rng, x, mode):
    if isinstance(x, dict):
        items = list(x.items())
        if mode == "reverse":
            items.reverse()
        else:
            rng.shuffle(items)
        return {k: permute_keys(rng, v, mode) for k, v in items}
    if isinstance(x, list):
        return [permute_keys(rng, v, mode) for v in x]
    return x


# blanks a field may hold: the plain space everywhere; where the field's character set allows them (range
# expressions, embedded file data) also the other characters the lexers count as blank (\s)
SPACE_ONLY = [" "]
ANY_BLANK = [" ", " ", "\t", "\n", "\u2003", "\u00a0", " \t"]


def reblank_ref(rng, m, blanks=SPACE_ONLY):
    body = m.group(1)
    if not re.fullmatch(r"[ ]*[A-Za-z_][A-Za-z0-9_]*([ ]*\.[ ]*[A-Za-z_][A-Za-z0-9_]*)*[ ]*", body):
        return m.group(0)          # not a plain dotted name with spaces: leave alone
    parts = [p.strip(" ") for p in body.split(".")]

    def b():
        return "".join(rng.choice(blanks) for _ in range(rng.choice([0, 0, 1, 2])))
    return "{{" + b() + (b() + "." + b()).join(parts) + b() + "}}"


def reblank_tokens(rng, s, token_re, blanks=SPACE_ONLY):
    """re-space a token string: tokens are kept, blanks inserted/removed between them"""
    toks = token_re.findall(s)
    if "".join(toks) != s.replace(" ", "") or len(s) > 300:
        return s               # not only tokens and spaces, or near a length limit (re-spacing would cross it): leave alone
    out = ""
    for i, t in enumerate(toks):
        if i and (rng.random() < 0.5 or (re.match(r"[A-Za-z0-9_]", t) and re.match(r"[A-Za-z0-9_]", toks[i - 1]))):
            out += rng.choice(blanks)
        out += t
    if blanks is not SPACE_ONLY and rng.random() < 0.2:
        out = rng.choice(blanks) + out + rng.choice(blanks)
    return out


RANGE_TOK = re.compile(r"\{\{.*?\}\}|\d+|[-:,]")
COMB_TOK = re.compile(r"[A-Za-z_][A-Za-z0-9_]*|[*(),]")


def map_strings(x, f, path=()):
    if isinstance(x, dict):
        return {k: map_strings(v, f, path + (k,)) for k, v in x.items()}
    if isinstance(x, list):
        return [map_strings(v, f, path + (i,)) for i, v in enumerate(x)]
    if isinstance(x, str):
        return f(x, path)
    return x


def is_fs_path(path):
    """format-string fields of the schema (where '{{ }}' is a reference)"""
    if not path:
        return False
    last = path[-1]
    keys = [p for p in path if isinstance(p, str)]
    if keys == ["name"]:
        return True
    if "command" == last or (len(path) >= 2 and path[-2] == "args"):
        return True
    if last == "data" or (len(path) >= 2 and path[-2] == "variables"):
        return True
    if "range" in keys:
        return True
    if "hostRequirements" in keys and (last == "name" or (len(path) >= 2 and path[-2] in ("anyOf", "allOf"))):
        return True
    return False


def reblank(rng, doc):
    def f(s, path):
        keys = [p for p in path if isinstance(p, str)]
        if path and path[-1] == "combination":
            return reblank_tokens(rng, s, COMB_TOK)
        if not is_fs_path(path):
            return s
        if "range" in keys and isinstance(path[-1], str) and path[-1] == "range":
            # an INT range expression string: blanks around tokens and inside references
            s2 = REF.sub(lambda m: reblank_ref(rng, m, ANY_BLANK), s)
            if "{{" not in s2:
                return reblank_tokens(rng, s2, RANGE_TOK, ANY_BLANK)
            return s2
        if path[-1] == "data":
            return REF.sub(lambda m: reblank_ref(rng, m, ANY_BLANK), s)
        return REF.sub(lambda m: reblank_ref(rng, m), s)
    return map_strings(doc, f)


def fresh_like(rng, name, taken):
    for _ in range(200):
        first = rng.choice("ABCDEFGHJKLMNPQRSTUVWXYZabcdefghijkmnpqrstuvwxyz")
        rest = "".join(rng.choice("ABCDEFGHJKLMNPQRSTUVWXYZabcdefghijkmnpqrstuvwxyz0123456789_") for _ in range(len(name) - 1))
        n = first + rest
        if n not in taken:
            taken.add(n)
            return n
    return None


def build_renaming(rng, doc, vals):
    text = json.dumps(doc) + json.dumps(vals)
    taken = set(IDENT.findall(text))
    ren = {}

    def add(n):
        if isinstance(n, str) and IDENT.fullmatch(n) and n not in ren:
            new = fresh_like(rng, n, taken)
            if new:
                ren[n] = new
    for p in M.job_params(doc):
        add(p.get("name"))
    for tp in M.task_params(doc):
        add(tp.get("name"))
    for f in M.files(doc):
        add(f.get("name"))
    # steps and environments are named by free text: each distinct name gets a fresh name of the same length (so no
    # length limit is crossed), letters only (so no character-set rule is); equal names stay equal, different stay different
    def fresh_text(n, used):
        for _ in range(200):
            t = "".join(rng.choice("ABCDEFGHJKLMNPQRSTUVWXYZabcdefghijkmnpqrstuvwxyz") for _ in range(len(n)))
            if t not in used and t not in text:
                used.add(t)
                return t
        return n
    used = set()
    smap, emap = {}, {}

    def renamable(n):
        # only names that are fine as names: a name that breaks the length / character rule must keep breaking it
        return isinstance(n, str) and 1 <= len(n) <= 64 and not any(ord(ch) < 32 or 127 <= ord(ch) < 160 for ch in n)
    for st in M.steps(doc):
        n = st.get("name")
        if renamable(n) and n not in smap:
            smap[n] = fresh_text(n, used)
    for e in M.envs(doc):
        n = e.get("name")
        if renamable(n) and n not in emap:
            emap[n] = fresh_text(n, used)
    ren["\0steps"], ren["\0envs"] = smap, emap
    return ren


def _is_step_name(path):
    return len(path) == 3 and path[0] == "steps" and path[2] == "name"


def _is_env_name(path):
    return path and path[-1] == "name" and ((len(path) >= 3 and path[-3] in ("jobEnvironments", "stepEnvironments")) or path == ("environment", "name"))


def rename_ref(ren, m):
    body = m.group(1)
    norm = re.sub(r"\s+", "", body)
    for pre in PREFIXES:
        if norm.startswith(pre) and norm[len(pre):] in ren:
            # keep the original spacing: replace the last identifier occurrence
            old = norm[len(pre):]
            i = body.rfind(old)
            return "{{" + body[:i] + ren[old] + body[i + len(old):] + "}}"
    return m.group(0)


def rename_doc(ren, doc):
    def f(s, path):
        if path and path[-1] == "combination":
            return IDENT.sub(lambda m: ren.get(m.group(0), m.group(0)), s)
        if path and path[-1] == "name" and ("parameterDefinitions" in path or "taskParameterDefinitions" in path or "embeddedFiles" in path) \
                and not ("hostRequirements" in path):
            return ren.get(s, s)
        if _is_step_name(path) or (path and path[-1] == "dependsOn"):
            return ren.get("\0steps", {}).get(s, s)
        if _is_env_name(path):
            return ren.get("\0envs", {}).get(s, s)
        if is_fs_path(path):
            return REF.sub(lambda m: rename_ref(ren, m), s)
        return s
    return map_strings(doc, f)


def rename_job(ren, obj):
    """the same renaming applied to an exported Job"""
    def walk(x, path=()):
        if isinstance(x, dict):
            out = {}
            for k, v in x.items():
                nk = ren.get(k, k) if path and path[-1] in ("parameters", "taskParameterDefinitions") else k
                out[nk] = walk(v, path + (k,))
            return out
        if isinstance(x, list):
            return [walk(v, path + (i,)) for i, v in enumerate(x)]
        if isinstance(x, str):
            if path and path[-1] == "combination":
                return IDENT.sub(lambda m: ren.get(m.group(0), m.group(0)), x)
            if path and path[-1] == "name" and "embeddedFiles" in path:
                return ren.get(x, x)
            if _is_step_name(path) or (path and path[-1] == "dependsOn"):
                return ren.get("\0steps", {}).get(x, x)
            if _is_env_name(path):
                return ren.get("\0envs", {}).get(x, x)
            if path and (path[-1] in ("command", "data") or (len(path) >= 2 and path[-2] in ("args", "variables"))):
                return REF.sub(lambda m: rename_ref(ren, m), x)
            return x
        return x
    return walk(obj)


def norm_blanks(obj):
    """blanks inside '{{ }}' of the strings a Job keeps unresolved are presentation"""
    def f(s, path):
        if path and path[-1] in ("combination", "range"):
            return re.sub(r"\s+", "", s)      # token strings: blanks between tokens are presentation
        return REF.sub(lambda m: "{{" + re.sub(r"\s+", "", m.group(1)) + "}}" if re.fullmatch(r"[\sA-Za-z0-9_.]*", m.group(1)) else m.group(0), s)
    return map_strings(obj, f)


# ------------------------------------------------------------------ the check
def share_equal(doc):
    """a deep copy of the document in which equal dicts / lists (with at least one member) are ONE object -> (copy, how many
    places now point to an object met before)"""
    memo, count = {}, [0]

    def walk(x):
        if isinstance(x, dict):
            y = {k: walk(v) for k, v in x.items()}
        elif isinstance(x, list):
            y = [walk(v) for v in x]
        else:
            return x
        if not y:
            return y
        try:
            key = json.dumps(y, sort_keys=False)
        except (TypeError, ValueError):
            return y
        if key in memo:
            count[0] += 1
            return memo[key]
        memo[key] = y
        return y

    return walk(doc), count[0]


class C19(core.PropBase):
    id = "C19"
    component = "accept"
    extract_file = "ExtractAccept.v"
    chars = _SRC_CHARS + "".join(chr(i) for i in range(128, 256)) + "٣　 ²\u2003\u00a0" + M.ODD_CHARS
    uses_table = True
    chunk_size = 30
    theorem_for_mismatch = "C19_key_order / C19_blanks / C19_rename (metamorphic: verdict and Job of a document vs its transformed variant)"
    assumptions = [
        "JSON == YAML object equality is library behaviour (json, PyYAML): checked by the harness on every document",
        "blank variants use the space character only (a tab inside '{{ }}' of a command is a rule violation, not a presentation change)",
        "renamings are injective, length-preserving and onto identifiers that occur nowhere else in the document",
    ]

    def cases(self, tier, seed):
        rng = random.Random(seed * 7919 + 19)
        n = 6000 if tier == "thorough" else 700
        for i in range(n):
            kind = "env" if i % 6 == 5 else "job"
            doc = G.gen_env_template(rng, full=rng.random() < 0.3) if kind == "env" else G.gen_job_template(rng, full=rng.random() < 0.3)
            ops = []
            if i % 10 == 9:
                # rules that speak about NAMES (uniqueness, dependencies, clashes): their verdict must survive the renaming
                # and the re-ordering of keys whatever the names are and however they sort
                ops = [list(o) for o in M.mutate(rng, doc, n=1, only=["duplicate_name", "bad_dependency", "env_clash"])]
            elif i % 10 == 4 and kind == "job":
                # range expressions in their compact spelling, with digits of other scripts: blanks around the tokens decide nothing
                ops = [list(o) for o in M.mutate(rng, doc, n=1, only=["odd_range"])]
            elif rng.random() < 0.34:
                ops = [list(o) for o in M.mutate(rng, doc, n=rng.choice([1, 1, 2]))]
            try:
                json.dumps(doc)
            except (TypeError, ValueError):
                continue
            try:
                vals = c05.values_with_refs_text(rng, doc) if kind == "job" else {}
            except Exception:  # noqa: BLE001  (a mutated definition list may be unusable for value generation)
                vals = {}
            vals = {k: v for k, v in vals.items() if isinstance(k, str) and isinstance(v, str)}
            yield {"kind": kind, "doc": doc, "vals": vals, "ops": ops, "tseed": rng.randrange(1 << 30)}

    def corpus_cases(self):
        """rules about NAMES whose verdict must not depend on how the names sort: a dependency listed twice among three or four
        (the repeated one first / in the middle / last in sorted order), two steps / environments of one name among several"""
        out = []
        rng = random.Random(19)
        script = {"actions": {"onRun": {"command": "x"}}}
        for names in (["a", "b", "c", "d"], ["d", "c", "b", "a"], ["Zeta", "alpha", "Mid", "beta"], ["s10", "s9", "s1", "s2"]):
            for deps in ([0, 1, 1], [1, 0, 1], [1, 1, 0], [0, 0, 1], [2, 0, 1, 2], [0, 1, 2, 1], [0, 1, 2], [2, 2, 2]):
                steps = [{"name": n, "script": script} for n in names]
                steps[3]["dependencies"] = [{"dependsOn": names[i]} for i in deps]
                doc = {"specificationVersion": "jobtemplate-2023-09", "name": "J", "steps": steps}
                out.append({"kind": "job", "doc": doc, "vals": {}, "ops": [["corpus", "duplicate-dependency", "break"]] if len(set(deps)) < len(deps) else [], "tseed": rng.randrange(1 << 30)})
            for dup in ((0, 1), (1, 3), (2, 3), (0, 3)):
                steps = [{"name": n, "script": script} for n in names]
                steps[dup[1]]["name"] = names[dup[0]]
                out.append({"kind": "job", "doc": {"specificationVersion": "jobtemplate-2023-09", "name": "J", "steps": steps}, "vals": {}, "ops": [["corpus", "duplicate-step-name", "break"]], "tseed": rng.randrange(1 << 30)})
        return out

    def rule(self, tier):
        return ("generated job / environment templates, two thirds valid, one third with 1-2 rule-typed mutations; each is compared with 6 variants: keys "
                "reversed at every level, keys shuffled, YAML re-encoding, JSON re-encoding, re-blanked ('{{ }}', range and combination tokens; spaces only), "
                "injective length-preserving renaming of job parameters / task parameters / embedded files / steps (with their dependsOn) / environments. Observables: accept/reject verdict of implementation "
                "and of the acceptance model on both documents, and (accepted job templates) equality of model_to_object(create_job) up to the renaming. "
                "distinct = by document")

    def samples(self, tier, seed):
        rng = random.Random(seed)
        doc = G.gen_job_template(rng)
        ren = build_renaming(rng, doc, {})
        return [{"renaming": dict(list(ren.items())[:5])}, {"reblank": reblank(rng, {"name": doc["name"]})["name"], "from": doc["name"]}]

    def variants(self, case):
        rng = random.Random(case["tseed"])
        doc, vals = case["doc"], case["vals"]
        out = [("reverse", permute_keys(rng, doc, "reverse"), vals, None), ("shuffle", permute_keys(rng, doc, "shuffle"), vals, None)]
        try:
            y = document_string_to_object(document=yaml.safe_dump(doc, allow_unicode=True, sort_keys=False), document_type=DocumentType.YAML)
            out.append(("yaml", y, vals, None))
        except DecodeValidationError:
            out.append(("yaml", None, vals, None))
        # YAML that spells a part occurring twice ONCE, with an anchor and aliases (what yaml.safe_dump writes for an object met
        # twice): equal sub-collections of the document are made one object first
        try:
            sh, n_shared = share_equal(doc)
            if n_shared:
                text = yaml.safe_dump(sh, allow_unicode=True, sort_keys=False)
                if "&id" in text:
                    out.append(("yaml-alias", document_string_to_object(document=text, document_type=DocumentType.YAML), vals, None))
        except DecodeValidationError:
            out.append(("yaml-alias", None, vals, None))
        try:
            j = document_string_to_object(document=json.dumps(doc), document_type=DocumentType.JSON)
            out.append(("json", j, vals, None))
        except DecodeValidationError:
            out.append(("json", None, vals, None))
        out.append(("blanks", reblank(rng, doc), vals, None))
        ren = build_renaming(rng, doc, vals)
        out.append(("rename", rename_doc(ren, doc), {ren.get(k, k): v for k, v in vals.items()}, ren))
        return out

    @staticmethod
    def run_impl(kind, doc, vals):
        """-> (verdict, exported job or None)"""
        if doc is None:
            return "document-parse-failed", None
        try:
            t = (decode_job_template if kind == "job" else decode_environment_template)(template=G.deep(doc))
        except DecodeValidationError:
            return "reject", None
        except BaseException as e:  # noqa: BLE001
            return "raise:" + type(e).__name__, None
        if kind != "job":
            return "accept", None
        types = {p.get("name"): p.get("type") for p in M.job_params(doc)}
        try:
            pv = {k: ParameterValue(type=ParameterValueType(types[k]), value=v) for k, v in vals.items()}
            job = create_job(job_template=t, job_parameter_values=pv)
        except DecodeValidationError:
            return "accept", "create-rejected"
        except BaseException as e:  # noqa: BLE001
            return "accept", "create-raised:" + type(e).__name__
        return "accept", model_to_object(model=job)

    def impl(self, case):
        v0, j0 = self.run_impl(case["kind"], case["doc"], case["vals"])
        out = {"base": v0}
        for name, d, vals, ren in self.variants(case):
            v, j = self.run_impl(case["kind"], d, vals)
            if name in ("yaml", "json") and d is not None and d != case["doc"]:
                out[name] = "object-differs"
                continue
            same_job = True
            if isinstance(j0, dict) and isinstance(j, dict):
                a = rename_job(ren, j0) if ren else j0
                same_job = norm_blanks(a) == norm_blanks(j) if name in ("blanks",) else a == j
            elif j0 != j and not (isinstance(j0, dict) or isinstance(j, dict)):
                same_job = j0 == j
            elif isinstance(j0, dict) != isinstance(j, dict):
                same_job = False
            out[name] = [v, same_job]
        return out

    def requests(self, case):
        reqs = []
        docs = [case["doc"]] + [d for _, d, _, _ in self.variants(case)]
        for d in docs:
            if d is None:
                continue
            missing = core.doc_chars(d) - set(self.chars)
            if missing:
                raise RuntimeError(f"characters not in the class table: {missing!r}")
            try:
                reqs.append(["accept_" + case["kind"], core.json_sx(d)])
            except ValueError:
                return []       # a non-finite number: not a document of the model's json type; metamorphic part only
        return reqs

    def model_obs(self, case, replies):
        def verdict(r):
            if r[0] == "ok":
                return "accept" if r[1] == "true" else "reject"
            return "skip" if r[1] == "RuntimeError" else "model:" + r[1]
        vs = [verdict(r) for r in replies]
        io = self.impl(case)
        if not vs or "skip" in vs:
            return io            # outside the structural model's domain: metamorphic part only
        out = {"base": vs[0]}
        i = 1
        for name, d, _, _ in self.variants(case):
            if d is None:
                out[name] = io.get(name)
                continue
            if io.get(name) == "object-differs":
                out[name] = "object-differs"
            else:
                out[name] = [vs[i], True]
            i += 1
        # the metamorphic expectation: every variant has the base verdict and the same Job
        for name in list(out):
            if name != "base" and isinstance(out[name], list) and out[name][0] != out["base"]:
                out[name] = ["model-verdict-changed:" + out[name][0], True]
        return out

    def classify_case(self, case, obs):
        return [case["kind"] + ":" + str(obs.get("base")), "mutated" if case["ops"] else "unmutated"]

    def still_fails(self, case):
        drv = core.Driver(self.component)
        replies, _ = drv.ask(self.requests(case), self.prelude())
        return self.impl(case) != self.model_obs(case, replies)

    def shrink_candidates(self, case):
        if case.get("kind") == "env" or not isinstance(case.get("doc", {}).get("steps"), list):
            return
        for c in c05.PROP.shrink_candidates(dict(case, envs=[])):
            c.pop("envs", None)
            yield c


PROP = C19()

if __name__ == "__main__":
    sys.exit(core.main(PROP, sys.argv[1:]))
