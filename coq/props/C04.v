(* props/C04.v — decoding is total: a model or DecodeValidationError.

   Models: Parse.v ([parse_kind] / [parse_cls]: the structural layer, generic in the schema),
   Validators.v (repo-side hooks), Accept.v ([decode_job] / [decode_env]: version dispatch of
   _parse.py + parse + validators), ScopeWalk.v ([prevalidate]: the pre-validation walk on raw data).
   Outcomes of the acceptance model:  Ok v = a model is returned;  Raise ValueError = rejected
   (DecodeValidationError);  Raise RuntimeError = the input is outside the modelled pydantic domain
   (the harness does not judge such inputs with the model; it still checks the implementation's
   exception family on them).  Proofs: ParseOutcomes.v, ScopeProofs.v.

   What is NOT a theorem here (oracles, DESIGN.md section 9): pydantic's own behaviour on junk
   (non-string keys, the loc elements of its errors), _loc_to_str on them, json/yaml parsers behind
   document_string_to_object; "input left untouched" is purity by construction in the model (every
   function below is a Gallina function of its argument) and is checked on the implementation by
   deep snapshot in harness/c04.py. *)
From Coq Require Import List NArith ZArith Bool String.
Import ListNotations.
Require Import OJD.Base OJD.Lexer OJD.Json OJD.Schema OJD.Generated OJD.FsRefs OJD.CreateJob OJD.Parse
               OJD.Validators OJD.Accept OJD.ScopeWalk OJD.Export OJD.ParseOutcomes.
Local Open Scope string_scope.

(* the structural layer never produces anything but accept / reject / not-judged: for EVERY schema,
   class table, hooks, fuel, kind or class, and json value.  No TypeError / KeyError /
   AttributeError / IndexError branch exists. *)
Theorem C04_outcomes_kind : forall SC classify pre post fuel k v e,
  parse_kind SC classify pre post fuel k v = Raise e -> e = ValueError \/ e = RuntimeError.
Proof. exact parse_kind_outcomes. Qed.
Print Assumptions C04_outcomes_kind.

Theorem C04_outcomes_cls : forall SC classify pre post fuel c v e,
  parse_cls SC classify pre post fuel c v = Raise e -> e = ValueError \/ e = RuntimeError.
Proof. exact parse_cls_outcomes. Qed.
Print Assumptions C04_outcomes_cls.

(* hence the two decode functions, on every json value *)
Theorem C04_outcomes : forall classify j e,
  (decode_job classify j = Raise e -> e = ValueError \/ e = RuntimeError) /\
  (decode_env classify j = Raise e -> e = ValueError \/ e = RuntimeError).
Proof.
  intros classify j e. split; [apply decode_job_outcomes|apply decode_env_outcomes].
Qed.
Print Assumptions C04_outcomes.

(* ... and the job-side re-validation parse_model(model=<target class>) used by create_job *)
Theorem C04_outcomes_any : forall classify root j e,
  parse_any classify root j = Raise e -> e = ValueError \/ e = RuntimeError.
Proof. exact parse_any_outcomes. Qed.
Print Assumptions C04_outcomes_any.

(* the pre-validation walk is total on every json value (it is a list-valued function) and
   reports reference errors only: the fuel marker never occurs (C03_no_fuel restated) *)
Theorem C04_walk_total : forall refs j,
  (forall w, In w (prevalidate Generated.schema refs "JobTemplate" j) -> exists l n, w = ERef l n) /\
  (forall w, In w (prevalidate Generated.schema refs "EnvironmentTemplate" j) -> exists l n, w = ERef l n).
Proof. exact walk_total. Qed.
Print Assumptions C04_walk_total.

(* version dispatch of decode_job_template / decode_environment_template: a document whose
   specificationVersion is missing, not a string, or not a version of that template kind is
   rejected with DecodeValidationError (never anything else); otherwise the root model is parsed *)
Theorem C04_version_dispatch : forall classify ms,
  (~ version_in Generated.job_template_versions (JObj ms) -> decode_job classify (JObj ms) = Raise ValueError) /\
  (version_in Generated.job_template_versions (JObj ms) ->
   decode_job classify (JObj ms) = parse_template classify "JobTemplate" (JObj ms)) /\
  (~ version_in Generated.env_template_versions (JObj ms) -> decode_env classify (JObj ms) = Raise ValueError) /\
  (version_in Generated.env_template_versions (JObj ms) ->
   decode_env classify (JObj ms) = parse_template classify "EnvironmentTemplate" (JObj ms)).
Proof.
  intros classify ms.
  destruct (decode_job_dispatch classify ms) as [A B]. destruct (decode_env_dispatch classify ms) as [C D].
  repeat split; assumption.
Qed.
Print Assumptions C04_version_dispatch.

(* [version_in] unfolded: the key is present with a string value that is one of the versions *)
Theorem C04_version_in_iff : forall versions j,
  version_ok versions j = true <->
  exists s, jget "specificationVersion" j = JStr s /\ exists v, In v versions /\ s = str_of_string v.
Proof. exact version_ok_iff. Qed.
Print Assumptions C04_version_in_iff.

Theorem C04_versions_now :
  Generated.job_template_versions = ["jobtemplate-2023-09"] /\
  Generated.env_template_versions = ["environment-2023-09"].
Proof. exact versions_now. Qed.
Print Assumptions C04_versions_now.

(* an accepted job template has passed the reference check (the root's validator runs the walker
   on the raw document and the result is part of the verdict) *)
Theorem C04_accept_prevalidated : forall classify j t,
  decode_job classify j = Ok t -> prevalidate Generated.schema (fs_refs classify) "JobTemplate" j = [].
Proof. exact decode_job_prevalidated. Qed.
Print Assumptions C04_accept_prevalidated.

(* ------------------------------------------------------------------ non-vacuity *)
Definition js (x : string) : json := JStr (str_of_string x).
Definition jo (l : list (string * json)) : json := JObj (map (fun kv => (str_of_string (fst kv), snd kv)) l).

Definition step_ok : json :=
  jo [("name", js "A"); ("script", jo [("actions", jo [("onRun", jo [("command", js "run")])])])].
Definition doc (version name : json) : json :=
  jo [("specificationVersion", version); ("name", name); ("steps", JArr [step_ok])].

(* accepted / rejected by version / rejected by type confusion / rejected junk at depth / not judged *)
Example C04_outcomes_nonvacuous :
  is_ok (decode_job ascii_class (doc (js "jobtemplate-2023-09") (js "Job"))) = true /\
  decode_job ascii_class (doc (js "environment-2023-09") (js "Job")) = Raise ValueError /\
  decode_job ascii_class (doc (JInt 3) (js "Job")) = Raise ValueError /\
  decode_job ascii_class (jo [("name", js "Job")]) = Raise ValueError /\
  decode_job ascii_class (doc (js "jobtemplate-2023-09") (JArr [JNull])) = Raise ValueError /\
  decode_job ascii_class (doc (js "jobtemplate-2023-09") (jo [("x", JInt 1)])) = Raise ValueError /\
  decode_job ascii_class (jo [("specificationVersion", js "jobtemplate-2023-09"); ("name", js "J");
                              ("steps", JArr [jo [("name", JNull); ("script", JArr [JBool true; jo []])]])])
  = Raise ValueError /\
  decode_env ascii_class (doc (js "jobtemplate-2023-09") (js "Job")) = Raise ValueError /\
  decode_job ascii_class (JArr []) = Raise RuntimeError /\
  parse_kind Generated.schema ascii_class pre_hook (post_hook ascii_class) 1 (KFloat None) (js "1.5") = Raise RuntimeError.
Proof. vm_compute. repeat split. Qed.

Example C04_version_dispatch_nonvacuous :
  version_in Generated.job_template_versions (doc (js "jobtemplate-2023-09") (js "Job")) /\
  ~ version_in Generated.job_template_versions (doc (JInt 3) (js "Job")) /\
  ~ version_in Generated.job_template_versions (jo [("name", js "Job")]).
Proof.
  split; [|split].
  - apply version_ok_iff. vm_compute. reflexivity.
  - intros H. apply version_ok_iff in H. vm_compute in H. discriminate H.
  - intros H. apply version_ok_iff in H. vm_compute in H. discriminate H.
Qed.

Example C04_walk_nonvacuous :
  prevalidate Generated.schema (fs_refs ascii_class) "JobTemplate" (doc (js "jobtemplate-2023-09") (js "{{Param.X}}"))
  = [ERef [LKey (str_of_string "name")] (str_of_string "Param.X")] /\
  prevalidate Generated.schema (fs_refs ascii_class) "JobTemplate" (JArr [JNull; JInt 1]) = [] /\
  prevalidate Generated.schema (fs_refs ascii_class) "JobTemplate"
              (jo [("name", JInt 1); ("steps", jo [("x", JArr [])]); ("jobEnvironments", JArr [JNull; js "{{A.B}}"])]) = [].
Proof. vm_compute. repeat split. Qed.
