(* ParamSpace.v — model of src/openjd/model/_step_param_space_iter.py
   (StepParameterSpaceIterator, ProductNode/AssociationNode/leaf nodes and their iterators).
   Definitions only.

   Conventions
   * A leaf carries its value list already expanded (RangeListIdentifierNode: the list itself;
     RangeExpressionIdentifierNode: list(IntRangeExpr) printed with str — the C08/C13 models
     are responsible for that expansion; the harness ships the expanded list).
   * [env] is a Python dict as an association list in insertion order; [set] is
     [d[k] = v] (in place when the key exists, appended otherwise); [update] is dict.update.
   * len() and indices are Python ints, [Z] here.
   * [next] returns the new iterator state, the (mutated) result dict and [None] for a normal
     return or [Some e] for an exception that escapes; the state and dict returned with
     [Some e] are the ones the Python objects are left in when the exception propagates.
   * [pinned_product_iter = true] is the code before commit 8169558 (no [_exhausted] test). *)
From Coq Require Import List NArith ZArith Bool.
Import ListNotations.
Require Import OJD.Base.
Local Open Scope Z_scope.

Inductive pty : Type := TInt | TFloat | TString | TPath.
Definition value := str.
Definition pval := (pty * value)%type.          (* ParameterValue(type=, value=) *)
Definition env := list (str * pval).            (* TaskParameterSet / dict *)

Fixpoint lookup (n : str) (e : env) : option pval :=
  match e with
  | [] => None
  | (k, v) :: e' => if str_eqb n k then Some v else lookup n e'
  end.

(* d[k] = v *)
Fixpoint set (e : env) (k : str) (v : pval) : env :=
  match e with
  | [] => [(k, v)]
  | (k', v') :: e' => if str_eqb k k' then (k', v) :: e' else (k', v') :: set e' k v
  end.

(* d.update(src) *)
Definition update (e src : env) : env :=
  fold_left (fun acc kv => set acc (fst kv) (snd kv)) src e.

(* ------------------------------------------------------------------ nodes *)
Inductive node : Type :=
| Leaf (n : str) (ty : pty) (vs : list value)
| Prod (cs : list node)
| Assoc (cs : list node).

Fixpoint height (t : node) : nat :=
  match t with
  | Leaf _ _ _ => 1%nat
  | Prod cs => S (fold_right (fun c m => Nat.max (height c) m) 0%nat cs)
  | Assoc cs => S (fold_right (fun c m => Nat.max (height c) m) 0%nat cs)
  end.

Section LenLoop.
  Variable nl : node -> outcome Z.
  (* reduce(mul, (len(child) for child in children), acc) *)
  Fixpoint len_loop (cs : list node) (acc : Z) : outcome Z :=
    match cs with
    | [] => Ok acc
    | c :: rest => do n <- nl c; len_loop rest (acc * n)
    end.
End LenLoop.

(* __len__ (the value computed when the _len memo is empty) *)
Fixpoint node_len (t : node) : outcome Z :=
  match t with
  | Leaf _ _ vs => Ok (Z.of_nat (length vs))
  | Prod cs => len_loop node_len cs 1
  | Assoc cs =>
    match cs with
    | [] => Raise IndexError                      (* self.children[0] on an empty tuple *)
    | c :: _ => node_len c
    end
  end.

(* the _len memo of ProductNode / AssociationNode: None = not yet computed *)
Definition cached_len (cache : option Z) (t : node) : outcome (Z * option Z) :=
  match cache with
  | Some v => Ok (v, cache)
  | None => do v <- node_len t; Ok (v, Some v)
  end.

(* Python list indexing l[i] (negative allowed) *)
Definition py_index {A : Type} (l : list A) (i : Z) : outcome A :=
  let len := Z.of_nat (length l) in
  let j := if i <? 0 then len + i else i in
  if (0 <=? j) && (j <? len)
  then match nth_error l (Z.to_nat j) with Some v => Ok v | None => Raise IndexError end
  else Raise IndexError.

Section GetLoops.
  Variable gi : node -> Z -> outcome env.

  (* ProductNode.__getitem__, the iterations pos = len-1 .. 1 of the while loop over
     [cs] = children[1:]; the recursion unwinds right-to-left, so the right-most child is
     handled first exactly as in the code.  Returns the remaining index and the dict. *)
  Fixpoint prod_get_tail (cs : list node) (index : Z) (result : env) : outcome (Z * env) :=
    match cs with
    | [] => Ok (index, result)
    | c :: rest =>
      do ir <- prod_get_tail rest index result;
      do cl <- node_len c;
      if cl =? 0 then Raise RuntimeError  (* ZeroDivisionError; Base.exn has no such family.
                                             Unreachable for every tree:
                                             ParamSpaceProofs.getitem_no_zero_division. *)
      else
        do e <- gi c (fst ir mod cl);
        Ok (fst ir / cl, update (snd ir) e)
    end.

  Definition prod_get (cs : list node) (index : Z) : outcome env :=
    match cs with
    | [] => Ok []
    | c0 :: rest =>
      do ir <- prod_get_tail rest index [];
      do e <- gi c0 (fst ir);                      (* pos = 0: child_index = index *)
      Ok (update (snd ir) e)
    end.

  (* AssociationNode.__getitem__: the same index goes to every child *)
  Fixpoint assoc_get (cs : list node) (i : Z) (result : env) : outcome env :=
    match cs with
    | [] => Ok result
    | c :: rest => do e <- gi c i; assoc_get rest i (update result e)
    end.
End GetLoops.

Fixpoint getitem (t : node) (i : Z) : outcome env :=
  match t with
  | Leaf n ty vs => do v <- py_index vs i; Ok [(n, (ty, v))]
  | Prod cs =>
    do len <- node_len (Prod cs);
    let j := if i <? 0 then len + i else i in
    if (0 <=? j) && (j <? len) then prod_get getitem cs j else Raise IndexError
  | Assoc cs => assoc_get getitem cs i []
  end.

(* ------------------------------------------------------------------ iterators *)
Inductive istate : Type :=
| ILeaf (n : str) (ty : pty) (rest all : list value)          (* _it, _node *)
| IProd (exhausted first : bool) (prev : env) (cs : list istate)
| IAssoc (cs : list istate).

(* Node.iter() *)
Fixpoint init (t : node) : istate :=
  match t with
  | Leaf n ty vs => ILeaf n ty vs vs
  | Prod cs => IProd false true [] (map init cs)
  | Assoc cs => IAssoc (map init cs)
  end.

(* reset_iter(): note that _prev_result is NOT cleared *)
Fixpoint reset (s : istate) : istate :=
  match s with
  | ILeaf n ty _ all => ILeaf n ty all all
  | IProd _ _ prev cs => IProd false true prev (map reset cs)
  | IAssoc cs => IAssoc (map reset cs)
  end.

Definition sig := option exn.                    (* None = normal return *)
Definition is_stop (e : exn) : bool := exn_eqb e StopIteration.

Section NextLoops.
  Variable nx : istate -> env -> istate * env * sig.

  (* for child in self._children: child.next(result) *)
  Fixpoint all_next (cs : list istate) (r : env) : list istate * env * sig :=
    match cs with
    | [] => ([], r, None)
    | c :: rest =>
      match nx c r with
      | (c1, r1, None) =>
        match all_next rest r1 with
        | (rest1, r2, sg) => (c1 :: rest1, r2, sg)
        end
      | (c1, r1, Some e) => (c1 :: rest, r1, Some e)
      end
    end.

  (* the while-True loop of ProductNodeIter.next over pos = len-1 .. 0; [rcs] is the child
     tuple REVERSED (head = right-most child).  The last component says that
     self._exhausted = True was executed. *)
  Fixpoint carry (rcs : list istate) (prev : env) : list istate * env * sig * bool :=
    match rcs with
    | [] => ([], prev, Some IndexError, false)     (* self._children[-1] on an empty tuple *)
    | c :: rest =>
      match nx c prev with
      | (c1, p1, None) => (c1 :: rest, p1, None, false)                  (* break *)
      | (c1, p1, Some e) =>
        if is_stop e then
          match rest with
          | [] => ([c1], p1, Some StopIteration, true)                   (* pos = 0 *)
          | _ :: _ =>                                                    (* pos > 0 *)
            match nx (reset c1) p1 with
            | (c2, p2, None) =>
              match carry rest p2 with
              | (rest1, p3, sg, ex) => (c2 :: rest1, p3, sg, ex)
              end
            | (c2, p2, Some e2) => (c2 :: rest, p2, Some e2, false)      (* escapes the handler *)
            end
          end
        else (c1 :: rest, p1, Some e, false)
      end
    end.
End NextLoops.

Section Pinned.
  Variable pinned_product_iter : bool.

  (* NodeIterator.next(result); fuel >= height of the tree (see ParamSpaceProofs.fuel_enough) *)
  Fixpoint next (fuel : nat) (st : istate) (r : env) : istate * env * sig :=
    match fuel with
    | O => (st, r, Some RuntimeError)
    | S f =>
      match st with
      | ILeaf n ty rest all =>
        match rest with
        | [] => (st, r, Some StopIteration)                              (* next(self._it) *)
        | v :: rest' => (ILeaf n ty rest' all, set r n (ty, v), None)
        end
      | IAssoc cs =>
        match all_next (next f) cs r with
        | (cs1, r1, sg) => (IAssoc cs1, r1, sg)
        end
      | IProd ex first prev cs =>
        if ex && negb pinned_product_iter then (st, r, Some StopIteration)
        else if first then
          match all_next (next f) cs prev with
          | (cs1, p1, None) => (IProd ex false p1 cs1, update r p1, None)
          | (cs1, p1, Some e) => (IProd ex false p1 cs1, r, Some e)
          end
        else
          match carry (next f) (rev cs) prev with
          | (rcs1, p1, None, _) => (IProd ex false p1 (rev rcs1), update r p1, None)
          | (rcs1, p1, Some e, exh) => (IProd (ex || exh) false p1 (rev rcs1), r, Some e)
          end
      end
    end.

  (* ---------------------------------------------------------------- top level *)
  Definition param := (str * pty * list value)%type.      (* name, type, expanded range *)

  (* parse tree of the combination expression (the parser itself is C14's model) *)
  Inductive ctree : Type :=
  | CId (n : str)
  | CProd (cs : list ctree)
  | CAssoc (cs : list ctree).

  Fixpoint find_param (ps : list param) (n : str) : outcome param :=
    match ps with
    | [] => Raise KeyError                                   (* self._parameters[name] *)
    | p :: rest => if str_eqb n (fst (fst p)) then Ok p else find_param rest n
    end.

  Section TreeLoop.
    Variable mk : ctree -> outcome node.
    Fixpoint mk_children (cs : list ctree) : outcome (list node) :=
      match cs with
      | [] => Ok []
      | c :: rest => do t <- mk c; do ts <- mk_children rest; Ok (t :: ts)
      end.
  End TreeLoop.

  (* _create_expr_tree *)
  Fixpoint create_expr_tree (ps : list param) (c : ctree) : outcome node :=
    match c with
    | CId n => do p <- find_param ps n; Ok (Leaf (fst (fst p)) (snd (fst p)) (snd p))
    | CProd cs => do ts <- mk_children (create_expr_tree ps) cs; Ok (Prod ts)
    | CAssoc cs => do ts <- mk_children (create_expr_tree ps) cs; Ok (Assoc ts)
    end.

  (* Parser().parse("*".join(names)) for identifier names: "" is an ExpressionError, one
     name is a bare identifier node, otherwise a ProductNode of identifiers. *)
  Definition default_comb (ps : list param) : outcome ctree :=
    match ps with
    | [] => Raise ExpressionError
    | [p] => Ok (CId (fst (fst p)))
    | _ => Ok (CProd (map (fun p => CId (fst (fst p))) ps))
    end.

  (* self._expr_tree: either the list [{}] or a Node *)
  Inductive top : Type :=
  | TopList (l : list env)
  | TopNode (t : node).

  Definition space := option (list param * option ctree).   (* None: space=None *)

  Definition sps_init (sp : space) : outcome top :=
    match sp with
    | None => Ok (TopList [[]])
    | Some (ps, comb) =>
      do c <- match comb with Some c => Ok c | None => default_comb ps end;
      do t <- create_expr_tree ps c;
      Ok (TopNode t)
    end.

  Definition top_len (tp : top) : outcome Z :=
    match tp with
    | TopList l => Ok (Z.of_nat (length l))
    | TopNode t => node_len t
    end.

  Definition top_getitem (tp : top) (i : Z) : outcome env :=
    match tp with
    | TopList l => py_index l i
    | TopNode t => getitem t i
    end.

  (* the object returned by StepParameterSpaceIterator.__iter__ *)
  Inductive titer : Type :=
  | ItList (rest : list env)                      (* iter([{}]) *)
  | ItNode (fuel : nat) (st : istate).            (* Iter(root) *)

  Definition top_iter (tp : top) : titer :=
    match tp with
    | TopList l => ItList l
    | TopNode t => ItNode (height t) (init t)
    end.

  (* __next__: result = TaskParameterSet(); self._root.next(result); return result *)
  Definition top_next (it : titer) : titer * env * sig :=
    match it with
    | ItList [] => (it, [], Some StopIteration)
    | ItList (e :: rest) => (ItList rest, e, None)
    | ItNode f st =>
      match next f st [] with
      | (st1, r, sg) => (ItNode f st1, r, sg)
      end
    end.

  (* reset_iter() on the root node iterator (private API; used by the harness only when
     the attribute exists) *)
  Definition top_reset (it : titer) : titer :=
    match it with
    | ItList rest => ItList rest
    | ItNode f st => ItNode f (reset st)
    end.

  (* ---------------------------------------------------------------- histories *)
  (* One StepParameterSpaceIterator object with the iterators created from it so far.
     [w_cache] is the _len memo of the root node. *)
  Record world : Type := mkW { w_top : top; w_cache : option Z; w_iters : list titer }.

  Inductive op : Type :=
  | OpIter                 (* it2 = iter(obj): appended to w_iters *)
  | OpNext (i : nat)       (* next(w_iters[i]) *)
  | OpGet (z : Z)          (* obj[z] *)
  | OpLen                  (* len(obj) *)
  | OpReset (i : nat).     (* w_iters[i]._root.reset_iter() *)

  Inductive obs : Type :=
  | ObUnit
  | ObEnv (e : env)
  | ObLen (z : Z)
  | ObRaise (e : exn)
  | ObBad.                 (* harness error: no such iterator *)

  Fixpoint replace_nth {A : Type} (l : list A) (i : nat) (x : A) : list A :=
    match l, i with
    | [], _ => []
    | _ :: t, O => x :: t
    | h :: t, S j => h :: replace_nth t j x
    end.

  Definition exec (w : world) (o : op) : world * obs :=
    match o with
    | OpIter => (mkW (w_top w) (w_cache w) (w_iters w ++ [top_iter (w_top w)]), ObUnit)
    | OpNext i =>
      match nth_error (w_iters w) i with
      | None => (w, ObBad)
      | Some it =>
        match top_next it with
        | (it1, r, sg) =>
          (mkW (w_top w) (w_cache w) (replace_nth (w_iters w) i it1),
           match sg with None => ObEnv r | Some e => ObRaise e end)
        end
      end
    | OpGet z =>
      (w, match top_getitem (w_top w) z with Ok e => ObEnv e | Raise x => ObRaise x end)
    | OpLen =>
      match w_top w with
      | TopList l => (w, ObLen (Z.of_nat (length l)))
      | TopNode t =>
        match cached_len (w_cache w) t with
        | Ok (v, c) => (mkW (w_top w) c (w_iters w), ObLen v)
        | Raise x => (w, ObRaise x)
        end
      end
    | OpReset i =>
      match nth_error (w_iters w) i with
      | None => (w, ObBad)
      | Some it => (mkW (w_top w) (w_cache w) (replace_nth (w_iters w) i (top_reset it)), ObUnit)
      end
    end.

  Fixpoint run (w : world) (h : list op) : world * list obs :=
    match h with
    | [] => (w, [])
    | o :: rest =>
      match exec w o with
      | (w1, b) => match run w1 rest with (w2, bs) => (w2, b :: bs) end
      end
    end.

  Definition new_world (tp : top) : world := mkW tp None [].

  (* list(obj): a fresh iterator driven until the first exception; [bound] protects the
     driver only (returned flag false = bound hit). *)
  Fixpoint drain (bound : nat) (it : titer) : list env * sig * bool :=
    match bound with
    | O => ([], None, false)
    | S b =>
      match top_next it with
      | (it1, r, None) => match drain b it1 with (l, sg, ok) => (r :: l, sg, ok) end
      | (_, _, Some e) => ([], Some e, true)
      end
    end.
End Pinned.
