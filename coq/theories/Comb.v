(* Comb.v — model of src/openjd/model/_internal/_combination_expr.py (Node classes, Parser),
   _internal/_param_space_dim_validation.py (_validate_expr_tree) and the template-level checks
   of v2023_09/_model.py (CombinationExpr constr type,
   StepParameterSpaceDefinition._validate_combination,
   StepParameterSpace._validate_parameter_space).     Definitions only (no proofs).

   The historical defect (cardinality comparison of identifier sets, fixed by 5fdbd84) is kept
   behind the boolean [pinned_comb_accounting]; the property theorems are about the instance
   with the flag [false], which mirrors the code as it is now. *)
From Coq Require Import List NArith ZArith Bool.
Import ListNotations.
Require Import OJD.Base OJD.Lexer OJD.Generated.

(* ProductNode / AssociationNode / IdentifierNode *)
Inductive ctree : Type :=
| Id (s : str)
| Prod (cs : list ctree)
| Assoc (cs : list ctree).

(* Node.collect_identifiers: leaves, left to right *)
Fixpoint collect_ids (t : ctree) : list str :=
  match t with
  | Id s => [s]
  | Prod cs => flat_map collect_ids cs
  | Assoc cs => flat_map collect_ids cs
  end.

(* ---------- __str__ at token level ---------- *)

(* sep.join(...) on token lists *)
Definition join_toks (sep : tok) (l : list (list tok)) : list tok :=
  match l with
  | [] => []
  | x :: r => x ++ flat_map (fun y => sep :: y) r
  end.

Fixpoint to_tokens (t : ctree) : list tok :=
  match t with
  | Id s => [TName s]
  | Prod cs => join_toks TStar (map to_tokens cs)                          (* " * ".join *)
  | Assoc cs => TLParen :: join_toks TComma (map to_tokens cs) ++ [TRParen] (* "(" ", ".join ")" *)
  end.

(* ---------- Parser (token level) ---------- *)

(* end of Parser._expression: a single child is returned as is *)
Definition mk_prod (children : list ctree) : ctree :=
  match children with
  | [c] => c
  | _ => Prod children
  end.

(* The three mutually recursive methods and their two while-loops, on fuel.
   Each returns the value and the remaining tokens (the stream position).
     p_expr   = Parser._expression
     p_stars  = its loop   while isinstance(lookahead(0), StarToken)   (IndexError => stop)
     p_elem   = Parser._element
     p_assoc  = Parser._association_expression, entered after the '(' has been consumed
     p_commas = its loop   while isinstance(lookahead(0), CommaToken)  (IndexError => stop) *)
Fixpoint p_expr (fuel : nat) (ts : list tok) {struct fuel} : outcome (ctree * list tok) :=
  match fuel with
  | O => Raise RuntimeError
  | S f =>
    do (c, r) <- p_elem f ts;
    do (cs, r') <- p_stars f r;
    Ok (mk_prod (c :: cs), r')
  end
with p_stars (fuel : nat) (ts : list tok) {struct fuel} : outcome (list ctree * list tok) :=
  match fuel with
  | O => Raise RuntimeError
  | S f =>
    match ts with
    | TStar :: r =>
      do (c, r1) <- p_elem f r;
      do (cs, r2) <- p_stars f r1;
      Ok (c :: cs, r2)
    | _ => Ok ([], ts)
    end
  end
with p_elem (fuel : nat) (ts : list tok) {struct fuel} : outcome (ctree * list tok) :=
  match fuel with
  | O => Raise RuntimeError
  | S f =>
    match ts with
    | [] => Raise ExpressionError            (* lookahead: IndexError -> "Unexpected end" *)
    | TName s :: r => Ok (Id s, r)
    | TLParen :: r => p_assoc f r
    | _ :: _ => Raise TokenError
    end
  end
with p_assoc (fuel : nat) (ts : list tok) {struct fuel} : outcome (ctree * list tok) :=
  match fuel with
  | O => Raise RuntimeError
  | S f =>
    do (e, r) <- p_expr f ts;
    do (es, r') <- p_commas f r;
    match r' with
    | [] => Raise ExpressionError            (* next(): IndexError -> "Unexpected end" *)
    | TRParen :: r'' =>
      match es with
      | [] => Raise ExpressionError          (* "must have more than one term" *)
      | _ :: _ => Ok (Assoc (e :: es), r'')
      end
    | _ :: _ => Raise TokenError
    end
  end
with p_commas (fuel : nat) (ts : list tok) {struct fuel} : outcome (list ctree * list tok) :=
  match fuel with
  | O => Raise RuntimeError
  | S f =>
    match ts with
    | TComma :: r =>
      do (e, r1) <- p_expr f r;
      do (es, r2) <- p_commas f r1;
      Ok (e :: es, r2)
    | _ => Ok ([], ts)
    end
  end.

Definition parse_fuel (ts : list tok) : nat := 3 * length ts + 3.

(* Parser.parse after tokenisation *)
Definition parse (ts : list tok) : outcome ctree :=
  match ts with
  | [] => Raise ExpressionError              (* "Empty expression" *)
  | _ :: _ =>
    do (t, r) <- p_expr (parse_fuel ts) ts;
    match r with
    | [] => Ok t
    | _ :: _ => Raise TokenError             (* not at_end *)
    end
  end.

Definition comb_kinds : list tokkind := Generated.comb_token_kinds.

(* Parser.parse on a string *)
Definition parse_str (classify : N -> cclass) (s : str) : outcome ctree :=
  do ts <- lex_for classify comb_kinds s;
  parse ts.

(* ---------- CombinationExpr constr type ---------- *)

Definition comb_max_len : N := 1280.

Local Open Scope N_scope.

(* one character of  [A-Za-z0-9_\*\(\), ]  *)
Definition comb_char (c : N) : bool :=
  ((65 <=? c) && (c <=? 90)) || ((97 <=? c) && (c <=? 122)) || ((48 <=? c) && (c <=? 57))
  || (c =? 95) || (c =? 42) || (c =? 40) || (c =? 41) || (c =? 44) || (c =? 32).

(* (?-m:^[...]+\Z) : one or more such characters and nothing else *)
Definition charsetb (s : str) : bool :=
  match s with
  | [] => false
  | _ :: _ => forallb comb_char s
  end.

Definition lengthb (s : str) : bool := N.of_nat (length s) <=? comb_max_len.

Local Close Scope N_scope.

(* ---------- StepParameterSpaceDefinition._validate_combination ---------- *)

(* set(...) of a list of names, as a duplicate-free list *)
Fixpoint dedup (l : list str) : list str :=
  match l with
  | [] => []
  | x :: r => if mem_str x r then dedup r else x :: dedup r
  end.

(* a - b on sets *)
Definition set_diff (a b : list str) : list str := filter (fun x => negb (mem_str x b)) a.

Definition is_nil {A} (l : list A) : bool := match l with [] => true | _ :: _ => false end.

Section Pinned.
  (* pinned_comb_accounting: "missing"/"extra" decided by comparing the NUMBER of distinct
     names on each side (the code before 5fdbd84) instead of the set differences. *)
  Variable pinned_comb_accounting : bool.

  Definition accounting (params ids : list str) : bool :=
    let unique_expr_identifiers := dedup ids in
    let unique_parameter_names := dedup params in
    let missing := set_diff unique_parameter_names unique_expr_identifiers in
    let extra := set_diff unique_expr_identifiers unique_parameter_names in
    let err_missing :=
      if pinned_comb_accounting
      then Nat.ltb (length unique_expr_identifiers) (length unique_parameter_names)
      else negb (is_nil missing) in
    let err_extra :=
      if pinned_comb_accounting
      then Nat.ltb (length unique_parameter_names) (length unique_expr_identifiers)
      else negb (is_nil extra) in
    let err_dup := negb (Nat.eqb (length ids) (length unique_expr_identifiers)) in
    negb (err_missing || err_extra || err_dup).

  (* verdict of template validation on the combination field of a step whose task parameters
     are [params]: constr(max_length, regex) then the root validator *)
  Definition template_check (classify : N -> cclass) (params : list str) (s : str) : bool :=
    lengthb s && charsetb s &&
    match parse_str classify s with
    | Ok t => accounting params (collect_ids t)
    | Raise _ => false                       (* except (ExpressionError, TokenError) -> ValueError *)
    end.
End Pinned.

(* ---------- _validate_expr_tree ---------- *)

(* len(set(arg_lengths)) > 1  is  negb (all_equal arg_lengths) *)
Definition all_equal (l : list N) : bool :=
  match l with
  | [] => true
  | x :: r => forallb (N.eqb x) r
  end.

(* tuple(f(child) for child in children): left to right, the first exception wins.
   (Same function as [Base.mapM]; restated with [f] outside the fixpoint so that the nested
   recursion of [dims] passes the guard checker.) *)
Section MapO.
  Variables (A B : Type) (f : A -> outcome B).
  Fixpoint map_o (l : list A) : outcome (list B) :=
    match l with
    | [] => Ok []
    | x :: xs => do y <- f x; do ys <- map_o xs; Ok (y :: ys)
    end.
End MapO.
Arguments map_o {A B} f l.

Fixpoint dims (lens : str -> option N) (t : ctree) : outcome N :=
  match t with
  | Id s =>
    match lens s with
    | Some n => Ok n
    | None => Raise KeyError                 (* parameter_range_lengths[name] *)
    end
  | Assoc cs =>
    do ls <- map_o (dims lens) cs;
    if all_equal ls then
      match ls with
      | [] => Raise IndexError               (* arg_lengths[0] *)
      | x :: _ => Ok x
      end
    else Raise ExpressionError
  | Prod cs =>
    do ls <- map_o (dims lens) cs;
    Ok (fold_left N.mul ls 1%N)              (* reduce(mul, ..., 1) *)
  end.

(* dict lookup *)
Fixpoint lookup_len (al : list (str * N)) (s : str) : option N :=
  match al with
  | [] => None
  | (k, v) :: r => if str_eqb s k then Some v else lookup_len r s
  end.

(* validate_step_parameter_space_dimensions on a string, returning the size as well *)
Definition dims_str (classify : N -> cclass) (lens : str -> option N) (s : str) : outcome N :=
  do t <- parse_str classify s;
  dims lens t.

(* StepParameterSpace._validate_parameter_space inside create_job:
   ExpressionError (incl. TokenError) -> ValueError -> pydantic ValidationError ->
   DecodeValidationError; anything else propagates unchanged. *)
Definition job_dims (lens : str -> option N) (t : ctree) : outcome N :=
  match dims lens t with
  | Ok n => Ok n
  | Raise e => Raise (if is_expression_error e then DecodeValidationError else e)
  end.
