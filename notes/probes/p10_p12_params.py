# C10 / C12 / C06 probe: constraint subsets x probe values, single definition and merged definitions.
import itertools, sys, random
from decimal import Decimal, InvalidOperation
from pathlib import Path
from openjd.model import decode_job_template, decode_environment_template, preprocess_job_parameters, create_job, DecodeValidationError
def jt(params): return decode_job_template(template={"specificationVersion": "jobtemplate-2023-09", "name": "J", "parameterDefinitions": params,
        "steps": [{"name": "S", "script": {"actions": {"onRun": {"command": "e"}}}}]})
def et(name, params): return decode_environment_template(template={"specificationVersion": "environment-2023-09", "parameterDefinitions": params, "environment": {"name": name, "variables": {"A": "b"}}})
def parse(ty, v):
    if ty == "INT":
        try: return int(v)
        except ValueError: return None
    if ty == "FLOAT":
        try: d = Decimal(v)
        except InvalidOperation: return None
        return d if d.is_finite() else None
    return v
def sat(d, v):
    ty = d["type"]; x = parse(ty, v)
    if x is None: return False
    if ty in ("INT", "FLOAT"):
        if "minValue" in d and x < d["minValue"]: return False
        if "maxValue" in d and x > d["maxValue"]: return False
        if "allowedValues" in d and x not in [Decimal(str(a)) if ty == "FLOAT" else a for a in d["allowedValues"]]: return False
    else:
        if "minLength" in d and len(x) < d["minLength"]: return False
        if "maxLength" in d and len(x) > d["maxLength"]: return False
        if "allowedValues" in d and x not in d["allowedValues"]: return False
    return True
def valid_def(d):
    try: jt([d]); return True
    except DecodeValidationError: return False
NUMV = ["-5", "-2", "-1", "0", "1", "3", "4", "7", "x", "", "1.5", "NaN", "Infinity", " 3 ", "1_0", "-0"]
STRV = ["", "a", "ab", "abc", "abcd", "abcde"]
def defs_for(ty):
    out = []
    if ty in ("INT", "FLOAT"):
        for mn in (None, -2, 0, 3):
            for mx in (None, -2, 0, 3):
                for av in (None, [0], [-2, 3], [1, 7]):
                    d = {"name": "P", "type": ty}
                    if mn is not None: d["minValue"] = mn
                    if mx is not None: d["maxValue"] = mx
                    if av is not None: d["allowedValues"] = av
                    if valid_def(d): out.append(d)
    else:
        for mn in (None, 1, 3):
            for mx in (None, 1, 3):
                for av in (None, ["ab"], ["a", "abc"]):
                    d = {"name": "P", "type": ty}
                    if mn is not None: d["minLength"] = mn
                    if mx is not None: d["maxLength"] = mx
                    if av is not None: d["allowedValues"] = av
                    if valid_def(d): out.append(d)
    return out
bad = {}; n = 0
def run(job_defs, envs, v):
    try:
        preprocess_job_parameters(job_template=jt(job_defs), job_parameter_values={"P": v}, job_template_dir=Path("/t"), current_working_dir=Path("/c"), environment_templates=envs); return "ok"
    except ValueError: return "VE"
    except Exception as e: return "EXC:" + type(e).__name__
for ty in ("INT", "FLOAT", "STRING"):
    D = defs_for(ty); vals = NUMV if ty != "STRING" else STRV
    for d in D:
        for v in vals:
            n += 1; r = run([d], None, v); w = "ok" if sat(d, v) else "VE"
            if r != w: bad.setdefault(("single", ty, r, w), []).append((d, v))
    rnd = random.Random(5)
    for _ in range(1500):   # merged: 1-3 env templates + job template
        ds = [rnd.choice(D) for _ in range(rnd.randint(2, 4))]
        envs = [et(f"E{i}", [x]) for i, x in enumerate(ds[:-1])]
        rs = {v: run([ds[-1]], envs, v) for v in vals}
        n += len(vals)
        refused = all(r != "ok" for r in rs.values())
        for v, r in rs.items():
            allsat = all(sat(x, v) for x in ds)
            if r.startswith("EXC"): bad.setdefault(("merge-exc", ty, r), []).append((ds, v))
            elif r == "ok" and not allsat: bad.setdefault(("merge-unsound", ty), []).append((ds, v))
            elif r == "VE" and allsat and not refused: bad.setdefault(("merge-incomplete", ty), []).append((ds, v))
print("cases", n)
for k, v in bad.items(): print(k, len(v), v[0])
