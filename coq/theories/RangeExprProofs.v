(* RangeExprProofs.v — proofs for C08 and C13: the model of _range_expr.py (flag-off instance,
   i.e. the repaired code) equals the declarative specification of RangeExprSpec.v, for all
   token lists, all ranges and all integer lists. *)
From Coq Require Import List NArith ZArith Bool Lia ZifyBool Permutation.
Import ListNotations.
Require Import OJD.Base OJD.Lexer OJD.Generated OJD.RangeExpr OJD.RangeExprSpec.
Local Open Scope Z_scope.

(* ------------------------------------------------------------------------------------ *)
(** * 1. Single ranges: length arithmetic, elements *)

(* an IntRange object that passed IntRange._validate *)
Definition valid (r : irange) : Prop :=
  rstep r <> 0 /\ (rstart r < rend r -> 0 < rstep r) /\ (rend r < rstart r -> rstep r < 0).

Lemma range_len_pos_eq a b s : 0 < s -> a <= b -> range_len (mkR a b s) = (b - a) / s + 1.
Proof.
  intros Hs Hab. unfold range_len, py_range_len. cbn [rstart rend rstep].
  destruct (0 <? s) eqn:E1; [|lia].
  destruct (a <? b + 1) eqn:E2; [|lia].
  replace (b + 1 - a - 1) with (b - a) by lia. reflexivity.
Qed.

Lemma range_len_neg_eq a b s : s < 0 -> b <= a -> range_len (mkR a b s) = (a - b) / (- s) + 1.
Proof.
  intros Hs Hab. unfold range_len, py_range_len. cbn [rstart rend rstep].
  destruct (0 <? s) eqn:E1; [lia|].
  destruct (s <? 0) eqn:E2; [|lia].
  destruct (b + -1 <? a) eqn:E3; [|lia].
  replace (a - (b + -1) - 1) with (a - b) by lia. reflexivity.
Qed.

(* characterisation of the length: n is the length iff the n-th value is the last one <= b *)
Lemma range_len_char_pos a b s n :
  0 < s -> 1 <= n -> a + (n - 1) * s <= b < a + n * s -> range_len (mkR a b s) = n.
Proof.
  intros Hs Hn [H1 H2].
  assert (Hab : a <= b) by nia.
  rewrite range_len_pos_eq by assumption.
  assert ((b - a) / s = n - 1); [|lia].
  symmetry. apply Z.div_unique with (r := b - a - s * (n - 1)); [left; nia | ring].
Qed.

Lemma range_len_char_neg a b s n :
  s < 0 -> 1 <= n -> a + n * s < b <= a + (n - 1) * s -> range_len (mkR a b s) = n.
Proof.
  intros Hs Hn [H1 H2].
  assert (Hab : b <= a) by nia.
  rewrite range_len_neg_eq by assumption.
  assert ((a - b) / (- s) = n - 1); [|lia].
  symmetry. apply Z.div_unique with (r := a - b - (- s) * (n - 1)); [left; nia | ring].
Qed.

Lemma range_len_bounds_pos a b s :
  0 < s -> a <= b ->
  let n := range_len (mkR a b s) in 1 <= n /\ a + (n - 1) * s <= b < a + n * s.
Proof.
  intros Hs Hab n. subst n. rewrite range_len_pos_eq by assumption.
  pose proof (Z.div_mod (b - a) s ltac:(lia)) as Hdm.
  pose proof (Z.mod_pos_bound (b - a) s Hs) as Hm.
  pose proof (Z.div_pos (b - a) s ltac:(lia) Hs) as Hq.
  set (q := (b - a) / s) in *. set (m := (b - a) mod s) in *.
  split; [lia|]. nia.
Qed.

Lemma range_len_bounds_neg a b s :
  s < 0 -> b <= a ->
  let n := range_len (mkR a b s) in 1 <= n /\ a + n * s < b <= a + (n - 1) * s.
Proof.
  intros Hs Hab n. subst n. rewrite range_len_neg_eq by assumption.
  pose proof (Z.div_mod (a - b) (- s) ltac:(lia)) as Hdm.
  pose proof (Z.mod_pos_bound (a - b) (- s) ltac:(lia)) as Hm.
  pose proof (Z.div_pos (a - b) (- s) ltac:(lia) ltac:(lia)) as Hq.
  set (q := (a - b) / - s) in *. set (m := (a - b) mod - s) in *.
  split; [lia|]. nia.
Qed.

Lemma valid_cases r :
  valid r -> (0 < rstep r /\ rstart r <= rend r) \/ (rstep r < 0 /\ rend r <= rstart r).
Proof. unfold valid. intros (H0 & H1 & H2). lia. Qed.

Lemma valid_len_pos r : valid r -> 1 <= range_len r.
Proof.
  intros Hv. destruct r as [a b s]. destruct (valid_cases _ Hv) as [[Hs Hab]|[Hs Hab]]; cbn [rstart rend rstep] in *.
  - apply (range_len_bounds_pos a b s Hs Hab).
  - apply (range_len_bounds_neg a b s Hs Hab).
Qed.

Lemma valid_len_abs r :
  valid r -> range_len r = Z.abs (rend r - rstart r) / Z.abs (rstep r) + 1.
Proof.
  intros Hv. destruct r as [a b s]. destruct (valid_cases _ Hv) as [[Hs Hab]|[Hs Hab]]; cbn [rstart rend rstep] in *.
  - rewrite range_len_pos_eq by assumption. rewrite !Z.abs_eq by lia. reflexivity.
  - rewrite range_len_neg_eq by assumption. rewrite !Z.abs_neq by lia.
    replace (- (b - a)) with (a - b) by lia. reflexivity.
Qed.

Lemma mk_range_iff a b s r : mk_range a b s = Ok r <-> r = mkR a b s /\ valid (mkR a b s).
Proof.
  unfold mk_range. split.
  - destruct (s =? 0) eqn:E0; [discriminate|].
    destruct ((a <? b) && (s <? 0)) eqn:E1; [discriminate|].
    destruct ((b <? a) && (0 <? s)) eqn:E2; [discriminate|].
    destruct (range_len (mkR a b s) <=? 0) eqn:E3; [discriminate|].
    intros H; inversion H; subst. split; [reflexivity|].
    unfold valid; cbn [rstart rend rstep]. lia.
  - intros [-> Hv]. pose proof (valid_len_pos _ Hv) as Hl.
    unfold valid in Hv; cbn [rstart rend rstep] in Hv.
    destruct (s =? 0) eqn:E0; [lia|].
    destruct ((a <? b) && (s <? 0)) eqn:E1; [lia|].
    destruct ((b <? a) && (0 <? s)) eqn:E2; [lia|].
    destruct (range_len (mkR a b s) <=? 0) eqn:E3; [lia|]. reflexivity.
Qed.

Lemma mk_range_ok r : valid r -> mk_range (rstart r) (rend r) (rstep r) = Ok r.
Proof. intros Hv. destruct r as [a b s]. apply mk_range_iff. split; [reflexivity|exact Hv]. Qed.

Lemma mk_range_raise a b s e : mk_range a b s = Raise e -> e = ValueError.
Proof.
  unfold mk_range.
  destruct (s =? 0); [intros H; inversion H; reflexivity|].
  destruct ((a <? b) && (s <? 0)); [intros H; inversion H; reflexivity|].
  destruct ((b <? a) && (0 <? s)); [intros H; inversion H; reflexivity|].
  destruct (range_len (mkR a b s) <=? 0); [intros H; inversion H; reflexivity|discriminate].
Qed.

Lemma valid_single a : valid (mkR a a 1).
Proof. unfold valid; cbn [rstart rend rstep]. lia. Qed.

Lemma range_len_single a s : s <> 0 -> range_len (mkR a a s) = 1.
Proof.
  intros Hs. destruct (Z_lt_le_dec 0 s).
  - apply range_len_char_pos; lia.
  - apply range_len_char_neg; lia.
Qed.

(* elements *)
Definition prog (a s : Z) (n : nat) : list Z := map (fun i => a + Z.of_nat i * s) (seq 0 n).


Lemma prog_length a s n : length (prog a s n) = n.
Proof. unfold prog. rewrite map_length, seq_length. reflexivity. Qed.

Lemma map_seq_shift {A} (f : nat -> A) k n :
  map f (seq k n) = map (fun j => f (k + j)%nat) (seq 0 n).
Proof.
  revert k. induction n as [|n IH]; intros k; [reflexivity|].
  cbn [seq map]. f_equal; [f_equal; lia|].
  rewrite IH. rewrite <- (seq_shift n 0), map_map. apply map_ext. intros j. f_equal. lia.
Qed.

Lemma prog_from_eq n : forall a s, prog_from a s n = prog a s n.
Proof.
  induction n as [|n IH]; intros a s; [reflexivity|].
  cbn [prog_from]. rewrite IH. unfold prog. cbn [seq map]. f_equal; [change (Z.of_nat 0) with 0; lia|].
  rewrite (map_seq_shift _ 1 n). apply map_ext. intros j. lia.
Qed.

Lemma range_elems_prog r : range_elems r = prog (rstart r) (rstep r) (Z.to_nat (range_len r)).
Proof. unfold range_elems. apply prog_from_eq. Qed.

Lemma prog_app a s n m : prog a s (n + m) = prog a s n ++ prog (a + Z.of_nat n * s) s m.
Proof.
  unfold prog. rewrite seq_app, map_app. f_equal. cbn [Nat.add].
  rewrite map_seq_shift. apply map_ext. intros j. lia.
Qed.

Lemma prog_nth a s n i : (i < n)%nat -> nth i (prog a s n) 0 = a + Z.of_nat i * s.
Proof.
  intros Hi. unfold prog. set (f := fun i => a + Z.of_nat i * s).
  rewrite nth_indep with (d' := f 0%nat) by (rewrite map_length, seq_length; exact Hi).
  rewrite (map_nth f), seq_nth by exact Hi. reflexivity.
Qed.

Lemma prog_one a s : prog a s 1 = [a].
Proof. unfold prog. cbn [seq map]. change (Z.of_nat 0) with 0. f_equal. lia. Qed.

Lemma prog_two a s : prog a s 2 = [a; a + s].
Proof.
  unfold prog. cbn [seq map]. change (Z.of_nat 0) with 0. change (Z.of_nat 1) with 1.
  f_equal; [lia|]. f_equal. lia.
Qed.

Lemma range_elems_single a s : s <> 0 -> range_elems (mkR a a s) = [a].
Proof.
  intros Hs. rewrite range_elems_prog. cbn [rstart rstep]. rewrite range_len_single by exact Hs.
  change (Z.to_nat 1) with 1%nat. apply prog_one.
Qed.

Lemma prog_In a s n x : In x (prog a s n) <-> exists i, (i < n)%nat /\ x = a + Z.of_nat i * s.
Proof.
  unfold prog. rewrite in_map_iff. split.
  - intros (i & Hx & Hi). apply in_seq in Hi. exists i. split; [lia|congruence].
  - intros (i & Hi & Hx). exists i. split; [congruence|]. apply in_seq. lia.
Qed.

Lemma prog_NoDup a s n : s <> 0 -> NoDup (prog a s n).
Proof.
  intros Hs. unfold prog. apply FinFun.Injective_map_NoDup; [|apply seq_NoDup].
  intros i j Hij. nia.
Qed.

Lemma range_elems_length r : length (range_elems r) = Z.to_nat (range_len r).
Proof. rewrite range_elems_prog. apply prog_length. Qed.

Lemma range_elems_nth r i :
  0 <= i < range_len r -> nth (Z.to_nat i) (range_elems r) 0 = range_nth r i.
Proof.
  intros Hi. rewrite range_elems_prog, prog_nth by lia. unfold range_nth. rewrite Z2Nat.id by lia. reflexivity.
Qed.

(* every element lies in the span of the written range *)
Lemma range_elems_span r x :
  valid r -> In x (range_elems r) -> span_lo r <= x <= span_hi r.
Proof.
  intros Hv Hx. rewrite range_elems_prog in Hx. apply prog_In in Hx. destruct Hx as (i & Hi & ->).
  destruct r as [a b s]. unfold span_lo, span_hi.
  destruct (valid_cases _ Hv) as [[Hs Hab]|[Hs Hab]]; cbn [rstart rend rstep] in *.
  - pose proof (range_len_bounds_pos a b s Hs Hab) as Hb. cbv zeta in Hb.
    set (n := range_len (mkR a b s)) in *. nia.
  - pose proof (range_len_bounds_neg a b s Hs Hab) as Hb. cbv zeta in Hb.
    set (n := range_len (mkR a b s)) in *. nia.
Qed.

Lemma range_elems_NoDup r : valid r -> NoDup (range_elems r).
Proof. intros (Hs & _). rewrite range_elems_prog. apply prog_NoDup. exact Hs. Qed.

Lemma span_lo_le_hi r : span_lo r <= span_hi r.
Proof. unfold span_lo, span_hi. lia. Qed.

Lemma span_start r : span_lo r <= rstart r <= span_hi r.
Proof. unfold span_lo, span_hi. lia. Qed.

(* ------------------------------------------------------------------------------------ *)
(** * 2. Chains (adjacent relations), sorting *)

Fixpoint chain {A} (R : A -> A -> Prop) (p : A) (l : list A) : Prop :=
  match l with
  | [] => True
  | r :: rs => R p r /\ chain R r rs
  end.

Lemma chain_impl {A} (R S : A -> A -> Prop) :
  (forall x y, R x y -> S x y) -> forall l p, chain R p l -> chain S p l.
Proof.
  intros HRS. induction l as [|r rs IH]; intros p H; [exact I|].
  destruct H as [H1 H2]. split; [apply HRS; exact H1|apply IH; exact H2].
Qed.

(* for a transitive relation a chain relates the head to every later element *)
Lemma chain_Forall {A} (R : A -> A -> Prop) :
  (forall x y z, R x y -> R y z -> R x z) -> forall l p, chain R p l -> Forall (R p) l.
Proof.
  intros Htr. induction l as [|r rs IH]; intros p H; [constructor|].
  destruct H as [H1 H2]. constructor; [exact H1|].
  specialize (IH r H2). eapply Forall_impl; [|exact IH]. intros z Hz. eapply Htr; eassumption.
Qed.

Lemma chain_tail {A} (R : A -> A -> Prop) p r rs : chain R p (r :: rs) -> chain R r rs.
Proof. intros [_ H]; exact H. Qed.

(* replacing the head by one related in the same way to the next element *)
Lemma chain_head {A} (R : A -> A -> Prop) p p' l :
  (forall y, R p y -> R p' y) -> chain R p l -> chain R p' l.
Proof. intros H. destruct l as [|r rs]; [trivial|]. intros [H1 H2]. split; [apply H; exact H1|exact H2]. Qed.

Definition sep (p n : irange) : Prop := span_hi p < span_lo n.
Definition sle (p n : irange) : Prop := rstart p <= rstart n.
Definition slt (p n : irange) : Prop := rstart p < rstart n.
Definition rle (p n : irange) : Prop := range_leb p n = true.

Lemma sep_slt p n : sep p n -> slt p n.
Proof. unfold sep, slt. pose proof (span_start p). pose proof (span_start n). lia. Qed.

Lemma slt_sle p n : slt p n -> sle p n.
Proof. unfold slt, sle. lia. Qed.

Lemma rle_sle p n : rle p n -> sle p n.
Proof.
  unfold rle, sle, range_leb.
  destruct (rstart p <? rstart n) eqn:E1; [lia|].
  destruct (rstart n <? rstart p) eqn:E2; [discriminate|]. lia.
Qed.

Lemma slt_rle p n : slt p n -> rle p n.
Proof. unfold slt, rle, range_leb. intros H. destruct (rstart p <? rstart n) eqn:E1; [reflexivity|lia]. Qed.

Lemma range_leb_total x y : range_leb x y = false -> range_leb y x = true.
Proof.
  unfold range_leb.
  destruct (rstart x <? rstart y) eqn:E1; [discriminate|].
  destruct (rstart y <? rstart x) eqn:E2; [reflexivity|].
  destruct (rend x <? rend y) eqn:E3; [discriminate|].
  destruct (rend y <? rend x) eqn:E4; [reflexivity|]. lia.
Qed.

Lemma no_overlap_chain p l : no_overlap (p :: l) = true <-> chain sep p l.
Proof.
  revert p. induction l as [|r rs IH]; intros p.
  - cbn. tauto.
  - change (no_overlap (p :: r :: rs)) with ((span_hi p <? span_lo r) && no_overlap (r :: rs)).
    cbn [chain]. rewrite andb_true_iff, IH. unfold sep. rewrite Z.ltb_lt. tauto.
Qed.

(* insertion sort: permutation, sorted, identity on strictly start-increasing lists *)
Lemma insert_range_perm x l : Permutation (x :: l) (insert_range x l).
Proof.
  induction l as [|y ys IH]; [apply Permutation_refl|].
  cbn [insert_range]. destruct (range_leb x y); [apply Permutation_refl|].
  eapply Permutation_trans; [apply perm_swap|]. apply perm_skip. exact IH.
Qed.

Lemma sort_ranges_perm l : Permutation l (sort_ranges l).
Proof.
  induction l as [|x xs IH]; [apply Permutation_refl|].
  cbn [sort_ranges fold_right]. eapply Permutation_trans; [apply perm_skip; exact IH|].
  apply insert_range_perm.
Qed.

Definition rsorted (l : list irange) : Prop :=
  match l with [] => True | p :: rs => chain rle p rs end.

Lemma insert_range_sorted x l : rsorted l -> rsorted (insert_range x l).
Proof.
  induction l as [|y ys IH]; intros Hs; [exact I|].
  cbn [insert_range]. destruct (range_leb x y) eqn:E.
  - cbn [rsorted chain]. split; [exact E|exact Hs].
  - apply range_leb_total in E. cbn [rsorted] in *.
    destruct ys as [|z zs].
    + cbn. split; [exact E|exact I].
    + destruct Hs as [Hyz Hs]. specialize (IH Hs). cbn [insert_range] in *.
      destruct (range_leb x z) eqn:E2.
      * cbn [chain]. split; [exact E|]. exact IH.
      * cbn [chain]. split; [exact Hyz|]. exact IH.
Qed.

Lemma sort_ranges_sorted l : rsorted (sort_ranges l).
Proof.
  induction l as [|x xs IH]; [exact I|]. cbn [sort_ranges fold_right]. apply insert_range_sorted. exact IH.
Qed.

Lemma sort_ranges_id p l : chain slt p l -> sort_ranges (p :: l) = p :: l.
Proof.
  revert p. induction l as [|r rs IH]; intros p H; [reflexivity|].
  destruct H as [H1 H2]. change (sort_ranges (p :: r :: rs)) with (insert_range p (sort_ranges (r :: rs))).
  rewrite (IH r H2). cbn [insert_range]. apply slt_rle in H1. unfold rle in H1. rewrite H1. reflexivity.
Qed.

Lemma sort_ranges_nonempty l : l <> [] -> sort_ranges l <> [].
Proof.
  intros Hne Hs. pose proof (sort_ranges_perm l) as Hp. rewrite Hs in Hp.
  apply Permutation_sym, Permutation_nil in Hp. contradiction.
Qed.

(* Pairwise for a symmetric relation is invariant under permutation *)
Lemma Pairwise_perm {A} (R : A -> A -> Prop) :
  (forall x y, R x y -> R y x) -> forall l l', Permutation l l' -> Pairwise R l -> Pairwise R l'.
Proof.
  intros Hsym l l' Hp. induction Hp as [|x l l' Hp IH|x y l|l l' l'' Hp1 IH1 Hp2 IH2]; intros H.
  - exact H.
  - inversion H as [|x0 l0 Hf Hpw]; subst. constructor; [|apply IH; exact Hpw].
    eapply Permutation_Forall; eassumption.
  - inversion H as [|y0 l0 Hf Hpw]; subst. inversion Hpw as [|x0 l1 Hf' Hpw']; subst.
    inversion Hf as [|x1 l2 Hyx Hfy]; subst.
    constructor; [constructor; [apply Hsym; exact Hyx|exact Hf']|].
    constructor; [exact Hfy|exact Hpw'].
  - apply IH2, IH1, H.
Qed.

Lemma Pairwise_map {A B} (f : A -> B) (R : B -> B -> Prop) l :
  Pairwise R (map f l) <-> Pairwise (fun x y => R (f x) (f y)) l.
Proof.
  induction l as [|x xs IH]; cbn [map].
  - split; intros _; constructor.
  - split; intros H; inversion H as [|x0 l0 Hf Hpw]; subst; constructor; try (apply IH; exact Hpw).
    + rewrite Forall_map in Hf. exact Hf.
    + rewrite Forall_map. exact Hf.
Qed.

Definition rspan (r : irange) : Z * Z := (span_lo r, span_hi r).
Definition rdisjoint (x y : irange) : Prop := disjoint (rspan x) (rspan y).

Lemma rdisjoint_sym x y : rdisjoint x y -> rdisjoint y x.
Proof. unfold rdisjoint, disjoint. tauto. Qed.

(* adjacent_chain: on a start-sorted list, separated neighbours <-> all pairs disjoint *)
Lemma sep_trans x y z : sep x y -> sep y z -> sep x z.
Proof. unfold sep. pose proof (span_lo_le_hi y). lia. Qed.

Lemma chain_sep_pairwise p l : chain sep p l -> Pairwise rdisjoint (p :: l).
Proof.
  revert p. induction l as [|r rs IH]; intros p H.
  - constructor; constructor.
  - constructor.
    + pose proof (chain_Forall sep sep_trans _ _ H) as Hf.
      eapply Forall_impl; [|exact Hf]. intros z Hz. left. exact Hz.
    + apply IH. exact (chain_tail _ _ _ _ H).
Qed.

Lemma pairwise_chain_sep p l : chain sle p l -> Pairwise rdisjoint (p :: l) -> chain sep p l.
Proof.
  revert p. induction l as [|r rs IH]; intros p Hs H; [exact I|].
  destruct Hs as [Hpr Hs]. inversion H as [|x0 l0 Hf Hpw]; subst.
  split; [|apply IH; assumption].
  inversion Hf as [|x1 l1 Hd _]; subst.
  unfold rdisjoint, disjoint, rspan in Hd. cbn [fst snd] in Hd. unfold sep, sle in *.
  pose proof (span_start p). pose proof (span_start r). lia.
Qed.

(* ------------------------------------------------------------------------------------ *)
(** * 3. Merging of neighbours (flag-off = repaired code: the test uses the last VALUE) *)

Fixpoint merge_from (p : irange) (l : list irange) : list irange :=
  match l with
  | [] => [p]
  | r :: rs =>
    if merge_test false p r then merge_from (mkR (rstart p) (rend r) (rstep r)) rs
    else p :: merge_from r rs
  end.

(* on a start-sorted list only ascending neighbours can be merged *)
Lemma merge_test_pos p r :
  valid p -> sle p r -> merge_test false p r = true ->
  0 < rstep p /\ rstep r = rstep p /\ rstart r = rstart p + range_len p * rstep p.
Proof.
  intros Hv Hle Ht. unfold merge_test, range_last, range_nth in Ht. unfold sle in Hle.
  apply andb_true_iff in Ht. destruct Ht as [Ht1 Ht2].
  pose proof (valid_len_pos _ Hv) as Hl.
  assert (Hst : rstep p <> 0) by apply Hv.
  split; [|split; [lia|nia]].
  destruct (Z_lt_le_dec 0 (rstep p)) as [|Hneg]; [assumption|exfalso]. nia.
Qed.

(* merge_denote: the merged range has exactly the values of both, in order *)
Lemma merge_ok p r :
  valid p -> valid r -> sle p r -> merge_test false p r = true ->
  let m := mkR (rstart p) (rend r) (rstep r) in
  valid m /\ range_elems m = range_elems p ++ range_elems r /\
  span_hi m = span_hi r /\ span_lo m = span_lo p /\ sep p r.
Proof.
  intros Hvp Hvr Hle Ht m.
  destruct (merge_test_pos p r Hvp Hle Ht) as (Hs & Hst & Hstart).
  destruct p as [a b s]. destruct r as [c d s']. cbn [rstart rend rstep] in *. subst s'.
  destruct (valid_cases _ Hvp) as [[_ Hab]|[Hs' _]]; cbn [rstart rend rstep] in *; [|lia].
  destruct (valid_cases _ Hvr) as [[_ Hcd]|[Hs' _]]; cbn [rstart rend rstep] in *; [|lia].
  pose proof (range_len_bounds_pos a b s Hs Hab) as Hbp. cbv zeta in Hbp.
  pose proof (range_len_bounds_pos c d s Hs Hcd) as Hbr. cbv zeta in Hbr.
  set (np := range_len (mkR a b s)) in *. set (nr := range_len (mkR c d s)) in *.
  assert (Hlen : range_len m = np + nr).
  { subst m. apply range_len_char_pos; [assumption|lia|]. nia. }
  assert (Had : a <= d) by nia.
  split; [|split; [|split; [|split]]].
  - subst m. unfold valid; cbn [rstart rend rstep]. lia.
  - rewrite !range_elems_prog. fold np nr. rewrite Hlen. subst m. cbn [rstart rend rstep].
    rewrite Z2Nat.inj_add by lia. rewrite prog_app. rewrite Z2Nat.id by lia.
    rewrite Hstart. reflexivity.
  - subst m. unfold span_hi; cbn [rstart rend rstep]. lia.
  - subst m. unfold span_lo; cbn [rstart rend rstep]. lia.
  - unfold sep, span_hi, span_lo; cbn [rstart rend rstep]. nia.
Qed.

Lemma merge_loop_eq l : forall p acc,
  valid p -> Forall valid l -> chain sle p l ->
  merge_loop false (p :: acc) l = Ok (rev acc ++ merge_from p l).
Proof.
  induction l as [|r rs IH]; intros p acc Hvp Hvl Hch.
  - cbn [merge_loop merge_from]. reflexivity.
  - destruct Hch as [Hpr Hch]. inversion Hvl as [|r0 l0 Hvr Hvrs]; subst.
    cbn [merge_loop merge_from]. destruct (merge_test false p r) eqn:Et.
    + destruct (merge_ok p r Hvp Hvr Hpr Et) as (Hvm & _).
      rewrite (proj2 (mk_range_iff _ _ _ _) (conj eq_refl Hvm)). cbn [bind].
      apply IH; [exact Hvm|exact Hvrs|].
      eapply chain_head; [|exact Hch]. unfold sle in *. cbn [rstart]. intros y Hy. lia.
    + rewrite (IH r (p :: acc) Hvr Hvrs Hch). cbn [rev]. rewrite <- app_assoc. reflexivity.
Qed.

Lemma merge_from_props l : forall p,
  valid p -> Forall valid l -> chain sle p l ->
  Forall valid (merge_from p l) /\
  concat (map range_elems (merge_from p l)) = concat (map range_elems (p :: l)) /\
  (chain sep p l <-> exists h t, merge_from p l = h :: t /\ chain sep h t) /\
  exists h t, merge_from p l = h :: t /\ span_lo h = span_lo p /\ rstart h = rstart p.
Proof.
  induction l as [|r rs IH]; intros p Hvp Hvl Hch.
  - cbn [merge_from]. split; [constructor; [exact Hvp|constructor]|]. split; [reflexivity|].
    split; [|exists p, []; auto].
    split; [intros _; exists p, []; split; [reflexivity|exact I]|intros _; exact I].
  - destruct Hch as [Hpr Hch]. inversion Hvl as [|r0 l0 Hvr Hvrs]; subst.
    cbn [merge_from]. destruct (merge_test false p r) eqn:Et.
    + destruct (merge_ok p r Hvp Hvr Hpr Et) as (Hvm & Hel & Hhi & Hlo & Hsep).
      set (m := mkR (rstart p) (rend r) (rstep r)) in *.
      assert (Hchm : chain sle m rs).
      { eapply chain_head; [|exact Hch]. unfold sle in *. subst m. cbn [rstart]. intros y Hy. lia. }
      destruct (IH m Hvm Hvrs Hchm) as (IH1 & IH2 & IH3 & (h & t & IH4 & IH5 & IH6)).
      split; [exact IH1|]. split.
      { rewrite IH2. cbn [map concat]. rewrite Hel, <- app_assoc. reflexivity. }
      split.
      { rewrite <- IH3. cbn [chain]. split.
        - intros [_ Hc]. eapply chain_head; [|exact Hc]. unfold sep. intros y Hy. rewrite Hhi. exact Hy.
        - intros Hc. split; [exact Hsep|]. eapply chain_head; [|exact Hc]. unfold sep. intros y Hy. rewrite <- Hhi. exact Hy. }
      exists h, t. split; [exact IH4|]. split; [rewrite IH5; exact Hlo|rewrite IH6; reflexivity].
    + destruct (IH r Hvr Hvrs Hch) as (IH1 & IH2 & IH3 & (h & t & IH4 & IH5 & IH6)).
      split; [constructor; assumption|]. split.
      { cbn [map concat] in *. rewrite IH2. reflexivity. }
      split; [|exists p, (merge_from r rs); auto].
      cbn [chain]. rewrite IH3. split.
      * intros (Hs & h' & t' & He & Hc). exists p, (merge_from r rs). split; [reflexivity|].
        rewrite He. cbn [chain]. split; [|exact Hc].
        rewrite IH4 in He. inversion He; subst. unfold sep in *. rewrite IH5. exact Hs.
      * intros (h' & t' & He & Hc). inversion He; subst h' t'. rewrite IH4 in Hc. destruct Hc as [Hs Hc].
        split; [unfold sep in *; rewrite <- IH5; exact Hs|]. exists h, t. split; [exact IH4|exact Hc].
Qed.

(* ------------------------------------------------------------------------------------ *)
(** * 4. IntRangeExpr.__init__: the invariant of every constructed expression *)

Lemma last_indep_ne {A} (l : list A) d d' : l <> [] -> last l d = last l d'.
Proof.
  induction l as [|x xs IH]; intros Hne; [contradiction|].
  destruct xs as [|y ys]; [reflexivity|]. cbn [last] in *. apply IH. discriminate.
Qed.

Definition total_len (l : list irange) : Z := fold_right (fun r a => range_len r + a) 0 l.

Lemma last_cum_lengths l : forall acc, last (cum_lengths acc l) acc = acc + total_len l.
Proof.
  induction l as [|r rs IH]; intros acc; cbn [cum_lengths total_len fold_right last]; [lia|].
  specialize (IH (acc + range_len r)). fold (total_len rs).
  destruct (cum_lengths (acc + range_len r) rs) eqn:E.
  - destruct rs; [cbn [total_len fold_right]; lia|discriminate].
  - rewrite (last_indep_ne (z :: l) acc (acc + range_len r)) by discriminate. rewrite IH. lia.
Qed.

Lemma total_len_pos l : Forall valid l -> l <> [] -> 1 <= total_len l.
Proof.
  induction l as [|r rs IH]; intros Hv Hne; [contradiction|].
  inversion Hv as [|r0 l0 Hvr Hvrs]; subst. cbn [total_len fold_right]. fold (total_len rs).
  pose proof (valid_len_pos _ Hvr). destruct rs as [|r' rs']; [cbn; lia|].
  specialize (IH Hvrs ltac:(discriminate)). lia.
Qed.

Lemma elems_length l : Forall valid l ->
  Z.of_nat (length (concat (map range_elems l))) = total_len l.
Proof.
  induction l as [|r rs IH]; intros Hv; [reflexivity|].
  inversion Hv as [|r0 l0 Hvr Hvrs]; subst. cbn [map concat total_len fold_right]. fold (total_len rs).
  rewrite app_length, range_elems_length, Nat2Z.inj_add, (IH Hvrs).
  pose proof (valid_len_pos _ Hvr). lia.
Qed.

(* what IntRangeExpr.__init__ establishes *)
Definition WFexpr (e : iexpr) : Prop :=
  exists p l, ranges e = p :: l /\ Forall valid (p :: l) /\ chain sep p l /\
              cum e = cum_lengths 0 (p :: l) /\ elen e = total_len (p :: l).

Lemma mk_expr_unfold rs f rest :
  Forall valid rs -> sort_ranges rs = f :: rest ->
  let m := merge_from f rest in
  Forall valid (f :: rest) /\ chain sle f rest /\
  mk_expr false rs =
    if no_overlap m then Ok (mkE m (cum_lengths 0 m) (total_len m)) else Raise ValueError.
Proof.
  intros Hv Hs m.
  assert (Hvs : Forall valid (f :: rest)).
  { rewrite <- Hs. eapply Permutation_Forall; [apply sort_ranges_perm|exact Hv]. }
  assert (Hch : chain sle f rest).
  { pose proof (sort_ranges_sorted rs) as Hso. rewrite Hs in Hso. cbn [rsorted] in Hso.
    eapply chain_impl; [|exact Hso]. apply rle_sle. }
  split; [exact Hvs|]. split; [exact Hch|].
  inversion Hvs as [|f0 l0 Hvf Hvrest]; subst.
  unfold mk_expr. rewrite Hs.
  rewrite (merge_loop_eq rest f [] Hvf Hvrest Hch). cbn [rev app bind]. fold m.
  destruct (merge_from_props rest f Hvf Hvrest Hch) as (Hvm & _ & _ & (h & t & Hm & _)). fold m in Hvm, Hm.
  assert (Hlast : last (cum_lengths 0 m) 0 = total_len m).
  { rewrite last_cum_lengths. lia. }
  rewrite Hlast.
  pose proof (total_len_pos m Hvm ltac:(rewrite Hm; discriminate)) as Hpos.
  destruct (total_len m <=? 0) eqn:E; [lia|]. reflexivity.
Qed.

Lemma mk_expr_raise rs e : rs <> [] -> Forall valid rs -> mk_expr false rs = Raise e -> e = ValueError.
Proof.
  intros Hne Hv He. destruct (sort_ranges rs) as [|f rest] eqn:Hs.
  - exfalso. exact (sort_ranges_nonempty rs Hne Hs).
  - destruct (mk_expr_unfold rs f rest Hv Hs) as (_ & _ & Heq). cbv zeta in Heq. rewrite Heq in He.
    destruct (no_overlap (merge_from f rest)); [discriminate|]. inversion He; reflexivity.
Qed.

Lemma concat_elems_perm (l l' : list irange) : Permutation l l' ->
  Permutation (concat (map range_elems l)) (concat (map range_elems l')).
Proof.
  intros Hp. induction Hp as [|x l l' Hp IH|x y l|l l' l'' Hp1 IH1 Hp2 IH2]; cbn [map concat].
  - apply Permutation_refl.
  - apply Permutation_app_head. exact IH.
  - rewrite !app_assoc. apply Permutation_app_tail. apply Permutation_app_comm.
  - eapply Permutation_trans; eassumption.
Qed.

Lemma mk_expr_ok rs e :
  Forall valid rs -> mk_expr false rs = Ok e ->
  WFexpr e /\ Permutation (elems e) (concat (map range_elems rs)) /\ Pairwise rdisjoint rs.
Proof.
  intros Hv He. destruct (sort_ranges rs) as [|f rest] eqn:Hs.
  - unfold mk_expr in He. rewrite Hs in He. discriminate.
  - destruct (mk_expr_unfold rs f rest Hv Hs) as (Hvs & Hch & Heq). cbv zeta in Heq. rewrite Heq in He.
    inversion Hvs as [|f0 l0 Hvf Hvrest]; subst.
    destruct (merge_from_props rest f Hvf Hvrest Hch) as (Hvm & Hel & Hsep & (h & t & Hm & _)).
    destruct (no_overlap (merge_from f rest)) eqn:Eno; [|discriminate].
    inversion He; subst e; clear He.
    rewrite Hm in Eno. apply no_overlap_chain in Eno.
    split; [|split].
    + exists h, t. cbn [ranges cum elen]. rewrite Hm in *. auto.
    + unfold elems. cbn [ranges]. rewrite Hel.
      apply Permutation_sym. rewrite <- Hs. apply concat_elems_perm. apply sort_ranges_perm.
    + assert (Hc : chain sep f rest) by (apply Hsep; exists h, t; auto).
      apply chain_sep_pairwise in Hc. rewrite <- Hs in Hc.
      eapply Pairwise_perm; [apply rdisjoint_sym| |exact Hc].
      apply Permutation_sym, sort_ranges_perm.
Qed.

Lemma mk_expr_accepts rs :
  rs <> [] -> Forall valid rs -> Pairwise rdisjoint rs -> exists e, mk_expr false rs = Ok e.
Proof.
  intros Hne Hv Hpw. destruct (sort_ranges rs) as [|f rest] eqn:Hs.
  - exfalso. exact (sort_ranges_nonempty rs Hne Hs).
  - destruct (mk_expr_unfold rs f rest Hv Hs) as (Hvs & Hch & Heq). cbv zeta in Heq. rewrite Heq.
    inversion Hvs as [|f0 l0 Hvf Hvrest]; subst.
    destruct (merge_from_props rest f Hvf Hvrest Hch) as (_ & _ & Hsep & _).
    assert (Hc : chain sep f rest).
    { apply pairwise_chain_sep; [exact Hch|]. rewrite <- Hs.
      eapply Pairwise_perm; [apply rdisjoint_sym|apply sort_ranges_perm|exact Hpw]. }
    apply Hsep in Hc. destruct Hc as (h & t & Hm & Hc). rewrite Hm.
    apply no_overlap_chain in Hc. rewrite Hc. eexists; reflexivity.
Qed.

(* already sorted and separated input (printing, from_list): same values in the same order *)
Lemma mk_expr_sorted p l :
  Forall valid (p :: l) -> chain sep p l ->
  exists e, mk_expr false (p :: l) = Ok e /\ elems e = concat (map range_elems (p :: l)) /\ WFexpr e.
Proof.
  intros Hv Hc.
  assert (Hs : sort_ranges (p :: l) = p :: l).
  { apply sort_ranges_id. eapply chain_impl; [|exact Hc]. apply sep_slt. }
  destruct (mk_expr_unfold (p :: l) p l Hv Hs) as (_ & Hch & Heq). cbv zeta in Heq. rewrite Heq.
  inversion Hv as [|f0 l0 Hvf Hvrest]; subst.
  destruct (merge_from_props l p Hvf Hvrest Hch) as (Hvm & Hel & Hsep & _).
  apply Hsep in Hc. destruct Hc as (h & t & Hm & Hc). rewrite Hm.
  pose proof Hc as Hno. apply no_overlap_chain in Hno. rewrite Hno.
  eexists. split; [reflexivity|]. split.
  - unfold elems. cbn [ranges]. rewrite <- Hm. exact Hel.
  - exists h, t. cbn [ranges cum elen]. rewrite Hm in Hvm. auto.
Qed.

(* NoDup of the iteration order *)
Lemma NoDup_app_intro {A} (l1 l2 : list A) :
  NoDup l1 -> NoDup l2 -> (forall x, In x l1 -> In x l2 -> False) -> NoDup (l1 ++ l2).
Proof.
  induction l1 as [|x xs IH]; intros H1 H2 Hd; [exact H2|].
  inversion H1 as [|x0 l0 Hnin Hnd]; subst. cbn [app]. constructor.
  - intros Hin. apply in_app_or in Hin. destruct Hin as [Hin|Hin]; [contradiction|].
    apply (Hd x); [left; reflexivity|exact Hin].
  - apply IH; [exact Hnd|exact H2|]. intros y Hy1 Hy2. apply (Hd y); [right; exact Hy1|exact Hy2].
Qed.

Lemma chain_sep_NoDup l : forall p, Forall valid (p :: l) -> chain sep p l ->
  NoDup (concat (map range_elems (p :: l))) /\
  forall x, In x (concat (map range_elems (p :: l))) -> span_lo p <= x.
Proof.
  induction l as [|r rs IH]; intros p Hv Hc; inversion Hv as [|p0 l0 Hvp Hvl]; subst.
  - cbn [map concat]. rewrite app_nil_r. split; [apply range_elems_NoDup; exact Hvp|].
    intros x Hx. apply (range_elems_span p x Hvp Hx).
  - destruct Hc as [Hpr Hc]. destruct (IH r Hvl Hc) as [IH1 IH2].
    change (concat (map range_elems (p :: r :: rs))) with (range_elems p ++ concat (map range_elems (r :: rs))).
    split.
    + apply NoDup_app_intro; [apply range_elems_NoDup; exact Hvp|exact IH1|].
      intros x Hx1 Hx2. pose proof (range_elems_span p x Hvp Hx1). specialize (IH2 x Hx2).
      unfold sep in Hpr. lia.
    + intros x Hx. apply in_app_or in Hx. destruct Hx as [Hx|Hx].
      * apply (range_elems_span p x Hvp Hx).
      * specialize (IH2 x Hx). unfold sep in Hpr. pose proof (span_lo_le_hi p). lia.
Qed.

Lemma WFexpr_NoDup e : WFexpr e -> NoDup (elems e).
Proof.
  intros (p & l & Hr & Hv & Hc & _). unfold elems. rewrite Hr. apply chain_sep_NoDup; assumption.
Qed.

(* ------------------------------------------------------------------------------------ *)
(** * 5. The parser (token level) against the grammar [Renders] *)

Definition to_range (e : elem) : irange :=
  match e with
  | One a => mkR a a 1
  | Span a b => mkR a b 1
  | Stepped a b s => mkR a b s
  end.

Lemma elem_ok_valid e : elem_ok e <-> valid (to_range e).
Proof. destruct e; unfold valid; cbn [to_range elem_ok rstart rend rstep]; lia. Qed.

Lemma span_rspan e : span e = rspan (to_range e).
Proof.
  destruct e; unfold rspan, span_lo, span_hi; cbn [span to_range rstart rend]; try reflexivity.
  rewrite Z.min_id, Z.max_id. reflexivity.
Qed.

Lemma parse_integer_app z tz r : IntToks z tz -> parse_integer (tz ++ r) = Ok (z, r).
Proof. intros H. destruct H; reflexivity. Qed.

Lemma parse_integer_ok ts z r :
  parse_integer ts = Ok (z, r) -> exists tz, IntToks z tz /\ ts = tz ++ r.
Proof.
  destruct ts as [|t ts']; [discriminate|].
  destruct t; try discriminate; cbn [parse_integer].
  - intros H; inversion H; subst. exists [TPosInt v]. split; [constructor|reflexivity].
  - destruct ts' as [|t2 ts'']; [discriminate|]. destruct t2; try discriminate.
    intros H; inversion H; subst. exists [THyphen; TPosInt v]. split; [constructor|reflexivity].
Qed.

Lemma parse_integer_raise ts x : parse_integer ts = Raise x -> x = ExpressionError.
Proof.
  destruct ts as [|t ts']; [intros H; inversion H; reflexivity|].
  destruct t; cbn [parse_integer]; try (intros H; inversion H; reflexivity).
  destruct ts' as [|t2 ts'']; [intros H; inversion H; reflexivity|].
  destruct t2; intros H; inversion H; reflexivity.
Qed.

Lemma IntToks_nonempty z tz : IntToks z tz -> tz <> [].
Proof. intros H; destruct H; discriminate. Qed.

Lemma ElemToks_nonempty e ts : ElemToks e ts -> ts <> [].
Proof.
  intros H; destruct H as [a ta Ha|a b ta tb Ha Hb|a b s ta tb tc Ha Hb Hc];
    pose proof (IntToks_nonempty _ _ Ha); destruct ta; try contradiction; discriminate.
Qed.

Lemma parse_range_sound ts rg rest :
  parse_range false ts = Ok (rg, rest) ->
  exists e pre, ElemToks e pre /\ ts = pre ++ rest /\ elem_ok e /\ rg = to_range e.
Proof.
  unfold parse_range.
  destruct (parse_integer ts) as [[a r1]|x] eqn:H1; cbn [bind]; [|discriminate].
  apply parse_integer_ok in H1. destruct H1 as (ta & Hta & ->).
  destruct (at_end_or_comma r1) eqn:E1.
  - destruct (mk_range a a 1) as [rg'|x] eqn:Hm; cbn [bind]; [|discriminate].
    intros H; inversion H; subst. apply mk_range_iff in Hm. destruct Hm as [-> _].
    exists (One a), ta. split; [constructor; exact Hta|]. split; [reflexivity|]. split; [exact I|reflexivity].
  - destruct r1 as [|t r2]; [discriminate E1|].
    destruct t; try discriminate E1; try (intros H; discriminate H).
    destruct (parse_integer r2) as [[b r3]|x] eqn:H2; cbn [bind]; [|discriminate].
    apply parse_integer_ok in H2. destruct H2 as (tb & Htb & ->).
    destruct (at_end_or_comma r3) eqn:E3.
    + destruct (mk_range a b 1) as [rg'|x] eqn:Hm; [|discriminate].
      intros H; inversion H; subst. apply mk_range_iff in Hm. destruct Hm as [-> Hv].
      exists (Span a b), (ta ++ THyphen :: tb). split; [constructor; assumption|].
      split; [rewrite <- app_assoc; reflexivity|]. split; [apply (elem_ok_valid (Span a b)); exact Hv|reflexivity].
    + destruct r3 as [|t3 r4]; [discriminate E3|].
      destruct t3; try discriminate E3; try (intros H; discriminate H).
      destruct (parse_integer r4) as [[s r5]|x] eqn:H3; cbn [bind]; [|discriminate].
      apply parse_integer_ok in H3. destruct H3 as (tc & Htc & ->).
      destruct (mk_range a b s) as [rg'|x] eqn:Hm; [|discriminate].
      intros H; inversion H; subst. apply mk_range_iff in Hm. destruct Hm as [-> Hv].
      exists (Stepped a b s), (ta ++ THyphen :: tb ++ TColon :: tc). split; [constructor; assumption|].
      split; [repeat (rewrite <- app_assoc; cbn [app]); reflexivity|].
      split; [apply (elem_ok_valid (Stepped a b s)); exact Hv|reflexivity].
Qed.

Lemma parse_range_complete e pre rest :
  ElemToks e pre -> elem_ok e -> at_end_or_comma rest = true ->
  parse_range false (pre ++ rest) = Ok (to_range e, rest).
Proof.
  intros He Hok Hend. apply elem_ok_valid in Hok.
  pose proof (mk_range_ok _ Hok) as Hm.
  destruct He as [a ta Ha|a b ta tb Ha Hb|a b s ta tb tc Ha Hb Hc]; cbn [to_range rstart rend rstep] in *;
    unfold parse_range; repeat (rewrite <- app_assoc; cbn [app]).
  - rewrite (parse_integer_app _ _ _ Ha). cbn [bind]. rewrite Hend, Hm. reflexivity.
  - rewrite (parse_integer_app _ _ _ Ha). cbn [bind at_end_or_comma].
    rewrite (parse_integer_app _ _ _ Hb). cbn [bind]. rewrite Hend, Hm. reflexivity.
  - rewrite (parse_integer_app _ _ _ Ha). cbn [bind at_end_or_comma].
    rewrite (parse_integer_app _ _ _ Hb). cbn [bind at_end_or_comma].
    rewrite (parse_integer_app _ _ _ Hc). cbn [bind]. rewrite Hm. reflexivity.
Qed.

Lemma parse_range_raise ts x : parse_range false ts = Raise x -> x = ExpressionError.
Proof.
  unfold parse_range.
  destruct (parse_integer ts) as [[a r1]|x1] eqn:H1; cbn [bind];
    [|intros H; inversion H; subst; eapply parse_integer_raise; exact H1].
  destruct (at_end_or_comma r1) eqn:E1.
  - rewrite (proj2 (mk_range_iff a a 1 _) (conj eq_refl (valid_single a))). cbn [bind]. discriminate.
  - destruct r1 as [|t r2]; [intros H; inversion H; reflexivity|].
    destruct t; try (intros H; inversion H; reflexivity).
    destruct (parse_integer r2) as [[b r3]|x2] eqn:H2; cbn [bind];
      [|intros H; inversion H; subst; eapply parse_integer_raise; exact H2].
    destruct (at_end_or_comma r3) eqn:E3.
    + destruct (mk_range a b 1) as [rg'|x3] eqn:Hm; [discriminate|].
      apply mk_range_raise in Hm. subst x3. intros H; inversion H; reflexivity.
    + destruct r3 as [|t3 r4]; [intros H; inversion H; reflexivity|].
      destruct t3; try (intros H; inversion H; reflexivity).
      destruct (parse_integer r4) as [[s r5]|x3] eqn:H3; cbn [bind];
        [|intros H; inversion H; subst; eapply parse_integer_raise; exact H3].
      destruct (mk_range a b s) as [rg'|x4] eqn:Hm; [discriminate|].
      apply mk_range_raise in Hm. subst x4. intros H; inversion H; reflexivity.
Qed.

Lemma parse_range_shorter ts rg rest :
  parse_range false ts = Ok (rg, rest) -> (length rest < length ts)%nat.
Proof.
  intros H. apply parse_range_sound in H. destruct H as (e & pre & He & -> & _).
  apply ElemToks_nonempty in He. rewrite app_length. destruct pre; [contradiction|cbn [length]; lia].
Qed.

Lemma parse_ranges_sound fuel : forall ts rs,
  parse_ranges false fuel ts = Ok rs ->
  exists es, Renders es ts /\ Forall elem_ok es /\ rs = map to_range es.
Proof.
  induction fuel as [|f IH]; intros ts rs; cbn [parse_ranges]; [discriminate|].
  destruct (parse_range false ts) as [[rg rest]|x] eqn:H1; cbn [bind]; [|discriminate].
  apply parse_range_sound in H1. destruct H1 as (e & pre & He & -> & Hok & ->).
  destruct rest as [|t rest'].
  - intros H; inversion H; subst. exists [e]. rewrite app_nil_r.
    split; [constructor; exact He|]. split; [constructor; [exact Hok|constructor]|reflexivity].
  - destruct t; try discriminate.
    destruct (parse_ranges false f rest') as [rgs|x] eqn:H2; cbn [bind]; [|discriminate].
    intros H; inversion H; subst. destruct (IH _ _ H2) as (es & Hr & Hoks & ->).
    exists (e :: es). split; [constructor; assumption|]. split; [constructor; assumption|reflexivity].
Qed.

Lemma parse_ranges_complete es ts :
  Renders es ts -> Forall elem_ok es ->
  forall fuel, (length ts < fuel)%nat -> parse_ranges false fuel ts = Ok (map to_range es).
Proof.
  intros Hr. induction Hr as [e ts He|e ts es ts' He Hr IH]; intros Hok fuel Hf.
  - destruct fuel as [|f]; [lia|]. cbn [parse_ranges]. inversion Hok as [|e0 l0 Hoke _]; subst.
    rewrite <- (app_nil_r ts).
    rewrite (parse_range_complete e ts [] He Hoke eq_refl). cbn [bind map]. reflexivity.
  - destruct fuel as [|f]; [lia|]. cbn [parse_ranges]. inversion Hok as [|e0 l0 Hoke Hoks]; subst.
    rewrite (parse_range_complete e ts (TComma :: ts') He Hoke eq_refl). cbn [bind].
    rewrite (IH Hoks f). { cbn [bind map]. reflexivity. }
    rewrite app_length in Hf. cbn [length] in Hf. lia.
Qed.

(* the fuel (number of tokens + 1) always suffices: RuntimeError never escapes *)
Lemma parse_ranges_raise fuel : forall ts x,
  parse_ranges false fuel ts = Raise x -> (length ts < fuel)%nat -> x = ExpressionError.
Proof.
  induction fuel as [|f IH]; intros ts x; cbn [parse_ranges]; [intros _ Hl; lia|].
  destruct (parse_range false ts) as [[rg rest]|x1] eqn:H1; cbn [bind].
  - apply parse_range_shorter in H1. destruct rest as [|t rest']; [discriminate|].
    destruct t; try (intros H _; inversion H; reflexivity).
    destruct (parse_ranges false f rest') as [rgs|x2] eqn:H2; cbn [bind]; [discriminate|].
    intros H Hl; inversion H; subst. apply (IH _ _ H2). cbn [length] in H1. lia.
  - intros H _; inversion H; subst. eapply parse_range_raise; exact H1.
Qed.

Lemma Renders_nonempty es ts : Renders es ts -> ts <> [] /\ es <> [].
Proof.
  intros H; destruct H as [e ts He|e ts es ts' He Hr]; (split; [|discriminate]).
  - eapply ElemToks_nonempty; exact He.
  - destruct ts; discriminate.
Qed.

(* ------------------------------------------------------------------------------------ *)
(** * 6. The grammar is functional; the executable oracle equals the declarative spec *)

Definition no_comma (l : list tok) : Prop := Forall (fun t => t <> TComma) l.

Lemma IntToks_no_comma z tz : IntToks z tz -> no_comma tz.
Proof. intros H; destruct H; repeat constructor; discriminate. Qed.

Lemma no_comma_app a b : no_comma a -> no_comma b -> no_comma (a ++ b).
Proof. unfold no_comma. intros; apply Forall_app; split; assumption. Qed.

Lemma ElemToks_no_comma e ts : ElemToks e ts -> no_comma ts.
Proof.
  intros H; destruct H as [a ta Ha|a b ta tb Ha Hb|a b s ta tb tc Ha Hb Hc].
  - eapply IntToks_no_comma; exact Ha.
  - apply no_comma_app; [eapply IntToks_no_comma; exact Ha|].
    constructor; [discriminate|eapply IntToks_no_comma; exact Hb].
  - apply no_comma_app; [eapply IntToks_no_comma; exact Ha|].
    constructor; [discriminate|]. apply no_comma_app; [eapply IntToks_no_comma; exact Hb|].
    constructor; [discriminate|eapply IntToks_no_comma; exact Hc].
Qed.

Lemma split_commas_no_comma pre : no_comma pre -> forall cur,
  split_commas cur pre = [rev cur ++ pre] /\
  forall r, split_commas cur (pre ++ TComma :: r) = (rev cur ++ pre) :: split_commas [] r.
Proof.
  induction pre as [|t pre IH]; intros Hn cur.
  - cbn [split_commas app]. rewrite app_nil_r. split; [reflexivity|intros r; reflexivity].
  - inversion Hn as [|t0 l0 Ht Hn']; subst. destruct (IH Hn' (t :: cur)) as [IH1 IH2].
    cbn [rev] in IH1, IH2. rewrite <- app_assoc in IH1, IH2. cbn [app] in IH1, IH2.
    destruct t; try contradiction; cbn [split_commas app]; (split; [exact IH1|exact IH2]).
Qed.

Lemma take_int_parse ts :
  take_int ts = match parse_integer ts with Ok x => Some x | Raise _ => None end.
Proof.
  destruct ts as [|t ts']; [reflexivity|]. destruct t; try reflexivity.
  destruct ts' as [|t2 ts'']; [reflexivity|]. destruct t2; reflexivity.
Qed.

Lemma take_int_app z tz r : IntToks z tz -> take_int (tz ++ r) = Some (z, r).
Proof. intros H. rewrite take_int_parse, (parse_integer_app _ _ _ H). reflexivity. Qed.

Lemma take_int_ok ts z r : take_int ts = Some (z, r) -> exists tz, IntToks z tz /\ ts = tz ++ r.
Proof.
  rewrite take_int_parse. destruct (parse_integer ts) as [[z' r']|x] eqn:H; [|discriminate].
  intros H'; inversion H'; subst. apply parse_integer_ok. exact H.
Qed.

Lemma seg_elem_complete e seg : ElemToks e seg -> seg_elem seg = Some e.
Proof.
  intros H; destruct H as [a ta Ha|a b ta tb Ha Hb|a b s ta tb tc Ha Hb Hc]; unfold seg_elem.
  - rewrite <- (app_nil_r ta), (take_int_app _ _ _ Ha). reflexivity.
  - rewrite (take_int_app _ _ _ Ha). rewrite <- (app_nil_r tb), (take_int_app _ _ _ Hb). reflexivity.
  - rewrite (take_int_app _ _ _ Ha), (take_int_app _ _ _ Hb).
    rewrite <- (app_nil_r tc), (take_int_app _ _ _ Hc). reflexivity.
Qed.

Lemma seg_elem_sound seg e : seg_elem seg = Some e -> ElemToks e seg.
Proof.
  unfold seg_elem. destruct (take_int seg) as [[a r]|] eqn:H1; [|discriminate].
  apply take_int_ok in H1. destruct H1 as (ta & Ha & ->).
  destruct r as [|t r].
  - intros H; inversion H; subst. rewrite app_nil_r. constructor; exact Ha.
  - destruct t; try discriminate.
    destruct (take_int r) as [[b r']|] eqn:H2; [|discriminate].
    apply take_int_ok in H2. destruct H2 as (tb & Hb & ->).
    destruct r' as [|t r'].
    + intros H; inversion H; subst. rewrite app_nil_r. constructor; assumption.
    + destruct t; try discriminate.
      destruct (take_int r') as [[s r'']|] eqn:H3; [|discriminate].
      apply take_int_ok in H3. destruct H3 as (tc & Hc & ->).
      destruct r'' as [|t r'']; [|discriminate].
      intros H; inversion H; subst. rewrite app_nil_r. constructor; assumption.
Qed.

Fixpoint join (segs : list (list tok)) : list tok :=
  match segs with
  | [] => []
  | s :: ss => match ss with [] => s | _ => s ++ TComma :: join ss end
  end.

Lemma split_commas_join ts : forall cur,
  join (split_commas cur ts) = rev cur ++ ts /\ split_commas cur ts <> [].
Proof.
  induction ts as [|t r IH]; intros cur.
  - cbn [split_commas join]. rewrite app_nil_r. split; [reflexivity|discriminate].
  - assert (Hother : join (split_commas (t :: cur) r) = rev cur ++ t :: r /\ split_commas (t :: cur) r <> []).
    { destruct (IH (t :: cur)) as [IH1 IH2]. split; [|exact IH2].
      rewrite IH1. cbn [rev]. rewrite <- app_assoc. reflexivity. }
    destruct t; cbn [split_commas]; try exact Hother.
    destruct (IH []) as [IH1 IH2]. split; [|discriminate].
    cbn [join]. destruct (split_commas [] r) as [|s ss] eqn:E; [contradiction|].
    rewrite IH1. reflexivity.
Qed.

Lemma all_some_Forall2 {A B} (f : A -> option B) l : forall es,
  all_some (map f l) = Some es -> Forall2 (fun x e => f x = Some e) l es.
Proof.
  induction l as [|x xs IH]; intros es; cbn [map all_some].
  - intros H; inversion H; constructor.
  - destruct (f x) as [y|] eqn:E; [|discriminate].
    destruct (all_some (map f xs)) as [ys|] eqn:E2; [|discriminate].
    intros H; inversion H; subst. constructor; [exact E|apply IH; reflexivity].
Qed.

Lemma Forall2_impl' {A B} (R S : A -> B -> Prop) l l' :
  (forall x y, R x y -> S x y) -> Forall2 R l l' -> Forall2 S l l'.
Proof. intros HRS H. induction H; constructor; auto. Qed.

Lemma Renders_join segs es :
  Forall2 (fun seg e => ElemToks e seg) segs es -> segs <> [] -> Renders es (join segs).
Proof.
  intros H. induction H as [|seg e segs' es' He Hf IH]; intros Hne; [contradiction|].
  cbn [join]. destruct segs' as [|s' ss].
  - inversion Hf; subst. constructor; exact He.
  - constructor; [exact He|]. apply IH. discriminate.
Qed.

Lemma spec_elems_sound ts es : spec_elems ts = Some es -> Renders es ts.
Proof.
  unfold spec_elems. intros H. apply all_some_Forall2 in H.
  destruct (split_commas_join ts []) as [Hj Hne]. cbn [rev app] in Hj. rewrite <- Hj.
  apply Renders_join; [|exact Hne].
  eapply Forall2_impl'; [|exact H]. intros seg e Hs. apply seg_elem_sound; exact Hs.
Qed.

Lemma spec_elems_complete es ts : Renders es ts -> spec_elems ts = Some es.
Proof.
  unfold spec_elems. intros H; induction H as [e ts He|e ts es ts' He Hr IH].
  - destruct (split_commas_no_comma ts (ElemToks_no_comma _ _ He) []) as [H1 _].
    rewrite H1. cbn [rev app map all_some]. rewrite (seg_elem_complete _ _ He). reflexivity.
  - destruct (split_commas_no_comma ts (ElemToks_no_comma _ _ He) []) as [_ H2].
    rewrite H2. cbn [rev app map all_some]. rewrite (seg_elem_complete _ _ He), IH. reflexivity.
Qed.

(* the written elements are determined by the token list *)
Theorem Renders_functional ts es es' : Renders es ts -> Renders es' ts -> es = es'.
Proof.
  intros H1 H2. apply spec_elems_complete in H1, H2. congruence.
Qed.

Lemma elem_okb_iff e : elem_okb e = true <-> elem_ok e.
Proof. destruct e; cbn [elem_okb elem_ok]; lia. Qed.

Lemma forallb_elem_ok es : forallb elem_okb es = true <-> Forall elem_ok es.
Proof.
  rewrite forallb_forall, Forall_forall. split; intros H x Hx; apply elem_okb_iff, H, Hx.
Qed.

Lemma disjointb_iff x y : disjointb x y = true <-> disjoint x y.
Proof. unfold disjointb, disjoint. lia. Qed.

Lemma pairwiseb_iff l : pairwiseb disjointb l = true <-> Pairwise disjoint l.
Proof.
  induction l as [|x xs IH]; cbn [pairwiseb].
  - split; [constructor|reflexivity].
  - rewrite andb_true_iff, IH, forallb_forall. split.
    + intros [Hf Hp]. constructor; [|exact Hp]. apply Forall_forall. intros y Hy. apply disjointb_iff, Hf, Hy.
    + intros H; inversion H as [|x0 l0 Hf Hp]; subst. split; [|exact Hp].
      intros y Hy. apply disjointb_iff. rewrite Forall_forall in Hf. apply Hf, Hy.
Qed.

Theorem spec_from_tokens_iff ts l :
  spec_from_tokens ts = Some l <->
  exists es, Accepts ts es /\ l = sortZ (concat (map denote es)).
Proof.
  unfold spec_from_tokens, Accepts. split.
  - destruct (spec_elems ts) as [es|] eqn:He; [|discriminate].
    destruct (forallb elem_okb es && pairwiseb disjointb (map span es)) eqn:Hc; [|discriminate].
    intros H; inversion H; subst. apply andb_true_iff in Hc. destruct Hc as [Hc1 Hc2].
    exists es. split; [|reflexivity].
    split; [apply spec_elems_sound; exact He|]. split; [apply forallb_elem_ok; exact Hc1|apply pairwiseb_iff; exact Hc2].
  - intros (es & (Hr & Hok & Hpw) & ->). rewrite (spec_elems_complete _ _ Hr).
    apply forallb_elem_ok in Hok. apply pairwiseb_iff in Hpw. rewrite Hok, Hpw. reflexivity.
Qed.

(* ------------------------------------------------------------------------------------ *)
(** * 7. C08: acceptance, denotation, errors *)

Lemma Pairwise_ext {A} (R S : A -> A -> Prop) l :
  (forall x y, R x y -> S x y) -> Pairwise R l -> Pairwise S l.
Proof.
  intros HRS H. induction H as [|x l Hf Hp IH]; constructor; [|exact IH].
  eapply Forall_impl; [|exact Hf]. intros y. apply HRS.
Qed.

Lemma pairwise_span_ranges es :
  Pairwise disjoint (map span es) <-> Pairwise rdisjoint (map to_range es).
Proof.
  rewrite !Pairwise_map. split; apply Pairwise_ext; intros x y; unfold rdisjoint;
    rewrite !span_rspan; trivial.
Qed.

Lemma Forall_valid_to_range es : Forall elem_ok es -> Forall valid (map to_range es).
Proof. intros H. rewrite Forall_map. eapply Forall_impl; [|exact H]. intros e. apply elem_ok_valid. Qed.

Lemma denote_range_elems e : elem_ok e -> range_elems (to_range e) = denote e.
Proof.
  intros Hok. pose proof (proj1 (elem_ok_valid e) Hok) as Hv.
  rewrite range_elems_prog. destruct e as [a|a b|a b s]; cbn [to_range denote rstart rend rstep] in *.
  - rewrite range_len_single by lia. change (Z.to_nat 1) with 1%nat. unfold prog. cbn [seq map].
    f_equal. lia.
  - rewrite (valid_len_abs _ Hv). reflexivity.
  - rewrite (valid_len_abs _ Hv). reflexivity.
Qed.

Lemma concat_denote es :
  Forall elem_ok es -> concat (map range_elems (map to_range es)) = concat (map denote es).
Proof.
  intros H. induction H as [|e es He Hes IH]; [reflexivity|].
  cbn [map concat]. rewrite IH, (denote_range_elems _ He). reflexivity.
Qed.

Lemma parse_tokens_inv ts e :
  parse_tokens false false ts = Ok e ->
  exists es, Renders es ts /\ Forall elem_ok es /\ mk_expr false (map to_range es) = Ok e.
Proof.
  unfold parse_tokens. destruct ts as [|t ts']; [discriminate|].
  destruct (parse_ranges false (S (length (t :: ts'))) (t :: ts')) as [rs|x] eqn:H1; cbn [bind]; [|discriminate].
  apply parse_ranges_sound in H1. destruct H1 as (es & Hr & Hok & ->).
  destruct (mk_expr false (map to_range es)) as [e'|x] eqn:H2; [|discriminate].
  intros H; inversion H; subst. exists es. auto.
Qed.

Lemma parse_tokens_intro ts es e :
  Renders es ts -> Forall elem_ok es -> mk_expr false (map to_range es) = Ok e ->
  parse_tokens false false ts = Ok e.
Proof.
  intros Hr Hok He. unfold parse_tokens.
  destruct ts as [|t ts']; [exfalso; apply (proj1 (Renders_nonempty _ _ Hr)); reflexivity|].
  rewrite (parse_ranges_complete _ _ Hr Hok) by lia. cbn [bind]. rewrite He. reflexivity.
Qed.

Theorem accept_iff ts :
  (exists e, parse_tokens false false ts = Ok e) <-> (exists es, Accepts ts es).
Proof.
  unfold Accepts. split.
  - intros (e & He). apply parse_tokens_inv in He. destruct He as (es & Hr & Hok & He).
    exists es. split; [exact Hr|]. split; [exact Hok|].
    apply pairwise_span_ranges. eapply mk_expr_ok; [apply Forall_valid_to_range; exact Hok|exact He].
  - intros (es & Hr & Hok & Hpw).
    destruct (mk_expr_accepts (map to_range es)) as (e & He).
    + destruct es; [exfalso; apply (proj2 (Renders_nonempty _ _ Hr)); reflexivity|discriminate].
    + apply Forall_valid_to_range; exact Hok.
    + apply pairwise_span_ranges; exact Hpw.
    + exists e. eapply parse_tokens_intro; eassumption.
Qed.

Theorem denotation ts e es :
  parse_tokens false false ts = Ok e -> Accepts ts es ->
  Permutation (elems e) (concat (map denote es)) /\ NoDup (elems e).
Proof.
  intros He (Hr & _). apply parse_tokens_inv in He. destruct He as (es' & Hr' & Hok & He).
  rewrite (Renders_functional _ _ _ Hr Hr').
  destruct (mk_expr_ok _ _ (Forall_valid_to_range _ Hok) He) as (Hwf & Hperm & _).
  split; [|apply WFexpr_NoDup; exact Hwf].
  rewrite <- (concat_denote _ Hok). exact Hperm.
Qed.

(* the lexer raises nothing but TokenError *)
Lemma lex_go_raise cls s : forall st e, lex_go cls st s = Raise e -> e = TokenError.
Proof.
  induction s as [|c rest IH]; intros st e; cbn [lex_go]; [discriminate|].
  destruct (cls c); destruct st; cbn [punct flush cons_toks];
    repeat match goal with
           | |- context [cons_toks ?p (lex_go cls ?st' rest)] =>
             let E := fresh "E" in destruct (lex_go cls st' rest) eqn:E; cbn [cons_toks]
           end;
    intros H;
    first [ discriminate H
          | inversion H; subst; first [ reflexivity | eapply IH; eassumption ] ].
Qed.

Lemma lex_for_raise cls kinds s e : lex_for cls kinds s = Raise e -> e = TokenError.
Proof.
  unfold lex_for, lex. destruct (lex_go cls LNone s) as [ts|x] eqn:H; cbn [bind].
  - destruct (forallb (supported kinds) ts); [discriminate|]. intros H'; inversion H'; reflexivity.
  - intros H'; inversion H'; subst. eapply lex_go_raise; exact H.
Qed.

Lemma parse_tokens_raise ts e : parse_tokens false false ts = Raise e -> e = ExpressionError.
Proof.
  unfold parse_tokens. destruct ts as [|t ts']; [intros H; inversion H; reflexivity|].
  destruct (parse_ranges false (S (length (t :: ts'))) (t :: ts')) as [rs|x] eqn:H1; cbn [bind].
  - apply parse_ranges_sound in H1. destruct H1 as (es & Hr & Hok & ->).
    destruct (mk_expr false (map to_range es)) as [e'|x] eqn:H2; [discriminate|].
    apply mk_expr_raise in H2.
    + subst x. intros H; inversion H; reflexivity.
    + destruct es; [exfalso; apply (proj2 (Renders_nonempty _ _ Hr)); reflexivity|discriminate].
    + apply Forall_valid_to_range; exact Hok.
  - intros H; inversion H; subst. eapply parse_ranges_raise; [exact H1|lia].
Qed.

Theorem errors cls s e : from_str false false cls s = Raise e -> is_expression_error e = true.
Proof.
  unfold from_str. destruct (lex_for cls range_kinds s) as [ts|x] eqn:H1; cbn [bind].
  - intros H. apply parse_tokens_raise in H. subst e. reflexivity.
  - intros H; inversion H; subst. apply lex_for_raise in H1. subst e. reflexivity.
Qed.

(* the fuel of parse_ranges is never exhausted, whatever the flags' values in the repaired code *)
Theorem no_runtime_error ts : parse_tokens false false ts <> Raise RuntimeError.
Proof. intros H. apply parse_tokens_raise in H. discriminate. Qed.

(* ------------------------------------------------------------------------------------ *)
(** * 8. C13: len, getitem *)

Lemma IsRange_valid r : IsRange r <-> valid r.
Proof.
  unfold IsRange. split; [|apply mk_range_ok].
  intros H. apply mk_range_iff in H. destruct H as [H Hv]. rewrite <- H in Hv. exact Hv.
Qed.

Lemma IsExpr_WF e : IsExpr e -> WFexpr e.
Proof.
  intros (rs & Hrs & He). eapply mk_expr_ok; [|exact He].
  eapply Forall_impl; [|exact Hrs]. intros r. apply IsRange_valid.
Qed.

Theorem parse_tokens_IsExpr ts e : parse_tokens false false ts = Ok e -> IsExpr e.
Proof.
  intros H. apply parse_tokens_inv in H. destruct H as (es & _ & Hok & He).
  exists (map to_range es). split; [|exact He].
  apply Forall_valid_to_range in Hok. eapply Forall_impl; [|exact Hok]. intros r. apply IsRange_valid.
Qed.

Theorem len_correct e : IsExpr e -> elen e = Z.of_nat (length (elems e)).
Proof.
  intros H. apply IsExpr_WF in H. destruct H as (p & l & Hr & Hv & _ & _ & Hlen).
  unfold elems. rewrite Hr, Hlen. symmetry. apply elems_length. exact Hv.
Qed.

Lemma getitem_aux rest : forall acc i,
  Forall valid rest -> acc <= i < acc + total_len rest ->
  exists r, nth_error rest (bisect_right (cum_lengths acc rest) i) = Some r /\
    0 <= i - nth (bisect_right (cum_lengths acc rest) i) (acc :: cum_lengths acc rest) 0 < range_len r /\
    range_nth r (i - nth (bisect_right (cum_lengths acc rest) i) (acc :: cum_lengths acc rest) 0)
      = nth (Z.to_nat (i - acc)) (concat (map range_elems rest)) 0.
Proof.
  induction rest as [|r rs IH]; intros acc i Hv Hi.
  - cbn [total_len fold_right] in Hi. lia.
  - inversion Hv as [|r0 l0 Hvr Hvrs]; subst.
    cbn [total_len fold_right] in Hi. fold (total_len rs) in Hi.
    pose proof (valid_len_pos _ Hvr) as Hl.
    cbn [cum_lengths bisect_right]. destruct (i <? acc + range_len r) eqn:E.
    + exists r. cbn [nth_error nth]. split; [reflexivity|]. split; [lia|].
      cbn [map concat]. rewrite app_nth1 by (rewrite range_elems_length; lia).
      rewrite range_elems_prog, prog_nth by lia. unfold range_nth. rewrite Z2Nat.id by lia. reflexivity.
    + destruct (IH (acc + range_len r) i Hvrs ltac:(lia)) as (r' & Hn & Hb & Hx).
      exists r'. cbn [nth_error]. split; [exact Hn|].
      change (nth (S (bisect_right (cum_lengths (acc + range_len r) rs) i))
                  (acc :: acc + range_len r :: cum_lengths (acc + range_len r) rs) 0)
        with (nth (bisect_right (cum_lengths (acc + range_len r) rs) i)
                  (acc + range_len r :: cum_lengths (acc + range_len r) rs) 0).
      split; [exact Hb|]. rewrite Hx. cbn [map concat].
      rewrite app_nth2 by (rewrite range_elems_length; lia). rewrite range_elems_length.
      f_equal. lia.
Qed.

Lemma getitem_nonneg e j :
  WFexpr e -> 0 <= j < elen e ->
  match bisect_right (cum e) j with
  | O => match nth_error (ranges e) 0 with
         | Some r => if j <? range_len r then Ok (range_nth r j) else Raise IndexError
         | None => Raise IndexError
         end
  | S k' =>
    match nth_error (ranges e) (bisect_right (cum e) j) with
    | Some r => if j - nth k' (cum e) 0 <? range_len r then Ok (range_nth r (j - nth k' (cum e) 0)) else Raise IndexError
    | None => Raise IndexError
    end
  end = Ok (nth (Z.to_nat j) (elems e) 0).
Proof.
  intros (p & l & Hr & Hv & _ & Hcum & Hlen) Hj.
  destruct (getitem_aux (p :: l) 0 j Hv ltac:(lia)) as (r & Hn & Hb & Hx).
  rewrite <- Hcum, <- Hr in Hn. rewrite <- Hcum in Hb, Hx. rewrite <- Hr in Hx. fold (elems e) in Hx.
  rewrite Z.sub_0_r in Hx.
  destruct (bisect_right (cum e) j) as [|k'] eqn:Ek.
  - rewrite Hn. cbn [nth] in Hb, Hx. rewrite Z.sub_0_r in Hb, Hx.
    destruct (j <? range_len r) eqn:E; [|lia]. rewrite Hx. reflexivity.
  - rewrite Hn. cbn [nth] in Hb, Hx.
    destruct (j - nth k' (cum e) 0 <? range_len r) eqn:E; [|lia]. rewrite Hx. reflexivity.
Qed.

Theorem getitem_correct e i :
  IsExpr e ->
  (- elen e <= i < elen e -> getitem e i = Ok (nth (Z.to_nat (i mod elen e)) (elems e) 0)) /\
  (~ (- elen e <= i < elen e) -> getitem e i = Raise IndexError).
Proof.
  intros He. apply IsExpr_WF in He. split.
  - intros Hi.
    assert (Hi' : (if i <? 0 then elen e + i else i) = i mod elen e).
    { destruct (i <? 0) eqn:E.
      - rewrite <- (Z_mod_plus_full i 1 (elen e)). rewrite Z.mod_small by lia. lia.
      - rewrite Z.mod_small by lia. reflexivity. }
    unfold getitem. cbv zeta. rewrite Hi'.
    assert (Hr : 0 <= i mod elen e < elen e) by (rewrite <- Hi'; destruct (i <? 0) eqn:E; lia).
    destruct ((0 <=? i mod elen e) && (i mod elen e <? elen e)) eqn:Ec; [|lia].
    apply getitem_nonneg; assumption.
  - intros Hi. unfold getitem. cbv zeta.
    destruct (i <? 0) eqn:E.
    + destruct ((0 <=? elen e + i) && (elen e + i <? elen e)) eqn:Ec; [lia|reflexivity].
    + destruct ((0 <=? i) && (i <? elen e)) eqn:Ec; [lia|reflexivity].
Qed.

(* ------------------------------------------------------------------------------------ *)
(** * 9. C13: str(r) parses back to the same values in the same order *)

Definition elem_of (r : irange) : elem :=
  if range_len r =? 1 then One (rstart r)
  else if rstep r =? 1 then Span (rstart r) (rend r)
  else Stepped (rstart r) (rend r) (rstep r).

Lemma int_tokens_IntToks z : IntToks z (int_tokens z).
Proof.
  unfold int_tokens. destruct (z <? 0) eqn:E.
  - pose proof (IT_neg (Z.to_N (- z))) as H. rewrite Z2N.id in H by lia.
    rewrite Z.opp_involutive in H. exact H.
  - pose proof (IT_pos (Z.to_N z)) as H. rewrite Z2N.id in H by lia. exact H.
Qed.

Lemma range_tokens_ElemToks r : ElemToks (elem_of r) (range_tokens r).
Proof.
  unfold elem_of, range_tokens. destruct (range_len r =? 1).
  - constructor. apply int_tokens_IntToks.
  - destruct (rstep r =? 1).
    + apply (ET_span _ _ _ _ (int_tokens_IntToks _) (int_tokens_IntToks _)).
    + apply (ET_step _ _ _ _ _ _ (int_tokens_IntToks _) (int_tokens_IntToks _) (int_tokens_IntToks _)).
Qed.

Lemma elem_of_props r :
  valid r ->
  elem_ok (elem_of r) /\
  range_elems (to_range (elem_of r)) = range_elems r /\
  span_lo r <= span_lo (to_range (elem_of r)) /\ span_hi (to_range (elem_of r)) <= span_hi r.
Proof.
  intros Hv. unfold elem_of. destruct (range_len r =? 1) eqn:E1.
  - cbn [to_range elem_ok]. split; [exact I|]. split.
    + rewrite range_elems_single by lia. rewrite range_elems_prog.
      replace (range_len r) with 1 by lia. change (Z.to_nat 1) with 1%nat. rewrite prog_one. reflexivity.
    + unfold span_lo, span_hi. cbn [rstart rend]. lia.
  - destruct r as [a b s]. cbn [rstart rend rstep] in *. destruct (s =? 1) eqn:E2.
    + assert (s = 1) by lia. subst s. cbn [to_range]. split; [|split; [reflexivity|lia]].
      apply (elem_ok_valid (Span a b)). exact Hv.
    + cbn [to_range]. split; [|split; [reflexivity|lia]].
      apply (elem_ok_valid (Stepped a b s)). exact Hv.
Qed.

Lemma expr_tokens_Renders rs : rs <> [] -> Renders (map elem_of rs) (expr_tokens_of rs).
Proof.
  induction rs as [|r rs IH]; intros Hne; [contradiction|].
  destruct rs as [|r' rs'].
  - cbn [map expr_tokens_of]. constructor. apply range_tokens_ElemToks.
  - change (expr_tokens_of (r :: r' :: rs')) with (range_tokens r ++ TComma :: expr_tokens_of (r' :: rs')).
    cbn [map]. constructor; [apply range_tokens_ElemToks|]. apply IH. discriminate.
Qed.

Lemma chain_sep_shrink (f : irange -> irange) :
  (forall r, valid r -> span_lo r <= span_lo (f r) /\ span_hi (f r) <= span_hi r) ->
  forall l p, Forall valid (p :: l) -> chain sep p l -> chain sep (f p) (map f l).
Proof.
  intros Hf. induction l as [|r rs IH]; intros p Hv Hc; [exact I|].
  destruct Hc as [Hpr Hc]. inversion Hv as [|p0 l0 Hvp Hvl]; subst. inversion Hvl as [|r0 l1 Hvr _]; subst.
  cbn [map chain]. split; [|apply IH; assumption].
  unfold sep in *. pose proof (Hf p Hvp). pose proof (Hf r Hvr). lia.
Qed.

Theorem str_roundtrip e :
  IsExpr e -> exists e', parse_tokens false false (expr_tokens e) = Ok e' /\ elems e' = elems e.
Proof.
  intros He. apply IsExpr_WF in He. destruct He as (p & l & Hr & Hv & Hc & _).
  set (g := fun r => to_range (elem_of r)).
  assert (Hvg : Forall valid (map g (p :: l))).
  { rewrite Forall_map. eapply Forall_impl; [|exact Hv]. intros r Hvr.
    apply (elem_ok_valid (elem_of r)). apply elem_of_props. exact Hvr. }
  assert (Hcg : chain sep (g p) (map g l)).
  { apply chain_sep_shrink; [|exact Hv|exact Hc]. intros r Hvr. split; apply elem_of_props; exact Hvr. }
  destruct (mk_expr_sorted (g p) (map g l) Hvg Hcg) as (e' & He' & Hel & _).
  exists e'. split.
  - unfold expr_tokens. rewrite Hr. eapply parse_tokens_intro.
    + apply expr_tokens_Renders. discriminate.
    + rewrite Forall_map. eapply Forall_impl; [|exact Hv]. intros r Hvr. apply elem_of_props. exact Hvr.
    + rewrite map_map. exact He'.
  - rewrite Hel. unfold elems. rewrite Hr. change (g p :: map g l) with (map g (p :: l)).
    clear - Hv. induction Hv as [|r rs Hvr Hvrs IH]; [reflexivity|].
    cbn [map concat]. rewrite IH. f_equal. apply elem_of_props. exact Hvr.
Qed.

(* ------------------------------------------------------------------------------------ *)
(** * 10. C13: from_list *)

Definition zsorted (l : list Z) : Prop := match l with [] => True | a :: t => chain Z.lt a t end.

Lemma insert_Z_In x l y : In y (insert_Z x l) <-> y = x \/ In y l.
Proof.
  induction l as [|h t IH]; cbn [insert_Z].
  - cbn [In]. intuition.
  - destruct (x <? h) eqn:E1; [cbn [In]; intuition|].
    destruct (x =? h) eqn:E2.
    + assert (x = h) by lia. subst. cbn [In]. intuition.
    + cbn [In]. rewrite IH. intuition.
Qed.

Lemma insert_Z_sorted x l : zsorted l -> zsorted (insert_Z x l).
Proof.
  induction l as [|h t IH]; intros Hs; [exact I|].
  cbn [insert_Z]. destruct (x <? h) eqn:E1.
  - cbn [zsorted chain]. split; [lia|exact Hs].
  - destruct (x =? h) eqn:E2; [exact Hs|].
    cbn [zsorted] in *. destruct t as [|h' t'].
    + cbn. split; [lia|exact I].
    + destruct Hs as [Hhh Hs]. specialize (IH Hs). cbn [insert_Z] in *.
      destruct (x <? h') eqn:E3.
      * cbn [chain]. split; [lia|]. exact IH.
      * destruct (x =? h') eqn:E4.
        -- cbn [chain]. split; [exact Hhh|exact Hs].
        -- cbn [chain]. split; [exact Hhh|exact IH].
Qed.

Theorem sort_dedup_In vs x : In x (sort_dedup vs) <-> In x vs.
Proof.
  induction vs as [|v vs IH]; [reflexivity|].
  cbn [sort_dedup fold_right]. fold (sort_dedup vs). rewrite insert_Z_In, IH. cbn [In]. intuition.
Qed.

Theorem sort_dedup_sorted vs : zsorted (sort_dedup vs).
Proof.
  induction vs as [|v vs IH]; [exact I|]. cbn [sort_dedup fold_right]. apply insert_Z_sorted. exact IH.
Qed.

(* a strictly increasing list is determined by its members *)
Theorem zsorted_unique l : forall l', zsorted l -> zsorted l' -> (forall x, In x l <-> In x l') -> l = l'.
Proof.
  induction l as [|h t IH]; intros l' Hs Hs' Hin.
  - destruct l' as [|h' t']; [reflexivity|]. exfalso. apply (proj2 (Hin h')). left; reflexivity.
  - destruct l' as [|h' t']; [exfalso; apply (proj1 (Hin h)); left; reflexivity|].
    cbn [zsorted] in Hs, Hs'.
    pose proof (chain_Forall Z.lt Z.lt_trans _ _ Hs) as Hf.
    pose proof (chain_Forall Z.lt Z.lt_trans _ _ Hs') as Hf'.
    rewrite Forall_forall in Hf, Hf'.
    assert (Hh : h = h').
    { destruct (proj1 (Hin h) (or_introl eq_refl)) as [E|E]; [congruence|].
      destruct (proj2 (Hin h') (or_introl eq_refl)) as [E'|E']; [congruence|].
      specialize (Hf _ E'). specialize (Hf' _ E). lia. }
    subst h'. f_equal. apply IH.
    + destruct t; [exact I|]. exact (chain_tail _ _ _ _ Hs).
    + destruct t'; [exact I|]. exact (chain_tail _ _ _ _ Hs').
    + intros x. split; intros Hx.
      * destruct (proj1 (Hin x) (or_intror Hx)) as [E|E]; [|exact E]. specialize (Hf _ Hx). lia.
      * destruct (proj2 (Hin x) (or_intror Hx)) as [E|E]; [|exact E]. specialize (Hf' _ Hx). lia.
Qed.

Definition step_or_1 (step : option Z) : Z := match step with Some s => s | None => 1 end.
Definition cur_range (start e : Z) (step : option Z) : irange := mkR start e (step_or_1 step).
Definition run_ok (start e : Z) (step : option Z) : Prop :=
  match step with
  | None => e = start
  | Some s => 0 < s /\ exists k, 1 <= k /\ e = start + k * s
  end.

Lemma run_some_facts start s k :
  0 < s -> 0 <= k ->
  valid (mkR start (start + k * s) s) /\
  range_elems (mkR start (start + k * s) s) = prog start s (Z.to_nat (k + 1)) /\
  start <= start + k * s.
Proof.
  intros Hs Hk. assert (Hle : start <= start + k * s) by nia.
  split; [unfold valid; cbn [rstart rend rstep]; lia|]. split; [|exact Hle].
  rewrite range_elems_prog. cbn [rstart rstep].
  rewrite (range_len_char_pos start (start + k * s) s (k + 1)); [reflexivity|lia|lia|lia].
Qed.

Lemma run_ok_facts start e step :
  run_ok start e step -> valid (cur_range start e step) /\ start <= e /\ 0 < step_or_1 step.
Proof.
  destruct step as [s|]; cbn [run_ok cur_range step_or_1].
  - intros (Hs & k & Hk & ->). destruct (run_some_facts start s k Hs ltac:(lia)) as (Hv & _ & Hle). auto.
  - intros ->. split; [apply valid_single|lia].
Qed.

Lemma from_list_loop_ok vs : forall start e step acc,
  run_ok start e step -> chain Z.lt e vs ->
  exists r0 rl,
    from_list_loop false start (Some e) step acc vs = Ok (rev acc ++ r0 :: rl) /\
    Forall valid (r0 :: rl) /\ chain sep r0 rl /\ span_lo r0 = start /\
    concat (map range_elems (r0 :: rl)) = range_elems (cur_range start e step) ++ vs.
Proof.
  induction vs as [|v vs' IH]; intros start e step acc Hrun Hch.
  - destruct (run_ok_facts _ _ _ Hrun) as (Hv & Hle & Hs).
    exists (cur_range start e step), []. cbn [from_list_loop].
    assert (Hst : match step with Some s => if s =? 0 then 1 else s | None => 1 end = step_or_1 step).
    { destruct step as [s|]; cbn [step_or_1] in *; [|reflexivity]. destruct (s =? 0) eqn:E; [lia|reflexivity]. }
    rewrite Hst. pose proof (mk_range_ok _ Hv) as Hm. cbn [cur_range rstart rend rstep] in Hm. rewrite Hm.
    cbn [bind rev]. split; [reflexivity|]. split; [constructor; [exact Hv|constructor]|].
    split; [exact I|]. split; [unfold span_lo; cbn [cur_range rstart rend]; lia|].
    cbn [map concat]. reflexivity.
  - destruct Hch as [Hev Hch]. destruct (run_ok_facts _ _ _ Hrun) as (Hv & Hle & Hs).
    cbn [from_list_loop]. destruct step as [s|].
    + cbn [run_ok] in Hrun. destruct Hrun as (Hs' & k & Hk & He).
      destruct (v - e =? s) eqn:Ev.
      * (* the run continues *)
        assert (Hrun' : run_ok start v (Some s)).
        { cbn [run_ok]. split; [exact Hs'|]. exists (k + 1). split; [lia|]. nia. }
        destruct (IH start v (Some s) acc Hrun' Hch) as (r0 & rl & H1 & H2 & H3 & H4 & H5).
        exists r0, rl. split; [exact H1|]. split; [exact H2|]. split; [exact H3|]. split; [exact H4|].
        rewrite H5. unfold cur_range, step_or_1.
        assert (Hv' : v = start + (k + 1) * s) by nia.
        rewrite Hv', He.
        destruct (run_some_facts start s k Hs' ltac:(lia)) as (_ & E1 & _).
        destruct (run_some_facts start s (k + 1) Hs' ltac:(lia)) as (_ & E2 & _).
        rewrite E1, E2. replace (Z.to_nat (k + 1 + 1)) with (Z.to_nat (k + 1) + 1)%nat by lia.
        rewrite prog_app, <- app_assoc. f_equal. rewrite prog_one. cbn [app]. f_equal. lia.
      * (* the run ends: IntRange(start, end, step) is appended *)
        pose proof (mk_range_ok _ Hv) as Hm. cbn [cur_range rstart rend rstep step_or_1] in Hm. rewrite Hm.
        cbn [bind].
        destruct (IH v v None (cur_range start e (Some s) :: acc) eq_refl Hch) as (r0 & rl & H1 & H2 & H3 & H4 & H5).
        exists (cur_range start e (Some s)), (r0 :: rl). unfold cur_range, step_or_1 in *.
        split; [rewrite H1; cbn [rev]; rewrite <- app_assoc; reflexivity|].
        split; [constructor; assumption|]. split.
        { cbn [chain]. split; [|exact H3]. unfold sep. rewrite H4. unfold span_hi. cbn [rstart rend]. lia. }
        split; [unfold span_lo; cbn [rstart rend]; lia|].
        change (concat (map range_elems (mkR start e s :: r0 :: rl)))
          with (range_elems (mkR start e s) ++ concat (map range_elems (r0 :: rl))).
        rewrite H5. rewrite (range_elems_single v 1) by lia. reflexivity.
    + (* second value of a run: the step is fixed *)
      cbn [run_ok] in Hrun. subst e.
      assert (Hrun' : run_ok start v (Some (v - start))).
      { cbn [run_ok]. split; [lia|]. exists 1. split; lia. }
      destruct (IH start v (Some (v - start)) acc Hrun' Hch) as (r0 & rl & H1 & H2 & H3 & H4 & H5).
      exists r0, rl. split; [exact H1|]. split; [exact H2|]. split; [exact H3|]. split; [exact H4|].
      rewrite H5. unfold cur_range, step_or_1.
      destruct (run_some_facts start (v - start) 1 ltac:(lia) ltac:(lia)) as (_ & E1 & _).
      replace (start + 1 * (v - start)) with v in E1 by lia. rewrite E1.
      rewrite (range_elems_single start 1) by lia.
      change (Z.to_nat (1 + 1)) with 2%nat. rewrite prog_two. cbn [app]. f_equal. f_equal. lia.
Qed.

Theorem from_list_correct vs :
  vs <> [] -> exists e, from_list false false vs = Ok e /\ elems e = sort_dedup vs /\ IsExpr e.
Proof.
  intros Hne. destruct vs as [|v1 [|v2 tl]]; [contradiction| |].
  - cbn [from_list]. rewrite (proj2 (mk_range_iff v1 v1 1 _) (conj eq_refl (valid_single v1))). cbn [bind].
    destruct (mk_expr_sorted (mkR v1 v1 1) [] ltac:(constructor; [apply valid_single|constructor]) I)
      as (e & He & Hel & _).
    exists e. split; [exact He|]. split.
    + rewrite Hel. cbn [map concat]. rewrite app_nil_r, range_elems_single by lia. reflexivity.
    + exists [mkR v1 v1 1]. split; [|exact He]. constructor; [|constructor].
      apply IsRange_valid, valid_single.
  - unfold from_list.
    pose proof (sort_dedup_sorted (v1 :: v2 :: tl)) as Hso.
    pose proof (sort_dedup_In (v1 :: v2 :: tl) v1) as Hin.
    destruct (sort_dedup (v1 :: v2 :: tl)) as [|s0 rest] eqn:Esd.
    { exfalso. apply (proj2 Hin). left; reflexivity. }
    cbn [zsorted] in Hso.
    destruct (from_list_loop_ok rest s0 s0 None [] eq_refl Hso) as (r0 & rl & H1 & H2 & H3 & _ & H5).
    rewrite H1. cbn [rev app bind].
    destruct (mk_expr_sorted r0 rl H2 H3) as (e & He & Hel & _).
    exists e. split; [exact He|]. split.
    + rewrite Hel, H5. unfold cur_range, step_or_1. rewrite range_elems_single by lia. reflexivity.
    + exists (r0 :: rl). split; [|exact He].
      eapply Forall_impl; [|exact H2]. intros r. apply IsRange_valid.
Qed.

Lemma zsorted_strictly_increasing l : zsorted l <-> strictly_increasing l.
Proof.
  induction l as [|a t IH]; [cbn; tauto|].
  destruct t as [|b t']; [cbn; tauto|].
  change (strictly_increasing (a :: b :: t')) with (a < b /\ strictly_increasing (b :: t')).
  cbn [zsorted chain] in *. rewrite <- IH. tauto.
Qed.

(* sort_dedup vs is THE strictly increasing list with the members of vs *)
Theorem sort_dedup_spec vs :
  strictly_increasing (sort_dedup vs) /\
  (forall x, In x (sort_dedup vs) <-> In x vs) /\
  (forall l, strictly_increasing l -> (forall x, In x l <-> In x vs) -> l = sort_dedup vs).
Proof.
  split; [apply zsorted_strictly_increasing, sort_dedup_sorted|].
  split; [apply sort_dedup_In|].
  intros l Hl Hin. apply zsorted_unique.
  - apply zsorted_strictly_increasing; exact Hl.
  - apply sort_dedup_sorted.
  - intros x. rewrite Hin, sort_dedup_In. tauto.
Qed.
